import Qryn.Ingest.SpanCfg
import Qryn.Proofs.SpanRun
import Qryn.Proofs.SpanZipkin
import Qryn.Proofs.SpanOtlp
import Qryn.Proofs.SpanFlatten
import Qryn.Proofs.SpanJson
import Qryn.Gen.SpanText
/-! # C06 — a stored span reads back as the span that was pushed

Theorems about the span model `Qryn.Span` (writer: Zipkin and OTLP decoders over what jx / protobuf hand them, `onSpan`;
reader: `OutputQuery`, `parseZipkinJSON` over what fastjson hands it, `parseOTLP` with its first-byte dispatch,
`parseOTLPJson`, `SpanToJSONSpan`; the trace-by-id statement over a table of stored rows) instantiated with the constants
read from /repo on this run (`Span.cfg`, from `Gen.ServiceNames` and `Gen.SpanConsts`). The codecs themselves are
third-party: a Zipkin text is the pair of trees the two JSON libraries parse it to (`ZText`; typed view `ZSpan`), an
OTLP payload is the decoded span (`proto.Unmarshal (proto.Marshal span) = span`) with its first byte. -/
namespace Qryn.C06
open Qryn Qryn.Span

/-! ## what the source text must say (regenerated facts) -/

/-- A11: the OTLP writer (`otlpGetServiceNames`) and the trace reader (`parseOTLP`) resolve the service name
    from the same attribute list, both leave their loop at the first hit, fall back to the same non-empty
    default; `service.name` is one of the names and `remoteService.name` is not. -/
theorem service_name_sources_agree :
    cfg.writerNames = cfg.readerNames ∧ cfg.writerFirst = true ∧ cfg.readerFirst = true ∧
    cfg.writerDefault = cfg.readerDefault ∧ cfg.writerDefault ≠ [] ∧
    kServiceName ∈ cfg.writerNames ∧ kRemoteServiceName ∉ cfg.writerNames := by decide

/-- the payload-type tag each parser writes is the one under which `OutputQuery` dispatches to the matching
    decoder; both Zipkin framings write the same tag; the two tags differ -/
theorem payload_types_agree :
    cfg.readOtlpType = cfg.otlpType ∧ cfg.readZipkinType = cfg.zipkinType ∧ cfg.zipkinNDType = cfg.zipkinType ∧
    cfg.zipkinType ≠ cfg.otlpType := by decide

/-- ids are decoded from 32 / 16 / 16 hex digits, i.e. 16 / 8 / 8 bytes; rows have a positive size -/
theorem id_widths : cfg.traceHex = 32 ∧ cfg.spanHex = 16 ∧ cfg.parentHex = 16 ∧ 0 < cfg.spanRowSize ∧ 0 < cfg.tagRowSize := by
  decide

/-- **what the source text says at the text level** (regenerated on every run): the member names `decodeSpan`
    switches on and `parseEndpoint` handles are those of `absField` / `absEndpoint`; `decodeSpan` refuses a text with
    anything after the object; the newline-delimited framing splits at line ends with an unbounded buffer; the
    fastjson look-ups of `parseZipkinJSON` and its two loops are those of the model; `parseOTLP` hands a payload
    beginning with `{` (123) to `parseOTLPJson`; the JSON `otlpGetServiceNames` has the model's two name lists, no
    `break`, the same default; `SpanToJSONSpan` hides the all-zero parent and goes through the nil-safe getters. -/
theorem text_level_sources_agree :
    Gen.SpanText.writerKeys = writerKeyNames ∧ Gen.SpanText.writerTailCheck = true ∧
    Gen.SpanText.endpointKeys = ["serviceName"] ∧
    Gen.SpanText.ndSplit = "bufio.ScanLines" ∧ Gen.SpanText.ndBufferMax = "math.MaxInt" ∧
    Gen.SpanText.readerGets = readerGetNames ∧
    Gen.SpanText.readerEndpoints = ["localEndpoint", "remoteEndpoint"] ∧
    Gen.SpanText.readerEndpointAttrs = ["serviceName", "ipv4", "ipv6"] ∧
    Gen.SpanText.otlpJsonLead = 123 ∧ Gen.SpanText.otlpJsonCall = "parseOTLPJson" ∧
    Gen.SpanText.jsonLocalNames = ["peer.service", "service.name", "faas.name", "k8s.deployment.name", "process.executable.name"] ∧
    Gen.SpanText.jsonRemoteNames = ["service.name", "faas.name", "k8s.deployment.name", "process.executable.name"] ∧
    Gen.SpanText.jsonBreak = false ∧ Gen.SpanText.jsonDefault = "OTLPResourceNoServiceName" ∧
    Gen.SpanText.zeroParent = "0000000000000000" ∧ Gen.SpanText.viewNilSafe = true := by decide

/-! ## OTLP writer -/

/-- the OTLP requests that are stored: every span has a 16-byte trace id and an 8-byte span id (any other request
    is refused as a whole — A6, property C05), and no service-name attribute the writer reads lacks its value
    (`otlpFault`: a nil-pointer panic in the parser goroutine, tamed into an error response) -/
def OtlpAccepted (td : TracesData) : Prop :=
  ∀ r ∈ otlpSpans td, r.2.traceId.length = 16 ∧ r.2.spanId.length = 8 ∧ otlpFault cfg (r.2.attrs ++ r.1) = false

/-- the `onSpan` arguments of every span of a request, in the order of the three nested loops -/
def otlpAllArgs (plen : OSpan → Nat) (td : TracesData) : List Args :=
  (otlpSpans td).map (fun r => otlpArgs cfg plen r.1 r.2)

/-- no span of the list faults in the service-name look-up -/
def noFault (rs : List (List KV × OSpan)) : Bool := rs.all (fun r => !otlpFault cfg (r.2.attrs ++ r.1))

private theorem otlp_decodeAll (plen : OSpan → Nat) : ∀ (rs : List (List KV × OSpan)),
    decodeAll (otlpDec cfg plen) () rs
      = if noFault rs then some (rs.map (fun r => otlpArgs cfg plen r.1 r.2)) else none := by
  intro rs
  induction rs with
  | nil => rfl
  | cons r rs ih =>
    have hc : noFault (r :: rs) = (!otlpFault cfg (r.2.attrs ++ r.1) && noFault rs) := by simp [noFault]
    rw [hc]
    unfold decodeAll
    by_cases hf : otlpFault cfg (r.2.attrs ++ r.1) = true
    · simp [otlpDec, hf]
    · have hf' : otlpFault cfg (r.2.attrs ++ r.1) = false := by simpa using hf
      simp only [otlpDec, hf', Bool.false_eq_true, if_false, Bool.not_false, Bool.true_and]
      rw [ih]
      cases noFault rs <;> simp

private theorem otlpArgs_accepted (plen : OSpan → Nat) (ra : List KV) (s : OSpan) :
    (otlpArgs cfg plen ra s).accepted = true ↔ s.traceId.length = 16 ∧ s.spanId.length = 8 := by
  simp [otlpArgs, Args.accepted]

/-- an OTLP request is stored iff all its spans have ids of the right length and none faults -/
theorem otlp_accepted_iff (plen : OSpan → Nat) (td : TracesData) :
    (writeOTLP cfg plen td).ok = true ↔ OtlpAccepted td := by
  constructor
  · intro h
    obtain ⟨as, h1, h2, _, _⟩ := runSpans_ok cfg cfg.otlpType _ (otlpSpans td) () {} h
    rw [otlp_decodeAll] at h1
    by_cases hnf : noFault (otlpSpans td) = true
    · simp only [hnf, if_true, Option.some.injEq] at h1; subst h1
      intro r hr
      have := (otlpArgs_accepted plen r.1 r.2).mp (h2 _ (List.mem_map.mpr ⟨r, hr, rfl⟩))
      have hf := List.all_eq_true.mp hnf r hr
      exact ⟨this.1, this.2, by simpa using hf⟩
    · simp [hnf] at h1
  · intro h
    have hnf : noFault (otlpSpans td) = true := by
      apply List.all_eq_true.mpr
      intro r hr
      simp [(h r hr).2.2]
    apply runSpans_ok_of cfg cfg.otlpType _ (otlpSpans td) () {} ((otlpSpans td).map (fun r => otlpArgs cfg plen r.1 r.2))
      (by rw [otlp_decodeAll]; simp [hnf])
    intro a ha
    obtain ⟨r, hr, rfl⟩ := List.mem_map.mp ha
    exact (otlpArgs_accepted plen r.1 r.2).mpr ⟨(h r hr).1, (h r hr).2.1⟩

/-- **one_row_per_span (OTLP).** For every stored OTLP request — any number of resource/scope groups, any
    attributes, and wherever the 1 MiB flushes fall — the trace rows sent are exactly one row per span, in
    document order, and the tag rows are exactly the tag rows of those spans, in the same order. -/
theorem one_row_per_span_otlp (plen : OSpan → Nat) (td : TracesData) (h : (writeOTLP cfg plen td).ok = true) :
    (writeOTLP cfg plen td).traces = (otlpAllArgs plen td).map (traceRowOf cfg.otlpType) ∧
    (writeOTLP cfg plen td).tags = (otlpAllArgs plen td).flatMap tagRowsOf ∧
    (writeOTLP cfg plen td).traces.length = (otlpSpans td).length := by
  obtain ⟨as, h1, _, h3, h4⟩ := runSpans_ok cfg cfg.otlpType _ (otlpSpans td) () {} h
  rw [otlp_decodeAll] at h1
  have hnf : noFault (otlpSpans td) = true := by
    by_cases hnf : noFault (otlpSpans td) = true
    · exact hnf
    · simp [hnf] at h1
  simp only [hnf, if_true, Option.some.injEq] at h1; subst h1
  have e1 : (writeOTLP cfg plen td).traces = (otlpAllArgs plen td).map (traceRowOf cfg.otlpType) := by
    rw [Outcome.traces_eq]; unfold writeOTLP; rw [h3]; simp [Builder.chunks, chunksTraces, otlpAllArgs]
  refine ⟨e1, ?_, ?_⟩
  · rw [Outcome.tags_eq]; unfold writeOTLP; rw [h4]; simp [Builder.chunks, chunksTags, otlpAllArgs]
  · rw [e1]; simp [otlpAllArgs]

/-- the attributes stored with an OTLP span: its own, then its resource's, with `service.name` holding the
    resolved service name and `remoteService.name` added when absent -/
def storedAttrs (ra : List KV) (s : OSpan) : List KV := (populate cfg (s.attrs ++ ra)).2

/-- the service name the writer resolves for a span -/
def otlpService (ra : List KV) (s : OSpan) : Str := (populate cfg (s.attrs ++ ra)).1

/-- **ids_times_names (OTLP), trace row.** The row of a span carries the span's trace id, span id, parent,
    name, start (as int64), duration (`end − start` in uint64, as int64), the resolved service name, the OTLP
    payload-type tag and, as payload, the span itself with the stored attributes. -/
theorem ids_times_names_otlp (plen : OSpan → Nat) (ra : List KV) (s : OSpan) :
    let row := traceRowOf cfg.otlpType (otlpArgs cfg plen ra s)
    row.traceId = s.traceId ∧ row.spanId = s.spanId ∧ row.parentId = s.parentSpanId ∧ row.name = s.name ∧
    row.ts = wrap64 s.startNs ∧
    row.dur = wrap64 ((s.endNs + 18446744073709551616 - s.startNs) % 18446744073709551616) ∧
    row.svc = otlpService ra s ∧ row.ptype = cfg.otlpType ∧
    row.payload = .otlp pbLead { s with attrs := storedAttrs ra s } := by
  simp [traceRowOf, otlpArgs, otlpService, storedAttrs]

/-- the value of the tag row under key `k` of a span's tag rows (if any) -/
def tagValue (rows : List TagRow) (k : Str) : Option Str := (rows.find? (fun t => t.key == k)).map (·.val)

private theorem tagValue_tagRowsOf (a : Args) (k : Str) : tagValue (tagRowsOf a) k = assocGet a.kv k := by
  unfold tagValue tagRowsOf assocGet
  rw [List.find?_map]
  cases h : a.kv.find? (fun e => e.1 == k) with
  | none =>
    have : List.find? ((fun (t : TagRow) => t.key == k) ∘ fun e => ⟨a.traceId, a.spanId, a.ts, a.dur, dateSecOf a.ts, e.1, e.2⟩) a.kv = none := h
    simp [this]
  | some e =>
    have : List.find? ((fun (t : TagRow) => t.key == k) ∘ fun e => ⟨a.traceId, a.spanId, a.ts, a.dur, dateSecOf a.ts, e.1, e.2⟩) a.kv = some e := h
    simp [this]

/-- **ids_times_names (OTLP), tag rows.** The tag rows of a span all carry the span's trace id, span id, start
    and duration and the start second; there is exactly one row per key; the keys are the flattened
    attribute paths of the stored attributes plus `name` and `service.name`; under `service.name` the resolved
    service name, under `name` the span name, under every other key the last value the flattening writes. -/
theorem tag_rows_otlp (plen : OSpan → Nat) (ra : List KV) (s : OSpan) :
    let a := otlpArgs cfg plen ra s
    let rows := tagRowsOf a
    (∀ t ∈ rows, t.traceId = s.traceId ∧ t.spanId = s.spanId ∧ t.ts = a.ts ∧ t.dur = a.dur ∧ t.dateSec = dateSecOf a.ts) ∧
    (rows.map (·.key)).Nodup ∧
    (∀ k, tagValue rows k =
      if k = kServiceName then some (otlpService ra s)
      else if k = kName then some s.name
      else lastWrite (flattenKvs [] (storedAttrs ra s)) k) := by
  intro a rows
  refine ⟨?_, ?_, ?_⟩
  · intro t ht
    obtain ⟨e, _, rfl⟩ := List.mem_map.mp ht
    exact ⟨rfl, rfl, rfl, rfl, rfl⟩
  · have : rows.map (·.key) = a.kv.map (·.1) := by simp [rows, tagRowsOf]
    rw [this]
    exact assocSet_keys_nodup _ _ _ (assocSet_keys_nodup _ _ _ (assocOfWrites_keys_nodup _))
  · intro k
    rw [tagValue_tagRowsOf]
    show assocGet (mapSet (mapSet (mapOfWrites (flattenKvs [] (storedAttrs ra s))) kName s.name) kServiceName (otlpService ra s)) k = _
    rw [assocGet_set, assocGet_set, assocOfWrites_get]

/-! ## service name: writer and reader -/

private theorem stored_lookup (ra : List KV) (s : OSpan) :
    ∀ n, n ≠ kRemoteServiceName → lookupLast (storedAttrs ra s) n =
      if n = kServiceName then some (.str (otlpService ra s)) else lookupLast (s.attrs ++ ra) n := by
  intro n hn
  unfold storedAttrs otlpService populate
  simp only
  split
  · exact lookupLast_setLast _ _ _ _
  · rw [lookupLast_append_singleton]
    simp only [hn, if_false]
    exact lookupLast_setLast _ _ _ _

/-- **service_name_agrees (OTLP).** For every span and resource — whatever attributes they carry: none of the
    names, several of them, empty or non-string values, duplicated keys — the service name the reader resolves
    from the stored payload is the service name the writer put in the `service_name` column and in the
    `service.name` tag. -/
theorem service_name_agrees_otlp (ra : List KV) (s : OSpan) :
    resolveService cfg.readerNames cfg.readerFirst cfg.readerDefault (firstLevel (storedAttrs ra s)) = otlpService ra s := by
  obtain ⟨h1, h2, h3, h4, h5, h6, h7⟩ := service_name_sources_agree
  have hsvc : otlpService ra s = resolveService cfg.readerNames true cfg.readerDefault (s.attrs ++ ra) := by
    unfold otlpService populate; simp only; rw [h1, h2, h4]
  rw [h3, hsvc]
  apply resolve_stored cfg.readerNames cfg.readerDefault (s.attrs ++ ra) (storedAttrs ra s) (h4 ▸ h5) (h1 ▸ h6)
  intro n hn
  have hne : n ≠ kRemoteServiceName := by
    intro h; apply h7; rw [h1]; exact h ▸ hn
  rw [stored_lookup ra s n hne, hsvc]

/-- **the normal form of OTLP attributes.** What the round trip keeps of the attributes of a pushed span `s` with
    resource attributes `ra`, as a finite map key ↦ value tree:
    * every key answers with the LAST attribute of `s.attrs ++ ra` stored under it (so a resource attribute overrides
      a span attribute of the same name, and earlier duplicates are lost) — the whole `AnyValue` tree: kind (int stays
      int, bool stays bool, double keeps its bits), nesting, order and duplicates inside lists and kv-lists;
    * `service.name` answers with the resolved service name (a string), whatever was pushed under it;
    * `remoteService.name` answers with what was pushed under it, or else with the resolved remote name.
    Lost: the order of the top-level attributes (a Go map on both sides), which of span/resource an attribute came
    from, and top-level duplicates. -/
def otlpNF (ra : List KV) (s : OSpan) (k : Str) : Option AnyValue :=
  if k = kServiceName then some (.str (otlpService ra s))
  else if k = kRemoteServiceName then
    some ((lookupLast (s.attrs ++ ra) kRemoteServiceName).getD (.str (resolveRemote (s.attrs ++ ra))))
  else lookupLast (s.attrs ++ ra) k

private theorem any_key_iff (attrs : List KV) (k : Str) :
    attrs.any (fun kv => kv.1 == k) = true ↔ (lookupLast attrs k).isSome = true := by
  rw [lookupLast_eq_lastWrite, lastWrite_isSome_iff]
  simp only [List.any_eq_true, List.mem_map]
  constructor
  · rintro ⟨kv, hm, hk⟩; exact ⟨kv, hm, by simpa using hk⟩
  · rintro ⟨kv, hm, hk⟩; exact ⟨kv, hm, by simp [hk]⟩

private theorem stored_lookup_remote (ra : List KV) (s : OSpan) :
    lookupLast (storedAttrs ra s) kRemoteServiceName =
      some ((lookupLast (s.attrs ++ ra) kRemoteServiceName).getD (.str (resolveRemote (s.attrs ++ ra)))) := by
  have hne : ¬ (kRemoteServiceName = kServiceName) := by decide
  have hl : ∀ v, lookupLast (setLast (s.attrs ++ ra) kServiceName v) kRemoteServiceName =
      lookupLast (s.attrs ++ ra) kRemoteServiceName := by
    intro v; rw [lookupLast_setLast]; simp [hne]
  unfold storedAttrs populate
  simp only
  split
  · rename_i hany
    have hs := (any_key_iff _ _).mp hany
    rw [hl] at hs ⊢
    obtain ⟨v, hv⟩ := Option.isSome_iff_exists.mp hs
    rw [hv]; rfl
  · rename_i hany
    have hs : ¬ ((lookupLast (setLast (s.attrs ++ ra) kServiceName _) kRemoteServiceName).isSome = true) :=
      fun h => hany ((any_key_iff _ _).mpr h)
    rw [hl] at hs
    rw [lookupLast_append_singleton]
    simp only [if_true]
    cases hv : lookupLast (s.attrs ++ ra) kRemoteServiceName with
    | none => rfl
    | some v => rw [hv] at hs; simp at hs

/-! ## OTLP read-back -/

/-- **readback (OTLP).** Take any span with a 16/8-byte id pair and any resource attributes; store it
    (`otlpArgs` → trace row) and decode the row with the read path (`OutputQuery` → `parseOTLP`). The result is a
    span — not an error, not a crash — with the pushed trace id, span id, parent, name, kind, start and end;
    its service name is the one in the row's `service_name` column; it has one attribute per key, and every key
    answers exactly as the normal form `otlpNF` says (the last attribute the pushed span and its resource hold
    under that key, whole value tree; `service.name` the service name; `remoteService.name` the pushed one or the
    resolved remote name). -/
theorem readback_otlp (fbits : Bytes → Nat) (plen : OSpan → Nat) (ra : List KV) (s : OSpan) :
    ∃ rs, readRow cfg fbits (traceRowOf cfg.otlpType (otlpArgs cfg plen ra s)) = .span rs ∧
      rs.traceId = s.traceId ∧ rs.spanId = s.spanId ∧ rs.parentSpanId = s.parentSpanId ∧ rs.name = s.name ∧
      rs.kind = s.kind ∧ rs.startNs = s.startNs ∧ rs.endNs = s.endNs ∧
      rs.events = s.events ∧ rs.status = s.status.getD (0, []) ∧
      rs.serviceName = (traceRowOf cfg.otlpType (otlpArgs cfg plen ra s)).svc ∧
      (rs.attrs.map (·.1)).Nodup ∧
      assocGet rs.attrs kServiceName = some (.str rs.serviceName) ∧
      (∀ k, assocGet rs.attrs k = otlpNF ra s k) := by
  obtain ⟨hp1, hp2, hp3, hp4⟩ := payload_types_agree
  have hz : ¬ (cfg.otlpType = cfg.readZipkinType) := by rw [hp2]; exact fun h => hp4 h.symm
  have hsvc := service_name_agrees_otlp ra s
  refine ⟨⟨s.traceId, s.spanId, s.parentSpanId, s.name, s.kind, s.startNs, s.endNs,
    assocSet (firstLevel (storedAttrs ra s)) kServiceName
      (.str (resolveService cfg.readerNames cfg.readerFirst cfg.readerDefault (firstLevel (storedAttrs ra s)))),
    s.status.getD (0, []),
    resolveService cfg.readerNames cfg.readerFirst cfg.readerDefault (firstLevel (storedAttrs ra s)), s.events⟩,
    ?_, rfl, rfl, rfl, rfl, rfl, rfl, rfl, rfl, rfl, ?_, ?_, ?_, ?_⟩
  · have hlead : ¬ (pbLead = 123) := by decide
    simp only [readRow, traceRowOf, hz, if_false, hp1, if_true, parseOTLP, otlpArgs, hlead]
    rfl
  · show resolveService cfg.readerNames cfg.readerFirst cfg.readerDefault (firstLevel (storedAttrs ra s)) = otlpService ra s
    exact hsvc
  · exact assocSet_keys_nodup _ _ _ (assocOfWrites_keys_nodup _)
  · show assocGet (assocSet (firstLevel (storedAttrs ra s)) kServiceName _) kServiceName = _
    rw [assocGet_set]; simp
  · intro k
    show assocGet (assocSet (firstLevel (storedAttrs ra s)) kServiceName _) k = _
    rw [assocGet_set]
    unfold otlpNF
    by_cases hk1 : k = kServiceName
    · simp only [hk1, if_true]; rw [hsvc]
    · simp only [hk1, if_false]
      rw [show assocGet (firstLevel (storedAttrs ra s)) k = lastWrite (storedAttrs ra s) k from assocOfWrites_get _ _]
      rw [← lookupLast_eq_lastWrite]
      by_cases hk2 : k = kRemoteServiceName
      · simp only [hk2, if_true]; exact stored_lookup_remote ra s
      · simp only [hk2, if_false]
        rw [stored_lookup ra s k hk2]
        simp [hk1]

/-- reading a list of rows each of which decodes to a span yields all of them and ends normally -/
private theorem readRows_all (fbits : Bytes → Nat) (rows : List TraceRow) (h : ∀ r ∈ rows, ∃ s, readRow cfg fbits r = .span s) :
    (readRows cfg fbits rows).2 = .done ∧ (readRows cfg fbits rows).1.length = rows.length ∧ ∀ x ∈ (readRows cfg fbits rows).1, x.isSome := by
  induction rows with
  | nil => simp [readRows]
  | cons r rs ih =>
    obtain ⟨s, hs⟩ := h r (by simp)
    have ih' := ih (fun x hx => h x (by simp [hx]))
    simp only [readRows, hs]
    refine ⟨ih'.1, by simp [ih'.2.1], ?_⟩
    intro x hx
    rcases List.mem_cons.mp hx with rfl | hx
    · rfl
    · exact ih'.2.2 x hx

/-- **readback (OTLP), whole request.** Reading back the rows of a stored OTLP request returns one span per
    row and the stream ends normally (no decode error cuts the trace short, no crash). -/
theorem readback_otlp_request (fbits : Bytes → Nat) (plen : OSpan → Nat) (td : TracesData) (h : (writeOTLP cfg plen td).ok = true) :
    (readRows cfg fbits (writeOTLP cfg plen td).traces).2 = .done ∧
    (readRows cfg fbits (writeOTLP cfg plen td).traces).1.length = (otlpSpans td).length ∧
    ∀ x ∈ (readRows cfg fbits (writeOTLP cfg plen td).traces).1, x.isSome := by
  obtain ⟨h1, _, h3⟩ := one_row_per_span_otlp plen td h
  have := readRows_all fbits (writeOTLP cfg plen td).traces (by
    intro r hr
    rw [h1] at hr
    obtain ⟨a, ha, rfl⟩ := List.mem_map.mp hr
    obtain ⟨x, _, rfl⟩ := List.mem_map.mp ha
    obtain ⟨rs, hrs, _⟩ := readback_otlp fbits plen x.1 x.2
    exact ⟨rs, hrs⟩)
  exact ⟨this.1, by rw [this.2.1, h3], this.2.2⟩

/-- A12: an OTLP row with an empty payload is a decode error that ends the stream; it is not a crash -/
theorem empty_otlp_payload_is_error (fbits : Bytes → Nat) (row : TraceRow) (h1 : row.ptype = cfg.readOtlpType) (h2 : row.payload = .empty)
    (rest : List TraceRow) : readRows cfg fbits (row :: rest) = ([], .stopped) := by
  have hz : ¬ (cfg.readOtlpType = cfg.readZipkinType) := by
    obtain ⟨hp1, hp2, _, hp4⟩ := payload_types_agree
    rw [hp1, hp2]; exact fun h => hp4 h.symm
  simp [readRows, readRow, hz, h1, parseOTLP, h2]

/-! ## Zipkin writer (typed documents: the members of the span object after `absField`) -/

/-- every member of every span is one the writer accepts, and nothing but white space follows any span object -/
def zipkinAllOk (spans : List ZSpan) : Bool := spans.all (fun s => s.ok cfg)

private theorem zipkin_decodeAll : ∀ (spans : List ZSpan) (d : ZDec), (∀ s ∈ spans, s.UniqueKeys) →
    decodeAll (decodeSpan cfg) d spans = if zipkinAllOk spans then some (spans.map (specArgs cfg)) else none := by
  intro spans
  induction spans with
  | nil => intro d _; rfl
  | cons r rs ih =>
    intro d hu
    have hspec := decodeSpan_spec cfg d r (hu r (by simp))
    have ih' := fun d' => ih d' (fun s hs => hu s (by simp [hs]))
    have hcons : zipkinAllOk (r :: rs) = (r.ok cfg && zipkinAllOk rs) := by
      simp [zipkinAllOk]
    unfold decodeAll
    cases hd : decodeSpan cfg d r with
    | error e =>
      rw [hd] at hspec
      by_cases hall : r.ok cfg = true
      · rw [hall] at hspec; cases hspec
      · have hall' : r.ok cfg = false := Bool.eq_false_iff.mpr hall
        rw [hcons, hall']; rfl
    | ok p =>
      obtain ⟨d', a⟩ := p
      rw [hd] at hspec
      by_cases hall : r.ok cfg = true
      · rw [hall] at hspec
        simp only [Except.map, if_true, Except.ok.injEq] at hspec
        subst hspec
        simp only [ih' d']
        rw [hcons, hall, Bool.true_and]
        cases zipkinAllOk rs <;> simp
      · have hall' : r.ok cfg = false := Bool.eq_false_iff.mpr hall
        rw [hall'] at hspec
        simp [Except.map] at hspec

/-- a Zipkin request (spans with unique member names) is stored iff every member of every span is accepted, nothing
    but white space follows a span object, and every span has a trace id and a span id (then they are 16 and 8
    bytes, see `zipkin_ids_16_8`) -/
theorem zipkin_accepted_iff (f : Framing) (spans : List ZSpan) (hu : ∀ s ∈ spans, s.UniqueKeys) :
    (writeZipkin cfg f spans).ok = true ↔
      zipkinAllOk spans = true ∧ ∀ s ∈ spans, (specArgs cfg s).accepted = true := by
  have hrun : ∀ pt, (runSpans cfg pt (decodeSpan cfg) {} {} spans).ok = true ↔
      zipkinAllOk spans = true ∧ ∀ s ∈ spans, (specArgs cfg s).accepted = true := by
    intro pt
    constructor
    · intro h
      obtain ⟨as, h1, h2, _, _⟩ := runSpans_ok cfg pt (decodeSpan cfg) spans ({} : ZDec) ({} : Builder) h
      rw [zipkin_decodeAll spans ({} : ZDec) hu] at h1
      by_cases hall : zipkinAllOk spans = true
      · simp only [hall, if_true, Option.some.injEq] at h1; subst h1
        exact ⟨hall, fun s hs => h2 _ (List.mem_map.mpr ⟨s, hs, rfl⟩)⟩
      · simp [hall] at h1
    · rintro ⟨hall, hacc⟩
      apply runSpans_ok_of cfg pt (decodeSpan cfg) spans ({} : ZDec) ({} : Builder) (spans.map (specArgs cfg))
      · rw [zipkin_decodeAll spans ({} : ZDec) hu]; simp [hall]
      · intro a ha; obtain ⟨s, hs, rfl⟩ := List.mem_map.mp ha; exact hacc s hs
  cases f <;> exact hrun _

/-- **one_row_per_span (Zipkin).** For every stored Zipkin request, in either framing, with the members of each
    span in any order: the trace rows sent are exactly one row per span, in document order, built from the
    span's members looked up by name (`specArgs`), and the tag rows are exactly those spans' tag rows. -/
theorem one_row_per_span_zipkin (f : Framing) (spans : List ZSpan) (hu : ∀ s ∈ spans, s.UniqueKeys)
    (h : (writeZipkin cfg f spans).ok = true) :
    (writeZipkin cfg f spans).traces = spans.map (fun s => traceRowOf cfg.zipkinType (specArgs cfg s)) ∧
    (writeZipkin cfg f spans).tags = spans.flatMap (fun s => tagRowsOf (specArgs cfg s)) ∧
    (writeZipkin cfg f spans).traces.length = spans.length := by
  obtain ⟨_, _, hnd, _⟩ := payload_types_agree
  have hrun : ∀ pt, (runSpans cfg pt (decodeSpan cfg) {} {} spans).ok = true →
      (runSpans cfg pt (decodeSpan cfg) {} {} spans).traces = spans.map (fun s => traceRowOf pt (specArgs cfg s)) ∧
      (runSpans cfg pt (decodeSpan cfg) {} {} spans).tags = spans.flatMap (fun s => tagRowsOf (specArgs cfg s)) := by
    intro pt h
    obtain ⟨as, h1, _, h3, h4⟩ := runSpans_ok cfg pt (decodeSpan cfg) spans ({} : ZDec) ({} : Builder) h
    rw [zipkin_decodeAll spans ({} : ZDec) hu] at h1
    by_cases hall : zipkinAllOk spans = true
    · simp only [hall, if_true, Option.some.injEq] at h1; subst h1
      constructor
      · rw [Outcome.traces_eq, h3]; simp [Builder.chunks, chunksTraces]
      · rw [Outcome.tags_eq, h4]; simp [Builder.chunks, chunksTags, List.flatMap_map]
    · simp [hall] at h1
  have key : (writeZipkin cfg f spans).traces = spans.map (fun s => traceRowOf cfg.zipkinType (specArgs cfg s)) ∧
      (writeZipkin cfg f spans).tags = spans.flatMap (fun s => tagRowsOf (specArgs cfg s)) := by
    cases f with
    | array => exact hrun _ h
    | ndjson =>
      have := hrun cfg.zipkinNDType h
      rw [hnd] at this
      exact this
  exact ⟨key.1, key.2, by rw [key.1]; simp⟩

/-- **framing_independent.** The JSON-array framing and the newline-delimited framing of the same spans give
    the same responses: same rows, same tag rows, same chunks, same outcome. -/
theorem framing_independent (spans : List ZSpan) :
    writeZipkin cfg .array spans = writeZipkin cfg .ndjson spans := by
  obtain ⟨_, _, hnd, _⟩ := payload_types_agree
  simp only [writeZipkin, hnd]

/-- no per-span state survives from one span to the next: what `decodeSpan` hands to `onSpan` and leaves in the
    decoder does not depend on what earlier spans left there (A9) -/
theorem span_state_independent (d d' : ZDec) (raw : ZSpan) : decodeSpan cfg d raw = decodeSpan cfg d' raw := rfl

/-- **ids_times_names (Zipkin): the `onSpan` arguments by member name.** Whatever the order of the members:
    the ids are the hex members `traceId`/`id`/`parentId` decoded with the writer's padding rule, start and
    duration are the `timestamp`/`duration` members (number or string) times 1000, the name is the `name`
    member, the service name is `localEndpoint.serviceName` unless empty or absent, then
    `remoteEndpoint.serviceName` (A10); the tag rows are the members' tags in document order followed by
    `service.name`; the payload is the span text. Absent members give zero values. -/
theorem zipkin_args_by_name (raw : ZSpan) :
    let a := specArgs cfg raw
    let fs := raw.fields
    a.traceId = (match zFind fs fTraceId with | some h => hexVal h cfg.traceHex | none => []) ∧
    a.spanId = (match zFind fs fId with | some h => hexVal h cfg.spanHex | none => []) ∧
    a.parentId = (match zFind fs fParentId with | some h => hexVal h cfg.parentHex | none => []) ∧
    a.ts = (match zFind fs fTimestamp with | some v => timeVal v | none => 0) ∧
    a.dur = (match zFind fs fDuration with | some v => timeVal v | none => 0) ∧
    a.name = (match zFind fs fName with | some v => v.getD [] | none => []) ∧
    a.svc = (if epSvc ((zFind fs fLocal).getD none) = [] then epSvc ((zFind fs fRemote).getD none)
             else epSvc ((zFind fs fLocal).getD none)) ∧
    a.kv = fs.flatMap fieldKv ++ [(kServiceName, a.svc)] ∧
    a.payload = .zipkin raw ∧ a.payloadLen = raw.rawLen := by
  intro a fs
  refine ⟨?_, ?_, rfl, rfl, rfl, rfl, ?_, ?_, rfl, rfl⟩
  · show (match zFind fs fTraceId with | some h => some (hexVal h cfg.traceHex) | none => none).getD [] = _
    cases zFind fs fTraceId <;> rfl
  · show (match zFind fs fId with | some h => some (hexVal h cfg.spanHex) | none => none).getD [] = _
    cases zFind fs fId <;> rfl
  · show (if (match zFind fs fLocal with | some e => epSvc e | none => []) = [] then
        (match zFind fs fRemote with | some e => epSvc e | none => []) else
        (match zFind fs fLocal with | some e => epSvc e | none => [])) = _
    cases zFind fs fLocal <;> cases zFind fs fRemote <;> rfl
  · show ([] ++ fs.flatMap fieldKv) ++ [(kServiceName, a.svc)] = _
    simp

private theorem zFind_mem {α} {fs : List ZField} {g : ZField → Option α} {v : α} (h : zFind fs g = some v) :
    ∃ x ∈ fs, g x = some v := List.exists_of_findSome?_eq_some h

private theorem hex_member_ok {fs : List ZField} (hok : fs.all (fieldOk cfg) = true) {g : ZField → Option JStr} {w : Nat}
    (hg : ∀ x h, g x = some h → fieldOk cfg x = hexOk h w) {h : JStr} (hf : zFind fs g = some h) :
    ∃ hx r, h = some hx ∧ decodeHexStr hx w = .ok r ∧ hexVal h w = r := by
  obtain ⟨x, hx, hgx⟩ := zFind_mem hf
  have := List.all_eq_true.mp hok x hx
  rw [hg x h hgx] at this
  cases h with
  | none => simp [hexOk] at this
  | some hs =>
    simp only [hexOk] at this
    cases hd : decodeHexStr hs w with
    | ok r => exact ⟨hs, r, rfl, hd, by simp [hexVal, hd]⟩
    | error e => simp [hd] at this

/-- **16-byte trace id, 8-byte span id.** In a span all of whose members are accepted, a present `traceId`
    member of any length 1–∞ hex digits gives exactly 16 bytes, a present `id` member exactly 8, a present
    `parentId` exactly 8; the span is accepted iff it has both a `traceId` and an `id` member. (Empty ids and
    non-hex digits are refused by `fieldOk`; an id of all `f` digits is as good as any.) -/
theorem zipkin_ids_16_8 (raw : ZSpan) (hok : raw.fields.all (fieldOk cfg) = true) :
    let a := specArgs cfg raw
    ((zFind raw.fields fTraceId).isSome → a.traceId.length = 16) ∧
    ((zFind raw.fields fId).isSome → a.spanId.length = 8) ∧
    ((zFind raw.fields fParentId).isSome → a.parentId.length = 8) ∧
    (a.accepted = true ↔ (zFind raw.fields fTraceId).isSome ∧ (zFind raw.fields fId).isSome) := by
  intro a
  obtain ⟨e1, e2, e3, _⟩ := zipkin_args_by_name raw
  obtain ⟨w1, w2, w3, _⟩ := id_widths
  have h1 : (zFind raw.fields fTraceId).isSome → a.traceId.length = 16 := by
    intro hs
    obtain ⟨h, hh⟩ := Option.isSome_iff_exists.mp hs
    obtain ⟨hx, r, _, hd, hv⟩ := hex_member_ok hok (g := fTraceId) (w := cfg.traceHex)
      (by intro x h hx; cases x <;> simp_all [fTraceId, fieldOk]) hh
    have := decodeHexStr_length hd
    show (specArgs cfg raw).traceId.length = 16
    rw [e1, hh]; simp only [hv]; omega
  have h2 : (zFind raw.fields fId).isSome → a.spanId.length = 8 := by
    intro hs
    obtain ⟨h, hh⟩ := Option.isSome_iff_exists.mp hs
    obtain ⟨hx, r, _, hd, hv⟩ := hex_member_ok hok (g := fId) (w := cfg.spanHex)
      (by intro x h hx; cases x <;> simp_all [fId, fieldOk]) hh
    have := decodeHexStr_length hd
    show (specArgs cfg raw).spanId.length = 8
    rw [e2, hh]; simp only [hv]; omega
  have h3 : (zFind raw.fields fParentId).isSome → a.parentId.length = 8 := by
    intro hs
    obtain ⟨h, hh⟩ := Option.isSome_iff_exists.mp hs
    obtain ⟨hx, r, _, hd, hv⟩ := hex_member_ok hok (g := fParentId) (w := cfg.parentHex)
      (by intro x h hx; cases x <;> simp_all [fParentId, fieldOk]) hh
    have := decodeHexStr_length hd
    show (specArgs cfg raw).parentId.length = 8
    rw [e3, hh]; simp only [hv]; omega
  refine ⟨h1, h2, h3, ?_⟩
  constructor
  · intro hacc
    have hacc' : (specArgs cfg raw).traceId.length = 16 ∧ (specArgs cfg raw).spanId.length = 8 := by
      simpa [Args.accepted] using hacc
    constructor
    · cases hz : zFind raw.fields fTraceId with
      | some _ => rfl
      | none => rw [e1, hz] at hacc'; simp at hacc'
    · cases hz : zFind raw.fields fId with
      | some _ => rfl
      | none => rw [e2, hz] at hacc'; simp at hacc'
  · rintro ⟨ha, hb⟩
    have := h1 ha; have := h2 hb
    simp_all [Args.accepted, a]

/-- the tag rows of a Zipkin span all carry its ids and times -/
theorem tag_rows_zipkin (raw : ZSpan) :
    let a := specArgs cfg raw
    ∀ t ∈ tagRowsOf a, t.traceId = a.traceId ∧ t.spanId = a.spanId ∧ t.ts = a.ts ∧ t.dur = a.dur ∧ t.dateSec = dateSecOf a.ts := by
  intro a t ht
  obtain ⟨e, _, rfl⟩ := List.mem_map.mp ht
  exact ⟨rfl, rfl, rfl, rfl, rfl⟩

/-- **any field order.** Two span objects with the same members in different orders (member names unique) are
    accepted or refused alike and give the same trace row (up to the payload, which is each span's own text) and
    the same tag rows up to their order. -/
theorem field_order_irrelevant (raw raw' : ZSpan) (hp : raw.fields.Perm raw'.fields) (hu : raw.UniqueKeys) :
    let a := specArgs cfg raw
    let a' := specArgs cfg raw'
    raw.fields.all (fieldOk cfg) = raw'.fields.all (fieldOk cfg) ∧
    a.traceId = a'.traceId ∧ a.spanId = a'.spanId ∧ a.parentId = a'.parentId ∧ a.ts = a'.ts ∧ a.dur = a'.dur ∧
    a.name = a'.name ∧ a.svc = a'.svc ∧ a.kv.Perm a'.kv ∧ (tagRowsOf a).Perm (tagRowsOf a') := by
  intro a a'
  obtain ⟨e1, e2, e3, e4, e5, e6, e7, e8, _⟩ := zipkin_args_by_name raw
  obtain ⟨f1, f2, f3, f4, f5, f6, f7, f8, _⟩ := zipkin_args_by_name raw'
  have p1 := zFind_perm fTraceId 0 fTraceId_slot hp hu
  have p2 := zFind_perm fId 1 fId_slot hp hu
  have p3 := zFind_perm fParentId 2 fParentId_slot hp hu
  have p4 := zFind_perm fTimestamp 3 fTimestamp_slot hp hu
  have p5 := zFind_perm fDuration 4 fDuration_slot hp hu
  have p6 := zFind_perm fName 5 fName_slot hp hu
  have p7 := zFind_perm fLocal 6 fLocal_slot hp hu
  have p8 := zFind_perm fRemote 7 fRemote_slot hp hu
  have hsvc : a.svc = a'.svc := by
    show (specArgs cfg raw).svc = (specArgs cfg raw').svc
    rw [e7, f7, p7, p8]
  have hkv : a.kv.Perm a'.kv := by
    show (specArgs cfg raw).kv.Perm (specArgs cfg raw').kv
    rw [e8, f8, hsvc]
    exact List.Perm.append_right _ (List.Perm.flatMap_right _ hp)
  have hid1 : a.traceId = a'.traceId := by
    show (specArgs cfg raw).traceId = (specArgs cfg raw').traceId
    rw [e1, f1, p1]
  have hid2 : a.spanId = a'.spanId := by
    show (specArgs cfg raw).spanId = (specArgs cfg raw').spanId
    rw [e2, f2, p2]
  have hts : a.ts = a'.ts := by
    show (specArgs cfg raw).ts = (specArgs cfg raw').ts
    rw [e4, f4, p4]
  have hdur : a.dur = a'.dur := by
    show (specArgs cfg raw).dur = (specArgs cfg raw').dur
    rw [e5, f5, p5]
  refine ⟨List.Perm.all_eq hp, hid1, hid2, ?_, hts, hdur, ?_, hsvc, hkv, ?_⟩
  · show (specArgs cfg raw).parentId = (specArgs cfg raw').parentId
    rw [e3, f3, p3]
  · show (specArgs cfg raw).name = (specArgs cfg raw').name
    rw [e6, f6, p6]
  · unfold tagRowsOf
    rw [hid1, hid2, hts, hdur]
    exact List.Perm.map _ hkv

/-! ## Zipkin read-back -/

/-- the string-valued tags of a span document, as attributes, in document order (a tag whose value is not a string
    is dropped by both sides: it has no tag row and no attribute) -/
def zipkinTagAttrs (raw : ZSpan) : List KV :=
  (tagsKv ((zFind raw.fields fTags).getD none)).map (fun e => (e.1, AnyValue.str e.2))

/-- the attributes the reader makes of the two endpoints (`localEndpoint.serviceName` / `.ipv4` / `.ipv6` / `.port`, then
    the same for `remoteEndpoint`) -/
def zipkinEndpointAttrs (raw : ZSpan) : List KV :=
  (epAttrs "localEndpoint" ((zFind raw.fields fLocal).getD none)).1 ++
  (epAttrs "remoteEndpoint" ((zFind raw.fields fRemote).getD none)).1

private theorem svc_reader_eq (l r : Option Str) :
    (match l with | some s => if s = [] then r.getD [] else s | none => r.getD []) =
    (if l.getD [] = [] then r.getD [] else l.getD []) := by
  cases l with
  | none => simp
  | some s => by_cases hs : s = [] <;> simp [hs]

private theorem nested_of_find {fs : List ZField} (hnu : nestedUnique fs = true) :
    (∀ x, (zFind fs fLocal).getD none = some x → x.svcs.length ≤ 1) ∧
    (∀ x, (zFind fs fRemote).getD none = some x → x.svcs.length ≤ 1) := by
  constructor
  · intro x hx
    cases hz : zFind fs fLocal with
    | none => rw [hz] at hx; cases hx
    | some e =>
      rw [hz] at hx
      simp only [Option.getD_some] at hx
      obtain ⟨f, hf, hg⟩ := zFind_mem hz
      have := List.all_eq_true.mp hnu f hf
      cases f <;> simp_all [fLocal]
  · intro x hx
    cases hz : zFind fs fRemote with
    | none => rw [hz] at hx; cases hx
    | some e =>
      rw [hz] at hx
      simp only [Option.getD_some] at hx
      obtain ⟨f, hf, hg⟩ := zFind_mem hz
      have := List.all_eq_true.mp hnu f hf
      cases f <;> simp_all [fRemote]

/-- **readback (Zipkin).** Take any accepted span document (all members accepted, `traceId` and `id` present),
    members in any order, which the reader's parser reads as the writer's did (`Agree`) and whose endpoints have at
    most one `serviceName`. Store it (`specArgs` → trace row) and decode the row with the read path (`OutputQuery` →
    `parseZipkinJSON`). The result is a span — not an error, not a crash — whose trace id, span id and parent are those
    of the row (so a `parentId` of any length reads back as the padded id the writer stored, an all-zero one as eight
    zero bytes on both sides), whose name is the pushed name, whose start/end are the row's start and start+duration,
    whose service name is the row's `service_name`; its attributes are exactly the span's string tags in document
    order, then the endpoint attributes, then `service.name` = that service name; its events are the annotations;
    and each of those tags is also a tag row. -/
theorem readback_zipkin (fbits : Bytes → Nat) (raw : ZSpan) (hok : raw.fields.all (fieldOk cfg) = true)
    (hacc : (specArgs cfg raw).accepted = true) (hag : raw.Agree) (hnu : nestedUnique raw.fields = true) :
    let a := specArgs cfg raw
    ∃ rs, readRow cfg fbits (traceRowOf cfg.zipkinType a) = .span rs ∧
      rs.traceId = a.traceId ∧ rs.spanId = a.spanId ∧ rs.parentSpanId = a.parentId ∧ rs.name = a.name ∧
      rs.startNs = toU64 a.ts ∧ rs.endNs = toU64 (wrap64 (a.ts + a.dur)) ∧ rs.serviceName = a.svc ∧
      rs.attrs = zipkinTagAttrs raw ++ zipkinEndpointAttrs raw ++ [(kServiceName, .str a.svc)] ∧
      rs.kind = kindOf (((zFind raw.fields fKind).getD none).getD []) ∧
      rs.events = annoEvents ((zFind raw.fields fAnnotations).getD none) ∧
      (∀ e ∈ tagsKv ((zFind raw.fields fTags).getD none), e ∈ a.kv) := by
  intro a
  obtain ⟨hp1, hp2, hp3, hp4⟩ := payload_types_agree
  obtain ⟨e1, e2, e3, e4, e5, e6, e7, e8, e9, _⟩ := zipkin_args_by_name raw
  obtain ⟨_, _, w3, _⟩ := id_widths
  obtain ⟨hnl, hnr⟩ := nested_of_find hnu
  have hlen : a.traceId.length = 16 ∧ a.spanId.length = 8 := by simpa [Args.accepted] using hacc
  have h16 : (traceRowOf cfg.zipkinType a).traceId.length = 16 := hlen.1
  have h8 : (traceRowOf cfg.zipkinType a).spanId.length = 8 := hlen.2
  have hpay : (traceRowOf cfg.zipkinType a).payload = .zipkin raw := e9
  have hread : readRow cfg fbits (traceRowOf cfg.zipkinType a) = parseZipkinJSON (traceRowOf cfg.zipkinType a) := by
    simp [readRow, traceRowOf, hp2]
  rw [hread]
  unfold parseZipkinJSON
  rw [hpay]
  have hag' : raw.rfields = some raw.fields := hag
  simp only [hag', h16, h8, Nat.lt_irrefl, or_self, if_false, List.take_of_length_le (Nat.le_of_eq h16),
    List.take_of_length_le (Nat.le_of_eq h8)]
  have el := epSvc_eq_reader "localEndpoint" ((zFind raw.fields fLocal).getD none) hnl
  have er := epSvc_eq_reader "remoteEndpoint" ((zFind raw.fields fRemote).getD none) hnr
  have hsvc : (match (epAttrs "localEndpoint" ((zFind raw.fields fLocal).getD none)).snd with
      | some s => if s = [] then (epAttrs "remoteEndpoint" ((zFind raw.fields fRemote).getD none)).snd.getD [] else s
      | none => (epAttrs "remoteEndpoint" ((zFind raw.fields fRemote).getD none)).snd.getD []) = a.svc := by
    rw [svc_reader_eq, ← el, ← er]
    exact e7.symm
  refine ⟨_, rfl, rfl, rfl, ?_, ?_, rfl, rfl, hsvc, ?_, rfl, rfl, ?_⟩
  · -- parent
    show (match (zFind raw.fields fParentId).getD none with | some h => (decodeParentId h).getD [] | none => []) = (specArgs cfg raw).parentId
    rw [e3]
    cases hz : zFind raw.fields fParentId with
    | none => rfl
    | some h =>
      obtain ⟨hx, r, rfl, hd, hv⟩ := hex_member_ok hok (g := fParentId) (w := cfg.parentHex)
        (by intro x h hx; cases x <;> simp_all [fParentId, fieldOk]) hz
      rw [w3] at hd
      simp only [Option.getD_some, hv, decodeParentId_eq hd]
  · -- name
    show Option.getD ((zFind raw.fields fName).getD none) [] = (specArgs cfg raw).name
    rw [e6]
    cases zFind raw.fields fName <;> rfl
  · -- attributes
    refine (congrArg (fun z => _ ++ [(kServiceName, AnyValue.str z)]) hsvc).trans ?_
    unfold zipkinTagAttrs zipkinEndpointAttrs tagsKv
    cases (zFind raw.fields fTags).getD none with
    | none => simp
    | some ts =>
      have hm : (ts.filterMap (fun t => t.2.map (fun v => (t.1, v)))).map (fun e => (e.1, AnyValue.str e.2)) =
          ts.filterMap (fun t => t.2.map (fun v => (t.1, AnyValue.str v))) := by
        rw [List.map_filterMap]
        congr 1
        funext t
        cases t.2 <;> rfl
      simp only [hm, List.append_assoc]
  · intro e he
    show e ∈ (specArgs cfg raw).kv
    rw [e8]
    cases hz : zFind raw.fields fTags with
    | none => rw [hz] at he; simp [tagsKv] at he
    | some t =>
      rw [hz] at he
      obtain ⟨x, hx, hgx⟩ := zFind_mem hz
      have hxe : x = .tags t := by cases x <;> simp_all [fTags]
      subst hxe
      apply List.mem_append_left
      exact List.mem_flatMap.mpr ⟨_, hx, he⟩

/-- **service_name_agrees (Zipkin).** Writer and reader resolve a Zipkin span's service name alike:
    `localEndpoint.serviceName` when present and non-empty, else `remoteEndpoint.serviceName`, else "" (A10). -/
theorem service_name_agrees_zipkin (fbits : Bytes → Nat) (raw : ZSpan) (hok : raw.fields.all (fieldOk cfg) = true)
    (hacc : (specArgs cfg raw).accepted = true) (hag : raw.Agree) (hnu : nestedUnique raw.fields = true) :
    ∃ rs, readRow cfg fbits (traceRowOf cfg.zipkinType (specArgs cfg raw)) = .span rs ∧ rs.serviceName = (specArgs cfg raw).svc := by
  obtain ⟨rs, h, _, _, _, _, _, _, hs, _⟩ := readback_zipkin fbits raw hok hacc hag hnu
  exact ⟨rs, h, hs⟩

/-- **readback (Zipkin), whole request.** Reading back the rows of a stored Zipkin request (either framing)
    returns one span per row and the stream ends normally. -/
theorem readback_zipkin_request (fbits : Bytes → Nat) (f : Framing) (spans : List ZSpan) (hu : ∀ s ∈ spans, s.UniqueKeys)
    (hag : ∀ s ∈ spans, s.Agree) (hnu : ∀ s ∈ spans, nestedUnique s.fields = true)
    (h : (writeZipkin cfg f spans).ok = true) :
    (readRows cfg fbits (writeZipkin cfg f spans).traces).2 = .done ∧
    (readRows cfg fbits (writeZipkin cfg f spans).traces).1.length = spans.length ∧
    ∀ x ∈ (readRows cfg fbits (writeZipkin cfg f spans).traces).1, x.isSome := by
  obtain ⟨h1, _, h3⟩ := one_row_per_span_zipkin f spans hu h
  obtain ⟨hall, hacc⟩ := (zipkin_accepted_iff f spans hu).mp h
  have := readRows_all fbits (writeZipkin cfg f spans).traces (by
    intro r hr
    rw [h1] at hr
    obtain ⟨s, hs, rfl⟩ := List.mem_map.mp hr
    have hok' : s.ok cfg = true := List.all_eq_true.mp hall s hs
    have hok : s.fields.all (fieldOk cfg) = true := by
      simp only [ZSpan.ok, Bool.and_eq_true] at hok'; exact hok'.1
    obtain ⟨rs, hrs, _⟩ := readback_zipkin fbits s hok (hacc s hs) (hag s hs) (hnu s hs)
    exact ⟨rs, hrs⟩)
  exact ⟨this.1, by rw [this.2.1, h3], this.2.2⟩

/-! ## the round trip, stated once per protocol -/

/-- **roundtrip_otlp.** For every span `s` (any attribute trees, any ids accepted by the writer, any times) pushed in
    any resource/scope group with resource attributes `ra`: reading the stored row with the trace read path
    (payload-type dispatch → `parseOTLP` → first byte → `proto.Unmarshal` branch) returns the pushed trace id, span id,
    parent, name, kind, start, end (hence duration), events and status; the service name of the row's `service_name`
    column; and attributes that are EXACTLY the normal form `otlpNF`: one entry per key, and `(k, v)` is an entry iff
    `otlpNF ra s k = some v`. The stored duration column, as uint64, is `end − start` modulo 2^64. -/
theorem roundtrip_otlp (fbits : Bytes → Nat) (plen : OSpan → Nat) (ra : List KV) (s : OSpan) :
    let row := traceRowOf cfg.otlpType (otlpArgs cfg plen ra s)
    ∃ rs, readRow cfg fbits row = .span rs ∧
      rs.traceId = s.traceId ∧ rs.spanId = s.spanId ∧ rs.parentSpanId = s.parentSpanId ∧ rs.name = s.name ∧
      rs.kind = s.kind ∧ rs.startNs = s.startNs ∧ rs.endNs = s.endNs ∧ rs.events = s.events ∧
      rs.status = s.status.getD (0, []) ∧ rs.serviceName = row.svc ∧ row.svc = otlpService ra s ∧
      (toU64 row.dur : Int) = ((s.endNs : Int) - (s.startNs : Int)) % 18446744073709551616 ∧
      (rs.attrs.map (·.1)).Nodup ∧ (∀ kv, kv ∈ rs.attrs ↔ otlpNF ra s kv.1 = some kv.2) := by
  intro row
  obtain ⟨rs, h0, h1, h2, h3, h4, h5, h6, h7, h8, h9, h10, h11, _, h13⟩ := readback_otlp fbits plen ra s
  refine ⟨rs, h0, h1, h2, h3, h4, h5, h6, h7, h8, h9, h10, rfl, ?_, h11, ?_⟩
  · show ((toU64 (wrap64 _) : Nat) : Int) = _
    rw [toU64_wrap64]
    omega
  · intro kv
    rw [mem_iff_assocGet rs.attrs h11 kv, h13]

/-- the OTLP dispatch never reaches the JSON decoder for a stored span: the payload the writer stores begins with the
    tag byte of `trace_id`, not with `{`; `parseOTLPJson` is reached only by rows this writer did not produce -/
theorem stored_otlp_payload_is_protobuf (plen : OSpan → Nat) (ra : List KV) (s : OSpan) :
    ∃ stored, (traceRowOf cfg.otlpType (otlpArgs cfg plen ra s)).payload = .otlp pbLead stored ∧ pbLead ≠ 123 :=
  ⟨_, rfl, by decide⟩

/-- **flattening is defined once (`leavesVal`/`leavesArr`/`leavesKvs`: the scalar leaves with their paths) and the
    writer's recursive walk equals it**, at every nesting depth, for every value kind (structural induction on
    `AnyValue`): `writeAttrValue` under key `key` writes one entry per leaf, key = `key` followed by the dotted path;
    the array branch numbers the elements from 0 under `pfx`; `initAttributesMap` prefixes every member key. -/
theorem flatten_eq_leaves (key pfx : Str) (i : Nat) (v : AnyValue) (vs : List AnyValue) (kvs : List KV) :
    flattenVal key v = (leavesVal v).map (fun pl => (key ++ dotted pl.1, pl.2.text)) ∧
    flattenArr pfx i vs = (leavesArr i vs).map (fun pl => (pfx ++ pathKey pl.1, pl.2.text)) ∧
    flattenKvs pfx kvs = (leavesKvs kvs).map (fun pl => (pfx ++ pathKey pl.1, pl.2.text)) :=
  ⟨flattenVal_leaves key v, flattenArr_leaves pfx i vs, flattenKvs_leaves pfx kvs⟩

private theorem fieldUpd_kv (l : ZLoop) (f : ZField) : (fieldUpd cfg l f).d.kv = l.d.kv ++ fieldKv f := by
  cases f <;> simp [fieldUpd, fieldKv]

private theorem zfold_kv : ∀ (fs : List ZField) (l l' : ZLoop), fs.foldlM (zStep cfg) l = .ok l' →
    l'.d.kv = l.d.kv ++ fs.flatMap fieldKv := by
  intro fs
  induction fs with
  | nil => intro l l' h; simp [List.foldlM, pure, Except.pure] at h; subst h; simp
  | cons f fs ih =>
    intro l l' h
    rw [List.foldlM_cons] at h
    by_cases hf : fieldOk cfg f = true
    · rw [zStep_ok cfg l f hf] at h
      have := ih (fieldUpd cfg l f) l' h
      rw [this, fieldUpd_kv]; simp
    · have hf' : fieldOk cfg f = false := by simpa using hf
      rw [zStep_error cfg l f hf'] at h
      cases h

/-- **tag_rows_complete (Zipkin), for every document — duplicate members at any level included.** Whenever the writer
    accepts a span, its tag rows are exactly: one row per `name` member, one per `serviceName` member of each endpoint
    (`local_endpoint_service_name` / `remote_endpoint_service_name`), one per string-valued member of each `tags`
    object, all in document order, then `service.name` = the resolved service name; every row with the span's trace
    id, span id, start, duration and start second. -/
theorem tag_rows_complete_zipkin (d d' : ZDec) (raw : ZSpan) (a : Args) (h : decodeSpan cfg d raw = .ok (d', a)) :
    tagRowsOf a = (raw.fields.flatMap fieldKv ++ [(kServiceName, a.svc)]).map
      (fun e => ⟨a.traceId, a.spanId, a.ts, a.dur, dateSecOf a.ts, e.1, e.2⟩) := by
  unfold decodeSpan at h
  simp only [bind, Except.bind] at h
  split at h
  · cases h
  · rename_i l hl
    have hkv := zfold_kv raw.fields _ l hl
    split at h
    · cases h
    · simp only [pure, Except.pure, Except.ok.injEq, Prod.mk.injEq] at h
      obtain ⟨_, rfl⟩ := h
      simp only [tagRowsOf, hkv, List.nil_append]

/-- **tag_rows_complete (OTLP).** The tag rows of a stored span are exactly the flattening of its stored attributes
    (`leavesKvs`: every scalar leaf at every nesting depth, key = the dotted path, lists by index) collapsed into a map
    (one row per distinct key, the last leaf written under a key wins) plus `name` and `service.name`; every row with
    the span's ids and times. Bytes and unset values are not indexed. -/
theorem tag_rows_complete_otlp (plen : OSpan → Nat) (ra : List KV) (s : OSpan) :
    let a := otlpArgs cfg plen ra s
    let rows := tagRowsOf a
    let writes := (leavesKvs (storedAttrs ra s)).map (fun pl => (pathKey pl.1, pl.2.text))
    (∀ t ∈ rows, t.traceId = s.traceId ∧ t.spanId = s.spanId ∧ t.ts = a.ts ∧ t.dur = a.dur ∧ t.dateSec = dateSecOf a.ts) ∧
    (rows.map (·.key)).Nodup ∧
    (∀ k, k ∈ rows.map (·.key) ↔ k = kName ∨ k = kServiceName ∨ ∃ pl ∈ leavesKvs (storedAttrs ra s), pathKey pl.1 = k) ∧
    tagValue rows kName = some s.name ∧ tagValue rows kServiceName = some (otlpService ra s) ∧
    (∀ k, k ≠ kName → k ≠ kServiceName → tagValue rows k = lastWrite writes k) := by
  intro a rows writes
  obtain ⟨h1, h2, h3⟩ := tag_rows_otlp plen ra s
  have hw : flattenKvs [] (storedAttrs ra s) = writes := flatten_top _
  have hne : ¬ (kName = kServiceName) := by decide
  refine ⟨h1, h2, ?_, ?_, ?_, ?_⟩
  · intro k
    have hk : k ∈ rows.map (·.key) ↔ (tagValue rows k).isSome = true := by
      have : rows.map (·.key) = a.kv.map (·.1) := by simp [rows, tagRowsOf]
      rw [this, tagValue_tagRowsOf, assocGet_isSome_iff]
    rw [hk, h3 k, hw]
    by_cases hk1 : k = kServiceName
    · subst hk1; simp
    · by_cases hk2 : k = kName
      · subst hk2; simp [hne]
      · simp only [hk1, hk2, if_false, false_or]
        rw [lastWrite_isSome_iff]
        simp only [writes, List.map_map, List.mem_map, Function.comp]
  · have := h3 kName; simp only [hne, if_false, if_true] at this; exact this
  · have := h3 kServiceName; simp only [if_true] at this; exact this
  · intro k hk1 hk2
    rw [h3 k, hw]; simp [hk1, hk2]

/-- **roundtrip_zipkin.** For every span document with every consulted member name at most once (`UniqueKeys`; any
    member order, other members free), endpoints with at most one `serviceName`, that the reader's parser reads as
    the writer's did: if the writer accepts it (either framing, ids of any length incl. all-`0` and all-`f`, string
    or numeric times) then reading the stored row returns the row's trace id, span id, parent (padded the same way on
    both sides), name, start, start+duration and service name, attributes = string tags in document order (duplicates
    kept) ++ endpoint attributes ++ `service.name`, events = annotations; the payload is the text; the tag rows are
    the document's flattening. -/
theorem roundtrip_zipkin (fbits : Bytes → Nat) (d d' : ZDec) (raw : ZSpan) (a : Args)
    (hu : raw.UniqueKeys) (hnu : nestedUnique raw.fields = true) (hag : raw.Agree)
    (hdec : decodeSpan cfg d raw = .ok (d', a)) (hacc : a.accepted = true) :
    a.payload = .zipkin raw ∧
    ∃ rs, readRow cfg fbits (traceRowOf cfg.zipkinType a) = .span rs ∧
      rs.traceId = a.traceId ∧ rs.spanId = a.spanId ∧ rs.parentSpanId = a.parentId ∧ rs.name = a.name ∧
      rs.startNs = toU64 a.ts ∧ rs.endNs = toU64 (wrap64 (a.ts + a.dur)) ∧ rs.serviceName = a.svc ∧
      rs.attrs = zipkinTagAttrs raw ++ zipkinEndpointAttrs raw ++ [(kServiceName, .str a.svc)] ∧
      rs.kind = kindOf (((zFind raw.fields fKind).getD none).getD []) ∧
      rs.events = annoEvents ((zFind raw.fields fAnnotations).getD none) := by
  have hspec := decodeSpan_spec cfg d raw hu
  rw [hdec] at hspec
  by_cases hok : raw.ok cfg = true
  · rw [hok] at hspec
    simp only [Except.map, if_true, Except.ok.injEq] at hspec
    subst hspec
    have hok' : raw.fields.all (fieldOk cfg) = true := by
      simp only [ZSpan.ok, Bool.and_eq_true] at hok; exact hok.1
    obtain ⟨rs, h0, h1, h2, h3, h4, h5, h6, h7, h8, h9, h10, _⟩ := readback_zipkin fbits raw hok' hacc hag hnu
    exact ⟨rfl, rs, h0, h1, h2, h3, h4, h5, h6, h7, h8, h9, h10⟩
  · have hok' : raw.ok cfg = false := by simpa using hok
    rw [hok'] at hspec
    simp [Except.map] at hspec

/-- **every document, duplicates included: what each side takes.** For every span document the writer accepts and the
    reader's parser reads alike — any member list, any name any number of times — the `onSpan` arguments are `lastArgs`:
    every scalar member (`traceId`, `id`, `parentId`, `timestamp`, `duration`, `name`) by its LAST occurrence, the
    service name from the last `localEndpoint` / `remoteEndpoint` member, a tag row for every occurrence; and reading
    the row never fails: it is a span with the row's ids and times whose name and parent come from the FIRST `name` /
    `parentId` member. The two agree when a name occurs once (`roundtrip_zipkin`); `roundtrip_zipkin_counterexample`
    is a document where they do not. -/
theorem zipkin_any_document (fbits : Bytes → Nat) (d d' : ZDec) (raw : ZSpan) (a : Args) (hag : raw.Agree)
    (hdec : decodeSpan cfg d raw = .ok (d', a)) (hacc : a.accepted = true) :
    a = lastArgs cfg raw ∧
    a.name = ((zLast raw.fields fName).map (fun v => v.getD [])).getD [] ∧
    a.parentId = ((zLast raw.fields fParentId).map (fun h => hexVal h cfg.parentHex)).getD [] ∧
    ∃ rs, readRow cfg fbits (traceRowOf cfg.zipkinType a) = .span rs ∧
      rs.traceId = a.traceId ∧ rs.spanId = a.spanId ∧
      rs.startNs = toU64 a.ts ∧ rs.endNs = toU64 (wrap64 (a.ts + a.dur)) ∧
      rs.name = ((zFind raw.fields fName).getD none).getD [] ∧
      rs.parentSpanId = (match (zFind raw.fields fParentId).getD none with
        | some h => (decodeParentId h).getD [] | none => []) := by
  have hspec := decodeSpan_last cfg d raw
  rw [hdec] at hspec
  by_cases hok : raw.ok cfg = true
  · rw [hok] at hspec
    simp only [Except.map, if_true, Except.ok.injEq] at hspec
    subst hspec
    obtain ⟨_, hp2, _, _⟩ := payload_types_agree
    have hlen : (lastArgs cfg raw).traceId.length = 16 ∧ (lastArgs cfg raw).spanId.length = 8 := by
      simpa [Args.accepted] using hacc
    have h16 : (traceRowOf cfg.zipkinType (lastArgs cfg raw)).traceId.length = 16 := hlen.1
    have h8 : (traceRowOf cfg.zipkinType (lastArgs cfg raw)).spanId.length = 8 := hlen.2
    have hpay : (traceRowOf cfg.zipkinType (lastArgs cfg raw)).payload = .zipkin raw := rfl
    have hread : readRow cfg fbits (traceRowOf cfg.zipkinType (lastArgs cfg raw)) =
        parseZipkinJSON (traceRowOf cfg.zipkinType (lastArgs cfg raw)) := by
      simp [readRow, traceRowOf, hp2]
    have hag' : raw.rfields = some raw.fields := hag
    refine ⟨rfl, rfl, rfl, ?_⟩
    rw [hread]
    unfold parseZipkinJSON
    rw [hpay]
    simp only [hag', h16, h8, Nat.lt_irrefl, or_self, if_false, List.take_of_length_le (Nat.le_of_eq h16),
      List.take_of_length_le (Nat.le_of_eq h8)]
    exact ⟨_, rfl, rfl, rfl, rfl, rfl, rfl, rfl⟩
  · have hok' : raw.ok cfg = false := by simpa using hok
    rw [hok'] at hspec
    simp [Except.map] at hspec

/-! ### the same over span TEXTS (the trees the two JSON libraries parse a text to) -/

/-- what the property promises for a text the writer accepts, with no side condition: the stored row reads back as
    a span whose name, parent and service name are those of the row -/
def roundtrip_zipkin_full : Prop :=
  ∀ (t : ZText) (d d' : ZDec) (a : Args), decodeSpanJ cfg d t = .ok (d', a) → a.accepted = true →
    ∃ rs, readRow cfg (fun _ => 0) (traceRowOf cfg.zipkinType a) = .span rs ∧
      rs.name = a.name ∧ rs.parentSpanId = a.parentId ∧ rs.serviceName = a.svc

/-- **roundtrip_zipkin over texts (partial: the hypotheses exclude exactly the recorded findings).** If the text is a
    JSON object for the writer's parser, the reader's parser yields the same tree (`t.rtree = t.wtree`: no lone
    surrogate escape, nesting within the reader's limit of 300), no consulted member name occurs twice and no endpoint
    has two `serviceName` members, then `roundtrip_zipkin` holds of the text's typed document. -/
theorem roundtrip_zipkin_partial (fbits : Bytes → Nat) (t : ZText) (ms : List (Str × JVal)) (d d' : ZDec) (a : Args)
    (hw : t.wtree = some (.obj ms)) (hr : t.rtree = t.wtree)
    (hu : TextUnique ms) (hnu : nestedUnique (ms.map absField) = true)
    (hdec : decodeSpanJ cfg d t = .ok (d', a)) (hacc : a.accepted = true) :
    a.payload = .zipkin (docOf t) ∧ (docOf t).fields = ms.map absField ∧
    ∃ rs, readRow cfg fbits (traceRowOf cfg.zipkinType a) = .span rs ∧
      rs.traceId = a.traceId ∧ rs.spanId = a.spanId ∧ rs.parentSpanId = a.parentId ∧ rs.name = a.name ∧
      rs.startNs = toU64 a.ts ∧ rs.endNs = toU64 (wrap64 (a.ts + a.dur)) ∧ rs.serviceName = a.svc ∧
      rs.attrs = zipkinTagAttrs (docOf t) ++ zipkinEndpointAttrs (docOf t) ++ [(kServiceName, .str a.svc)] ∧
      rs.kind = kindOf (((zFind (docOf t).fields fKind).getD none).getD []) ∧
      rs.events = annoEvents ((zFind (docOf t).fields fAnnotations).getD none) := by
  have hdoc : docOfTrees t = some ⟨ms.map absField, t.len, t.tail, some (ms.map absField)⟩ := by
    unfold docOfTrees; rw [hr, hw]; rfl
  have hd : docOf t = ⟨ms.map absField, t.len, t.tail, some (ms.map absField)⟩ := by
    unfold docOf; rw [hdoc]; rfl
  have hsome : (docOfTrees t).isSome := by rw [hdoc]; rfl
  rw [decodeSpanJ_eq cfg d t hsome] at hdec
  have hf : (docOf t).fields = ms.map absField := by rw [hd]
  have hu' : (docOf t).UniqueKeys := by unfold ZSpan.UniqueKeys; rw [hf]; exact hu
  have hag : (docOf t).Agree := by unfold ZSpan.Agree; rw [hd]
  have hnu' : nestedUnique (docOf t).fields = true := by rw [hf]; exact hnu
  obtain ⟨h1, h2⟩ := roundtrip_zipkin fbits d d' (docOf t) a hu' hnu' hag hdec hacc
  exact ⟨h1, hf, h2⟩

private theorem cex_of (t : ZText)
    (h : (match decodeSpanJ cfg {} t with
          | .ok (_, a) => a.accepted &&
              (match readRow cfg (fun _ => 0) (traceRowOf cfg.zipkinType a) with
               | .span rs => !(rs.name == a.name && rs.parentSpanId == a.parentId && rs.serviceName == a.svc)
               | _ => true)
          | .error _ => false) = true) : ¬ roundtrip_zipkin_full := by
  intro hfull
  cases hd : decodeSpanJ cfg {} t with
  | error e => rw [hd] at h; cases h
  | ok p =>
    obtain ⟨d', a⟩ := p
    rw [hd] at h
    simp only [Bool.and_eq_true] at h
    obtain ⟨hacc, hbad⟩ := h
    obtain ⟨rs, hr, h1, h2, h3⟩ := hfull t {} d' a hd hacc
    rw [hr] at hbad
    simp [h1, h2, h3] at hbad

/-- `{"traceId":"1","id":"2","name":"a","name":"b"}` -/
def cexDuplicateName : ZText :=
  let tree := JVal.obj [(ascii "traceId", .str [49]), (ascii "id", .str [50]), (ascii "name", .str [97]), (ascii "name", .str [98])]
  { len := 43, wtree := some tree, rtree := some tree }

/-- **finding (duplicate member).** A span object with two `name` members is stored with the last name in the
    `name` column (and a tag row for each) and read back with the first: the writer walks the members, the reader
    looks a name up. Likewise `parentId`, the endpoints and `serviceName` inside them. -/
theorem roundtrip_zipkin_counterexample : ¬ roundtrip_zipkin_full := cex_of cexDuplicateName (by decide)

/-- `{"traceId":"1","id":"2","name":"a\ud800b"}`: jx decodes the lone surrogate escape to U+FFFD, fastjson keeps the six characters -/
def cexLoneSurrogate : ZText :=
  { len := 40,
    wtree := some (.obj [(ascii "traceId", .str [49]), (ascii "id", .str [50]), (ascii "name", .str [97, 239, 191, 189, 98])]),
    rtree := some (.obj [(ascii "traceId", .str [49]), (ascii "id", .str [50]), (ascii "name", .str [97, 92, 117, 100, 56, 48, 48, 98])]) }

/-- **finding (the two JSON libraries disagree on an ill-formed escape).** -/
theorem roundtrip_zipkin_counterexample_parsers : ¬ roundtrip_zipkin_full := cex_of cexLoneSurrogate (by decide)

/-- a text jx reads (here `{"traceId":"1","id":"2","x":[[…300 deep…]]}`, abbreviated to its consulted members) and
    fastjson refuses (`too big depth for the nested JSON; it exceeds 300`) -/
def cexUnreadable : ZText :=
  { len := 640, wtree := some (.obj [(ascii "traceId", .str [49]), (ascii "id", .str [50]), (ascii "x", .arr [])]), rtree := none }

/-- **finding (stored but unreadable).** A span nested deeper than the reader's parser allows is stored; reading it
    is an error, which ends the trace at that span. -/
theorem roundtrip_zipkin_counterexample_unreadable : ¬ roundtrip_zipkin_full := cex_of cexUnreadable (by decide)

/-- **any member order, over texts.** Two span texts whose objects hold the same members in different orders (consulted
    names unique) give the same ids, times, names and the same tag rows up to order. -/
theorem text_field_order_irrelevant (t t' : ZText) (ms ms' : List (Str × JVal))
    (hw : t.wtree = some (.obj ms)) (hw' : t'.wtree = some (.obj ms')) (hp : ms.Perm ms') (hu : TextUnique ms) :
    let a := specArgs cfg (docOf t)
    let a' := specArgs cfg (docOf t')
    a.traceId = a'.traceId ∧ a.spanId = a'.spanId ∧ a.parentId = a'.parentId ∧ a.ts = a'.ts ∧ a.dur = a'.dur ∧
    a.name = a'.name ∧ a.svc = a'.svc ∧ (tagRowsOf a).Perm (tagRowsOf a') := by
  have hf : (docOf t).fields = ms.map absField := by unfold docOf docOfTrees; rw [hw]; rfl
  have hf' : (docOf t').fields = ms'.map absField := by unfold docOf docOfTrees; rw [hw']; rfl
  have hpp : (docOf t).fields.Perm (docOf t').fields := by rw [hf, hf']; exact hp.map _
  have hu' : (docOf t).UniqueKeys := by unfold ZSpan.UniqueKeys; rw [hf]; exact hu
  obtain ⟨_, h1, h2, h3, h4, h5, h6, h7, _, h9⟩ := field_order_irrelevant (docOf t) (docOf t') hpp hu'
  exact ⟨h1, h2, h3, h4, h5, h6, h7, h9⟩

/-- **trace_row_unique.** Exactly one trace row per accepted span, in order, carrying that span's ids — OTLP: for any
    grouping into resource/scope groups; Zipkin: for any body of span texts in either framing (and a body whose
    framing is broken after the last text is refused). -/
theorem trace_row_unique (plen : OSpan → Nat) (td : TracesData) (f : Framing) (texts : List ZText)
    (hobj : TextsAreObjects texts) (hu : ∀ t ∈ texts, (docOf t).UniqueKeys) :
    ((writeOTLP cfg plen td).ok = true →
      (writeOTLP cfg plen td).traces.length = (otlpSpans td).length ∧
      (writeOTLP cfg plen td).traces.map (fun r => (r.traceId, r.spanId)) = (otlpSpans td).map (fun r => (r.2.traceId, r.2.spanId))) ∧
    ((writeZipkinJ cfg f texts true).ok = true →
      (writeZipkinJ cfg f texts true).traces = texts.map (fun t => traceRowOf cfg.zipkinType (specArgs cfg (docOf t))) ∧
      (writeZipkinJ cfg f texts true).traces.length = texts.length) ∧
    (writeZipkinJ cfg f texts false).ok = false := by
  refine ⟨?_, ?_, ?_⟩
  · intro h
    obtain ⟨h1, _, h3⟩ := one_row_per_span_otlp plen td h
    refine ⟨h3, ?_⟩
    rw [h1]; simp [otlpAllArgs, traceRowOf, otlpArgs, List.map_map, Function.comp]
  · intro h
    rw [writeZipkinJ_eq cfg f texts hobj] at h ⊢
    have hu' : ∀ s ∈ texts.map docOf, s.UniqueKeys := by
      intro s hs; obtain ⟨t, ht, rfl⟩ := List.mem_map.mp hs; exact hu t ht
    obtain ⟨h1, _, h3⟩ := one_row_per_span_zipkin f (texts.map docOf) hu' h
    exact ⟨by rw [h1, List.map_map]; rfl, by rw [h3, List.length_map]⟩
  · have hb : ∀ o : Outcome, (if (false || !o.ok) = true then o else (⟨o.chunks.dropLast, false⟩ : Outcome)).ok = false := by
      intro o; cases h : o.ok <;> simp [h]
    unfold writeZipkinJ
    exact hb _

/-- **the newline-delimited framing delivers every line whole**, whatever its length (the scanner's buffer is
    unbounded after the 64 KiB fix): texts with no line feed inside, not empty, not ending in a carriage return,
    joined by line feeds, come out as those texts. -/
theorem nd_framing_lines (texts : List Bytes) (h : ∀ l ∈ texts, LineText l) : scanLines (joinLines texts) = texts :=
  scanLines_joinLines texts h

/-! ## the trace-by-id read composes the above: several pushes, both payload types in one trace -/

private theorem good_text {t : ZText} {ms : List (Str × JVal)} (hw : t.wtree = some (.obj ms)) (hr : t.rtree = t.wtree)
    (hu : TextUnique ms) (hnu : nestedUnique (ms.map absField) = true) :
    (docOfTrees t).isSome ∧ (docOf t).UniqueKeys ∧ (docOf t).Agree ∧ nestedUnique (docOf t).fields = true := by
  have hdoc : docOfTrees t = some ⟨ms.map absField, t.len, t.tail, some (ms.map absField)⟩ := by
    unfold docOfTrees; rw [hr, hw]; rfl
  have hd : docOf t = ⟨ms.map absField, t.len, t.tail, some (ms.map absField)⟩ := by
    unfold docOf; rw [hdoc]; rfl
  have hf : (docOf t).fields = ms.map absField := by rw [hd]
  exact ⟨by rw [hdoc]; rfl, by unfold ZSpan.UniqueKeys; rw [hf]; exact hu, by unfold ZSpan.Agree; rw [hd], by rw [hf]; exact hnu⟩

/-- every row a good push stores decodes to a span with the row's ids -/
private theorem push_rows_read (fbits : Bytes → Nat) (plen : OSpan → Nat) (p : Push) (hg : p.Good) :
    ∀ r ∈ p.rows plen, ∃ rs, readRow cfg fbits r = .span rs ∧ rs.traceId = r.traceId ∧ rs.spanId = r.spanId := by
  intro r hr
  cases p with
  | otlp td =>
    simp only [Push.rows] at hr
    by_cases hok : (writeOTLP cfg plen td).ok = true
    · simp only [hok, if_true] at hr
      obtain ⟨h1, _, _⟩ := one_row_per_span_otlp plen td hok
      rw [h1] at hr
      obtain ⟨a, ha, rfl⟩ := List.mem_map.mp hr
      obtain ⟨x, _, rfl⟩ := List.mem_map.mp ha
      obtain ⟨rs, h0, h1, h2, _⟩ := readback_otlp fbits plen x.1 x.2
      exact ⟨rs, h0, h1, h2⟩
    · simp [hok] at hr
  | zipkin f texts =>
    simp only [Push.rows] at hr
    by_cases hok : (writeZipkinJ cfg f texts true).ok = true
    · simp only [hok, if_true] at hr
      have hall : ∀ t ∈ texts, (docOfTrees t).isSome ∧ (docOf t).UniqueKeys ∧ (docOf t).Agree ∧ nestedUnique (docOf t).fields = true := by
        intro t ht
        obtain ⟨ms, hw, hrr, hu, hnu⟩ := hg t ht
        exact good_text hw hrr hu hnu
      have hobj : TextsAreObjects texts := fun t ht => (hall t ht).1
      rw [writeZipkinJ_eq cfg f texts hobj] at hok hr
      have hu' : ∀ s ∈ texts.map docOf, s.UniqueKeys := by
        intro s hs; obtain ⟨t, ht, rfl⟩ := List.mem_map.mp hs; exact (hall t ht).2.1
      obtain ⟨h1, _, _⟩ := one_row_per_span_zipkin f (texts.map docOf) hu' hok
      obtain ⟨hallok, hacc⟩ := (zipkin_accepted_iff f (texts.map docOf) hu').mp hok
      rw [h1] at hr
      obtain ⟨z, hz, rfl⟩ := List.mem_map.mp hr
      obtain ⟨t, ht, rfl⟩ := List.mem_map.mp hz
      have hok' : (docOf t).ok cfg = true := List.all_eq_true.mp hallok _ hz
      have hokf : (docOf t).fields.all (fieldOk cfg) = true := by
        simp only [ZSpan.ok, Bool.and_eq_true] at hok'; exact hok'.1
      obtain ⟨rs, h0, h1, h2, _⟩ := readback_zipkin fbits (docOf t) hokf (hacc _ hz) (hall t ht).2.2.1 (hall t ht).2.2.2
      exact ⟨rs, h0, h1, h2⟩
    · simp [hok] at hr

private theorem filterMap_eq_map_of {α β} (l : List α) (f : α → Option β) (g : α → β) (h : ∀ x ∈ l, f x = some (g x)) :
    l.filterMap f = l.map g := by
  induction l with
  | nil => rfl
  | cons a l ih => simp [List.filterMap_cons, h a (by simp), ih (fun x hx => h x (by simp [hx]))]

/-- **trace_by_id_complete.** After any sequence of pushes — OTLP requests and Zipkin bodies in either framing, in any
    order, spans of one trace spread over several of them, both payload types in the same trace — reading a trace by
    its id (the statement of `GetQueryRequest` over the table, rows through `OutputQuery`) ends normally and returns
    exactly one span per stored row of that trace (up to 2000): each returned span has that trace id, and the span ids
    returned are those stored. The rows fed to `OutputQuery` are a permutation of the writers' rows of that trace. -/
theorem trace_by_id_complete (fbits : Bytes → Nat) (plen : OSpan → Nat) (ps : List Push) (hg : ∀ p ∈ ps, p.Good)
    (tid : Bytes) (hn : ((store plen ps).filter (fun r => r.traceId == tid)).length ≤ 2000) :
    let rows := traceQuery (store plen ps) tid 0 0
    let res := readTrace cfg fbits (store plen ps) tid 0 0
    rows.Perm ((store plen ps).filter (fun r => r.traceId == tid)) ∧
    res.2 = .done ∧ res.1 = rows.map (rowSpan cfg fbits) ∧
    (∀ x ∈ res.1, ∃ rs, x = some rs ∧ rs.traceId = tid) ∧
    (res.1.filterMap (fun x => x.map (·.spanId))).Perm (((store plen ps).filter (fun r => r.traceId == tid)).map (·.spanId)) := by
  intro rows res
  have hperm := traceQuery_perm (store plen ps) tid hn
  have hrow : ∀ r ∈ rows, ∃ rs, readRow cfg fbits r = .span rs ∧ rs.traceId = tid ∧ rs.spanId = r.spanId := by
    intro r hr
    have hm := (hperm.mem_iff).mp hr
    obtain ⟨hs, hf⟩ := List.mem_filter.mp hm
    obtain ⟨p, hp, hrp⟩ := List.mem_flatMap.mp hs
    obtain ⟨rs, h0, h1, h2⟩ := push_rows_read fbits plen p (hg p hp) r hrp
    exact ⟨rs, h0, by rw [h1]; simpa using hf, h2⟩
  have hres : res = (rows.map (rowSpan cfg fbits), .done) :=
    readRows_all_spans cfg fbits rows (fun r hr => by obtain ⟨rs, h, _⟩ := hrow r hr; exact ⟨rs, h⟩)
  refine ⟨hperm, by rw [hres], by rw [hres], ?_, ?_⟩
  · intro x hx
    rw [hres] at hx
    obtain ⟨r, hr, rfl⟩ := List.mem_map.mp hx
    obtain ⟨rs, h0, h1, _⟩ := hrow r hr
    exact ⟨rs, by simp [rowSpan, h0], h1⟩
  · rw [hres]
    have : (rows.map (rowSpan cfg fbits)).filterMap (fun x => x.map (·.spanId)) = rows.map (·.spanId) := by
      rw [List.filterMap_map]
      apply filterMap_eq_map_of
      intro r hr
      obtain ⟨rs, h0, _, h2⟩ := hrow r hr
      simp [rowSpan, h0, h2]
    rw [this]
    exact hperm.map _

/-! ## the JSON view of a returned span (`SpanToJSONSpan`) -/

/-- the JSON answer of the trace endpoint shows a returned span with its ids in lower-case hex, its name, times and
    events unchanged, one attribute per attribute under the same key, the parent omitted exactly when it is empty or
    eight zero bytes (the same rule for both payload types, which share this code); a nil span (unknown payload
    type) faults. -/
theorem json_view (rs : RSpan) :
    jsonView none = none ∧
    ∃ j, jsonView (some rs) = some j ∧ j.traceId = hexEnc rs.traceId ∧ j.spanId = hexEnc rs.spanId ∧ j.name = rs.name ∧
      j.startNs = rs.startNs ∧ j.endNs = rs.endNs ∧ j.events = rs.events ∧ j.status = rs.status ∧
      j.attrs.map (·.1) = rs.attrs.map (·.1) ∧
      (j.parentSpanId = [] ∨ j.parentSpanId = hexEnc rs.parentSpanId) ∧
      (j.parentSpanId = [] ↔ rs.parentSpanId = [] ∨ hexEnc rs.parentSpanId = ascii "0000000000000000") := by
  refine ⟨rfl, _, rfl, rfl, rfl, rfl, rfl, rfl, rfl, rfl, by simp [List.map_map, Function.comp], ?_, ?_⟩
  · show (if _ then _ else _) = [] ∨ (if _ then _ else _) = _
    split <;> simp
  · show (if _ then _ else _) = [] ↔ _
    by_cases hp : rs.parentSpanId = []
    · simp [hp]
    · have hlen : rs.parentSpanId.length > 0 := List.length_pos_iff.mpr hp
      have hne : hexEnc rs.parentSpanId ≠ [] := by
        cases hq : rs.parentSpanId with
        | nil => exact absurd hq hp
        | cons c r => simp [hexEnc]
      by_cases hz : hexEnc rs.parentSpanId = ascii "0000000000000000"
      · simp [hz, hp]
      · simp [hlen, hz, hp, hne]

/-- how an attribute value is shown: strings as they are; bools, ints as `%v` text (so an int attribute reads `"42"` in
    the JSON view while the protobuf view and the stored payload keep the int); bytes in base64; doubles by `%v`;
    lists, kv-lists and missing values through `encoding/json` (empty when they hold a NaN or an infinity) -/
theorem json_view_attr_kinds (st : Str) (b : Bool) (i : Int) (bits : Nat) (by_ : Bytes) :
    jsonAttr (.str st) = .text st ∧ jsonAttr (.bool b) = .text (if b then ascii "true" else ascii "false") ∧
    jsonAttr (.int i) = .text (intDigits i) ∧ jsonAttr (.dbl bits) = .float bits ∧
    jsonAttr (.bytes by_) = .text (B64.encode by_) ∧ jsonAttr .unset = .json .unset :=
  ⟨rfl, rfl, rfl, rfl, rfl, rfl⟩

/-! ## sizes (used by C01: a request with rows has a positive size) -/

/-- every response sent by a span parser accounts at least `spanRowSize` bytes per trace row and `tagRowSize`
    per tag row; so a response with rows has a positive size -/
theorem size_pos_otlp (plen : OSpan → Nat) (td : TracesData) :
    ∀ k ∈ (writeOTLP cfg plen td).chunks, (k.traces ≠ [] → 0 < k.spansSize) ∧ (k.tags ≠ [] → 0 < k.tagsSize) := by
  intro k hk
  obtain ⟨_, _, _, hs, ht⟩ := id_widths
  have := runSpans_sizeOk cfg cfg.otlpType (otlpDec cfg plen)
    (otlpSpans td) () ({} : Builder) (by intro k hk; simp [Builder.chunks] at hk; subst hk; exact ⟨by simp, by simp⟩) k hk
  obtain ⟨h1, h2⟩ := this
  constructor
  · intro hne
    have : 0 < k.traces.length := List.length_pos_iff.mpr hne
    exact Nat.lt_of_lt_of_le (Nat.mul_pos hs this) h1
  · intro hne
    have : 0 < k.tags.length := List.length_pos_iff.mpr hne
    exact Nat.lt_of_lt_of_le (Nat.mul_pos ht this) h2

theorem size_pos_zipkin (f : Framing) (spans : List ZSpan) :
    ∀ k ∈ (writeZipkin cfg f spans).chunks, (k.traces ≠ [] → 0 < k.spansSize) ∧ (k.tags ≠ [] → 0 < k.tagsSize) := by
  intro k hk
  obtain ⟨_, _, _, hs, ht⟩ := id_widths
  have hb : ∀ k ∈ ({} : Builder).chunks, k.sizeOk cfg := by
    intro k hk; simp [Builder.chunks] at hk; subst hk; exact ⟨by simp, by simp⟩
  have : k.sizeOk cfg := by
    cases f with
    | array => exact runSpans_sizeOk cfg cfg.zipkinType (decodeSpan cfg) spans ({} : ZDec) ({} : Builder) hb k hk
    | ndjson => exact runSpans_sizeOk cfg cfg.zipkinNDType (decodeSpan cfg) spans ({} : ZDec) ({} : Builder) hb k hk
  obtain ⟨h1, h2⟩ := this
  constructor
  · intro hne
    have : 0 < k.traces.length := List.length_pos_iff.mpr hne
    exact Nat.lt_of_lt_of_le (Nat.mul_pos hs this) h1
  · intro hne
    have : 0 < k.tags.length := List.length_pos_iff.mpr hne
    exact Nat.lt_of_lt_of_le (Nat.mul_pos ht this) h2

/-! ## non-vacuity: the hypotheses above are met by real documents -/

/-- an OTLP span with `peer.service` and `service.name`, one nested attribute -/
def exOSpan : OSpan :=
  { traceId := List.replicate 16 1, spanId := List.replicate 8 2, parentSpanId := [], name := [110], kind := 3,
    startNs := 5, endNs := 9,
    attrs := [([112, 101, 101, 114, 46, 115, 101, 114, 118, 105, 99, 101], .str [80]),
              ([97], .arr [.int 1, .kvl [([98], .bool true)]])],
    status := none }

def exTraces : TracesData := [⟨[(kServiceName, .str [83])], [[exOSpan], []]⟩]

example : OtlpAccepted exTraces := by
  intro r hr
  simp [otlpSpans, exTraces] at hr
  subst hr
  exact ⟨rfl, rfl, by decide⟩

/-- a `service.name` attribute without a value refuses the whole request -/
example : (writeOTLP cfg (fun _ => 0) [⟨[(kServiceName, .nilp)], [[exOSpan]]⟩]).ok = false := by decide

example : (writeOTLP cfg (fun _ => 0) exTraces).ok = true := by decide

/-- the span is stored under its own service name, not its peer's (A11) -/
example : otlpService [(kServiceName, .str [83])] exOSpan = [83] := by decide

/-- a Zipkin span: 5-digit trace id, upper-case span id, short parent id, string timestamp, remote before local -/
def exZSpan : ZSpan :=
  { fields := [.remoteEndpoint (some ⟨[some [82]], none, none, 0⟩), .id (some [65, 66]), .timestamp (.str [49, 50]),
               .traceId (some [49, 50, 51, 52, 53]), .parentId (some [55]), .other,
               .tags (some [([107], some [118]), ([120], none)]), .localEndpoint (some ⟨[some [76]], none, none, 80⟩),
               .name (some [110]), .annotations (some [(7, [119])])],
    rawLen := 200 }

example : exZSpan.UniqueKeys := by decide
example : exZSpan.Agree := by decide
example : nestedUnique exZSpan.fields = true := by decide
example : exZSpan.fields.all (fieldOk cfg) = true := by decide
example : (specArgs cfg exZSpan).accepted = true := by decide
example : (writeZipkin cfg .ndjson [exZSpan, exZSpan]).ok = true := by decide
/-- local wins over remote whatever the order (A10); the short parent id is padded -/
example : (specArgs cfg exZSpan).svc = [76] ∧ (specArgs cfg exZSpan).parentId = [0, 0, 0, 0, 0, 0, 0, 7] ∧
    (specArgs cfg exZSpan).ts = 12000 := by decide
/-- a span without an `id` member is refused, and so is a span with a non-hex trace id, and one followed by text -/
example : (writeZipkin cfg .array [{ fields := [.traceId (some [49])], rawLen := 10 }]).ok = false := by decide
example : (writeZipkin cfg .array [{ fields := [.traceId (some [103]), .id (some [49])], rawLen := 10 }]).ok = false := by decide
example : (writeZipkin cfg .ndjson [{ fields := [.traceId (some [49]), .id (some [49])], rawLen := 10, tail := [32, 120] }]).ok = false := by decide
example : (writeZipkin cfg .ndjson [{ fields := [.traceId (some [49]), .id (some [49])], rawLen := 10, tail := [32, 9] }]).ok = true := by decide

end Qryn.C06
