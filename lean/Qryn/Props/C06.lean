import Qryn.Ingest.SpanCfg
import Qryn.Proofs.SpanRun
import Qryn.Proofs.SpanZipkin
import Qryn.Proofs.SpanOtlp
/-! # C06 — a stored span reads back as the span that was pushed

Theorems about the span model `Qryn.Span` (writer: Zipkin and OTLP decoders, `onSpan`; reader: `OutputQuery`,
`parseZipkinJSON`, `parseOTLP`) instantiated with the constants read from /repo on this run (`Span.cfg`,
from `Gen.ServiceNames` and `Gen.SpanConsts`). Third-party codecs are trusted: a stored payload is the
document itself (Zipkin: the span text kept verbatim; OTLP: `proto.Unmarshal (proto.Marshal span) = span`). -/
namespace Qryn.C06
open Qryn Qryn.Span

/-! ## what the source text must say (regenerated facts) -/

/-- A11: the OTLP writer (`otlpGetServiceNames`) and the trace reader (`parseOTLP`) resolve the service name
    from the same attribute list, both leave their loop at the first hit, fall back to the same non-empty
    default; `service.name` is one of the names and `remoteService.name` is not. -/
theorem service_name_sources_agree :
    cfg.writerNames = cfg.readerNames ∧ cfg.writerFirst = true ∧ cfg.readerFirst = true ∧
    cfg.writerDefault = cfg.readerDefault ∧ cfg.writerDefault ≠ [] ∧
    kServiceName ∈ cfg.writerNames ∧ kRemoteServiceName ∉ cfg.writerNames := by decide

/-- the payload-type tag each parser writes is the one under which `OutputQuery` dispatches to the matching
    decoder; both Zipkin framings write the same tag; the two tags differ -/
theorem payload_types_agree :
    cfg.readOtlpType = cfg.otlpType ∧ cfg.readZipkinType = cfg.zipkinType ∧ cfg.zipkinNDType = cfg.zipkinType ∧
    cfg.zipkinType ≠ cfg.otlpType := by decide

/-- ids are decoded from 32 / 16 / 16 hex digits, i.e. 16 / 8 / 8 bytes; rows have a positive size -/
theorem id_widths : cfg.traceHex = 32 ∧ cfg.spanHex = 16 ∧ cfg.parentHex = 16 ∧ 0 < cfg.spanRowSize ∧ 0 < cfg.tagRowSize := by
  decide

/-! ## OTLP writer -/

/-- the OTLP requests that are stored: every span has a 16-byte trace id and an 8-byte span id
    (any other request is refused as a whole — A6, property C05) -/
def OtlpAccepted (td : TracesData) : Prop :=
  ∀ r ∈ otlpSpans td, r.2.traceId.length = 16 ∧ r.2.spanId.length = 8

/-- the `onSpan` arguments of every span of a request, in the order of the three nested loops -/
def otlpAllArgs (plen : OSpan → Nat) (td : TracesData) : List Args :=
  (otlpSpans td).map (fun r => otlpArgs cfg plen r.1 r.2)

private theorem otlp_decodeAll (plen : OSpan → Nat) : ∀ (rs : List (List KV × OSpan)),
    decodeAll (fun (_ : Unit) (r : List KV × OSpan) => (.ok ((), otlpArgs cfg plen r.1 r.2) : Except Reject (Unit × Args))) () rs
      = some (rs.map (fun r => otlpArgs cfg plen r.1 r.2)) := by
  intro rs
  induction rs with
  | nil => rfl
  | cons r rs ih => simp [decodeAll, ih]

private theorem otlpArgs_accepted (plen : OSpan → Nat) (ra : List KV) (s : OSpan) :
    (otlpArgs cfg plen ra s).accepted = true ↔ s.traceId.length = 16 ∧ s.spanId.length = 8 := by
  simp [otlpArgs, Args.accepted]

/-- an OTLP request is stored iff all its spans have ids of the right length -/
theorem otlp_accepted_iff (plen : OSpan → Nat) (td : TracesData) :
    (writeOTLP cfg plen td).ok = true ↔ OtlpAccepted td := by
  constructor
  · intro h
    obtain ⟨as, h1, h2, _, _⟩ := runSpans_ok cfg cfg.otlpType _ (otlpSpans td) () {} h
    rw [otlp_decodeAll] at h1
    injection h1 with h1; subst h1
    intro r hr
    exact (otlpArgs_accepted plen r.1 r.2).mp (h2 _ (List.mem_map.mpr ⟨r, hr, rfl⟩))
  · intro h
    apply runSpans_ok_of cfg cfg.otlpType _ (otlpSpans td) () {} _ (otlp_decodeAll plen _)
    intro a ha
    obtain ⟨r, hr, rfl⟩ := List.mem_map.mp ha
    exact (otlpArgs_accepted plen r.1 r.2).mpr (h r hr)

/-- **one_row_per_span (OTLP).** For every stored OTLP request — any number of resource/scope groups, any
    attributes, and wherever the 1 MiB flushes fall — the trace rows sent are exactly one row per span, in
    document order, and the tag rows are exactly the tag rows of those spans, in the same order. -/
theorem one_row_per_span_otlp (plen : OSpan → Nat) (td : TracesData) (h : (writeOTLP cfg plen td).ok = true) :
    (writeOTLP cfg plen td).traces = (otlpAllArgs plen td).map (traceRowOf cfg.otlpType) ∧
    (writeOTLP cfg plen td).tags = (otlpAllArgs plen td).flatMap tagRowsOf ∧
    (writeOTLP cfg plen td).traces.length = (otlpSpans td).length := by
  obtain ⟨as, h1, _, h3, h4⟩ := runSpans_ok cfg cfg.otlpType _ (otlpSpans td) () {} h
  rw [otlp_decodeAll] at h1
  injection h1 with h1; subst h1
  have e1 : (writeOTLP cfg plen td).traces = (otlpAllArgs plen td).map (traceRowOf cfg.otlpType) := by
    rw [Outcome.traces_eq]; unfold writeOTLP; rw [h3]; simp [Builder.chunks, chunksTraces, otlpAllArgs]
  refine ⟨e1, ?_, ?_⟩
  · rw [Outcome.tags_eq]; unfold writeOTLP; rw [h4]; simp [Builder.chunks, chunksTags, otlpAllArgs]
  · rw [e1]; simp [otlpAllArgs]

/-- the attributes stored with an OTLP span: its own, then its resource's, with `service.name` holding the
    resolved service name and `remoteService.name` added when absent -/
def storedAttrs (ra : List KV) (s : OSpan) : List KV := (populate cfg (s.attrs ++ ra)).2

/-- the service name the writer resolves for a span -/
def otlpService (ra : List KV) (s : OSpan) : Str := (populate cfg (s.attrs ++ ra)).1

/-- **ids_times_names (OTLP), trace row.** The row of a span carries the span's trace id, span id, parent,
    name, start (as int64), duration (`end − start` in uint64, as int64), the resolved service name, the OTLP
    payload-type tag and, as payload, the span itself with the stored attributes. -/
theorem ids_times_names_otlp (plen : OSpan → Nat) (ra : List KV) (s : OSpan) :
    let row := traceRowOf cfg.otlpType (otlpArgs cfg plen ra s)
    row.traceId = s.traceId ∧ row.spanId = s.spanId ∧ row.parentId = s.parentSpanId ∧ row.name = s.name ∧
    row.ts = wrap64 s.startNs ∧
    row.dur = wrap64 ((s.endNs + 18446744073709551616 - s.startNs) % 18446744073709551616) ∧
    row.svc = otlpService ra s ∧ row.ptype = cfg.otlpType ∧
    row.payload = .otlp { s with attrs := storedAttrs ra s } := by
  simp [traceRowOf, otlpArgs, otlpService, storedAttrs]

/-- the value of the tag row under key `k` of a span's tag rows (if any) -/
def tagValue (rows : List TagRow) (k : Str) : Option Str := (rows.find? (fun t => t.key == k)).map (·.val)

private theorem tagValue_tagRowsOf (a : Args) (k : Str) : tagValue (tagRowsOf a) k = assocGet a.kv k := by
  unfold tagValue tagRowsOf assocGet
  rw [List.find?_map]
  cases h : a.kv.find? (fun e => e.1 == k) with
  | none =>
    have : List.find? ((fun (t : TagRow) => t.key == k) ∘ fun e => ⟨a.traceId, a.spanId, a.ts, a.dur, dateSecOf a.ts, e.1, e.2⟩) a.kv = none := h
    simp [this]
  | some e =>
    have : List.find? ((fun (t : TagRow) => t.key == k) ∘ fun e => ⟨a.traceId, a.spanId, a.ts, a.dur, dateSecOf a.ts, e.1, e.2⟩) a.kv = some e := h
    simp [this]

/-- **ids_times_names (OTLP), tag rows.** The tag rows of a span all carry the span's trace id, span id, start
    and duration and the start second; there is exactly one row per key; the keys are the flattened
    attribute paths of the stored attributes plus `name` and `service.name`; under `service.name` the resolved
    service name, under `name` the span name, under every other key the last value the flattening writes. -/
theorem tag_rows_otlp (plen : OSpan → Nat) (ra : List KV) (s : OSpan) :
    let a := otlpArgs cfg plen ra s
    let rows := tagRowsOf a
    (∀ t ∈ rows, t.traceId = s.traceId ∧ t.spanId = s.spanId ∧ t.ts = a.ts ∧ t.dur = a.dur ∧ t.dateSec = dateSecOf a.ts) ∧
    (rows.map (·.key)).Nodup ∧
    (∀ k, tagValue rows k =
      if k = kServiceName then some (otlpService ra s)
      else if k = kName then some s.name
      else lastWrite (flattenKvs [] (storedAttrs ra s)) k) := by
  intro a rows
  refine ⟨?_, ?_, ?_⟩
  · intro t ht
    obtain ⟨e, _, rfl⟩ := List.mem_map.mp ht
    exact ⟨rfl, rfl, rfl, rfl, rfl⟩
  · have : rows.map (·.key) = a.kv.map (·.1) := by simp [rows, tagRowsOf]
    rw [this]
    exact assocSet_keys_nodup _ _ _ (assocSet_keys_nodup _ _ _ (assocOfWrites_keys_nodup _))
  · intro k
    rw [tagValue_tagRowsOf]
    show assocGet (mapSet (mapSet (mapOfWrites (flattenKvs [] (storedAttrs ra s))) kName s.name) kServiceName (otlpService ra s)) k = _
    rw [assocGet_set, assocGet_set, assocOfWrites_get]

/-! ## service name: writer and reader -/

private theorem stored_lookup (ra : List KV) (s : OSpan) :
    ∀ n, n ≠ kRemoteServiceName → lookupLast (storedAttrs ra s) n =
      if n = kServiceName then some (.str (otlpService ra s)) else lookupLast (s.attrs ++ ra) n := by
  intro n hn
  unfold storedAttrs otlpService populate
  simp only
  split
  · exact lookupLast_setLast _ _ _ _
  · rw [lookupLast_append_singleton]
    simp only [hn, if_false]
    exact lookupLast_setLast _ _ _ _

/-- **service_name_agrees (OTLP).** For every span and resource — whatever attributes they carry: none of the
    names, several of them, empty or non-string values, duplicated keys — the service name the reader resolves
    from the stored payload is the service name the writer put in the `service_name` column and in the
    `service.name` tag. -/
theorem service_name_agrees_otlp (ra : List KV) (s : OSpan) :
    resolveService cfg.readerNames cfg.readerFirst cfg.readerDefault (firstLevel (storedAttrs ra s)) = otlpService ra s := by
  obtain ⟨h1, h2, h3, h4, h5, h6, h7⟩ := service_name_sources_agree
  have hsvc : otlpService ra s = resolveService cfg.readerNames true cfg.readerDefault (s.attrs ++ ra) := by
    unfold otlpService populate; simp only; rw [h1, h2, h4]
  rw [h3, hsvc]
  apply resolve_stored cfg.readerNames cfg.readerDefault (s.attrs ++ ra) (storedAttrs ra s) (h4 ▸ h5) (h1 ▸ h6)
  intro n hn
  have hne : n ≠ kRemoteServiceName := by
    intro h; apply h7; rw [h1]; exact h ▸ hn
  rw [stored_lookup ra s n hne, hsvc]

/-! ## OTLP read-back -/

/-- **readback (OTLP).** Take any span with a 16/8-byte id pair and any resource attributes; store it
    (`otlpArgs` → trace row) and decode the row with the read path (`OutputQuery` → `parseOTLP`). The result is a
    span — not an error, not a crash — with the pushed trace id, span id, parent, name, kind, start and end;
    its service name is the one in the row's `service_name` column; it has one attribute per key; every key
    other than `service.name` / `remoteService.name` answers with the last attribute the pushed span and its
    resource hold under that key (the whole value tree), and `service.name` answers with the service name. -/
theorem readback_otlp (plen : OSpan → Nat) (ra : List KV) (s : OSpan) :
    ∃ rs, readRow cfg (traceRowOf cfg.otlpType (otlpArgs cfg plen ra s)) = .span rs ∧
      rs.traceId = s.traceId ∧ rs.spanId = s.spanId ∧ rs.parentSpanId = s.parentSpanId ∧ rs.name = s.name ∧
      rs.kind = s.kind ∧ rs.startNs = s.startNs ∧ rs.endNs = s.endNs ∧
      rs.serviceName = (traceRowOf cfg.otlpType (otlpArgs cfg plen ra s)).svc ∧
      (rs.attrs.map (·.1)).Nodup ∧
      assocGet rs.attrs kServiceName = some (.str rs.serviceName) ∧
      (∀ k, k ≠ kServiceName → k ≠ kRemoteServiceName → assocGet rs.attrs k = lookupLast (s.attrs ++ ra) k) := by
  obtain ⟨hp1, hp2, hp3, hp4⟩ := payload_types_agree
  have hz : ¬ (cfg.otlpType = cfg.readZipkinType) := by rw [hp2]; exact fun h => hp4 h.symm
  have hsvc := service_name_agrees_otlp ra s
  refine ⟨⟨s.traceId, s.spanId, s.parentSpanId, s.name, s.kind, s.startNs, s.endNs,
    assocSet (firstLevel (storedAttrs ra s)) kServiceName
      (.str (resolveService cfg.readerNames cfg.readerFirst cfg.readerDefault (firstLevel (storedAttrs ra s)))),
    s.status.getD (0, []),
    resolveService cfg.readerNames cfg.readerFirst cfg.readerDefault (firstLevel (storedAttrs ra s))⟩,
    ?_, rfl, rfl, rfl, rfl, rfl, rfl, rfl, ?_, ?_, ?_, ?_⟩
  · simp only [readRow, traceRowOf, hz, if_false, hp1, if_true, parseOTLP, otlpArgs]
    rfl
  · show resolveService cfg.readerNames cfg.readerFirst cfg.readerDefault (firstLevel (storedAttrs ra s)) = otlpService ra s
    exact hsvc
  · exact assocSet_keys_nodup _ _ _ (assocOfWrites_keys_nodup _)
  · show assocGet (assocSet (firstLevel (storedAttrs ra s)) kServiceName _) kServiceName = _
    rw [assocGet_set]; simp
  · intro k hk1 hk2
    show assocGet (assocSet (firstLevel (storedAttrs ra s)) kServiceName _) k = _
    rw [assocGet_set]
    simp only [hk1, if_false]
    rw [show assocGet (firstLevel (storedAttrs ra s)) k = lastWrite (storedAttrs ra s) k from assocOfWrites_get _ _]
    rw [← lookupLast_eq_lastWrite, stored_lookup ra s k hk2]
    simp [hk1]

/-- reading a list of rows each of which decodes to a span yields all of them and ends normally -/
private theorem readRows_all (rows : List TraceRow) (h : ∀ r ∈ rows, ∃ s, readRow cfg r = .span s) :
    (readRows cfg rows).2 = .done ∧ (readRows cfg rows).1.length = rows.length ∧ ∀ x ∈ (readRows cfg rows).1, x.isSome := by
  induction rows with
  | nil => simp [readRows]
  | cons r rs ih =>
    obtain ⟨s, hs⟩ := h r (by simp)
    have ih' := ih (fun x hx => h x (by simp [hx]))
    simp only [readRows, hs]
    refine ⟨ih'.1, by simp [ih'.2.1], ?_⟩
    intro x hx
    rcases List.mem_cons.mp hx with rfl | hx
    · rfl
    · exact ih'.2.2 x hx

/-- **readback (OTLP), whole request.** Reading back the rows of a stored OTLP request returns one span per
    row and the stream ends normally (no decode error cuts the trace short, no crash). -/
theorem readback_otlp_request (plen : OSpan → Nat) (td : TracesData) (h : (writeOTLP cfg plen td).ok = true) :
    (readRows cfg (writeOTLP cfg plen td).traces).2 = .done ∧
    (readRows cfg (writeOTLP cfg plen td).traces).1.length = (otlpSpans td).length ∧
    ∀ x ∈ (readRows cfg (writeOTLP cfg plen td).traces).1, x.isSome := by
  obtain ⟨h1, _, h3⟩ := one_row_per_span_otlp plen td h
  have := readRows_all (writeOTLP cfg plen td).traces (by
    intro r hr
    rw [h1] at hr
    obtain ⟨a, ha, rfl⟩ := List.mem_map.mp hr
    obtain ⟨x, _, rfl⟩ := List.mem_map.mp ha
    obtain ⟨rs, hrs, _⟩ := readback_otlp plen x.1 x.2
    exact ⟨rs, hrs⟩)
  exact ⟨this.1, by rw [this.2.1, h3], this.2.2⟩

/-- A12: an OTLP row with an empty payload is a decode error that ends the stream; it is not a crash -/
theorem empty_otlp_payload_is_error (row : TraceRow) (h1 : row.ptype = cfg.readOtlpType) (h2 : row.payload = .empty)
    (rest : List TraceRow) : readRows cfg (row :: rest) = ([], .stopped) := by
  have hz : ¬ (cfg.readOtlpType = cfg.readZipkinType) := by
    obtain ⟨hp1, hp2, _, hp4⟩ := payload_types_agree
    rw [hp1, hp2]; exact fun h => hp4 h.symm
  simp [readRows, readRow, hz, h1, parseOTLP, h2]

/-! ## Zipkin writer -/

/-- every member of every span is one the writer accepts -/
def zipkinAllOk (spans : List ZSpan) : Bool := spans.all (fun s => s.fields.all (fieldOk cfg))

private theorem zipkin_decodeAll : ∀ (spans : List ZSpan) (d : ZDec), (∀ s ∈ spans, s.UniqueKeys) →
    decodeAll (decodeSpan cfg) d spans = if zipkinAllOk spans then some (spans.map (specArgs cfg)) else none := by
  intro spans
  induction spans with
  | nil => intro d _; rfl
  | cons r rs ih =>
    intro d hu
    have hspec := decodeSpan_spec cfg d r (hu r (by simp))
    have ih' := fun d' => ih d' (fun s hs => hu s (by simp [hs]))
    have hcons : zipkinAllOk (r :: rs) = (r.fields.all (fieldOk cfg) && zipkinAllOk rs) := by
      simp [zipkinAllOk]
    unfold decodeAll
    cases hd : decodeSpan cfg d r with
    | error e =>
      rw [hd] at hspec
      by_cases hall : r.fields.all (fieldOk cfg) = true
      · rw [hall] at hspec; cases hspec
      · have hall' : r.fields.all (fieldOk cfg) = false := Bool.eq_false_iff.mpr hall
        rw [hcons, hall']; rfl
    | ok p =>
      obtain ⟨d', a⟩ := p
      rw [hd] at hspec
      by_cases hall : r.fields.all (fieldOk cfg) = true
      · rw [hall] at hspec
        simp only [Except.map, if_true, Except.ok.injEq] at hspec
        subst hspec
        simp only [ih' d']
        rw [hcons, hall, Bool.true_and]
        cases zipkinAllOk rs <;> simp
      · have hall' : r.fields.all (fieldOk cfg) = false := Bool.eq_false_iff.mpr hall
        rw [hall'] at hspec
        simp [Except.map] at hspec

/-- a Zipkin request (spans with unique member names) is stored iff every member of every span is accepted
    and every span has a trace id and a span id (then they are 16 and 8 bytes, see `zipkin_ids_16_8`) -/
theorem zipkin_accepted_iff (f : Framing) (spans : List ZSpan) (hu : ∀ s ∈ spans, s.UniqueKeys) :
    (writeZipkin cfg f spans).ok = true ↔
      zipkinAllOk spans = true ∧ ∀ s ∈ spans, (specArgs cfg s).accepted = true := by
  have hrun : ∀ pt, (runSpans cfg pt (decodeSpan cfg) {} {} spans).ok = true ↔
      zipkinAllOk spans = true ∧ ∀ s ∈ spans, (specArgs cfg s).accepted = true := by
    intro pt
    constructor
    · intro h
      obtain ⟨as, h1, h2, _, _⟩ := runSpans_ok cfg pt (decodeSpan cfg) spans ({} : ZDec) ({} : Builder) h
      rw [zipkin_decodeAll spans ({} : ZDec) hu] at h1
      by_cases hall : zipkinAllOk spans = true
      · simp only [hall, if_true, Option.some.injEq] at h1; subst h1
        exact ⟨hall, fun s hs => h2 _ (List.mem_map.mpr ⟨s, hs, rfl⟩)⟩
      · simp [hall] at h1
    · rintro ⟨hall, hacc⟩
      apply runSpans_ok_of cfg pt (decodeSpan cfg) spans ({} : ZDec) ({} : Builder) (spans.map (specArgs cfg))
      · rw [zipkin_decodeAll spans ({} : ZDec) hu]; simp [hall]
      · intro a ha; obtain ⟨s, hs, rfl⟩ := List.mem_map.mp ha; exact hacc s hs
  cases f <;> exact hrun _

/-- **one_row_per_span (Zipkin).** For every stored Zipkin request, in either framing, with the members of each
    span in any order: the trace rows sent are exactly one row per span, in document order, built from the
    span's members looked up by name (`specArgs`), and the tag rows are exactly those spans' tag rows. -/
theorem one_row_per_span_zipkin (f : Framing) (spans : List ZSpan) (hu : ∀ s ∈ spans, s.UniqueKeys)
    (h : (writeZipkin cfg f spans).ok = true) :
    (writeZipkin cfg f spans).traces = spans.map (fun s => traceRowOf cfg.zipkinType (specArgs cfg s)) ∧
    (writeZipkin cfg f spans).tags = spans.flatMap (fun s => tagRowsOf (specArgs cfg s)) ∧
    (writeZipkin cfg f spans).traces.length = spans.length := by
  obtain ⟨_, _, hnd, _⟩ := payload_types_agree
  have hrun : ∀ pt, (runSpans cfg pt (decodeSpan cfg) {} {} spans).ok = true →
      (runSpans cfg pt (decodeSpan cfg) {} {} spans).traces = spans.map (fun s => traceRowOf pt (specArgs cfg s)) ∧
      (runSpans cfg pt (decodeSpan cfg) {} {} spans).tags = spans.flatMap (fun s => tagRowsOf (specArgs cfg s)) := by
    intro pt h
    obtain ⟨as, h1, _, h3, h4⟩ := runSpans_ok cfg pt (decodeSpan cfg) spans ({} : ZDec) ({} : Builder) h
    rw [zipkin_decodeAll spans ({} : ZDec) hu] at h1
    by_cases hall : zipkinAllOk spans = true
    · simp only [hall, if_true, Option.some.injEq] at h1; subst h1
      constructor
      · rw [Outcome.traces_eq, h3]; simp [Builder.chunks, chunksTraces]
      · rw [Outcome.tags_eq, h4]; simp [Builder.chunks, chunksTags, List.flatMap_map]
    · simp [hall] at h1
  have key : (writeZipkin cfg f spans).traces = spans.map (fun s => traceRowOf cfg.zipkinType (specArgs cfg s)) ∧
      (writeZipkin cfg f spans).tags = spans.flatMap (fun s => tagRowsOf (specArgs cfg s)) := by
    cases f with
    | array => exact hrun _ h
    | ndjson =>
      have := hrun cfg.zipkinNDType h
      rw [hnd] at this
      exact this
  exact ⟨key.1, key.2, by rw [key.1]; simp⟩

/-- **framing_independent.** The JSON-array framing and the newline-delimited framing of the same spans give
    the same responses: same rows, same tag rows, same chunks, same outcome. -/
theorem framing_independent (spans : List ZSpan) :
    writeZipkin cfg .array spans = writeZipkin cfg .ndjson spans := by
  obtain ⟨_, _, hnd, _⟩ := payload_types_agree
  simp only [writeZipkin, hnd]

/-- no per-span state survives from one span to the next: what `decodeSpan` hands to `onSpan` and leaves in the
    decoder does not depend on what earlier spans left there (A9) -/
theorem span_state_independent (d d' : ZDec) (raw : ZSpan) : decodeSpan cfg d raw = decodeSpan cfg d' raw := rfl

/-- **ids_times_names (Zipkin): the `onSpan` arguments by member name.** Whatever the order of the members:
    the ids are the hex members `traceId`/`id`/`parentId` decoded with the writer's padding rule, start and
    duration are the `timestamp`/`duration` members (number or string) times 1000, the name is the `name`
    member, the service name is `localEndpoint.serviceName` unless empty or absent, then
    `remoteEndpoint.serviceName` (A10); the tag rows are the members' tags in document order followed by
    `service.name`; the payload is the span text. Absent members give zero values. -/
theorem zipkin_args_by_name (raw : ZSpan) :
    let a := specArgs cfg raw
    let fs := raw.fields
    a.traceId = (match zFind fs fTraceId with | some h => hexVal h cfg.traceHex | none => []) ∧
    a.spanId = (match zFind fs fId with | some h => hexVal h cfg.spanHex | none => []) ∧
    a.parentId = (match zFind fs fParentId with | some h => hexVal h cfg.parentHex | none => []) ∧
    a.ts = (match zFind fs fTimestamp with | some v => timeVal v | none => 0) ∧
    a.dur = (match zFind fs fDuration with | some v => timeVal v | none => 0) ∧
    a.name = (match zFind fs fName with | some v => v.getD [] | none => []) ∧
    a.svc = (if epSvc ((zFind fs fLocal).getD none) = [] then epSvc ((zFind fs fRemote).getD none)
             else epSvc ((zFind fs fLocal).getD none)) ∧
    a.kv = fs.flatMap fieldKv ++ [(kServiceName, a.svc)] ∧
    a.payload = .zipkin raw ∧ a.payloadLen = raw.rawLen := by
  intro a fs
  refine ⟨?_, ?_, rfl, rfl, rfl, rfl, ?_, ?_, rfl, rfl⟩
  · show (match zFind fs fTraceId with | some h => some (hexVal h cfg.traceHex) | none => none).getD [] = _
    cases zFind fs fTraceId <;> rfl
  · show (match zFind fs fId with | some h => some (hexVal h cfg.spanHex) | none => none).getD [] = _
    cases zFind fs fId <;> rfl
  · show (if (match zFind fs fLocal with | some e => epSvc e | none => []) = [] then
        (match zFind fs fRemote with | some e => epSvc e | none => []) else
        (match zFind fs fLocal with | some e => epSvc e | none => [])) = _
    cases zFind fs fLocal <;> cases zFind fs fRemote <;> rfl
  · show ([] ++ fs.flatMap fieldKv) ++ [(kServiceName, a.svc)] = _
    simp

private theorem zFind_mem {α} {fs : List ZField} {g : ZField → Option α} {v : α} (h : zFind fs g = some v) :
    ∃ x ∈ fs, g x = some v := List.exists_of_findSome?_eq_some h

private theorem hex_member_ok {fs : List ZField} (hok : fs.all (fieldOk cfg) = true) {g : ZField → Option JStr} {w : Nat}
    (hg : ∀ x h, g x = some h → fieldOk cfg x = hexOk h w) {h : JStr} (hf : zFind fs g = some h) :
    ∃ hx r, h = some hx ∧ decodeHexStr hx w = .ok r ∧ hexVal h w = r := by
  obtain ⟨x, hx, hgx⟩ := zFind_mem hf
  have := List.all_eq_true.mp hok x hx
  rw [hg x h hgx] at this
  cases h with
  | none => simp [hexOk] at this
  | some hs =>
    simp only [hexOk] at this
    cases hd : decodeHexStr hs w with
    | ok r => exact ⟨hs, r, rfl, hd, by simp [hexVal, hd]⟩
    | error e => simp [hd] at this

/-- **16-byte trace id, 8-byte span id.** In a span all of whose members are accepted, a present `traceId`
    member of any length 1–∞ hex digits gives exactly 16 bytes, a present `id` member exactly 8, a present
    `parentId` exactly 8; the span is accepted iff it has both a `traceId` and an `id` member. -/
theorem zipkin_ids_16_8 (raw : ZSpan) (hok : raw.fields.all (fieldOk cfg) = true) :
    let a := specArgs cfg raw
    ((zFind raw.fields fTraceId).isSome → a.traceId.length = 16) ∧
    ((zFind raw.fields fId).isSome → a.spanId.length = 8) ∧
    ((zFind raw.fields fParentId).isSome → a.parentId.length = 8) ∧
    (a.accepted = true ↔ (zFind raw.fields fTraceId).isSome ∧ (zFind raw.fields fId).isSome) := by
  intro a
  obtain ⟨e1, e2, e3, _⟩ := zipkin_args_by_name raw
  obtain ⟨w1, w2, w3, _⟩ := id_widths
  have h1 : (zFind raw.fields fTraceId).isSome → a.traceId.length = 16 := by
    intro hs
    obtain ⟨h, hh⟩ := Option.isSome_iff_exists.mp hs
    obtain ⟨hx, r, _, hd, hv⟩ := hex_member_ok hok (g := fTraceId) (w := cfg.traceHex)
      (by intro x h hx; cases x <;> simp_all [fTraceId, fieldOk]) hh
    have := decodeHexStr_length hd
    show (specArgs cfg raw).traceId.length = 16
    rw [e1, hh]; simp only [hv]; omega
  have h2 : (zFind raw.fields fId).isSome → a.spanId.length = 8 := by
    intro hs
    obtain ⟨h, hh⟩ := Option.isSome_iff_exists.mp hs
    obtain ⟨hx, r, _, hd, hv⟩ := hex_member_ok hok (g := fId) (w := cfg.spanHex)
      (by intro x h hx; cases x <;> simp_all [fId, fieldOk]) hh
    have := decodeHexStr_length hd
    show (specArgs cfg raw).spanId.length = 8
    rw [e2, hh]; simp only [hv]; omega
  have h3 : (zFind raw.fields fParentId).isSome → a.parentId.length = 8 := by
    intro hs
    obtain ⟨h, hh⟩ := Option.isSome_iff_exists.mp hs
    obtain ⟨hx, r, _, hd, hv⟩ := hex_member_ok hok (g := fParentId) (w := cfg.parentHex)
      (by intro x h hx; cases x <;> simp_all [fParentId, fieldOk]) hh
    have := decodeHexStr_length hd
    show (specArgs cfg raw).parentId.length = 8
    rw [e3, hh]; simp only [hv]; omega
  refine ⟨h1, h2, h3, ?_⟩
  constructor
  · intro hacc
    have hacc' : (specArgs cfg raw).traceId.length = 16 ∧ (specArgs cfg raw).spanId.length = 8 := by
      simpa [Args.accepted] using hacc
    constructor
    · cases hz : zFind raw.fields fTraceId with
      | some _ => rfl
      | none => rw [e1, hz] at hacc'; simp at hacc'
    · cases hz : zFind raw.fields fId with
      | some _ => rfl
      | none => rw [e2, hz] at hacc'; simp at hacc'
  · rintro ⟨ha, hb⟩
    have := h1 ha; have := h2 hb
    simp_all [Args.accepted, a]

/-- the tag rows of a Zipkin span all carry its ids and times -/
theorem tag_rows_zipkin (raw : ZSpan) :
    let a := specArgs cfg raw
    ∀ t ∈ tagRowsOf a, t.traceId = a.traceId ∧ t.spanId = a.spanId ∧ t.ts = a.ts ∧ t.dur = a.dur ∧ t.dateSec = dateSecOf a.ts := by
  intro a t ht
  obtain ⟨e, _, rfl⟩ := List.mem_map.mp ht
  exact ⟨rfl, rfl, rfl, rfl, rfl⟩

/-- **any field order.** Two span objects with the same members in different orders (member names unique) are
    accepted or refused alike and give the same trace row (up to the payload, which is each span's own text) and
    the same tag rows up to their order. -/
theorem field_order_irrelevant (raw raw' : ZSpan) (hp : raw.fields.Perm raw'.fields) (hu : raw.UniqueKeys) :
    let a := specArgs cfg raw
    let a' := specArgs cfg raw'
    raw.fields.all (fieldOk cfg) = raw'.fields.all (fieldOk cfg) ∧
    a.traceId = a'.traceId ∧ a.spanId = a'.spanId ∧ a.parentId = a'.parentId ∧ a.ts = a'.ts ∧ a.dur = a'.dur ∧
    a.name = a'.name ∧ a.svc = a'.svc ∧ a.kv.Perm a'.kv ∧ (tagRowsOf a).Perm (tagRowsOf a') := by
  intro a a'
  obtain ⟨e1, e2, e3, e4, e5, e6, e7, e8, _⟩ := zipkin_args_by_name raw
  obtain ⟨f1, f2, f3, f4, f5, f6, f7, f8, _⟩ := zipkin_args_by_name raw'
  have p1 := zFind_perm fTraceId 0 fTraceId_slot hp hu
  have p2 := zFind_perm fId 1 fId_slot hp hu
  have p3 := zFind_perm fParentId 2 fParentId_slot hp hu
  have p4 := zFind_perm fTimestamp 3 fTimestamp_slot hp hu
  have p5 := zFind_perm fDuration 4 fDuration_slot hp hu
  have p6 := zFind_perm fName 5 fName_slot hp hu
  have p7 := zFind_perm fLocal 6 fLocal_slot hp hu
  have p8 := zFind_perm fRemote 7 fRemote_slot hp hu
  have hsvc : a.svc = a'.svc := by
    show (specArgs cfg raw).svc = (specArgs cfg raw').svc
    rw [e7, f7, p7, p8]
  have hkv : a.kv.Perm a'.kv := by
    show (specArgs cfg raw).kv.Perm (specArgs cfg raw').kv
    rw [e8, f8, hsvc]
    exact List.Perm.append_right _ (List.Perm.flatMap_right _ hp)
  have hid1 : a.traceId = a'.traceId := by
    show (specArgs cfg raw).traceId = (specArgs cfg raw').traceId
    rw [e1, f1, p1]
  have hid2 : a.spanId = a'.spanId := by
    show (specArgs cfg raw).spanId = (specArgs cfg raw').spanId
    rw [e2, f2, p2]
  have hts : a.ts = a'.ts := by
    show (specArgs cfg raw).ts = (specArgs cfg raw').ts
    rw [e4, f4, p4]
  have hdur : a.dur = a'.dur := by
    show (specArgs cfg raw).dur = (specArgs cfg raw').dur
    rw [e5, f5, p5]
  refine ⟨List.Perm.all_eq hp, hid1, hid2, ?_, hts, hdur, ?_, hsvc, hkv, ?_⟩
  · show (specArgs cfg raw).parentId = (specArgs cfg raw').parentId
    rw [e3, f3, p3]
  · show (specArgs cfg raw).name = (specArgs cfg raw').name
    rw [e6, f6, p6]
  · unfold tagRowsOf
    rw [hid1, hid2, hts, hdur]
    exact List.Perm.map _ hkv

/-! ## Zipkin read-back -/

/-- the string-valued tags of a span document, as attributes, in document order -/
def zipkinTagAttrs (raw : ZSpan) : List KV :=
  (tagsKv ((zFind raw.fields fTags).getD none)).map (fun e => (e.1, AnyValue.str e.2))

private theorem epSvc_eq (n : String) (e : Option Endpoint) : epSvc e = ((epAttrs n e).2).getD [] := by
  cases e with
  | none => rfl
  | some e => obtain ⟨sn, v4, v6, port⟩ := e; cases sn <;> rfl

private theorem svc_reader_eq (l r : Option Str) :
    (match l with | some s => if s = [] then r.getD [] else s | none => r.getD []) =
    (if l.getD [] = [] then r.getD [] else l.getD []) := by
  cases l with
  | none => simp
  | some s => by_cases hs : s = [] <;> simp [hs]

/-- **readback (Zipkin).** Take any accepted span document (all members accepted, `traceId` and `id` present),
    members in any order. Store it (`specArgs` → trace row) and decode the row with the read path
    (`OutputQuery` → `parseZipkinJSON`). The result is a span — not an error, not a crash — whose trace id, span
    id and parent are those of the row (so a `parentId` of any length reads back as the padded id the writer
    stored), whose name is the pushed name, whose start/end are the row's start and start+duration, whose
    service name is the row's `service_name`; its attributes start with the span's string tags in document
    order and end with `service.name` = that service name; and each of those tags is also a tag row. -/
theorem readback_zipkin (raw : ZSpan) (hok : raw.fields.all (fieldOk cfg) = true)
    (hacc : (specArgs cfg raw).accepted = true) :
    let a := specArgs cfg raw
    ∃ rs, readRow cfg (traceRowOf cfg.zipkinType a) = .span rs ∧
      rs.traceId = a.traceId ∧ rs.spanId = a.spanId ∧ rs.parentSpanId = a.parentId ∧ rs.name = a.name ∧
      rs.startNs = toU64 a.ts ∧ rs.endNs = toU64 (wrap64 (a.ts + a.dur)) ∧ rs.serviceName = a.svc ∧
      (∃ mid, rs.attrs = zipkinTagAttrs raw ++ mid ++ [(kServiceName, .str a.svc)]) ∧
      (∀ e ∈ tagsKv ((zFind raw.fields fTags).getD none), e ∈ a.kv) := by
  intro a
  obtain ⟨hp1, hp2, hp3, hp4⟩ := payload_types_agree
  obtain ⟨e1, e2, e3, e4, e5, e6, e7, e8, e9, _⟩ := zipkin_args_by_name raw
  obtain ⟨_, _, w3, _⟩ := id_widths
  have hlen : a.traceId.length = 16 ∧ a.spanId.length = 8 := by simpa [Args.accepted] using hacc
  have h16 : (traceRowOf cfg.zipkinType a).traceId.length = 16 := hlen.1
  have h8 : (traceRowOf cfg.zipkinType a).spanId.length = 8 := hlen.2
  have hpay : (traceRowOf cfg.zipkinType a).payload = .zipkin raw := e9
  have hread : readRow cfg (traceRowOf cfg.zipkinType a) = parseZipkinJSON (traceRowOf cfg.zipkinType a) := by
    simp [readRow, traceRowOf, hp2]
  rw [hread]
  unfold parseZipkinJSON
  rw [hpay]
  simp only [h16, h8, Nat.lt_irrefl, or_self, if_false, List.take_of_length_le (Nat.le_of_eq h16),
    List.take_of_length_le (Nat.le_of_eq h8)]
  have hsvc : (match (epAttrs "localEndpoint" ((zFind raw.fields fLocal).getD none)).snd with
      | some s => if s = [] then (epAttrs "remoteEndpoint" ((zFind raw.fields fRemote).getD none)).snd.getD [] else s
      | none => (epAttrs "remoteEndpoint" ((zFind raw.fields fRemote).getD none)).snd.getD []) = a.svc := by
    rw [svc_reader_eq, ← epSvc_eq, ← epSvc_eq]
    exact e7.symm
  refine ⟨_, rfl, rfl, rfl, ?_, ?_, rfl, rfl, hsvc, ?_, ?_⟩
  · -- parent
    show (match (zFind raw.fields fParentId).getD none with | some h => (decodeParentId h).getD [] | none => []) = (specArgs cfg raw).parentId
    rw [e3]
    cases hz : zFind raw.fields fParentId with
    | none => rfl
    | some h =>
      obtain ⟨hx, r, rfl, hd, hv⟩ := hex_member_ok hok (g := fParentId) (w := cfg.parentHex)
        (by intro x h hx; cases x <;> simp_all [fParentId, fieldOk]) hz
      rw [w3] at hd
      simp only [Option.getD_some, hv, decodeParentId_eq hd]
  · -- name
    show Option.getD ((zFind raw.fields fName).getD none) [] = (specArgs cfg raw).name
    rw [e6]
    cases zFind raw.fields fName <;> rfl
  · refine ⟨(epAttrs "localEndpoint" ((zFind raw.fields fLocal).getD none)).fst ++
        (epAttrs "remoteEndpoint" ((zFind raw.fields fRemote).getD none)).fst, ?_⟩
    have e7' : a.svc =
        if ((epAttrs "localEndpoint" ((zFind raw.fields fLocal).getD none)).2).getD [] = []
        then ((epAttrs "remoteEndpoint" ((zFind raw.fields fRemote).getD none)).2).getD []
        else ((epAttrs "localEndpoint" ((zFind raw.fields fLocal).getD none)).2).getD [] := by
      rw [← epSvc_eq, ← epSvc_eq]; exact e7
    rw [e7']
    unfold zipkinTagAttrs tagsKv
    generalize (epAttrs "localEndpoint" ((zFind raw.fields fLocal).getD none)).snd = l
    generalize (epAttrs "remoteEndpoint" ((zFind raw.fields fRemote).getD none)).snd = r
    have hl : (match l with | some s => if s = [] then r.getD [] else s | none => r.getD []) =
        (if l.getD [] = [] then r.getD [] else l.getD []) := svc_reader_eq l r
    cases (zFind raw.fields fTags).getD none with
    | none =>
      cases l with
      | none => simp
      | some s => by_cases hs : s = [] <;> simp [hs]
    | some ts =>
      have hm : (ts.filterMap (fun t => t.2.map (fun v => (t.1, v)))).map (fun e => (e.1, AnyValue.str e.2)) =
          ts.filterMap (fun t => t.2.map (fun v => (t.1, AnyValue.str v))) := by
        rw [List.map_filterMap]
        congr 1
        funext t
        cases t.2 <;> rfl
      simp only [hm]
      cases l with
      | none => simp
      | some s => by_cases hs : s = [] <;> simp [hs]
  · intro e he
    show e ∈ (specArgs cfg raw).kv
    rw [e8]
    cases hz : zFind raw.fields fTags with
    | none => rw [hz] at he; simp [tagsKv] at he
    | some t =>
      rw [hz] at he
      obtain ⟨x, hx, hgx⟩ := zFind_mem hz
      have hxe : x = .tags t := by cases x <;> simp_all [fTags]
      subst hxe
      apply List.mem_append_left
      exact List.mem_flatMap.mpr ⟨_, hx, he⟩

/-- **service_name_agrees (Zipkin).** Writer and reader resolve a Zipkin span's service name alike:
    `localEndpoint.serviceName` when present and non-empty, else `remoteEndpoint.serviceName`, else "" (A10). -/
theorem service_name_agrees_zipkin (raw : ZSpan) (hok : raw.fields.all (fieldOk cfg) = true)
    (hacc : (specArgs cfg raw).accepted = true) :
    ∃ rs, readRow cfg (traceRowOf cfg.zipkinType (specArgs cfg raw)) = .span rs ∧ rs.serviceName = (specArgs cfg raw).svc := by
  obtain ⟨rs, h, _, _, _, _, _, _, hs, _⟩ := readback_zipkin raw hok hacc
  exact ⟨rs, h, hs⟩

/-- **readback (Zipkin), whole request.** Reading back the rows of a stored Zipkin request (either framing)
    returns one span per row and the stream ends normally. -/
theorem readback_zipkin_request (f : Framing) (spans : List ZSpan) (hu : ∀ s ∈ spans, s.UniqueKeys)
    (h : (writeZipkin cfg f spans).ok = true) :
    (readRows cfg (writeZipkin cfg f spans).traces).2 = .done ∧
    (readRows cfg (writeZipkin cfg f spans).traces).1.length = spans.length ∧
    ∀ x ∈ (readRows cfg (writeZipkin cfg f spans).traces).1, x.isSome := by
  obtain ⟨h1, _, h3⟩ := one_row_per_span_zipkin f spans hu h
  obtain ⟨hall, hacc⟩ := (zipkin_accepted_iff f spans hu).mp h
  have := readRows_all (writeZipkin cfg f spans).traces (by
    intro r hr
    rw [h1] at hr
    obtain ⟨s, hs, rfl⟩ := List.mem_map.mp hr
    have hok : s.fields.all (fieldOk cfg) = true := List.all_eq_true.mp hall s hs
    obtain ⟨rs, hrs, _⟩ := readback_zipkin s hok (hacc s hs)
    exact ⟨rs, hrs⟩)
  exact ⟨this.1, by rw [this.2.1, h3], this.2.2⟩

/-! ## sizes (used by C01: a request with rows has a positive size) -/

/-- every response sent by a span parser accounts at least `spanRowSize` bytes per trace row and `tagRowSize`
    per tag row; so a response with rows has a positive size -/
theorem size_pos_otlp (plen : OSpan → Nat) (td : TracesData) :
    ∀ k ∈ (writeOTLP cfg plen td).chunks, (k.traces ≠ [] → 0 < k.spansSize) ∧ (k.tags ≠ [] → 0 < k.tagsSize) := by
  intro k hk
  obtain ⟨_, _, _, hs, ht⟩ := id_widths
  have := runSpans_sizeOk cfg cfg.otlpType
    (fun (_ : Unit) (r : List KV × OSpan) => (.ok ((), otlpArgs cfg plen r.1 r.2) : Except Reject (Unit × Args)))
    (otlpSpans td) () ({} : Builder) (by intro k hk; simp [Builder.chunks] at hk; subst hk; exact ⟨by simp, by simp⟩) k hk
  obtain ⟨h1, h2⟩ := this
  constructor
  · intro hne
    have : 0 < k.traces.length := List.length_pos_iff.mpr hne
    exact Nat.lt_of_lt_of_le (Nat.mul_pos hs this) h1
  · intro hne
    have : 0 < k.tags.length := List.length_pos_iff.mpr hne
    exact Nat.lt_of_lt_of_le (Nat.mul_pos ht this) h2

theorem size_pos_zipkin (f : Framing) (spans : List ZSpan) :
    ∀ k ∈ (writeZipkin cfg f spans).chunks, (k.traces ≠ [] → 0 < k.spansSize) ∧ (k.tags ≠ [] → 0 < k.tagsSize) := by
  intro k hk
  obtain ⟨_, _, _, hs, ht⟩ := id_widths
  have hb : ∀ k ∈ ({} : Builder).chunks, k.sizeOk cfg := by
    intro k hk; simp [Builder.chunks] at hk; subst hk; exact ⟨by simp, by simp⟩
  have : k.sizeOk cfg := by
    cases f with
    | array => exact runSpans_sizeOk cfg cfg.zipkinType (decodeSpan cfg) spans ({} : ZDec) ({} : Builder) hb k hk
    | ndjson => exact runSpans_sizeOk cfg cfg.zipkinNDType (decodeSpan cfg) spans ({} : ZDec) ({} : Builder) hb k hk
  obtain ⟨h1, h2⟩ := this
  constructor
  · intro hne
    have : 0 < k.traces.length := List.length_pos_iff.mpr hne
    exact Nat.lt_of_lt_of_le (Nat.mul_pos hs this) h1
  · intro hne
    have : 0 < k.tags.length := List.length_pos_iff.mpr hne
    exact Nat.lt_of_lt_of_le (Nat.mul_pos ht this) h2

/-! ## non-vacuity: the hypotheses above are met by real documents -/

/-- an OTLP span with `peer.service` and `service.name`, one nested attribute -/
def exOSpan : OSpan :=
  { traceId := List.replicate 16 1, spanId := List.replicate 8 2, parentSpanId := [], name := [110], kind := 3,
    startNs := 5, endNs := 9,
    attrs := [([112, 101, 101, 114, 46, 115, 101, 114, 118, 105, 99, 101], .str [80]),
              ([97], .arr [.int 1, .kvl [([98], .bool true)]])],
    status := none }

def exTraces : TracesData := [⟨[(kServiceName, .str [83])], [[exOSpan], []]⟩]

example : OtlpAccepted exTraces := by
  intro r hr
  simp [otlpSpans, exTraces] at hr
  subst hr
  exact ⟨rfl, rfl⟩

example : (writeOTLP cfg (fun _ => 0) exTraces).ok = true := by decide

/-- the span is stored under its own service name, not its peer's (A11) -/
example : otlpService [(kServiceName, .str [83])] exOSpan = [83] := by decide

/-- a Zipkin span: 5-digit trace id, upper-case span id, short parent id, string timestamp, remote before local -/
def exZSpan : ZSpan :=
  { fields := [.remoteEndpoint (some ⟨.str [82], none, none, 0⟩), .id (some [65, 66]), .timestamp (.str [49, 50]),
               .traceId (some [49, 50, 51, 52, 53]), .parentId (some [55]), .other,
               .tags (some [([107], some [118]), ([120], none)]), .localEndpoint (some ⟨.str [76], none, none, 80⟩),
               .name (some [110])],
    rawLen := 200 }

example : exZSpan.UniqueKeys := by decide
example : exZSpan.fields.all (fieldOk cfg) = true := by decide
example : (specArgs cfg exZSpan).accepted = true := by decide
example : (writeZipkin cfg .ndjson [exZSpan, exZSpan]).ok = true := by decide
/-- local wins over remote whatever the order (A10); the short parent id is padded -/
example : (specArgs cfg exZSpan).svc = [76] ∧ (specArgs cfg exZSpan).parentId = [0, 0, 0, 0, 0, 0, 0, 7] ∧
    (specArgs cfg exZSpan).ts = 12000 := by decide
/-- a span without an `id` member is refused, and so is a span with a non-hex trace id -/
example : (writeZipkin cfg .array [⟨[.traceId (some [49])], 10⟩]).ok = false := by decide
example : (writeZipkin cfg .array [⟨[.traceId (some [103]), .id (some [49])], 10⟩]).ok = false := by decide

end Qryn.C06
