import Qryn.Proofs.Fingerprint
import Qryn.Proofs.JsonStr
import Qryn.Proofs.Lookup
import Qryn.Proofs.SeriesIndex
import Qryn.Ingest.Labels
/-! # C04 — series identity depends only on the label set; every sample's series is indexed

Property theorems only. Models: `Qryn.Fp.fingerprintWith` (= `fingerprintLabels`, constants from
`Gen.Fingerprint`, city hash a parameter), `Qryn.Fp.encodeLabels` (the jx encoder) with the byte-level
JSON parser `Qryn.JsonStr.parseObject`, and the series-index machine `Qryn.SeriesIndex` (cache read
while parsing, set by `doParse` after the request succeeded; dates through `ToDate`). -/
namespace Qryn.C04
open Qryn Qryn.Fp Qryn.SeriesIndex Qryn.Gen

/-! ## fingerprint -/

/-- **fp_perm.** The fingerprint does not depend on the order in which a request lists the labels —
    for every inner hash (`city.CH64`), every configured outer hash and all label lists. -/
theorem fp_perm (ch outer : Bytes → W) {l₁ l₂ : List Label} (p : l₁.Perm l₂) :
    fingerprintWith ch outer l₁ = fingerprintWith ch outer l₂ := by
  simp only [fingerprintWith]
  rw [determs_perm (p.map (labelHash ch))]

/-- the default configuration (`FINGERPRINT_CityHash`) -/
theorem fp_perm_city (ch : Bytes → W) {l₁ l₂ : List Label} (p : l₁.Perm l₂) :
    fingerprintLabels ch l₁ = fingerprintLabels ch l₂ := fp_perm ch ch p

/-- **fp_collision_factors.** Two label lists that are *not* permutations of each other and get the same
    fingerprint exhibit a collision of one of the three hash layers, on concrete different inputs:
    the outer hash on two different 24-byte strings, or the (sum, xor, product) combiner on two different
    multisets of per-label hashes, or the per-label hash `Hash128to64(CH64 name, CH64 value)` on two
    different labels. Nothing else can make two label sets share a series. -/
theorem fp_collision_factors (ch outer : Bytes → W) (l₁ l₂ : List Label) (hne : ¬ l₁.Perm l₂)
    (heq : fingerprintWith ch outer l₁ = fingerprintWith ch outer l₂) :
    (accBytes (determs (l₁.map (labelHash ch))) ≠ accBytes (determs (l₂.map (labelHash ch))) ∧
      outer (accBytes (determs (l₁.map (labelHash ch)))) = outer (accBytes (determs (l₂.map (labelHash ch)))))
    ∨ (¬ (l₁.map (labelHash ch)).Perm (l₂.map (labelHash ch)) ∧
      determs (l₁.map (labelHash ch)) = determs (l₂.map (labelHash ch)))
    ∨ (∃ a, a ∈ l₁ ∧ ∃ b, b ∈ l₂ ∧ a ≠ b ∧ labelHash ch a = labelHash ch b) := by
  by_cases hacc : determs (l₁.map (labelHash ch)) = determs (l₂.map (labelHash ch))
  · by_cases hp : (l₁.map (labelHash ch)).Perm (l₂.map (labelHash ch))
    · refine Or.inr (Or.inr ?_)
      apply Classical.byContradiction
      intro hno
      apply hne
      apply perm_of_map_perm (labelHash ch) l₁ l₂ _ hp
      intro a ha b hb hab
      apply Classical.byContradiction
      intro hab'
      exact hno ⟨a, ha, b, hb, hab', hab⟩
    · exact Or.inr (Or.inl ⟨hp, hacc⟩)
  · refine Or.inl ⟨fun h => hacc (accBytes_inj h), ?_⟩
    simpa [fingerprintWith] using heq

/-- **no_injective_fp.** "Different label sets get different fingerprints" cannot hold of *any* function
    into 64 bits: whatever the fingerprint function, two label sets with distinct names that are not
    the same set share a value. (So the clause is decided in the form of `fp_collision_factors`.) -/
theorem no_injective_fp (f : List Label → W) :
    ∃ l₁ l₂ : List Label, (l₁.map Prod.fst).Nodup ∧ (l₂.map Prod.fst).Nodup ∧ ¬ l₁.Perm l₂ ∧ f l₁ = f l₂ := by
  -- 2^64 + 1 label sets {a = "a"…"a"} with values of different lengths
  let mk : Nat → List Label := fun n => [([97], List.replicate n 97)]
  obtain ⟨i, j, hij, _, he⟩ := pigeon (2 ^ 64) (fun n => (f (mk n)).toNat) (fun n _ => (f (mk n)).isLt)
  refine ⟨mk i, mk j, by simp [mk], by simp [mk], ?_, BitVec.eq_of_toNat_eq he⟩
  intro p
  have := List.perm_singleton.mp p
  simp only [mk, List.cons.injEq, Prod.mk.injEq, true_and, and_true] at this
  have hl := congrArg List.length this
  simp at hl
  omega

/-! ## label document -/

/-- **labels_json_roundtrip.** For every list of labels — any bytes in names and values — the document
    `encodeLabels` stores parses (RFC 8259 grammar, byte level) to exactly that list. -/
theorem labels_json_roundtrip (ls : List Label) : JsonStr.parseObject (encodeLabels ls) = some ls :=
  JsonStr.parseObject_enc ls

/-- with distinct names, reading the document as a map gives exactly the label set -/
theorem labels_json_lookup (ls : List Label) (nd : (ls.map Prod.fst).Nodup) :
    ∃ doc, JsonStr.parseObject (encodeLabels ls) = some doc ∧
      ∀ k v, doc.lookup k = some v ↔ (k, v) ∈ ls :=
  ⟨ls, labels_json_roundtrip ls, lookup_iff_mem ls nd⟩

/-! ## every acknowledged sample's series is indexed -/

/-- shape facts the machine relies on, re-read from the source: the cache key covers the sample type -/
theorem gen_cache_key_has_type : Fingerprint.cacheKeyHasType = true := by decide

/-- the translator recognised every code shape the models mirror (the three update statements of the
    fold, the per-label hash expression, the 24-byte view, the body of `Hash128to64`, the day expression
    of `onEntries`, the key layout of `maybeAddFp`, `FormatFromDate`, the upper date bounds, the cache
    TTL); what it did not recognise is listed in `Gen.Fingerprint.shapeProblems` -/
theorem gen_shape_recognised : Fingerprint.shapeOk = true := by decide

/-- **acked_sample_indexed.** Along every history of push requests and cache resets — whatever the
    chunking of each request, whatever the final outcome of every series and samples INSERT, whether or
    not a body fails to decode half way, retries included (a retry is a push of the same request) — every
    sample of an acknowledged request has its `time_series` row (stored date, fingerprint, type) in the
    table. `key` is the hash that forms the cache key; it must not collide on the (day, fingerprint,
    type) triples of the history (`U` is any set containing them). -/
theorem acked_sample_indexed {K : Type} [DecidableEq K] (key : Cand → K) (loc : Int) (U : Cand → Prop)
    (hinj : ∀ x y, U x → U y → key x = key y → x = y)
    (hist : List Op) (hU : ∀ op, op ∈ hist → ∀ x, x ∈ opCands loc op → U x) :
    ∀ s, s ∈ (run key loc hist).acked → s.tp ≤ 2 → rowFor loc s ∈ (run key loc hist).series := by
  have hstep : step key loc = stepWith false true key loc := by
    funext st op
    simp only [step, Fingerprint.cacheSetAtEmit, Fingerprint.cacheSetAfterAck]
  simp only [run, hstep]
  exact (inv_run key loc U hinj hist St.init (inv_init key loc U) hU).acked

/-- for an injective key (e.g. the triple itself) no side condition is left -/
theorem acked_sample_indexed_inj {K : Type} [DecidableEq K] (key : Cand → K) (loc : Int)
    (hinj : ∀ x y, key x = key y → x = y) (hist : List Op) :
    ∀ s, s ∈ (run key loc hist).acked → s.tp ≤ 2 → rowFor loc s ∈ (run key loc hist).series :=
  acked_sample_indexed key loc (fun _ => True) (fun x y _ _ h => hinj x y h) hist (fun _ _ _ _ => trivial)

/-! ## the stored date is the date the readers search -/

/-- the stored date does not depend on the writer's zone at all: it is the UTC day of the sample -/
theorem series_date_is_utc_day (wLoc ts : Int) (h0 : 0 ≤ ts) (hmax : ts < 65536 * 86400 * 1000000000) :
    (seriesDate wLoc ts : Int) = ts / 1000000000 / 86400 := by
  simp only [seriesDate, sampleDay, Fingerprint.seriesDateUTC, if_true, GoTime.utc, GoTime.truncate24h,
    timeUnix, toDate, Int.add_zero]
  rw [Int.tdiv_eq_ediv_of_nonneg h0]
  have h1 : 0 ≤ ts / 1000000000 / 86400 * 86400 := by omega
  rw [Int.tdiv_eq_ediv_of_nonneg h1]
  have h2 : 0 ≤ ts / 1000000000 / 86400 * 86400 / 86400 % 65536 := by omega
  rw [Int.toNat_of_nonneg h2]
  omega

/-- **index_day_visible.** For every zone offset of the writer process and of the reader process and every
    window `[from, to]`: a sample whose timestamp lies in the window (and in the range of a ClickHouse
    `Date`) has its series row stored under a date that satisfies both reader bounds
    `date >= FormatFromDate(from)` and `date <= To.UTC().Format("2006-01-02")`. -/
theorem index_day_visible (wLoc rLoc fromNs toNs ts : Int)
    (h0 : 0 ≤ ts) (hmax : ts < 65536 * 86400 * 1000000000) (hfrom : fromNs ≤ ts) (hto : ts ≤ toNs) :
    readerLower fromNs ≤ (seriesDate wLoc ts : Int) ∧ (seriesDate wLoc ts : Int) ≤ readerUpper rLoc toNs := by
  rw [series_date_is_utc_day wLoc ts h0 hmax]
  simp only [readerLower, readerUpper, civilDay, Fingerprint.fromDateMarginSec, Fingerprint.upperBoundUTC, if_true]
  omega

/-! ## non-vacuity and what the previous code did -/

-- two labels in both orders: same three running values
example (ch outer : Bytes → W) :
    fingerprintWith ch outer [([97], [98]), ([99], [100])] = fingerprintWith ch outer [([99], [100]), ([97], [98])] :=
  fp_perm ch outer (List.Perm.swap _ _ _)

-- the hypotheses of `fp_collision_factors` are satisfiable (here with degenerate hashes), and its third
-- alternative is then the one that holds
example : fingerprintWith (fun _ => 0) (fun _ => 0) [([97], [98])] = fingerprintWith (fun _ => 0) (fun _ => 0) [([99], [100])] := rfl
example : ¬ ([([97], [98])] : List Label).Perm [([99], [100])] := by
  intro p; have := List.perm_singleton.mp p; simp at this

-- the document of {"a\"": "x\x01\n\xff"}: `{"a\"":"x\u0001\n` 0xff `"}` — and it parses back
example : encodeLabels [([97, 34], [120, 1, 10, 255])] =
    [123, 34, 97, 92, 34, 34, 58, 34, 120, 92, 117, 48, 48, 48, 49, 92, 110, 255, 34, 125] := by decide
example : JsonStr.parseObject [123, 34, 97, 92, 34, 34, 58, 34, 120, 92, 117, 48, 48, 48, 49, 92, 110, 255, 34, 125]
    = some [([97, 34], [120, 1, 10, 255])] := by decide
-- the parser is a JSON parser, not just an inverse: white space, `\/`, `é`, a surrogate pair
example : JsonStr.parseObject [32, 123, 32, 34, 107, 34, 32, 58, 10, 34, 92, 47, 92, 117, 48, 48, 101, 57, 34, 32, 125, 10]
    = some [([107], [47, 0xC3, 0xA9])] := by decide
example : JsonStr.parseObject [123, 34, 107, 34, 58, 34, 92, 117, 100, 56, 51, 100, 92, 117, 100, 101, 48, 48, 34, 125]
    = some [([107], [0xF0, 0x9F, 0x98, 0x80])] := by decide
-- what strconv.Quote used to write for the byte 1, `"x\x01"`, is not JSON
example : JsonStr.parseObject [123, 34, 97, 34, 58, 34, 120, 92, 120, 48, 49, 34, 125] = none := by decide

/-- identity key for the concrete histories below -/
abbrev idKey : Cand → Cand := id

-- A7 on the previous code (`setAtEmit`): push whose series INSERT fails, then the client's retry with a
-- healthy database — the retry is acknowledged and the series table stays empty
def a7Req (ok : Bool) : Req := ⟨[⟨[⟨7, [(1704189600000000000, 1)]⟩], ok, true⟩], none⟩
example : (runWith true false idKey 0 [.push (a7Req false), .push (a7Req true)]).acked = [⟨7, 1704189600000000000, 1⟩]
    ∧ (runWith true false idKey 0 [.push (a7Req false), .push (a7Req true)]).series = [] := by decide
-- the same history on the code as it is: the retry sends the row again (and is the acknowledged one)
example : (run idKey 0 [.push (a7Req false), .push (a7Req true)]).acked = [⟨7, 1704189600000000000, 1⟩] := by decide
example : (run idKey 0 [.push (a7Req false), .push (a7Req true)]).series = [⟨19724, 7, 1⟩] := by decide
-- a body that fails to decode after the stream was seen (`dropped`), then a good push
example : (runWith true false idKey 0 [.push ⟨[], some [⟨7, [(1704189600000000000, 1)]⟩]⟩, .push (a7Req true)]).series = [] := by decide
example : (run idKey 0 [.push ⟨[], some [⟨7, [(1704189600000000000, 1)]⟩]⟩, .push (a7Req true)]).series = [⟨19724, 7, 1⟩] := by decide
-- a second acknowledged push of the same series on the same day sends no row (the cache works)
example : (run idKey 0 [.push (a7Req true), .push (a7Req true)]).series = [⟨19724, 7, 1⟩] := by decide
-- … until the cache is cleared
example : (run idKey 0 [.push (a7Req true), .cacheReset, .push (a7Req true)]).series = [⟨19724, 7, 1⟩, ⟨19724, 7, 1⟩] := by decide
-- the hypothesis on `key` is needed: with a colliding key a second series is acknowledged without a row
example : rowFor 0 ⟨8, 1704189600000000000, 1⟩ ∉
    (run (fun _ => (0 : Nat)) 0 [.push (a7Req true), .push ⟨[⟨[⟨8, [(1704189600000000000, 1)]⟩], true, true⟩], none⟩]).series := by decide

-- A8: what `ToDate` made of the UTC midnight kept in a zone 8 h west of UTC (previous code), and now
example : toDate (timeUnix (-28800) (1704189600 : Int)).truncate24h = 19723 := by decide
example : seriesDate (-28800) 1704189600000000000 = 19724 := by decide
example : readerLower 1704189600000000000 = 19724 := by decide

end Qryn.C04
