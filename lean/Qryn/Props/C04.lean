import Qryn.Proofs.Fingerprint
import Qryn.Proofs.JsonStr
import Qryn.Proofs.Lookup
import Qryn.Proofs.SeriesIndex
import Qryn.Ingest.Labels
import Qryn.Proofs.LabelPipeline
import Qryn.Ingest.Decode
/-! # C04 — series identity depends only on the label set; every sample's series is indexed

Property theorems only. Models: `Qryn.Fp.fingerprintWith` (= `fingerprintLabels`, constants from
`Gen.Fingerprint`, city hash a parameter), `Qryn.Fp.encodeLabels` (the jx encoder) with the byte-level
JSON parser `Qryn.JsonStr.parseObject`, and the series-index machine `Qryn.SeriesIndex` (cache read
while parsing, set by `doParse` after the request succeeded; dates through `ToDate`), and — second part of this
file — the label pipeline `Qryn.Pipeline` (`Ingest/LabelPipeline.lean`): the order of `sanitizeLabels`, the
`__ttl_days__` block, `validUTF8Labels`, `fingerprintLabels`, `encodeLabels` regenerated from the source
(`Gen.LabelPipeline`) and interpreted by the model. -/
namespace Qryn.C04
open Qryn Qryn.Fp Qryn.SeriesIndex Qryn.Gen

/-! ## fingerprint -/

/-- **fp_perm.** The fingerprint does not depend on the order in which a request lists the labels —
    for every inner hash (`city.CH64`), every configured outer hash and all label lists. -/
theorem fp_perm (ch outer : Bytes → W) {l₁ l₂ : List Label} (p : l₁.Perm l₂) :
    fingerprintWith ch outer l₁ = fingerprintWith ch outer l₂ := by
  simp only [fingerprintWith]
  rw [determs_perm (p.map (labelHash ch))]

/-- the default configuration (`FINGERPRINT_CityHash`) -/
theorem fp_perm_city (ch : Bytes → W) {l₁ l₂ : List Label} (p : l₁.Perm l₂) :
    fingerprintLabels ch l₁ = fingerprintLabels ch l₂ := fp_perm ch ch p

/-- **fp_collision_factors.** Two label lists that are *not* permutations of each other and get the same
    fingerprint exhibit a collision of one of the three hash layers, on concrete different inputs:
    the outer hash on two different 24-byte strings, or the (sum, xor, product) combiner on two different
    multisets of per-label hashes, or the per-label hash `Hash128to64(CH64 name, CH64 value)` on two
    different labels. Nothing else can make two label sets share a series. -/
theorem fp_collision_factors (ch outer : Bytes → W) (l₁ l₂ : List Label) (hne : ¬ l₁.Perm l₂)
    (heq : fingerprintWith ch outer l₁ = fingerprintWith ch outer l₂) :
    (accBytes (determs (l₁.map (labelHash ch))) ≠ accBytes (determs (l₂.map (labelHash ch))) ∧
      outer (accBytes (determs (l₁.map (labelHash ch)))) = outer (accBytes (determs (l₂.map (labelHash ch)))))
    ∨ (¬ (l₁.map (labelHash ch)).Perm (l₂.map (labelHash ch)) ∧
      determs (l₁.map (labelHash ch)) = determs (l₂.map (labelHash ch)))
    ∨ (∃ a, a ∈ l₁ ∧ ∃ b, b ∈ l₂ ∧ a ≠ b ∧ labelHash ch a = labelHash ch b) := by
  by_cases hacc : determs (l₁.map (labelHash ch)) = determs (l₂.map (labelHash ch))
  · by_cases hp : (l₁.map (labelHash ch)).Perm (l₂.map (labelHash ch))
    · refine Or.inr (Or.inr ?_)
      apply Classical.byContradiction
      intro hno
      apply hne
      apply perm_of_map_perm (labelHash ch) l₁ l₂ _ hp
      intro a ha b hb hab
      apply Classical.byContradiction
      intro hab'
      exact hno ⟨a, ha, b, hb, hab', hab⟩
    · exact Or.inr (Or.inl ⟨hp, hacc⟩)
  · refine Or.inl ⟨fun h => hacc (accBytes_inj h), ?_⟩
    simpa [fingerprintWith] using heq

/-- **no_injective_fp.** "Different label sets get different fingerprints" cannot hold of *any* function
    into 64 bits: whatever the fingerprint function, two label sets with distinct names that are not
    the same set share a value. (So the clause is decided in the form of `fp_collision_factors`.) -/
theorem no_injective_fp (f : List Label → W) :
    ∃ l₁ l₂ : List Label, (l₁.map Prod.fst).Nodup ∧ (l₂.map Prod.fst).Nodup ∧ ¬ l₁.Perm l₂ ∧ f l₁ = f l₂ := by
  -- 2^64 + 1 label sets {a = "a"…"a"} with values of different lengths
  let mk : Nat → List Label := fun n => [([97], List.replicate n 97)]
  obtain ⟨i, j, hij, _, he⟩ := pigeon (2 ^ 64) (fun n => (f (mk n)).toNat) (fun n _ => (f (mk n)).isLt)
  refine ⟨mk i, mk j, by simp [mk], by simp [mk], ?_, BitVec.eq_of_toNat_eq he⟩
  intro p
  have := List.perm_singleton.mp p
  simp only [mk, List.cons.injEq, Prod.mk.injEq, true_and, and_true] at this
  have hl := congrArg List.length this
  simp at hl
  omega

/-! ## label document -/

/-- **labels_json_roundtrip.** For every list of labels — any bytes in names and values — the document
    `encodeLabels` stores parses (RFC 8259 grammar, byte level) to exactly that list. -/
theorem labels_json_roundtrip (ls : List Label) : JsonStr.parseObject (encodeLabels ls) = some ls :=
  JsonStr.parseObject_enc ls

/-- with distinct names, reading the document as a map gives exactly the label set -/
theorem labels_json_lookup (ls : List Label) (nd : (ls.map Prod.fst).Nodup) :
    ∃ doc, JsonStr.parseObject (encodeLabels ls) = some doc ∧
      ∀ k v, doc.lookup k = some v ↔ (k, v) ∈ ls :=
  ⟨ls, labels_json_roundtrip ls, lookup_iff_mem ls nd⟩

/-! ## every acknowledged sample's series is indexed -/

/-- shape facts the machine relies on, re-read from the source: the cache key covers the sample type -/
theorem gen_cache_key_has_type : Fingerprint.cacheKeyHasType = true := by decide

/-- the translator recognised every code shape the models mirror (the three update statements of the
    fold, the per-label hash expression, the 24-byte view, the body of `Hash128to64`, the day expression
    of `onEntries`, the key layout of `maybeAddFp`, `FormatFromDate`, the upper date bounds, the cache
    TTL); what it did not recognise is listed in `Gen.Fingerprint.shapeProblems` -/
theorem gen_shape_recognised : Fingerprint.shapeOk = true := by decide

/-- **acked_sample_indexed.** Along every history of push requests and cache resets — whatever the
    chunking of each request, whatever the final outcome of every series and samples INSERT, whether or
    not a body fails to decode half way, retries included (a retry is a push of the same request) — every
    sample of an acknowledged request has its `time_series` row (stored date, fingerprint, type) in the
    table. `key` is the hash that forms the cache key; it must not collide on the (day, fingerprint,
    type) triples of the history (`U` is any set containing them). -/
theorem acked_sample_indexed {K : Type} [DecidableEq K] (key : Cand → K) (loc : Int) (U : Cand → Prop)
    (hinj : ∀ x y, U x → U y → key x = key y → x = y)
    (hist : List Op) (hU : ∀ op, op ∈ hist → ∀ x, x ∈ opCands loc op → U x) :
    ∀ s, s ∈ (run key loc hist).acked → s.tp ≤ 2 → rowFor loc s ∈ (run key loc hist).series := by
  have hstep : step key loc = stepWith false true key loc := by
    funext st op
    simp only [step, Fingerprint.cacheSetAtEmit, Fingerprint.cacheSetAfterAck]
  simp only [run, hstep]
  exact (inv_run key loc U hinj hist St.init (inv_init key loc U) hU).acked

/-- for an injective key (e.g. the triple itself) no side condition is left -/
theorem acked_sample_indexed_inj {K : Type} [DecidableEq K] (key : Cand → K) (loc : Int)
    (hinj : ∀ x y, key x = key y → x = y) (hist : List Op) :
    ∀ s, s ∈ (run key loc hist).acked → s.tp ≤ 2 → rowFor loc s ∈ (run key loc hist).series :=
  acked_sample_indexed key loc (fun _ => True) (fun x y _ _ h => hinj x y h) hist (fun _ _ _ _ => trivial)

/-! ## the stored date is the date the readers search -/

/-- the stored date does not depend on the writer's zone at all: it is the UTC day of the sample -/
theorem series_date_is_utc_day (wLoc ts : Int) (h0 : 0 ≤ ts) (hmax : ts < 65536 * 86400 * 1000000000) :
    (seriesDate wLoc ts : Int) = ts / 1000000000 / 86400 := by
  simp only [seriesDate, sampleDay, Fingerprint.seriesDateUTC, if_true, GoTime.utc, GoTime.truncate24h,
    timeUnix, toDate, Int.add_zero]
  rw [Int.tdiv_eq_ediv_of_nonneg h0]
  have h1 : 0 ≤ ts / 1000000000 / 86400 * 86400 := by omega
  rw [Int.tdiv_eq_ediv_of_nonneg h1]
  have h2 : 0 ≤ ts / 1000000000 / 86400 * 86400 / 86400 % 65536 := by omega
  rw [Int.toNat_of_nonneg h2]
  omega

/-- **index_day_visible.** For every zone offset of the writer process and of the reader process and every
    window `[from, to]`: a sample whose timestamp lies in the window (and in the range of a ClickHouse
    `Date`) has its series row stored under a date that satisfies both reader bounds
    `date >= FormatFromDate(from)` and `date <= To.UTC().Format("2006-01-02")`. -/
theorem index_day_visible (wLoc rLoc fromNs toNs ts : Int)
    (h0 : 0 ≤ ts) (hmax : ts < 65536 * 86400 * 1000000000) (hfrom : fromNs ≤ ts) (hto : ts ≤ toNs) :
    readerLower fromNs ≤ (seriesDate wLoc ts : Int) ∧ (seriesDate wLoc ts : Int) ≤ readerUpper rLoc toNs := by
  rw [series_date_is_utc_day wLoc ts h0 hmax]
  simp only [readerLower, readerUpper, civilDay, Fingerprint.fromDateMarginSec, Fingerprint.upperBoundUTC, if_true]
  omega

/-! ## non-vacuity and what the previous code did -/

-- two labels in both orders: same three running values
example (ch outer : Bytes → W) :
    fingerprintWith ch outer [([97], [98]), ([99], [100])] = fingerprintWith ch outer [([99], [100]), ([97], [98])] :=
  fp_perm ch outer (List.Perm.swap _ _ _)

-- the hypotheses of `fp_collision_factors` are satisfiable (here with degenerate hashes), and its third
-- alternative is then the one that holds
example : fingerprintWith (fun _ => 0) (fun _ => 0) [([97], [98])] = fingerprintWith (fun _ => 0) (fun _ => 0) [([99], [100])] := rfl
example : ¬ ([([97], [98])] : List Label).Perm [([99], [100])] := by
  intro p; have := List.perm_singleton.mp p; simp at this

-- the document of {"a\"": "x\x01\n\xff"}: `{"a\"":"x\u0001\n` 0xff `"}` — and it parses back
example : encodeLabels [([97, 34], [120, 1, 10, 255])] =
    [123, 34, 97, 92, 34, 34, 58, 34, 120, 92, 117, 48, 48, 48, 49, 92, 110, 255, 34, 125] := by decide
example : JsonStr.parseObject [123, 34, 97, 92, 34, 34, 58, 34, 120, 92, 117, 48, 48, 48, 49, 92, 110, 255, 34, 125]
    = some [([97, 34], [120, 1, 10, 255])] := by decide
-- the parser is a JSON parser, not just an inverse: white space, `\/`, `é`, a surrogate pair
example : JsonStr.parseObject [32, 123, 32, 34, 107, 34, 32, 58, 10, 34, 92, 47, 92, 117, 48, 48, 101, 57, 34, 32, 125, 10]
    = some [([107], [47, 0xC3, 0xA9])] := by decide
example : JsonStr.parseObject [123, 34, 107, 34, 58, 34, 92, 117, 100, 56, 51, 100, 92, 117, 100, 101, 48, 48, 34, 125]
    = some [([107], [0xF0, 0x9F, 0x98, 0x80])] := by decide
-- what strconv.Quote used to write for the byte 1, `"x\x01"`, is not JSON
example : JsonStr.parseObject [123, 34, 97, 34, 58, 34, 120, 92, 120, 48, 49, 34, 125] = none := by decide

/-- identity key for the concrete histories below -/
abbrev idKey : Cand → Cand := id

-- A7 on the previous code (`setAtEmit`): push whose series INSERT fails, then the client's retry with a
-- healthy database — the retry is acknowledged and the series table stays empty
def a7Req (ok : Bool) : Req := ⟨[⟨[⟨7, [(1704189600000000000, 1)]⟩], ok, true⟩], none⟩
example : (runWith true false idKey 0 [.push (a7Req false), .push (a7Req true)]).acked = [⟨7, 1704189600000000000, 1⟩]
    ∧ (runWith true false idKey 0 [.push (a7Req false), .push (a7Req true)]).series = [] := by decide
-- the same history on the code as it is: the retry sends the row again (and is the acknowledged one)
example : (run idKey 0 [.push (a7Req false), .push (a7Req true)]).acked = [⟨7, 1704189600000000000, 1⟩] := by decide
example : (run idKey 0 [.push (a7Req false), .push (a7Req true)]).series = [⟨19724, 7, 1⟩] := by decide
-- a body that fails to decode after the stream was seen (`dropped`), then a good push
example : (runWith true false idKey 0 [.push ⟨[], some [⟨7, [(1704189600000000000, 1)]⟩]⟩, .push (a7Req true)]).series = [] := by decide
example : (run idKey 0 [.push ⟨[], some [⟨7, [(1704189600000000000, 1)]⟩]⟩, .push (a7Req true)]).series = [⟨19724, 7, 1⟩] := by decide
-- a second acknowledged push of the same series on the same day sends no row (the cache works)
example : (run idKey 0 [.push (a7Req true), .push (a7Req true)]).series = [⟨19724, 7, 1⟩] := by decide
-- … until the cache is cleared
example : (run idKey 0 [.push (a7Req true), .cacheReset, .push (a7Req true)]).series = [⟨19724, 7, 1⟩, ⟨19724, 7, 1⟩] := by decide
-- the hypothesis on `key` is needed: with a colliding key a second series is acknowledged without a row
example : rowFor 0 ⟨8, 1704189600000000000, 1⟩ ∉
    (run (fun _ => (0 : Nat)) 0 [.push (a7Req true), .push ⟨[⟨[⟨8, [(1704189600000000000, 1)]⟩], true, true⟩], none⟩]).series := by decide

-- A8: what `ToDate` made of the UTC midnight kept in a zone 8 h west of UTC (previous code), and now
example : toDate (timeUnix (-28800) (1704189600 : Int)).truncate24h = 19723 := by decide
example : seriesDate (-28800) 1704189600000000000 = 19724 := by decide
example : readerLower 1704189600000000000 = 19724 := by decide

end Qryn.C04

/-! # second part: the label pipeline (own `open`s: `Pipeline.run`/`Step` would clash with `SeriesIndex`) -/
namespace Qryn.C04
open Qryn Qryn.Fp Qryn.Gen Qryn.Pipeline
open Qryn.Ingest (Labels sanitizeLabels validLabels identOf effective toValidUTF8 validUTF8 truncValue replacementChar)

/-! ## the label pipeline: from the list a decoder hands over to the stored fingerprint and document -/

/-- T: the order of `parserDoer.onEntries`, re-read from the source, is one the model understands, and it is:
    the `__ttl_days__` block, `labels = validUTF8Labels(labels)`, then `fingerprintLabels(labels)` and
    `encodeLabels(labels)` on the variable as it is -/
theorem gen_pipeline_recognised :
    genSteps = some [.assign .ttlStrip [], .assign .validUTF8 [], .fingerprint [], .document []] := by decide

/-- T: that order obeys the discipline (one fingerprint call, made after the UTF-8 repair with no truncation in
    between; the document written from the unchanged variable) -/
theorem gen_pipeline_disciplined : ∃ steps, genSteps = some steps ∧ disciplined steps = true :=
  ⟨_, gen_pipeline_recognised, by decide⟩

/-- T: the fingerprint variable is what goes into `MFingerprint` of the samples and of the series rows and into the
    cache key, the result of `encodeLabels` is what goes into `MLabels`; `validUTF8Labels` has the body the model
    mirrors with the replacement U+FFFD; every shape was recognised -/
theorem gen_pipeline_flows :
    LabelPipeline.fpFlowsToSamples = true ∧ LabelPipeline.fpFlowsToSeries = true ∧ LabelPipeline.docFlowsToSeries = true ∧
    LabelPipeline.validUTF8BodyOk = true ∧ LabelPipeline.replacement = replacementChar ∧
    LabelPipeline.keyLayoutOk = true ∧ LabelPipeline.shapeOk = true := by decide

/-- T: `fingerprintLabels`, `encodeLabels` and `validUTF8Labels` are called nowhere but in `onEntries`, once each:
    no other path (traces, profiles, the reader) derives a series identity or a label document with them -/
theorem gen_pipeline_sites :
    LabelPipeline.callSites.filter (fun s => s.1 != "sanitizeLabels") =
      [("validUTF8Labels", "writer/utils/unmarshal/builder.go", "parserDoer.onEntries"),
       ("fingerprintLabels", "writer/utils/unmarshal/builder.go", "parserDoer.onEntries"),
       ("encodeLabels", "writer/utils/unmarshal/builder.go", "parserDoer.onEntries")] := by decide

/-- T: the decoders that call `onEntries`, the list each hands over and whether it went through `sanitizeLabels`
    (Loki JSON, Loki protobuf, remote write, Influx: yes; Datadog, OTLP, Elastic: no) -/
theorem gen_decoders_recognised :
    LabelPipeline.decoders.map (fun d => (d.1, d.2.2.1)) =
      [("datadogCFRequestDec", false), ("datadogRequestDec", false), ("datadogMetricsRequestDec", false),
       ("ElasticUnmarshal", false), ("elasticBulkDec", false), ("influxDec", true), ("logsProtoDec", true),
       ("promMetricsProtoDec", true), ("otlpLogDec", false), ("pushRequestDec", true)] := by decide

/-- what `onEntries` fingerprints and documents is `identOf` (the list C03's rows carry the fingerprint of) -/
theorem onEntries_labels (ctxTtl : Nat) (raw : Labels) :
    onEntriesLabels ctxTtl raw = some (identOf ctxTtl raw, identOf ctxTtl raw) := by
  simp [onEntriesLabels, gen_pipeline_recognised, outOf, run, stepRun, applyXfs, applyXf, identOf]

/-- **disciplined_pipeline.** For EVERY order of the pipeline steps that obeys the discipline, every request TTL and
    every label list (any bytes, any lengths): there is one list `ls` of valid UTF-8 strings such that the
    fingerprint is `fingerprintWith ch outer ls`, and the stored document parses — under the byte-transparent RFC 8259
    reader and under a reader that coerces invalid UTF-8 the way encoding/json does — to exactly `ls`. -/
theorem disciplined_pipeline (steps : List Step) (h : disciplined steps = true) (ch outer : Bytes → W)
    (ctxTtl : Nat) (raw : Labels) :
    ∃ ls doc, storedFpOf steps ch outer ctxTtl raw = some (fingerprintWith ch outer ls) ∧
      storedDocOf steps ctxTtl raw = some doc ∧ JsonStr.parseObject doc = some ls ∧ parseObjectGo doc = some ls ∧
      AllValid ls := by
  obtain ⟨ls, ho, hv⟩ := outOf_of_disciplined ctxTtl steps h raw
  refine ⟨ls, encodeLabels ls, by simp [storedFpOf, ho], by simp [storedDocOf, ho], labels_json_roundtrip ls, ?_, hv⟩
  simp [parseObjectGo, labels_json_roundtrip, coerce_labels_of_allValid ls hv]

/-- **fp_of_stored_doc.** The code as it is: for every raw label list a decoder can hand to `onEntries` — invalid
    UTF-8, values of every length, with or without a request TTL — the label set decoded from the stored document is
    EXACTLY the list the stored fingerprint was computed from, and that list is `identOf`. -/
theorem fp_of_stored_doc (ch outer : Bytes → W) (ctxTtl : Nat) (raw : Labels) :
    ∃ doc, storedDoc ctxTtl raw = some doc ∧
      storedFp ch outer ctxTtl raw = some (fingerprintWith ch outer (identOf ctxTtl raw)) ∧
      JsonStr.parseObject doc = some (identOf ctxTtl raw) := by
  refine ⟨encodeLabels (identOf ctxTtl raw), ?_, ?_, labels_json_roundtrip _⟩
  · simp [storedDoc, onEntries_labels]
  · simp [storedFp, onEntries_labels]

/-- every name and value of the stored list is valid UTF-8 (`utf8.ValidString`) -/
theorem stored_labels_valid_utf8 (ctxTtl : Nat) (raw : Labels) :
    ∀ l, l ∈ identOf ctxTtl raw → validUTF8 l.1 = true ∧ validUTF8 l.2 = true :=
  allValid_validLabels _

/-- … hence a reader that replaces invalid UTF-8 (encoding/json: one U+FFFD per byte) sees the same list -/
theorem fp_of_stored_doc_gojson (ctxTtl : Nat) (raw : Labels) :
    ∃ doc, storedDoc ctxTtl raw = some doc ∧ parseObjectGo doc = some (identOf ctxTtl raw) := by
  refine ⟨encodeLabels (identOf ctxTtl raw), by simp [storedDoc, onEntries_labels], ?_⟩
  simp [parseObjectGo, labels_json_roundtrip, coerce_labels_of_allValid _ (allValid_validLabels _), identOf]

/-- the same through a sanitising decoder (Loki, remote write, Influx): labels collected, `sanitizeLabels`
    (name rule, truncation at byte 100 + "..."), labels appended afterwards, then `onEntries` -/
theorem fp_of_stored_doc_decoder (ch outer : Bytes → W) (ctxTtl : Nat) (sanitises : Bool) (pre post : Labels) :
    ∃ doc ls, storedDoc ctxTtl (decoderLabels sanitises pre post) = some doc ∧
      storedFp ch outer ctxTtl (decoderLabels sanitises pre post) = some (fingerprintWith ch outer ls) ∧
      JsonStr.parseObject doc = some ls ∧ parseObjectGo doc = some ls := by
  obtain ⟨doc, h1, h2, h3⟩ := fp_of_stored_doc ch outer ctxTtl (decoderLabels sanitises pre post)
  obtain ⟨doc', h1', h4⟩ := fp_of_stored_doc_gojson ctxTtl (decoderLabels sanitises pre post)
  rw [h1] at h1'
  cases h1'
  exact ⟨doc, _, h1, h2, h3, h4⟩

/-- **same_doc_same_fp.** Two raw label lists (of any two requests) that are stored as the same document get the
    same fingerprint — for every inner and outer hash function. -/
theorem same_doc_same_fp (ch outer : Bytes → W) (t₁ t₂ : Nat) (raw₁ raw₂ : Labels) (doc : Bytes)
    (h₁ : storedDoc t₁ raw₁ = some doc) (h₂ : storedDoc t₂ raw₂ = some doc) :
    storedFp ch outer t₁ raw₁ = storedFp ch outer t₂ raw₂ ∧ (storedFp ch outer t₁ raw₁).isSome = true := by
  obtain ⟨d₁, e₁, f₁, p₁⟩ := fp_of_stored_doc ch outer t₁ raw₁
  obtain ⟨d₂, e₂, f₂, p₂⟩ := fp_of_stored_doc ch outer t₂ raw₂
  rw [h₁] at e₁; rw [h₂] at e₂
  cases e₁; cases e₂
  rw [p₁] at p₂
  have := Option.some.inj p₂
  rw [f₁, f₂, this]
  simp

/-! ### the seven decoders of C03's model hand over what the regenerated decoder table says -/

section Decoders
open Qryn.Ingest

/-- T: the label list each `Decode` model of `Ingest/Decode.lean` (tied to the real decoders by C03's correspondence)
    hands to `onEntries` is `decoderLabels` with the sanitising flag REGENERATED from that decoder's source: a decoder
    that gains or loses its `sanitizeLabels` call breaks this theorem. -/
theorem decoders_match_decode_model :
    (∀ s : LokiStream, (decoderSanitises "pushRequestDec").map (fun sn => decoderLabels sn s.labels []) = some s.ident) ∧
    (∀ s : ProtoStream, (decoderSanitises "logsProtoDec").map (fun sn => decoderLabels sn s.labels []) = some s.ident) ∧
    (∀ s : PromSeries, (decoderSanitises "promMetricsProtoDec").map (fun sn => decoderLabels sn s.labels []) = some s.ident) ∧
    (∀ p : InfluxPoint, (decoderSanitises "influxDec").map (fun sn => decoderLabels sn ((measurementName, p.name) :: p.tags) []) = some p.base) ∧
    (∀ (p : InfluxPoint) (k : Bytes), (decoderSanitises "influxDec").map
        (fun sn => decoderLabels sn ((measurementName, p.name) :: p.tags) [(nameLabel, k)]) = some (p.base ++ [(nameLabel, sanitizeName k)])) ∧
    (∀ e : DDLog, (decoderSanitises "datadogRequestDec").map (fun sn => decoderLabels sn e.ident []) = some e.ident) ∧
    (∀ s : DDSeriesItem, (decoderSanitises "datadogMetricsRequestDec").map (fun sn => decoderLabels sn s.ident []) = some s.ident) ∧
    (∀ (res sc : Labels) (r : OtlpRecord), (decoderSanitises "otlpLogDec").map (fun sn => decoderLabels sn (otlpIdent res sc r) []) =
        some (otlpIdent res sc r)) := by
  have h1 : decoderSanitises "pushRequestDec" = some true := by decide
  have h2 : decoderSanitises "logsProtoDec" = some true := by decide
  have h3 : decoderSanitises "promMetricsProtoDec" = some true := by decide
  have h4 : decoderSanitises "influxDec" = some true := by decide
  have h5 : decoderSanitises "datadogRequestDec" = some false := by decide
  have h6 : decoderSanitises "datadogMetricsRequestDec" = some false := by decide
  have h7 : decoderSanitises "otlpLogDec" = some false := by decide
  refine ⟨?_, ?_, ?_, ?_, ?_, ?_, ?_, ?_⟩
  · intro s; simp [h1, decoderLabels, LokiStream.ident]
  · intro s; simp [h2, decoderLabels, ProtoStream.ident]
  · intro s; simp [h3, decoderLabels, PromSeries.ident]
  · intro p; simp [h4, decoderLabels, InfluxPoint.base]
  · intro p k; simp [h4, decoderLabels, InfluxPoint.base]
  · intro e; simp [h5, decoderLabels]
  · intro s; simp [h6, decoderLabels]
  · intro res sc r; simp [h7, decoderLabels]

/-- **pipeline_every_protocol.** For every body of the seven log/metric protocols (as decoded documents), every
    stream of it, every request TTL and every hash: the fingerprint stored with the stream's samples and series rows
    is the fingerprint of the list the stored document decodes to — the identity `identOf` that C03's
    `samples_faithful` puts on every row of the stream. -/
theorem pipeline_every_protocol (ch outer : Bytes → W) (ctxTtl : Nat) (now : Int) (b : Body) :
    ∀ s, s ∈ b.streams now → ∃ doc, storedDoc ctxTtl s.1 = some doc ∧
      storedFp ch outer ctxTtl s.1 = some (fingerprintWith ch outer (identOf ctxTtl s.1)) ∧
      JsonStr.parseObject doc = some (identOf ctxTtl s.1) ∧ parseObjectGo doc = some (identOf ctxTtl s.1) := by
  intro s _
  obtain ⟨doc, h1, h2, h3⟩ := fp_of_stored_doc ch outer ctxTtl s.1
  obtain ⟨doc', h1', h4⟩ := fp_of_stored_doc_gojson ctxTtl s.1
  rw [h1] at h1'
  cases h1'
  exact ⟨doc, h1, h2, h3, h4⟩

end Decoders

/-! ### `strings.ToValidUTF8` and the cut at byte 100 -/

theorem validUTF8_valid (s : Bytes) : validUTF8 (toValidUTF8 s) = true := Ingest.toValidUTF8_valid' s

theorem validUTF8_id_on_valid (s : Bytes) (h : validUTF8 s = true) : toValidUTF8 s = s := Ingest.toValidUTF8_of_valid' s h

theorem validUTF8_idempotent (s : Bytes) : toValidUTF8 (toValidUTF8 s) = toValidUTF8 s :=
  Ingest.toValidUTF8_of_valid' _ (Ingest.toValidUTF8_valid' s)

/-- the suffix the truncation appends is ASCII (today "...") -/
theorem suffix_ascii : Ascii Gen.labelValueSuffix := by
  intro c hc
  have : ∀ c, c ∈ Gen.labelValueSuffix → c < 0x80 := by decide
  exact this c hc

/-- **truncate_then_valid.** A value longer than the limit is stored as: the repaired form of its first 100 bytes,
    then the suffix — the repair never reaches into the suffix and the result is valid UTF-8. -/
theorem truncate_then_valid (v : Bytes) (h : v.length > Gen.labelValueMax) :
    toValidUTF8 (truncValue v) = toValidUTF8 (v.take Gen.labelValueCut) ++ Gen.labelValueSuffix ∧
    validUTF8 (toValidUTF8 (truncValue v)) = true := by
  refine ⟨?_, validUTF8_valid _⟩
  simp only [truncValue, h, ↓reduceIte]
  exact toValidUTF8_append_ascii _ _ suffix_ascii

/-- a cut that falls between two runes changes nothing: the first 100 bytes and the suffix -/
theorem truncate_on_boundary (v : Bytes) (h : v.length > Gen.labelValueMax)
    (hv : validUTF8 (v.take Gen.labelValueCut) = true) :
    toValidUTF8 (truncValue v) = v.take Gen.labelValueCut ++ Gen.labelValueSuffix := by
  rw [(truncate_then_valid v h).1, validUTF8_id_on_valid _ hv]

/-- **truncate_cut_in_rune.** A value `p ++ r ++ s` — `p` valid UTF-8 and not empty, `r` one well-formed multi-byte
    rune lying across the cut — is stored as `p`, ONE U+FFFD for what is left of `r`, and the suffix. -/
theorem truncate_cut_in_rune (p r s : Bytes) (hp : validUTF8 p = true) (hne : p ≠ []) (hr : OneRune r)
    (h1 : p.length < Gen.labelValueCut) (h2 : Gen.labelValueCut < p.length + r.length)
    (hmax : Gen.labelValueMax ≤ Gen.labelValueCut) :
    toValidUTF8 (truncValue (p ++ r ++ s)) = p ++ replacementChar ++ Gen.labelValueSuffix := by
  have hlen : (p ++ r ++ s).length > Gen.labelValueMax := by simp; omega
  rw [(truncate_then_valid _ hlen).1]
  have htake : (p ++ r ++ s).take Gen.labelValueCut = p ++ r.take (Gen.labelValueCut - p.length) := by
    rw [List.append_assoc, List.take_append, List.take_of_length_le (by omega), List.take_append]
    have : Gen.labelValueCut - p.length - r.length = 0 := by omega
    simp [this]
  rw [htake, toValidUTF8_append_valid p _ hp hne]
  have := toValidUTF8_cut_rune r hr (Gen.labelValueCut - p.length) (by omega) (by omega) false
  simp only [Bool.false_eq_true, ↓reduceIte] at this
  simp only [toValidUTF8, this, List.append_assoc]


/-! ### the series cache key -/

/-- **cache_key_bytes_injective.** The 17 bytes `maybeAddFp` hashes (layout re-read from the source:
    `gen_pipeline_flows`) determine the (day, fingerprint, type) triple: the hypothesis of `acked_sample_indexed` on
    `key` is exactly "CH64 does not collide on the 17-byte strings of the history". -/
theorem cache_key_bytes_injective {d d' f f' : BitVec 64} {t t' : UInt8} (h : keyBytes d f t = keyBytes d' f' t') :
    d = d' ∧ f = f' ∧ t = t' := keyBytes_inj h

theorem gen_cache_key_layout :
    LabelPipeline.keyLayout = [("day", 0, 8), ("fp", 8, 16), ("type", 16, 17)] ∧ LabelPipeline.keyLayoutOk = true := by decide

/-! ### orders the code must not have (kernel-checked counterexamples) -/

/-- the order of seeded change C04-3: fingerprint from the raw list, UTF-8 repair only where the document is written -/
def fpBeforeValidUTF8 : List Step := [.assign .ttlStrip [], .fingerprint [], .document [.validUTF8]]

/-- truncation (sanitizeLabels) after the UTF-8 repair -/
def truncateAfterValidUTF8 : List Step :=
  [.assign .ttlStrip [], .assign .validUTF8 [], .assign .sanitize [], .fingerprint [], .document []]

/-- "a" = 99 × 'a' then a two-byte rune (`é` = C3 A9, `Ā` = C4 80) then "zzz": the rune lies across byte 100 -/
def cutValue (b0 b1 : UInt8) : Bytes := List.replicate 99 97 ++ [b0, b1, 122, 122, 122]
def cutRaw (b0 b1 : UInt8) : Labels := sanitizeLabels [([97], cutValue b0 b1)]

/-- simple concrete hashes for the witnesses (any functions will do) -/
def demoHash (b : Bytes) : W := BitVec.ofNat 64 (b.foldl (fun a c => a * 31 + c.toNat) 7)

/-- the stored form of both witnesses: 99 × 'a', U+FFFD, "..." -/
def cutStored : Labels := [([97], List.replicate 99 97 ++ [0xEF, 0xBF, 0xBD, 46, 46, 46])]

theorem fpBeforeValidUTF8_not_disciplined : disciplined fpBeforeValidUTF8 = false := by decide

/-- **fp_before_validUTF8_counterexample.** With the fingerprint taken before the UTF-8 repair the property fails:
    `{a="a…aé…"}` and `{a="a…aĀ…"}` (rune across byte 100) are stored as the SAME document, the lists fingerprinted
    differ, and the fingerprints differ (for the demo hash). -/
theorem fp_before_validUTF8_counterexample :
    storedDocOf fpBeforeValidUTF8 0 (cutRaw 0xC3 0xA9) = some (encodeLabels cutStored) ∧
    storedDocOf fpBeforeValidUTF8 0 (cutRaw 0xC4 0x80) = some (encodeLabels cutStored) ∧
    (outOf 0 fpBeforeValidUTF8 (cutRaw 0xC3 0xA9)).map (·.1) ≠ (outOf 0 fpBeforeValidUTF8 (cutRaw 0xC4 0x80)).map (·.1) ∧
    storedFpOf fpBeforeValidUTF8 demoHash demoHash 0 (cutRaw 0xC3 0xA9) ≠
      storedFpOf fpBeforeValidUTF8 demoHash demoHash 0 (cutRaw 0xC4 0x80) := by decide +kernel

/-- so `same_doc_same_fp` is false of that order -/
theorem fp_before_validUTF8_breaks_same_doc :
    ¬ (∀ (ch outer : Bytes → W) (raw₁ raw₂ : Labels), storedDocOf fpBeforeValidUTF8 0 raw₁ = storedDocOf fpBeforeValidUTF8 0 raw₂ →
        storedFpOf fpBeforeValidUTF8 ch outer 0 raw₁ = storedFpOf fpBeforeValidUTF8 ch outer 0 raw₂) := by
  intro h
  have hc := fp_before_validUTF8_counterexample
  exact hc.2.2.2 (h demoHash demoHash _ _ (by rw [hc.1, hc.2.1]))

/-- **truncate_after_validUTF8_counterexample.** With the truncation after the repair the document holds half a
    rune: a reader that coerces invalid UTF-8 (encoding/json) decodes a list that is not the one fingerprinted. -/
theorem truncate_after_validUTF8_counterexample :
    disciplined truncateAfterValidUTF8 = false ∧
    ∃ ls doc, outOf 0 truncateAfterValidUTF8 [([97], cutValue 0xC3 0xA9)] = some (ls, ls) ∧
      storedDocOf truncateAfterValidUTF8 0 [([97], cutValue 0xC3 0xA9)] = some doc ∧
      JsonStr.parseObject doc = some ls ∧ parseObjectGo doc ≠ some ls := by
  refine ⟨by decide, [([97], List.replicate 99 97 ++ [0xC3, 46, 46, 46])], _, ?_, rfl, ?_, ?_⟩ <;> decide +kernel

/-! ### non-vacuity: the code's order on values with a rune across the cut -/

-- both witnesses are stored under ONE document and ONE fingerprint input by the code as it is
example : onEntriesLabels 0 (cutRaw 0xC3 0xA9) = some (cutStored, cutStored) := by decide +kernel
example : onEntriesLabels 0 (cutRaw 0xC4 0x80) = some (cutStored, cutStored) := by decide +kernel
-- a three-byte rune (日 = E6 97 A5) starting at byte 98 / 99 (cut after two bytes / one byte), a four-byte rune (😀) at 97
example : toValidUTF8 (truncValue (List.replicate 98 97 ++ [0xE6, 0x97, 0xA5, 122])) =
    List.replicate 98 97 ++ [0xEF, 0xBF, 0xBD, 46, 46, 46] := by decide +kernel
example : toValidUTF8 (truncValue (List.replicate 99 97 ++ [0xE6, 0x97, 0xA5, 122])) =
    List.replicate 99 97 ++ [0xEF, 0xBF, 0xBD, 46, 46, 46] := by decide +kernel
example : toValidUTF8 (truncValue (List.replicate 97 97 ++ [0xF0, 0x9F, 0x98, 0x80, 122])) =
    List.replicate 97 97 ++ [0xEF, 0xBF, 0xBD, 46, 46, 46] := by decide +kernel
-- the rune ends exactly at byte 100: nothing is repaired; a value of exactly 100 bytes is not truncated at all
example : toValidUTF8 (truncValue (List.replicate 98 97 ++ [0xC3, 0xA9, 122])) =
    List.replicate 98 97 ++ [0xC3, 0xA9, 46, 46, 46] := by decide +kernel
example : truncValue (List.replicate 98 97 ++ [0xC3, 0xA9]) = List.replicate 98 97 ++ [0xC3, 0xA9] := by decide +kernel
-- the hypotheses of `truncate_cut_in_rune` are satisfiable: p = 99 × 'a', r = é
example : OneRune [0xC3, 0xA9] ∧ validUTF8 (List.replicate 99 97) = true ∧ (List.replicate 99 97).length < Gen.labelValueCut ∧
    Gen.labelValueCut < (List.replicate 99 97).length + [0xC3, 0xA9].length ∧ Gen.labelValueMax ≤ Gen.labelValueCut := by
  refine ⟨⟨by decide, by decide⟩, ?_⟩
  decide +kernel
-- over-long encoding (C0 AF), surrogate (ED A0 80), beyond U+10FFFF (F4 90 80 80): every byte is invalid, one U+FFFD per run
example : toValidUTF8 [97, 0xC0, 0xAF, 98, 0xED, 0xA0, 0x80, 99, 0xF4, 0x90, 0x80, 0x80] =
    [97, 0xEF, 0xBF, 0xBD, 98, 0xEF, 0xBF, 0xBD, 99, 0xEF, 0xBF, 0xBD] := by decide +kernel
-- … while encoding/json's coercion writes one per byte (the two readers differ exactly on invalid input)
example : coerceUTF8 [97, 0xC0, 0xAF, 98] = [97, 0xEF, 0xBF, 0xBD, 0xEF, 0xBF, 0xBD, 98] := by decide +kernel
-- a request TTL label is an instruction, not part of the identity (no TTL header) — and is kept with a header
example : onEntriesLabels 0 [([97], [98]), (Ingest.ttlLabel, [55])] = some ([([97], [98])], [([97], [98])]) := by decide +kernel
example : (onEntriesLabels 3 [([97], [98]), (Ingest.ttlLabel, [55])]).map (·.1.length) = some 2 := by decide +kernel
-- the cache key bytes of (day 19724·86400, fp 7, type 1)
example : (keyBytes (BitVec.ofNat 64 (19724 * 86400)) 7 1).length = 17 := by decide +kernel

end Qryn.C04

/-! # third part: the history theorem with the cache key the code uses -/
namespace Qryn.C04
open Qryn Qryn.Fp Qryn.Gen Qryn.Pipeline Qryn.SeriesIndex

theorem ofInt64_inj {a b : Int} (ha : -9223372036854775808 ≤ a ∧ a < 9223372036854775808)
    (hb : -9223372036854775808 ≤ b ∧ b < 9223372036854775808) (h : BitVec.ofInt 64 a = BitVec.ofInt 64 b) : a = b := by
  have := congrArg BitVec.toInt h
  simp only [BitVec.toInt_ofInt] at this
  simp only [Int.bmod_def] at this
  omega

theorem ofNat64_inj {a b : Nat} (ha : a < 18446744073709551616) (hb : b < 18446744073709551616)
    (h : BitVec.ofNat 64 a = BitVec.ofNat 64 b) : a = b := by
  have := congrArg BitVec.toNat h
  simp only [BitVec.toNat_ofNat] at this
  omega

theorem ofNat8_inj {a b : Nat} (ha : a < 256) (hb : b < 256) (h : UInt8.ofNat a = UInt8.ofNat b) : a = b := by
  have := congrArg UInt8.toNat h
  simp only [UInt8.toNat_ofNat'] at this
  omega

/-- the bytes `maybeAddFp` hashes for a candidate -/
def candBytes (c : Cand) : Bytes := keyBytes (BitVec.ofInt 64 c.day) (BitVec.ofNat 64 c.fp) (UInt8.ofNat c.tp)

def CandInRange (c : Cand) : Prop :=
  -9223372036854775808 ≤ c.day ∧ c.day < 9223372036854775808 ∧ c.fp < 18446744073709551616 ∧ c.tp < 256

theorem candBytes_inj {x y : Cand} (hx : CandInRange x) (hy : CandInRange y) (h : candBytes x = candBytes y) : x = y := by
  obtain ⟨h1, h2, h3⟩ := keyBytes_inj h
  obtain ⟨xd, xf, xt⟩ := x
  obtain ⟨yd, yf, yt⟩ := y
  simp only [CandInRange] at hx hy
  have a := ofInt64_inj ⟨hx.1, hx.2.1⟩ ⟨hy.1, hy.2.1⟩ h1
  have b := ofNat64_inj hx.2.2.1 hy.2.2.1 h2
  have c := ofNat8_inj hx.2.2.2 hy.2.2.2 h3
  subst a b c; rfl

/-- **acked_sample_indexed_ch64.** `acked_sample_indexed` with the key the code really uses — `ch` (= city.CH64)
    of the 17 bytes whose layout is regenerated from `maybeAddFp`: the only hypothesis left is that `ch` does not
    collide on the 17-byte strings of the (day, fingerprint, type) triples occurring in the history (days in int64,
    fingerprints in uint64, types in uint8, as in Go). -/
theorem acked_sample_indexed_ch64 (ch : Bytes → W) (loc : Int) (hist : List Op)
    (hrange : ∀ op, op ∈ hist → ∀ x, x ∈ opCands loc op → CandInRange x)
    (hch : ∀ op, op ∈ hist → ∀ x, x ∈ opCands loc op → ∀ op', op' ∈ hist → ∀ y, y ∈ opCands loc op' →
      ch (candBytes x) = ch (candBytes y) → candBytes x = candBytes y) :
    ∀ s, s ∈ (run (fun c => ch (candBytes c)) loc hist).acked → s.tp ≤ 2 →
      rowFor loc s ∈ (run (fun c => ch (candBytes c)) loc hist).series := by
  refine acked_sample_indexed (fun c => ch (candBytes c)) loc (fun x => ∃ op, op ∈ hist ∧ x ∈ opCands loc op) ?_ hist ?_
  · rintro x y ⟨op, ho, hx⟩ ⟨op', ho', hy⟩ h
    exact candBytes_inj (hrange op ho x hx) (hrange op' ho' y hy) (hch op ho x hx op' ho' y hy h)
  · intro op ho x hx
    exact ⟨op, ho, hx⟩

-- the hypotheses are satisfiable: a two-push history, `ch` = the first 8 bytes … of the key (injective enough here)
example : CandInRange ⟨1704153600, 7, 1⟩ := by simp only [CandInRange]; omega
example : (candBytes ⟨1704153600, 7, 1⟩).length = 17 := by decide +kernel

end Qryn.C04
