import Qryn.Proofs.Confine
import Qryn.Read.Tables
import Qryn.Gen.DateSites
import Qryn.Proofs.LogQLPlan
import Qryn.Proofs.ConfineMetric
import Qryn.LogQL.PostMetric
import Qryn.Proofs.ConfineTrace
import Qryn.Proofs.ConfineRead
import Qryn.Proofs.LogQLMetric
import Qryn.Proofs.TraceQLLimit
import Qryn.Proofs.TraceQLTree
import Qryn.Proofs.PromSelect
import Qryn.Proofs.ProfSelector
import Qryn.Prof.SelectorCtx
import Qryn.Proofs.ConfineTempo
import Qryn.Proofs.ConfineProf
import Qryn.Proofs.Tail
import Qryn.Gen.VersionSites
import Qryn.Proofs.Signal
import Qryn.Proofs.ConfinePromLabels
import Qryn.Read.SignalCtx
import Qryn.Tempo.SearchCtl
/-! # C13 — every read is confined to the requested time window and signal type

`Confine.confined` is a structural predicate on statements (every base-table scan carries timestamp
bounds / a covering date range or a restriction to confined fingerprints / the type filter). It is proved
sound with respect to `Sql.Sem`, proved of every plan of the LogQL log-query planner model, and evaluated by
the driver on the reflection dump of the statements the REAL planners build for the other endpoints
(translation validation, labelled as such in the evidence). -/
namespace Qryn.C13
open Qryn Qryn.Sql Qryn.LogQL Qryn.Confine

/-- **data_scan_sound.** If a row passes PREWHERE/WHERE of a scan whose conditions contain a recognised
    lower and upper timestamp bound, the row has an integer timestamp inside the window widened by the
    allowed slack. -/
theorem data_scan_sound (o : Oracles) (env : Env) (r : Row) (w : Window) (pre wher : Option Expr)
    (hl : (conjuncts pre ++ conjuncts wher).any (isLowerTs w) = true)
    (hu : (conjuncts pre ++ conjuncts wher).any (isUpperTs w) = true)
    (hp : optB o env r pre = true) (hw : optB o env r wher = true) :
    (∃ c ts, isTsCol c = true ∧ r.get c = .int ts ∧ w.fromNs - w.slackNs ≤ ts) ∧
    (∃ c ts, isTsCol c = true ∧ r.get c = .int ts ∧ ts ≤ w.toNs + w.slackNs) := by
  have holds : ∀ e ∈ conjuncts pre ++ conjuncts wher, evalB o env r e = true := by
    intro e he
    rcases List.mem_append.mp he with h | h
    · exact conjunct_holds o env r pre hp e h
    · exact conjunct_holds o env r wher hw e h
  obtain ⟨e1, he1, hl1⟩ := List.any_eq_true.mp hl
  obtain ⟨e2, he2, hu2⟩ := List.any_eq_true.mp hu
  exact ⟨lower_sound o env r w e1 hl1 (holds e1 he1), upper_sound o env r w e2 hu2 (holds e2 he2)⟩

/-- **type_filter_sound.** A row passing a recognised type filter is of the API's signal or of type 0 (both). -/
theorem type_filter_sound (o : Oracles) (env : Env) (r : Row) (w : Window) (e : Expr)
    (h : isTypeFilter w e = true) (he : evalB o env r e = true) :
    r.get "type" = .int w.tp ∨ r.get "type" = .int 0 :=
  type_sound o env r w e h he

/-- **date_lower_covers.** The day of either instant a lower date bound may be rendered from (start − 30 min,
    or the start) is not after the day of any instant of the window: no index row of a day on which the
    window has data is cut off. For every window, in UTC day numbers. -/
theorem date_lower_covers (w : Window) (ts : Int) (h : w.fromNs ≤ ts) :
    ∀ t ∈ lowerInstants w, t / 86400 ≤ dayOfNs ts := by
  intro t ht
  simp only [lowerInstants, List.mem_cons, List.mem_singleton, List.not_mem_nil, or_false] at ht
  unfold dayOfNs secOf at *
  rcases ht with rfl | rfl <;> omega

/-- **date_upper_covers.** … and the day of either instant an upper date bound may be rendered from (the end,
    or its last nanosecond) is not before the day of any instant strictly inside the window. -/
theorem date_upper_covers (w : Window) (ts : Int) (h : ts < w.toNs) :
    ∀ t ∈ upperInstants w, dayOfNs ts ≤ t / 86400 := by
  intro t ht
  simp only [upperInstants, List.mem_cons, List.mem_singleton, List.not_mem_nil, or_false] at ht
  unfold dayOfNs secOf at *
  rcases ht with rfl | rfl <;> omega

/-- the upper bound the profile planners used before the fix (date of end − 30 min) does NOT cover:
    a window ending 10 minutes after midnight has instants on a later day than its bound -/
theorem upper_minus_30min_does_not_cover :
    ∃ (toNs ts : Int), ts < toNs ∧ ¬ (dayOfNs ts ≤ (secOf toNs - 1800) / 86400) :=
  ⟨600 * 1000000000, 300 * 1000000000, by decide, by decide⟩

/-- **all_scans_confined_logql.** Every statement the LogQL log-query planner model produces is confined to
    the request's window and signal type: the samples scan by exact timestamp bounds and the type filter,
    the index scan by a covering date bound and the type filter, the series scans to the fingerprints
    selected by it. For every query, window, limit, direction and both table layouts. -/
theorem all_scans_confined_logql (cfg : Cfg) (c : Ctx) (h : LokiCfg cfg c) (q : LogQuery) :
    confined cfg (winOf c) (planLog c q) = true :=
  planLog_confined cfg c h q

/-- **log_results_in_window.** Consequence of C07.plan_correct: every entry a log query returns lies in
    [start, end) and is of the logs signal (or type 0), and nothing inside is missed without a limit. -/
theorem log_results_in_window (o : Oracles) (c : Ctx) (d : LokiDb) (q : LogQuery) (s : Sample)
    (h : s ∈ limited o c d q) : c.fromNs ≤ s.ts ∧ s.ts < c.toNs ∧ typeOk c s.tp = true := by
  have := (LogQL.limited_sound o c d q s h).2
  simp only [entryMatches, Bool.and_eq_true, decide_eq_true_eq] at this
  exact ⟨this.1.1.1.1, this.1.1.1.2, this.1.1.2⟩

-- non-vacuity: a concrete plan is confined under the real table names
example : confined ⟨fun t => if t = "samples_v3" then .data else if t = "time_series" ∨ t = "time_series_gin" then .index else .other, fun _ => true, fun _ => false⟩
    (winOf ⟨100, 200, 10, false, 1, false, "time_series_gin", "samples_v3", "time_series", "time_series"⟩)
    (planLog ⟨100, 200, 10, false, 1, false, "time_series_gin", "samples_v3", "time_series", "time_series"⟩
      ⟨[⟨[97], .eq, [98]⟩], [.line ⟨.contains, [120], none⟩]⟩) = true := by
  apply planLog_confined
  constructor <;> decide

end Qryn.C13

namespace Qryn.C13
open Qryn.Confine
/-- **tables_classified.** Every table name the reader registers (regenerated from tables.go) is classified
    as a data table, an index table or unused: a new table cannot silently escape the confinement check. -/
theorem tables_classified : allClassified = true := by decide
end Qryn.C13

namespace Qryn.C13
/-- **date_bounds_zone_free.** Every date bound the reader renders (regenerated inventory of every
    `Format("2006-01-02")` under reader/) is rendered from a time normalised to UTC, and no upper bound is
    rendered with the start-of-window helper (end − 30 min): the date bounds do not depend on the process
    zone, so `date_lower_covers`/`date_upper_covers` (stated in UTC days) apply for every zone offset. -/
theorem date_bounds_zone_free :
    Qryn.Gen.dateSites.all (fun s => s.2) = true ∧ Qryn.Gen.fromDateOfEnd = [] := by decide
end Qryn.C13

/-! ## the LogQL metric planner (`planMetric`, tied byte for byte to `clickhouse_planner.Plan(script, true)` by C08's
    text stream and by the `model-metric` stream of this property) -/
namespace Qryn.C13
open Qryn Qryn.Sql Qryn.LogQL Qryn.Confine

/-- **all_scans_confined_metric.** Every statement the LogQL metric planner model produces — range aggregations
    over the samples table or, in the shortcut, over the 15 s rollup; unwrap; vector aggregation by/without
    (incl. its extra time_series scan); topk; comparisons; step fix; labels join — is confined to the planner
    context's window and signal type: the samples scan by the exact bounds `[From, To)` (slack 0), the
    metrics_15s scan by the two ends rounded to the 15 s storage grid (slack 15 s − 1 ns, `metricSlack`), every
    index scan by the covering date bound and the type filter or by the fingerprints of such a scan.
    For every query of the fragment, window, step, both table layouts. -/
theorem all_scans_confined_metric (cfg : Cfg) (c : MCtx) (h : MetricCfg cfg c) (q : MetricQuery) :
    confined cfg (winMetric c q) (planMetric c q) = true :=
  planMetric_confined cfg c h q

/-- **metric_slack_bounded.** The slack `all_scans_confined_metric` needs is 0 unless the metrics_15s shortcut is
    taken; then it is below 15 s, which is at most the range duration (the shortcut is only taken for ranges
    that are whole multiples of 15 s). -/
theorem metric_slack_bounded (q : MetricQuery) :
    0 ≤ metricSlack q ∧ metricSlack q < 15000000000 ∧
    (takesShortcut q = false → metricSlack q = 0) ∧
    (takesShortcut q = true → metricSlack q < q.rangeAgg.durNs ∧ q.rangeAgg.durNs % 15000000000 = 0) := by
  unfold metricSlack
  refine ⟨by split <;> decide, by split <;> decide, fun h => by simp [h], fun h => ?_⟩
  simp only [h, if_true]
  simp only [takesShortcut] at h
  cases hk : q.rangeAgg.kind with
  | lra fn =>
    simp only [hk, Bool.and_eq_true, beq_iff_eq, slot15] at h
    obtain ⟨⟨⟨_, h1⟩, h2⟩, _⟩ := h
    have h1 := of_decide_eq_true h1
    exact ⟨by omega, h2⟩
  | unwrap fn l => simp [hk] at h

/-- **shortcut_bounds_on_grid.** The literal bounds of the metrics_15s scan are the ends of the window rounded
    with Go's truncating division: each differs from the end it is computed from by less than 15 s, and for
    times after 1970 the lower one is the start of the 15 s slot holding `From` (never above it) and the upper
    one is never above `To`. -/
theorem shortcut_bounds_on_grid (t : Int) :
    t - 15000000000 < Int.tdiv t slot15 * slot15 ∧ Int.tdiv t slot15 * slot15 < t + 15000000000 ∧
    (0 ≤ t → Int.tdiv t slot15 * slot15 ≤ t) := by
  rw [slot15_val]; exact tdiv_grid t 15000000000 (by decide)

/-- **metric_window_widening.** The window `FixPeriodPlanner` hands to the SQL planners for a range of `d` ns
    (`fixWindow`, C08) widens the requested `[start, end)` to the enclosing range buckets and not further:
    the new start is the start of the bucket holding `start` (less than `d` before it), the new end is the end
    of the bucket holding `end` (at most `d` after it). Times after 1970. -/
theorem metric_window_widening (start end_ d : Int) (hd : 0 < d) (hs : 0 ≤ start) (he : 0 ≤ end_) :
    start - d < (fixWindow start end_ d).1 ∧ (fixWindow start end_ d).1 ≤ start ∧
    end_ < (fixWindow start end_ d).2 ∧ (fixWindow start end_ d).2 ≤ end_ + d := by
  obtain ⟨a1, _, a3⟩ := tdiv_grid start d hd
  obtain ⟨b1, _, b3⟩ := tdiv_grid end_ d hd
  have := a3 hs
  have := b3 he
  simp only [fixWindow, hd, if_true]
  refine ⟨a1, by omega, by omega, by omega⟩

/-- **shortcut_adds_no_widening.** On a window produced by `fixWindow` for a range that is a whole multiple of
    15 s (the only ranges the shortcut is taken for) the 15 s rounding of the metrics_15s scan changes nothing:
    its bounds are exactly the bucket-aligned window. So for a range query the rows read lie in the requested
    window widened to the enclosing range buckets, whichever table serves it. -/
theorem shortcut_adds_no_widening (start end_ : Int) (m : Int) :
    let d := m * 15000000000
    Int.tdiv (Int.tdiv start d * d) slot15 * slot15 = Int.tdiv start d * d ∧
    Int.tdiv (Int.tdiv end_ d * d + d) slot15 * slot15 = Int.tdiv end_ d * d + d := by
  intro d
  rw [slot15_val]
  have e1 : Int.tdiv start d * d = (Int.tdiv start d * m) * 15000000000 := by
    show Int.tdiv start d * (m * 15000000000) = _
    rw [Int.mul_assoc]
  have e2 : Int.tdiv end_ d * d + d = ((Int.tdiv end_ d + 1) * m) * 15000000000 := by
    show Int.tdiv end_ d * (m * 15000000000) + m * 15000000000 = _
    rw [Int.add_mul, Int.one_mul, Int.add_mul, Int.mul_assoc]
  rw [e1, e2, Int.mul_tdiv_cancel _ (by decide), Int.mul_tdiv_cancel _ (by decide)]
  exact ⟨rfl, rfl⟩

-- non-vacuity: the hypotheses of all_scans_confined_metric are satisfiable by the real table names
example : MetricCfg ⟨fun t => if t = "samples_v3" ∨ t = "metrics_15s" then .data else if t = "time_series" ∨ t = "time_series_gin" then .index else .other, fun _ => true, fun _ => false⟩
    ⟨⟨100, 200, 10, false, 1, false, "time_series_gin", "samples_v3", "time_series", "time_series"⟩, 5, "metrics_15s"⟩ := by
  constructor
  · constructor <;> decide
  · decide

end Qryn.C13

/-! ## the TraceQL planner (`TraceQL.plan`, `planTags`, `planValues`, tied byte for byte to
    `clickhouse_transpiler.Plan/PlanTagsV2/PlanValuesV2` by C11's text streams and by the `model-traceql` stream here) -/
namespace Qryn.C13
open Qryn Qryn.Sql Qryn.Confine

/-- **all_scans_confined_traceql.** For every script the TraceQL planner model accepts — one selector, chains of
    `&&` / `||` of any length and nesting (set operations whose operands carry their own WITH lists), `{}`,
    aggregators, the random filter of complex request portions — every base-table scan of the statement is
    confined to the request's window: the attribute-index scans by the UTC date range covering `[From, To]`
    (and the timestamp bounds), the attribute-less span scans by timestamp bounds, and the span-table scans
    that fetch the result only through trace ids selected by those scans. `confinedDeep` is the predicate the
    driver evaluates on the dumps of the real plans (with fuel 64); it holds for all sufficiently large fuel. -/
theorem all_scans_confined_traceql (cfg : Cfg) (c : TraceQL.Ctx) (h : TraceCfg cfg c) (script : TraceQL.Script) (s : Sel)
    (hs : TraceQL.plan c script = .ok s) : ∃ n, ∀ f, n ≤ f → confinedDeep cfg (winT c) f s = true :=
  (plan_good cfg c h script s hs).confined

/-- **all_scans_confined_traceql_tags.** The same for the tag-names statement (`PlanTagsV2`). -/
theorem all_scans_confined_traceql_tags (cfg : Cfg) (c : TraceQL.Ctx) (h : TraceCfg cfg c) (kvTable : String)
    (hkv : cfg.kind kvTable = .index) (script : TraceQL.Script) (s : Sel)
    (hs : TraceQL.planTags c kvTable script = .ok s) : ∃ n, ∀ f, n ≤ f → confinedDeep cfg (winT c) f s = true :=
  (planTags_good cfg c h kvTable hkv script s hs).confined

/-- **all_scans_confined_traceql_values.** … and for the tag-values statement (`PlanValuesV2`), both its forms: the
    key/value table scanned by the date range `[From − 30 min, To]`, or the attribute index restricted by the
    selector. -/
theorem all_scans_confined_traceql_values (cfg : Cfg) (c : TraceQL.Ctx) (h : TraceCfg cfg c) (kvTable : String)
    (hkv : cfg.kind kvTable = .index) (key : Bytes) (script : TraceQL.Script) (s : Sel)
    (hs : TraceQL.planValues c kvTable key script = .ok s) : ∃ n, ∀ f, n ≤ f → confinedDeep cfg (winT c) f s = true :=
  (planValues_good cfg c h kvTable hkv key script s hs).confined

/-- **confinedDeep_fuel_mono.** More fuel never changes a positive verdict of `confinedDeep` (fuel only bounds the
    nesting of set operations it follows), so the `∃ n` above is a threshold. -/
theorem confinedDeep_fuel_mono (cfg : Cfg) (w : Window) (f f' : Nat) (s : Sel) (hle : f ≤ f')
    (h : confinedDeep cfg w f s = true) : confinedDeep cfg w f' s = true :=
  confinedDeep_mono cfg w hle h

-- non-vacuity: the planner succeeds on a script with `&&`, and the hypotheses on the tables are satisfiable
example : (match TraceQL.plan ⟨100, 200, 0, 10, false, "tempo_traces_attrs_gin", "tempo_traces_attrs_gin_dist", "tempo_traces", "tempo_traces_dist", 0, 0, []⟩
    [(⟨some (.leaf ⟨".a", .eq, .str [34, 98, 34] (some [98])⟩), none⟩, .and),
     (⟨some (.leaf ⟨"duration", .gt, .dur ⟨false, [1], false, []⟩ .s⟩), none⟩, .none)] with | .ok _ => true | .error _ => false) = true := by
  decide +kernel
example : TraceCfg ⟨fun t => if t = "tempo_traces" ∨ t = "tempo_traces_dist" then .data else if t = "tempo_traces_attrs_gin" ∨ t = "tempo_traces_attrs_gin_dist" then .index else .other,
      fun _ => false, fun t => t = "tempo_traces" ∨ t = "tempo_traces_dist"⟩
    ⟨100, 200, 0, 10, false, "tempo_traces_attrs_gin", "tempo_traces_attrs_gin_dist", "tempo_traces", "tempo_traces_dist", 0, 0, []⟩ := by
  constructor <;> decide

end Qryn.C13

/-! ## Loki series / label values, Prometheus remote read, Pyroscope selector -/
namespace Qryn.C13
open Qryn Qryn.Sql Qryn.LogQL Qryn.Confine

/-- **all_scans_confined_series.** `SeriesPlanner.Process` (GET /loki/api/v1/series) over every stream selector
    (`PlanFingerprints` plans the matchers only): the time_series scan carries `date ≥ date(From − 30 min)`,
    `date ≤ date(To)` (UTC) and the type filter, the fingerprint sub-query the covering lower date bound and the
    type filter. Both table layouts. -/
theorem all_scans_confined_series (cfg : Cfg) (c : Ctx) (h : LokiCfg cfg c) (ms : List Matcher) :
    confined cfg (winOf c) (planSeries c ms) = true :=
  planSeries_confined cfg c h ms

/-- **all_scans_confined_values.** `ValuesPlanner.Process` (label values), with a selector or without one. -/
theorem all_scans_confined_values (cfg : Cfg) (c : Ctx) (h : LokiCfg cfg c) (key : Bytes) (ms : Option (List Matcher)) :
    confined cfg (winOf c) (LogQL.planValues c key ms) = true :=
  planValues_confined cfg c h key ms

/-- **all_scans_confined_prom.** The statements of the Prometheus remote-read path, for every matcher list (as asked of
    the label index, with any assignment of required / must-stay-clear bits — matchers that accept the empty value) and
    every `SelectHints` (every function name, step and range): the raw-sample statement of
    `TranspileLabelMatchers` (with the instant-vector wrapper and the step filter of `processHints`) scans
    samples with `From ≤ timestamp_ns ≤ To` and the metrics type, the rollup statement of
    `GetLabelMatchersDownsampleRequest` scans metrics_15s with `From < timestamp_ns ≤ To` and the type; the
    label index is scanned with the covering date bound and the type. No slack. -/
theorem all_scans_confined_prom (cfg : Cfg) (c : Ctx) (h : LokiCfg cfg c) (m15 : String) (hm : cfg.kind m15 = .data)
    (hh : Prom.Hints) (ms : List Matcher) (req : List Bool) :
    confined cfg (winOf c) (Prom.transpileRaw c hh ms req) = true ∧
    confined cfg (winOf c) (Prom.transpileDown c m15 hh ms req) = true :=
  ⟨transpileRaw_confined cfg c h hh ms req, transpileDown_confined cfg c h m15 hm hh ms req⟩

/-- **prof_selector_confined.** For every selector list (pseudo-labels, key/value selectors, any operators) the
    Pyroscope fingerprint query keeps both date bounds: a fingerprint it returns has an index row whose date lies
    between the UTC date of `From − 30 min` and the UTC date of `To` (byte order of `YYYY-MM-DD`), and both
    comparisons are rendered with the operators `>=` / `<=` (regenerated table of `sql_select`). At most 63
    key/value selectors (the recorded limit of the bit-set scheme, C17). -/
theorem prof_selector_confined (re gre : Bytes → Bytes → Bool) (table : String) (fromNs toNs : Int) (sels : List Prof.Selector)
    (h63 : (sels.filter (fun s => !Prof.isGlobal s)).length ≤ 63) (tbl : List Prof.PRow) (f : Nat) :
    ∃ q, Prof.profSelector gre table fromNs toNs sels = some q ∧
      q.fromDate = Time.formatFromDate fromNs ∧ q.toDate = Time.formatDate (secOf toNs) ∧
      Prom.fnOf "Ge" = ">=" ∧ Prom.fnOf "Le" = "<=" ∧
      (f ∈ q.eval re Gen.PromSelect.shiftWidth tbl →
        ∃ r ∈ tbl, r.fp = f ∧ Prom.bytesLe (Time.formatFromDate fromNs) r.date = true ∧
          Prom.bytesLe r.date (Time.formatDate (secOf toNs)) = true) := by
  obtain ⟨q, hq, hiff⟩ := Prof.plan_correct re gre _ table (Time.formatFromDate fromNs) (Time.formatDate (Int.fdiv toNs 1000000000)) sels
    (Nat.le_trans h63 (by decide : 63 ≤ Gen.PromSelect.shiftWidth)) h63 tbl f
  have hd : ∀ (ss : List Prof.Selector) (q' : Prof.PQuery) (a b : Bytes), Prof.plan gre table a b ss = some q' → q'.fromDate = a ∧ q'.toDate = b := by
    intro ss
    induction ss with
    | nil => intro q' a b h; simp only [Prof.plan, Option.some.injEq] at h; subst h; exact ⟨rfl, rfl⟩
    | cons s ss ih =>
      intro q' a b h
      simp only [Prof.plan] at h
      split at h
      · rename_i g q0 _ hq0; injection h with h; subst h; exact ih q0 a b hq0
      · rename_i k q0 _ hq0; injection h with h; subst h; exact ih q0 a b hq0
      · cases h
  obtain ⟨d1, d2⟩ := hd sels q _ _ hq
  refine ⟨q, hq, d1, by rw [d2, fdiv_sec], by decide, by decide, fun hf => ?_⟩
  obtain ⟨⟨r, hr, hfp, hdate, _⟩, _⟩ := hiff.mp hf
  simp only [Prof.dateOk, Bool.and_eq_true] at hdate
  exact ⟨r, hr, hfp, hdate.1, by rw [← fdiv_sec]; exact hdate.2⟩

/-- **prom_index_confined.** The fingerprint sub-query of the Prometheus path (the LogQL stream selector over
    Prometheus matchers), for every matcher list of at most 63 matchers: a fingerprint it returns has an index
    row of the metrics type (or type 0) whose date is not before the UTC date of `From − 30 min`. -/
theorem prom_index_confined (re full : Bytes → Bytes → Bool) (table : String) (fromNs : Int) (tp : Int) (ms : List Prom.Matcher)
    (h63 : ms.length ≤ 63) (tbl : List Prom.IdxRow) (f : Nat) :
    ∃ q, Prom.fingerprintsQuery full table (Time.formatFromDate fromNs) tp ms = some q ∧
      (f ∈ q.eval re Gen.PromSelect.shiftWidth tbl →
        ∃ r ∈ tbl, r.fp = f ∧ Prom.bytesLe (Time.formatFromDate fromNs) r.date = true ∧ (r.type = tp ∨ r.type = 0)) := by
  obtain ⟨q, hq, hiff⟩ := Prom.fpQuery_correct re full _ table (Time.formatFromDate fromNs) tp ms
    (Nat.le_trans h63 (by decide : 63 ≤ Gen.PromSelect.shiftWidth)) h63 tbl f
  refine ⟨q, hq, fun hf => ?_⟩
  obtain ⟨⟨r, hr, hfp, hadm⟩, _⟩ := hiff.mp hf
  simp only [Prom.admissible, Bool.and_eq_true, Bool.or_eq_true, beq_iff_eq] at hadm
  exact ⟨r, hr, hfp, hadm.1, hadm.2⟩

end Qryn.C13

/-! ## semantic corollaries: what is read lies in the window -/
namespace Qryn.C13
open Qryn Qryn.Sql Qryn.LogQL Qryn.Confine

/-- **metric_samples_in_window.** (from C08) Every row the range aggregation of a metric query reads from the
    samples table lies in the planner's window `[From, To)`; every 15 s slot the shortcut reads from metrics_15s
    starts in `[From, To)` rounded to the 15 s grid — by `shortcut_bounds_on_grid` less than 15 s outside, and by
    `shortcut_adds_no_widening` exactly the bucket-aligned window for range queries. -/
theorem metric_samples_in_window (o : Oracles) (db : Db) (env : Env) (c : MCtx) (q : LogQuery) :
    (∀ out ∈ evalBodyA o db env (samplesMain c.toCtx q),
        ∃ t, out.get "timestamp_ns" = .int t ∧ c.fromNs ≤ t ∧ t < c.toNs) ∧
    (∀ r, optB o env r (some (shortcutWhere c)) = true →
        ∃ t, r.get "samples.timestamp_ns" = .int t ∧ c.fromNs - 15000000000 < t ∧ t < c.toNs + 15000000000 ∧
          (r.get "type" = .int (winMetric c (.range ⟨.lra .rate, q, 0, none, none, none⟩)).tp ∨ r.get "type" = .int 0)) := by
  refine ⟨fun out h => LogQL.window_confined o db env c.toCtx q out h, fun r h => ?_⟩
  obtain ⟨t, ht, h1, h2⟩ := shortcut_confines o env c r h
  obtain ⟨a1, _, _⟩ := shortcut_bounds_on_grid c.fromNs
  obtain ⟨_, b2, _⟩ := shortcut_bounds_on_grid c.toNs
  refine ⟨t, ht, by omega, by omega, ?_⟩
  have hc : getTypes c.toCtx ∈ conjuncts (some (shortcutWhere c)) := by
    have : conjuncts (some (shortcutWhere c)) = [ge (.raw "samples.timestamp_ns") (.int (Int.tdiv c.fromNs slot15 * slot15)),
        lt (.raw "samples.timestamp_ns") (.int (Int.tdiv c.toNs slot15 * slot15)), getTypes c.toCtx,
        .isIn (.raw "samples.fingerprint") [.withRef (.named "fp_sel")]] :=
      conjuncts_and_flat _ (by
        intro e he
        simp only [List.mem_cons, List.not_mem_nil, or_false] at he
        rcases he with rfl | rfl | rfl | rfl
        · exact splice_logical _ _ (by decide)
        · exact splice_logical _ _ (by decide)
        · rfl
        · rfl)
    rw [this]; simp
  exact type_sound o env r _ (getTypes c.toCtx) (getTypes_isTypeFilter c.toCtx) (conjunct_holds o env r _ h _ hc)

/-- **traceql_results_in_window.** (from C11) Which traces the statement of a TraceQL script returns is decided by
    the index rows inside the window alone: removing every index row whose timestamp is outside `[From, To)` or
    whose date is outside the window's UTC days changes nothing. -/
theorem traceql_results_in_window (o : Oracles) (ao : AggOracles) (hp : TraceQL.PermInv ao) (c : TraceQL.Ctx)
    (d : TraceQL.TraceDb) (hr : c.rndMax = 0) (hcons : TraceQL.DurConsistent d) (script : TraceQL.Script) (X : Sel)
    (h : TraceQL.rootSel c script = .ok X) (hok : ∀ p ∈ script, TraceQL.SelOk p.1) (env : Env) (tr : Bytes) :
    (∃ r ∈ evalSelG o ao (d.toDb c) true env X, r.get "trace_id" = .str tr) ↔
      TraceQL.traceMatches o ao c (d.inWindow c) script tr = true := by
  have hT := (TraceQL.root_traceSel o ao hp c d (by rw [TraceQL.seen_noFilter d o c hr]; exact hcons) script X h hok).rows [] env
  have hX : X.addCols [] = X := by obtain ⟨ws, d', c', f, j, p, w, g, h', ob, l⟩ := X; simp [Sel.addCols]
  rw [hX, TraceQL.seen_noFilter d o c hr] at hT
  rw [TraceQL.traceMatches_window]
  exact hT.mem tr

/-- **prom_samples_in_window.** (from C17) The raw-sample scan of the Prometheus path keeps exactly the samples with
    `From ≤ timestamp_ns ≤ To`. -/
theorem prom_samples_in_window (fromNs toNs ts : Int) :
    Prom.scanHolds fromNs toNs ts = true ↔ fromNs ≤ ts ∧ ts ≤ toNs := Prom.scanHolds_iff fromNs toNs ts

end Qryn.C13

/-! ## the legacy Tempo search (`GET /api/search?tags=…`): `Tempo.planSearch`, tied byte for byte to `TempoService.Search`
    (→ `dbVersion.GetVersionInfo` → `SQLIndexQuery` + `GetTracesQuery`) in every version state by the `model-tempo` stream -/
namespace Qryn.C13
open Qryn Qryn.Sql Qryn.Confine Qryn.Tempo

/-- **tempo_search_confined.** For EVERY request of the legacy Tempo search — any tag list (also none, also an empty one),
    any limit, any duration bounds, any window with positive ends (the controller passes `start`/`end` seconds or
    now − 6 h / now), both table layouts — and EVERY version state of the database (any `settings` rows, any table list):
    the read of the span table carries `start_time_unix_nano > from` and `<= to` (`start_time_unix_nano` being the alias of
    `timestamp_ns` in the same select), whether or not an index request is given; and every per-tag sub-select over
    `tempo_traces_attrs_gin` carries `date >= toDate(UTC day of from)`, `date <= toDate(UTC day of to)` and no other
    comparison on the date column (so no index row of a day the window touches is cut off, `date_lower_covers` /
    `date_upper_covers`). The version state only adds conjuncts (`timestamp_ns`, `duration` of the index rows). -/
theorem tempo_search_confined (cfg : Cfg) (r : SearchReq) (ver : VersionInfo) (h : SearchCfg cfg r)
    (hf : 0 < r.fromNs) (ht : 0 < r.toNs) : searchConfined cfg (winSearch r) (planSearch r ver) = true :=
  planSearch_confined cfg r ver h hf ht

/-- **tempo_search_results_in_window.** Semantic form, over the meaning `Tempo.searchRows` of the statement (alias columns
    usable in WHERE, tuple `IN` over the joined index sub-selects, stable ORDER BY, LIMIT): for every database, every
    request and every version state each returned row is a span row and its `start_time_unix_nano` is an integer in
    `(from, to]` — no span from outside the window, whatever the index contains. -/
theorem tempo_search_results_in_window (o : Oracles) (db : SearchDb) (r : SearchReq) (ver : VersionInfo)
    (hf : 0 < r.fromNs) (ht : 0 < r.toNs) (row : Row) (h : row ∈ searchRows o db (planSearch r ver)) :
    (∃ s ∈ db.spans, row = aliasRow o searchCols s) ∧
    ∃ ts, row.get "start_time_unix_nano" = .int ts ∧ r.fromNs < ts ∧ ts ≤ r.toNs :=
  planSearch_rows_in_window o db r ver hf ht row h

/-- **tempo_span_bounded_sound.** The span-scan rule of `searchConfined` is sound for `Tempo.searchRows` on ANY statement of
    the shape (not only on plans of the model — it is what the driver applies to the statements the REAL code sends, read back
    from their text): when `spanBounded w st` holds, every returned row has an integer timestamp column `≥ from − slack` and
    one `≤ to + slack`, provided the span table has no column named like a SELECT-list alias (then an alias in WHERE means the
    aliased column, as in ClickHouse). -/
theorem tempo_span_bounded_sound (o : Oracles) (w : Window) (db : SearchDb) (st : SearchStmt) (hb : spanBounded w st = true)
    (hA : ∀ s ∈ db.spans, ∀ a ∈ (aliasList st.cols).map (·.1), s.lookup a = none)
    (row : Row) (h : row ∈ searchRows o db st) :
    (∃ c ts, isTsCol c = true ∧ row.get c = .int ts ∧ w.fromNs - w.slackNs ≤ ts) ∧
    (∃ c ts, isTsCol c = true ∧ row.get c = .int ts ∧ ts ≤ w.toNs + w.slackNs) :=
  spanBounded_sound o w db st hb hA row h

/-- … and that column is the span's own `timestamp_ns` (the table has no column of the alias' name) -/
theorem tempo_search_alias_is_timestamp (o : Oracles) (s : Row) (h : s.lookup "start_time_unix_nano" = none) :
    (aliasRow o searchCols s).get "start_time_unix_nano" = s.get "timestamp_ns" :=
  aliasRow_start o s h

/-- **tempo_version_gate.** The version state as `GetVersionInfo` + `IsVersionSupported` decide it: a feature is supported
    for a window iff the LAST `type='update'` settings row of that name whose value parses as an int64 (Unix seconds)
    satisfies `value · 10⁹ ≤ from` in int64 arithmetic; without such a row it is supported for no window. The end of
    the window is not looked at, nor is the table list (which only concerns `v5`). -/
theorem tempo_version_gate (rows : List (Bytes × Bytes)) (tables : List Bytes) (fromNs : Int) :
    isVersionSupported (versionInfo rows tables) v2name fromNs =
      (match lastParsed v2name rows with
       | some t => decide (wrap64 (t * 1000000000) ≤ fromNs)
       | none => false) :=
  isVersionSupported_versionInfo rows tables v2name fromNs (by decide +kernel)

/-- **tempo_index_bounded_iff_v2.** The index request carries timestamp bounds (`timestamp_ns >= from`, `<= to` in each
    per-tag sub-select) exactly when there is at least one tag and tempo_v2 is supported for the window; in every other
    version state it is confined by whole UTC days only. -/
theorem tempo_index_bounded_iff_v2 (r : SearchReq) (ver : VersionInfo) (tags : List Tag) (hf : 0 < r.fromNs) (ht : 0 < r.toNs) :
    idxBounded (winSearch r) (idxQuery r ver tags) = (!tags.isEmpty && isVersionSupported ver v2name r.fromNs) :=
  idxBounded_iff r ver tags hf ht

/-- **idx_only_confined_iff.** COUNTER-PATTERN (seeded change C13-4, not the code): a span read that drops its own time
    conjuncts whenever an index request is given is confined exactly in the version states of
    `tempo_index_bounded_iff_v2` — not when the settings row is absent, unparsable, or newer than the window start. -/
theorem idx_only_confined_iff (cfg : Cfg) (r : SearchReq) (ver : VersionInfo) (tags : List Tag) (h : SearchCfg cfg r)
    (htags : r.tags = some tags) (hf : 0 < r.fromNs) (ht : 0 < r.toNs) :
    searchConfined cfg (winSearch r) (planSearchIdxOnly r ver) = (!tags.isEmpty && isVersionSupported ver v2name r.fromNs) :=
  idx_only_confined cfg r ver tags h htags hf ht

/-- a window of one second on 1970-01-02, one tag `k=v`, no tempo_v2 row -/
def cexReq : SearchReq := ⟨some [⟨[107], .eq, [118]⟩], 0, 0, 10, 90000000000000, 90001000000000, false, "db", "tempo_traces", "tempo_traces_dist", false⟩
/-- one span in the last second of that day, with its index row -/
def cexDb : SearchDb :=
  ⟨[[("trace_id", .str [1]), ("span_id", .str [2]), ("service_name", .str []), ("name", .str []),
     ("timestamp_ns", .int 172799000000000), ("duration_ns", .int 5)]],
   [[("date", .str (Time.formatDate 172799)), ("key", .str [107]), ("val", .str [118]), ("trace_id", .str [1]),
     ("span_id", .str [2]), ("timestamp_ns", .int 172799000000000), ("duration", .int 5)]]⟩
def cexOracles : Oracles := { reMatch := fun _ _ => false, jsonLabels := fun _ => [], isNum := fun _ => false, numCmp := fun _ _ _ => false, lower := id }

/-- **idx_only_counterexample.** … and there the results do leave the window: with no tempo_v2 row the counter-pattern
    returns a span 23 hours after the end of a one-second window (same UTC day), which the real plan does not. -/
theorem idx_only_counterexample :
    ((searchRows cexOracles cexDb (planSearchIdxOnly cexReq [])).map (fun r => r.get "timestamp_ns") = [.int 172799000000000]) ∧
    searchRows cexOracles cexDb (planSearch cexReq []) = [] ∧
    ((searchRows cexOracles cexDb (planSearchIdxOnly cexReq [(v2name, 0)])) = []) := by
  decide +kernel

-- non-vacuity: the hypotheses are satisfiable by the real table names (the driver reports for every generated request
-- whether the classification it uses, `lokiCfg`, satisfies them)
def cexCfg : Cfg :=
  ⟨fun t => if t = "tempo_traces" ∨ t = "tempo_traces_dist" then .data else if t = "`db`.tempo_traces_attrs_gin" then .index else .other,
   fun _ => false, fun _ => false⟩
example : SearchCfg cexCfg cexReq := by constructor <;> decide
example : searchConfined cexCfg (winSearch cexReq) (planSearch cexReq [(v2name, 86400)]) = true :=
  tempo_search_confined _ _ _ (by constructor <;> decide) (by decide) (by decide)

end Qryn.C13

namespace Qryn.C13
/-- **version_gates_inventory.** Every place under reader/ where the version state decides something (regenerated: each
    call of `IsVersionSupported`, each other read of a `VersionInfo` field; code inside comments — the turned-off v5
    branch of `GetLabelMatchersDownsampleRequest` — is not code): exactly the six gates of `SQLIndexQuery.String`, all on
    `tempo_v2` and the request window, which `Tempo.tagSel` (timestamp column; lower, upper timestamp bound; minimal, maximal
    duration) and `Tempo.idxQuery` (ORDER BY + LIMIT) have; no planner of another endpoint reads the version state, so
    their models need no version parameter. The decision expression is the one `Tempo.isVersionSupported` mirrors. -/
theorem version_gates_inventory :
    Qryn.Gen.versionGates = List.replicate 6 ("reader/tempo/sqlIndexQuery.go", "String", "tempo_v2", "s.FromNS", "s.ToNS") ∧
    Qryn.Gen.versionInfoReads = [] ∧
    Qryn.Gen.versionDecision = "ok && (fromNS >= (time * 1000000000))" := by decide
end Qryn.C13

/-! ## trace by id, legacy tag names / values (reader/service/tempoService.go), tied by the `model-tempo-legacy` stream -/
namespace Qryn.C13
open Qryn Qryn.Sql Qryn.Confine Qryn.Tempo

/-- **tempo_trace_by_id_confined.** `GetQueryRequest` for a request that names both ends (`start`, `end` ≠ 0): the span
    table is read with `timestamp_ns >= start` and `< end` (and the trace id), the outer select only re-orders that result.
    Both table layouts. Without `start` / `end` no window was asked for and the statement carries no bound for that end. -/
theorem tempo_trace_by_id_confined (cfg : Cfg) (q : QueryReq)
    (h1 : cfg.kind q.tracesTable = .data) (h2 : cfg.kind q.tracesDistTable = .data)
    (hs : q.startNs ≠ 0) (he : q.endNs ≠ 0) : confined cfg (winQuery q) (queryRequest q) = true :=
  queryRequest_confined cfg q h1 h2 hs he

/-- **tempo_legacy_tags_unwindowed.** `GET /api/search/tags` and `/api/search/tag/{tag}/values` take no window (the windowed
    forms are the V2 endpoints, `all_scans_confined_traceql_tags/_values`); their statements read the key/value table with
    no comparison on the date column at all — whole table, nothing cut off. Explicitly outside "confined to the window". -/
theorem tempo_legacy_tags_unwindowed (kv : String) (tag : Bytes) :
    conjuncts (whereOf (tagsRequest kv)) = [] ∧
    (∀ e ∈ conjuncts (whereOf (valuesRequest kv tag)), mentionsDate e = false) := by
  refine ⟨rfl, ?_⟩
  intro e he
  have : conjuncts (whereOf (valuesRequest kv tag)) = [eq (.raw "key") (.str tag)] :=
    conjuncts_and_flat _ (by intro e he; simp only [List.mem_singleton] at he; subst he; exact splice_logical _ _ (by decide))
  rw [this, List.mem_singleton] at he
  subst he
  simp [mentionsDate, eq, isDateCol]

end Qryn.C13

/-! ## the Pyroscope read statements (`Prof/Planners.lean`), tied byte for byte to `prof.PlanMergeProfiles / PlanMergeTraces /
    PlanSelectSeries / PlanSeries / PlanLabelNames / PlanLabelValues` by the `model-prof-plans` stream.
    `fq` / `mq` are what `getMatchers` makes of the selector list the fingerprint planner resp. the planner itself was given
    (`Prof.plan gre`, C17: global conditions, key/value conditions and the `kvRequired` mask — after `fix: a Pyroscope selector
    that accepts the empty value …` a key/value selector that accepts "" is asked inverted with its bit clear, the `or(…)` row
    filter is written only when some bit is required, HAVING compares with the mask; `gre` = Go's `regexp` as `acceptsEmpty`
    asks it). The fingerprint sub-select `selectorSel c fq` reads all of `fq`; the theorems hold for every selector list and
    every `gre` — whichever selectors are inverted and whether or not the row filter is there, the two date bounds are. -/
namespace Qryn.C13
open Qryn Qryn.Sql Qryn.Confine Qryn.Prof

/-- **prof_merge_profiles_confined.** `MergeProfilesPlanner` (SelectMergeProfile, AnalyzeQuery): `profiles` is scanned with
    `timestamp_ns >= From` and `<= To`, the fingerprint sub-query `fp` over `profiles_series_gin` with `date >= date(From − 30 min)`,
    `date <= date(To)` and no other comparison on the date column. Slack 0, both table layouts, any limit. -/
theorem prof_merge_profiles_confined (gre : Bytes → Bytes → Bool) (cfg : Cfg) (c : PCtx) (h : ProfCfg cfg c) (fpSels mainSels : List Selector) (fq mq : PQuery)
    (hf : Prof.plan gre "" [] [] fpSels = some fq) (_hm : Prof.plan gre "" [] [] mainSels = some mq) :
    confined cfg (winProf c) (mergeProfiles c fq mq.globals) = true :=
  (mergeProfiles_good cfg c h _ _ (plan_noDate _ _ _ _ _ _ hf)).confined

/-- **prof_merge_traces_confined.** `MergeRawPlanner` → `MergeJoinedPlanner` → `MergeAggregatedPlanner`
    (SelectMergeStacktraces): the only table read is `profiles` in `raw`, with `timestamp_ns >= From` and `< To`, and the
    `fp` sub-query as above; `pre_joined`, `joined` and the final aggregate read WITH entries only. -/
theorem prof_merge_traces_confined (gre : Bytes → Bytes → Bool) (cfg : Cfg) (c : PCtx) (h : ProfCfg cfg c) (typeUnit : Bytes) (fpSels mainSels : List Selector)
    (fq mq : PQuery) (hf : Prof.plan gre "" [] [] fpSels = some fq) (_hm : Prof.plan gre "" [] [] mainSels = some mq) :
    confined cfg (winProf c) (mergeTraces c typeUnit fq mq.globals) = true :=
  (mergeTraces_good cfg c h typeUnit _ _ (plan_noDate _ _ _ _ _ _ hf)).confined

/-- **prof_select_series_confined.** `SelectSeriesPlanner` over `GetLabelsPlanner` (SelectSeries; any group-by list,
    aggregation, step): `profiles` with `p.timestamp_ns >= From`, `<= To`; `profiles_series` (labels) and
    `profiles_series_gin` (fp) with the two date bounds. -/
theorem prof_select_series_confined (gre : Bytes → Bytes → Bool) (cfg : Cfg) (c : PCtx) (h : ProfCfg cfg c) (typeUnit : Bytes) (avg : Bool) (step : Int)
    (groupBy : List Bytes) (fpSels mainSels : List Selector) (fq mq : PQuery)
    (hf : Prof.plan gre "" [] [] fpSels = some fq) (hm : Prof.plan gre "" [] [] mainSels = some mq) :
    confined cfg (winProf c) (selectSeries c typeUnit avg step (getLabels c groupBy fq mq.globals) mq.globals) = true :=
  (selectSeries_good cfg c h typeUnit avg step groupBy _ _ (plan_noDate _ _ _ _ _ _ hf) (plan_noDate _ _ _ _ _ _ hm)).confined

/-- **prof_series_confined.** `PlanSeries` for one selector set (with or without label names; without any selector the
    whole `profiles_series` of the window's days): the two date bounds on every scan. -/
theorem prof_series_confined (gre : Bytes → Bytes → Bool) (cfg : Cfg) (c : PCtx) (h : ProfCfg cfg c) (labels : List Bytes) :
    confined cfg (winProf c) (Prof.planSeries c labels none) = true ∧
    ∀ (sels : List Selector) (q : PQuery), Prof.plan gre "" [] [] sels = some q →
      confined cfg (winProf c) (Prof.planSeries c labels (some q)) = true := by
  refine ⟨(profSeries_good cfg c h labels none (by intro p hp; cases hp)).confined, fun sels q hq => ?_⟩
  apply GoodM.confined
  apply profSeries_good cfg c h
  intro p hp
  injection hp with hp
  subst hp
  exact plan_noDate _ _ _ _ _ _ hq

/-- **prof_labels_union_confined.** LabelNames / LabelValues WITH selector sets: `fp` is the UNION ALL of one selector statement
    per set — each an index scan of `profiles_series_gin` with the two date bounds (`selectorSel`) — and the main select scans
    the index with the two date bounds and `fingerprint IN fp`. -/
theorem prof_labels_union_confined (gre : Bytes → Bytes → Bool) (cfg : Cfg) (c : PCtx) (h : ProfCfg cfg c) (col : String) (label : Option Bytes)
    (scripts : List (List Selector × PQuery)) (hq : ∀ p ∈ scripts, Prof.plan gre "" [] [] p.1 = some p.2) :
    unionConfined cfg (winProf c) (labelsUnion c col label (scripts.map (·.2))) = true := by
  apply labelsUnion_confined cfg c h
  intro p hp g hg
  obtain ⟨sq, hsq, rfl⟩ := List.mem_map.mp hp
  exact plan_noDate _ _ _ _ _ _ (hq sq hsq) g hg

/-- **prof_series_union_confined.** `PlanSeries` for two or more selector sets: every operand of the `pre_distinct` union
    (one `TimeSeriesSelectPlanner` statement per set) scans `profiles_series` with the two date bounds, the hoisted `fp` entry
    is the first set's selector statement, the selects over them read WITH entries only. -/
theorem prof_series_union_confined (gre : Bytes → Bytes → Bool) (cfg : Cfg) (c : PCtx) (h : ProfCfg cfg c) (labels : List Bytes)
    (scripts : List (List Selector × PQuery)) (hq : ∀ p ∈ scripts, Prof.plan gre "" [] [] p.1 = some p.2) :
    unionConfined cfg (winProf c) (seriesUnion c labels (scripts.map (·.2))) = true := by
  apply seriesUnion_confined cfg c h
  intro p hp g hg
  obtain ⟨sq, hsq, rfl⟩ := List.mem_map.mp hp
  exact plan_noDate _ _ _ _ _ _ (hq sq hsq) g hg

/-- **prof_analyze_query_confined.** `ProfileSizePlanner` over `MergeProfilesPlanner` (AnalyzeQuery): the only table reads are
    those of the merge-profiles statement (`prof_merge_profiles_confined`); the two bracketed sub-selects in the column list
    read the WITH entries `pre_profile_size` and `fp`. -/
theorem prof_analyze_query_confined (gre : Bytes → Bytes → Bool) (cfg : Cfg) (c : PCtx) (h : ProfCfg cfg c) (sels : List Selector) (q : PQuery)
    (hq : Prof.plan gre "" [] [] sels = some q) : confined cfg (winProf c) (analyzeQuery c q) = true :=
  (analyzeQuery_good cfg c h _ (plan_noDate _ _ _ _ _ _ hq)).confined

/-- non-vacuity on the two shapes of the fingerprint sub-select: `{region!="x", job="a"}` — `region!="x"` accepts "" and is asked
    inverted, bit 0 clear, bit 1 required: the `or(…)` row filter is a third conjunct — and `{region!="x"}` alone: no bit
    required, WHERE holds the two date bounds only, HAVING (`== 0`) is still there. Both are instances of the theorems above. -/
example :
    let c0 : PCtx := ⟨0, 1000000000, 0, "profiles_series_gin", "g", "s", "sd", "p"⟩
    (Prof.plan (fun _ _ => false) "" [] [] [⟨[114, 101, 103, 105, 111, 110], .ne, [120]⟩, ⟨[106, 111, 98], .eq, [97]⟩]).map (fun q =>
      (q.kvRequired, q.useOr, (conjuncts (whereOf (selectorSel c0 q))).length, (selectorSel c0 q).having.isSome)) =
      some ([false, true], true, 3, true) ∧
    (Prof.plan (fun _ _ => false) "" [] [] [⟨[114, 101, 103, 105, 111, 110], .ne, [120]⟩]).map (fun q =>
      (q.kvRequired, q.useOr, (conjuncts (whereOf (selectorSel c0 q))).length, (selectorSel c0 q).having.isSome)) =
      some ([false], false, 2, true) := by decide

/-- **prof_labels_confined.** LabelNames / LabelValues without a selector: `profiles_series_gin` with the two date bounds. -/
theorem prof_labels_confined (cfg : Cfg) (c : PCtx) (h : ProfCfg cfg c) (col : String) (label : Option Bytes) :
    confined cfg (winProf c) (labelsNoSel c col label) = true :=
  (labelsNoSel_good cfg c h col label).confined

end Qryn.C13

/-! ## the Loki tail (`QueryRangeService.Tail`): one `planLog` statement per tick, for the window `[from, now)` -/
namespace Qryn.C13
open Qryn Qryn.Sql Qryn.LogQL Qryn.Confine

/-- the planner context `Tail` hands to the log planner at a tick: `From = from`, `To = time.Now()`, `Limit = 0`,
    `OrderASC = false`, `Type = 0`; tables and layout of the connection -/
def tailCtx (base : Ctx) (from_ now : Int) : Ctx :=
  { base with fromNs := from_, toNs := now, limit := 0, orderAsc := false, tp := 0 }

/-- **tail_scans_confined.** Whatever the earlier ticks returned (`results` = the entry timestamps of each tick's result,
    in result order), the statement of every tick is the log planner's statement for the window `[from, now)` of that
    tick — hence confined to it, samples by exact timestamp bounds, index by the covering date bound, both with the
    logs-or-both type filter (`all_scans_confined_logql`) — and `from` never moves back before the `from` of the first
    tick (start of the tail − 5 min): a tail never reads older data than its first window. -/
theorem tail_scans_confined (cfg : Cfg) (base : Ctx) (h : LokiCfg cfg base) (q : LogQuery) (from0 : Int) (results : List (List Int)) :
    ∀ f ∈ Tail.froms from0 results, from0 ≤ f ∧
      ∀ now, confined cfg (winOf (tailCtx base f now)) (planLog (tailCtx base f now) q) = true := by
  intro f hf
  refine ⟨Tail.froms_ge from0 results f hf, fun now => ?_⟩
  exact planLog_confined cfg (tailCtx base f now) ⟨h.samples, h.gin, h.ts, h.tsDist⟩ q

/-- **tail_from_advances.** `from` after a tick: not before the old one, and not before any entry of the result. -/
theorem tail_from_advances (from_ : Int) (tss : List Int) :
    from_ ≤ Tail.advance from_ tss ∧ ∀ t ∈ tss, t ≤ Tail.advance from_ tss :=
  ⟨Tail.advance_ge from_ tss, Tail.advance_covers from_ tss⟩

end Qryn.C13

/-! ## the Prometheus metadata endpoints (`/api/v1/labels`, `/label/<n>/values`, `/series` with `match[]`): `Prom.promLabels /
    promValues / promSeries` — `fingerprintsQuery` per selector under `MultiStreamSelectPlanner` under the label-names select /
    `ValuesPlanner` / `SeriesPlanner`; tied byte for byte to `QueryLabelsService.PromLabels / PromValues / PromSeries` by the
    `model-promlabels` stream (C17's `Prom/Labels.lean` gives the same statements their meaning over index rows) -/
namespace Qryn.C13
open Qryn Qryn.Sql Qryn.LogQL Qryn.Confine Qryn.Prom

/-- **prom_labels_confined.** For every `match[]` list (none, one selector, several — then `fp_sel` is their UNION ALL), every
    matcher list and every assignment of required bits (matchers that accept the empty value are asked inverted), both table
    layouts: every select of the three statements scans its label-index table with `date >= date(From − 30 min)` (each
    `fingerprintsQuery` operand) resp. with both date bounds `>= date(From − 30 min)`, `<= date(To)` (the main selects), no
    other comparison on the date column, and the type filter of the context — the main select on its own, not only through
    `fingerprint IN fp_sel`. `table` is the index table `Labels` names itself when there is no selector; `lt` the
    `labelsType` the service writes into the label-names select (the same value as the context's Type). -/
theorem prom_labels_confined (cfg : Cfg) (c : Ctx) (h : LokiCfg cfg c) (table : String) (ht : cfg.kind table = .index)
    (lt : Int) (hlt : lt = (winOf c).tp) (key : Bytes) (sels : List PromSel) :
    promConfined cfg (winOf c) (promLabels c table lt sels) = true ∧
    promConfined cfg (winOf c) (promValues c key sels) = true ∧
    promConfined cfg (winOf c) (promSeries c sels) = true :=
  ⟨promLabels_confined cfg c h table ht lt hlt sels, promValues_confined cfg c h key sels, promSeries_confined cfg c h sels⟩

-- non-vacuity: two selectors ({a="b"} and the inverted form of {c!="d"}, its bit clear) give a union statement
example : (match promSeries ⟨100, 200, 10, false, 2, false, "time_series_gin", "samples_v3", "time_series", "time_series"⟩
    [⟨[⟨[97], .eq, [98]⟩], [true]⟩, ⟨[⟨[99], .eq, [100]⟩], [false]⟩] with | .union ops _ => ops.length | .single _ => 0) = 2 := by decide

end Qryn.C13

/-! ## the SIGNAL half: every scan of a table with a `type` column is restricted to the signal of the API that was called.
    `signalConfined cfg tp s` (Read/Signal.lean) examines the VALUES of the `type IN (…)` list. Which `PlannerContext.Type` an
    entry point builds is regenerated (`Gen.CtxTypes`); `SignalCtx.entryTypes k` are the values of the entry points of kind `k`. -/
namespace Qryn.C13
open Qryn Qryn.Sql Qryn.LogQL Qryn.Confine Qryn.SignalCtx

/-- **signal_entry_contexts.** The regenerated inventory: every `shared.PlannerContext{…}` literal under reader/ is in a function
    the table `entryKinds` knows, and sets the `Type` its API needs — a Loki read entry point (`prepareOutput`: query_range and
    instant query; `Tail`) LOGS, or nothing while `GetTypes` has the shape in which an unset Type is rendered as LOGS; the
    Prometheus storage adapter METRICS; the label services the `labelsType` their controller passes (1 from every Loki
    controller, 2 from every Prometheus controller); the TraceQL / Pyroscope entry points (no typed table) anything. No planner
    context's Type is written after the literal. A new literal, a literal that loses its Type while the default is not LOGS,
    or a controller passing another signal changes these lists. -/
theorem signal_entry_contexts :
    Gen.plannerCtxLiterals.all literalOk = true ∧ Gen.plannerCtxTypeWrites = [] ∧
    (∀ x ∈ entryTypes .logs, x = some 0 ∨ x = some 1) ∧ (entryTypes .logs).length = 2 ∧
    (∀ x ∈ entryTypes .metrics, x = some 2) ∧ (entryTypes .metrics).length = 1 ∧
    (entryTypes .byArg).length = 3 ∧
    labelArgs "reader/controller/queryLabelsController.go" = [some 1, some 1, some 1] ∧
    labelArgs "reader/controller/promQueryLabelsController.go" = [some 2, some 2, some 2] ∧
    Gen.sampleTypeConsts = (1, 2, 0) ∧ Gen.getTypesUnsetMeansLogs = true := by decide

/-- **typed_tables_classified.** The classification the driver uses meets `TypedCfg`: each of the four tables with a `type`
    column is a data or an index table in both layouts, none may be read by ids instead. -/
theorem typed_tables_classified : TypedCfg lokiCfg := by
  intro t ht
  simp only [lokiCfg, tableKindOf] at ht ⊢
  generalize baseName t = n at ht ⊢
  simp only [typedTables, List.contains_cons, List.contains_nil, Bool.or_false, Bool.or_eq_true, beq_iff_eq] at ht
  rcases ht with rfl | rfl | rfl | rfl <;> decide

/-- **signal_scan_sound.** Soundness of the rule for one scan, w.r.t. `Sql.Sem`: a row that passes PREWHERE and WHERE of a select
    carrying the filter `type IN (tp, 0)` has `type = tp` (the API's signal) or `type = 0` (written before the column existed). -/
theorem signal_scan_sound (o : Oracles) (env : Env) (r : Row) (tp : Int) (pre wher : Option Expr)
    (hs : (conjuncts pre ++ conjuncts wher).any (isSignalFilter tp) = true)
    (hp : optB o env r pre = true) (hw : optB o env r wher = true) :
    r.get "type" = .int tp ∨ r.get "type" = .int 0 :=
  signal_filter_sound o env r tp pre wher hs hp hw

theorem logs_tp (c : Ctx) (htp : some c.tp ∈ entryTypes .logs) : (winOf c).tp = 1 := by
  have h := signal_entry_contexts.2.2.1 _ htp
  simp only [Option.some.injEq] at h
  rcases h with h | h <;> simp [winOf, h]

/-- **signal_confined_logql.** query_range / instant query (`prepareOutput`) and every other Loki entry point of kind `logs`: with
    the `Type` such an entry point really builds, every scan of `samples_v3`, `time_series_gin`, `time_series` in the log
    planner's statement carries `type IN (1, 0)` — logs — except the label-filter selects of the fingerprint chain, index
    scans restricted to fingerprints of a selection that carries it. For every query, window, both layouts. -/
theorem signal_confined_logql (cfg : Cfg) (hT : TypedCfg cfg) (c : Ctx) (h : LokiCfg cfg c)
    (htp : some c.tp ∈ entryTypes .logs) (q : LogQuery) : signalConfined cfg 1 (planLog c q) = true := by
  have := signalConfined_of_confined cfg hT (winOf c) rfl _ (planLog_confined cfg c h q)
  rwa [logs_tp c htp] at this

/-- **signal_confined_tail.** The tail: every tick's statement, with the `Type` the `Tail` literal builds (one of the `logs`
    entry values), is restricted to logs. -/
theorem signal_confined_tail (cfg : Cfg) (hT : TypedCfg cfg) (base : Ctx) (h : LokiCfg cfg base) (tp : Nat)
    (htp : some tp ∈ entryTypes .logs) (q : LogQuery) (from_ now : Int) :
    signalConfined cfg 1 (planLog { tailCtx base from_ now with tp := tp } q) = true :=
  signal_confined_logql cfg hT { tailCtx base from_ now with tp := tp } ⟨h.samples, h.gin, h.ts, h.tsDist⟩ htp q

/-- **signal_confined_metric.** LogQL metric queries (same entry point): the samples scan, the metrics_15s scan of the shortcut
    and every index scan of `planMetric` carry `type IN (1, 0)`. -/
theorem signal_confined_metric (cfg : Cfg) (hT : TypedCfg cfg) (c : MCtx) (h : MetricCfg cfg c)
    (htp : some c.tp ∈ entryTypes .logs) (q : MetricQuery) : signalConfined cfg 1 (planMetric c q) = true := by
  have := signalConfined_of_confined cfg hT (winMetric c q) rfl _ (planMetric_confined cfg c h q)
  have hw : (winMetric c q).tp = 1 := logs_tp c.toCtx htp
  rwa [hw] at this

theorem arg_tp (c : Ctx) (file : String) (n : Nat) (hn : n ≠ 0) (hall : ∀ x ∈ labelArgs file, x = some n)
    (htp : some c.tp ∈ labelArgs file) : (winOf c).tp = n := by
  have h := hall _ htp
  simp only [Option.some.injEq] at h
  simp [winOf, h, hn]

/-- **signal_confined_series.** Loki `/series` and `/label/<n>/values`: with the `labelsType` a Loki controller passes (the
    service's literal is `Type: uint8(labelsType)`), every index scan carries `type IN (1, 0)`. -/
theorem signal_confined_series (cfg : Cfg) (hT : TypedCfg cfg) (c : Ctx) (h : LokiCfg cfg c)
    (htp : some c.tp ∈ labelArgs "reader/controller/queryLabelsController.go") (key : Bytes) (ms : List Matcher) (oms : Option (List Matcher)) :
    signalConfined cfg 1 (planSeries c ms) = true ∧ signalConfined cfg 1 (LogQL.planValues c key oms) = true := by
  have hw : (winOf c).tp = ((1 : Nat) : Int) := arg_tp c _ 1 (by decide) (by rw [signal_entry_contexts.2.2.2.2.2.2.2.1]; simp) htp
  have a := signalConfined_of_confined cfg hT (winOf c) rfl _ (planSeries_confined cfg c h ms)
  have b := signalConfined_of_confined cfg hT (winOf c) rfl _ (planValues_confined cfg c h key oms)
  rw [hw] at a b
  exact ⟨a, b⟩

theorem metrics_tp (c : Ctx) (htp : some c.tp ∈ entryTypes .metrics) : (winOf c).tp = 2 := by
  have h := signal_entry_contexts.2.2.2.2.1 _ htp
  simp only [Option.some.injEq] at h
  simp [winOf, h]

/-- **signal_confined_prom.** The Prometheus storage adapter (`CLokiQuerier.Select` → `transpileLabelMatchers`, `Type: 2`): the
    raw-sample statement and the 15 s rollup statement read `samples_v3` / `metrics_15s` and the label index with
    `type IN (2, 0)` — metrics — for every matcher list, required bits and `SelectHints`. -/
theorem signal_confined_prom (cfg : Cfg) (hT : TypedCfg cfg) (c : Ctx) (h : LokiCfg cfg c) (m15 : String) (hm : cfg.kind m15 = .data)
    (htp : some c.tp ∈ entryTypes .metrics) (hh : Prom.Hints) (ms : List Matcher) (req : List Bool) :
    signalConfined cfg 2 (Prom.transpileRaw c hh ms req) = true ∧ signalConfined cfg 2 (Prom.transpileDown c m15 hh ms req) = true := by
  have a := signalConfined_of_confined cfg hT (winOf c) rfl _ (transpileRaw_confined cfg c h hh ms req)
  have b := signalConfined_of_confined cfg hT (winOf c) rfl _ (transpileDown_confined cfg c h m15 hm hh ms req)
  rw [metrics_tp c htp] at a b
  exact ⟨a, b⟩

/-- **signal_confined_prom_labels.** The Prometheus metadata endpoints, with the `labelsType` a Prometheus controller passes (2):
    every select of the three statements — each `fingerprintsQuery` operand and the main select — carries `type IN (2, 0)`. -/
theorem signal_confined_prom_labels (cfg : Cfg) (hT : TypedCfg cfg) (c : Ctx) (h : LokiCfg cfg c) (table : String)
    (ht : cfg.kind table = .index) (htp : some c.tp ∈ labelArgs "reader/controller/promQueryLabelsController.go")
    (key : Bytes) (sels : List Prom.PromSel) :
    promSignal cfg 2 (Prom.promLabels c table c.tp sels) = true ∧ promSignal cfg 2 (Prom.promValues c key sels) = true ∧
    promSignal cfg 2 (Prom.promSeries c sels) = true := by
  have hw : (winOf c).tp = ((2 : Nat) : Int) := arg_tp c _ 2 (by decide) (by rw [signal_entry_contexts.2.2.2.2.2.2.2.2.1]; simp) htp
  have hlt : ((c.tp : Nat) : Int) = (winOf c).tp := by
    have h := (show ∀ x ∈ labelArgs "reader/controller/promQueryLabelsController.go", x = some 2 by
      rw [signal_entry_contexts.2.2.2.2.2.2.2.2.1]; simp) _ htp
    simp only [Option.some.injEq] at h
    simp [winOf, h]
  obtain ⟨a, b, d⟩ := prom_labels_confined cfg c h table ht c.tp hlt key sels
  have a := promSignal_of_confined cfg hT (winOf c) rfl _ a
  have b := promSignal_of_confined cfg hT (winOf c) rfl _ b
  have d := promSignal_of_confined cfg hT (winOf c) rfl _ d
  rw [hw] at a b d
  exact ⟨a, b, d⟩

/-! ### the seeded shape (W/seeded/C13-5): `GetTypes` renders an unset Type as `type IN (1,2,0)`, `prepareOutput` names LOGS,
    the tail's literal still leaves Type unset -/
/-- `GetTypes` of the seeded change -/
def seededGetTypes (c : Ctx) : Expr :=
  .isIn (.raw "type") (if c.tp = 0 then [.int 1, .int 2, .int 0] else [.int c.tp, .int 0])
/-- the samples scan of the log planner (`mainSel`) with that filter -/
def seededMain (c : Ctx) (q : LogQuery) : Sel :=
  match mainSel c q with
  | .mk ws d cols f j _ wh g h ob l =>
    .mk ws d cols f j (some (and_ [ge (.raw "samples.timestamp_ns") (.int c.fromNs), lt (.raw "samples.timestamp_ns") (.int c.toNs),
      seededGetTypes c])) wh g h ob l
/-- the tail's context: Type unset -/
def sigCtx (tp : Nat) : Ctx := ⟨100, 200, 0, false, tp, false, "time_series_gin", "samples_v3", "time_series", "time_series"⟩
def sigQuery : LogQuery := ⟨[⟨[97], .eq, [98]⟩], []⟩
/-- one METRIC sample (type 2) of a series whose labels match the tailed selector, inside the window -/
def sigDb : Db := fun t => if t = "samples_v3" then
  [[("timestamp_ns", .int 150), ("fingerprint", .int 7), ("string", .str []), ("value", .int 1), ("type", .int 2)]] else []
def sigEnv : Env := [(.named "fp_sel", [[("fingerprint", .int 7)]])]
/-- the real table names, single-node layout (`lokiCfg` strips database prefix and `_dist`, which the kernel cannot unfold) -/
def sigCfg : Cfg :=
  ⟨fun t => if t = "samples_v3" ∨ t = "metrics_15s" then .data else if t = "time_series" ∨ t = "time_series_gin" then .index else .other,
   fun t => t = "samples_v3" ∨ t = "metrics_15s" ∨ t = "time_series" ∨ t = "time_series_gin", fun _ => false⟩

/-- **seeded_types_counterexample.** Kernel-checked: under the seeded `GetTypes` the samples scan of a context WITHOUT Type (the
    tail's) is not signal-confined for logs and, evaluated by `Sql.Sem` on a table holding one metric sample of a selected
    series, returns that sample; with Type = 1 named (what the seeded `prepareOutput` does) the same function is fine; and the
    real `GetTypes` (the model's `mainSel`) is signal-confined for the unset Type and returns nothing. -/
theorem seeded_types_counterexample :
    bodySignal sigCfg 1 [] (seededMain (sigCtx 0) sigQuery) = false ∧
    (evalBody cexOracles sigDb sigEnv (seededMain (sigCtx 0) sigQuery)).map (fun r => r.get "fingerprint") = [.int 7] ∧
    bodySignal sigCfg 1 [] (seededMain (sigCtx 1) sigQuery) = true ∧
    evalBody cexOracles sigDb sigEnv (seededMain (sigCtx 1) sigQuery) = [] ∧
    bodySignal sigCfg 1 [] (mainSel (sigCtx 0) sigQuery) = true ∧
    evalBody cexOracles sigDb sigEnv (mainSel (sigCtx 0) sigQuery) = [] := by
  decide +kernel

-- non-vacuity of the `signal_confined_*` hypotheses: the entry values exist and the driver's classification is a `TypedCfg`
example : some (sigCtx 0).tp ∈ entryTypes .logs := by decide
example : some (sigCtx 2).tp ∈ entryTypes .metrics := by decide
example : some (sigCtx 2).tp ∈ labelArgs "reader/controller/promQueryLabelsController.go" := by decide

end Qryn.C13

/-! ## the legacy Tempo search with a window end that is not positive (`fromNS` / `toNS` ≤ 0 reach `TempoService.Search`): the
    guards of `GetTracesQuery` / `SQLIndexQuery` are `> 0` — for the service 0 means "no bound" -/
namespace Qryn.C13
open Qryn Qryn.Sql Qryn.Confine Qryn.Tempo

/-- **tempo_search_half_window.** Each end on its own: whatever the other end is, a positive `from` keeps every returned row above
    it and a positive `to` keeps every returned row at or below it (every request, version state, database). -/
theorem tempo_search_half_window (o : Oracles) (db : SearchDb) (r : SearchReq) (ver : VersionInfo) (row : Row)
    (h : row ∈ searchRows o db (planSearch r ver)) :
    (0 < r.fromNs → ∃ ts, row.get "start_time_unix_nano" = .int ts ∧ r.fromNs < ts) ∧
    (0 < r.toNs → ∃ ts, row.get "start_time_unix_nano" = .int ts ∧ ts ≤ r.toNs) := by
  obtain ⟨_, hc⟩ := searchRows_sub o db _ row h
  have hall := List.all_eq_true.mp hc
  have hmem : ∀ e ∈ spanTimeConds r, SCond.plain e ∈ (planSearch r ver).conds := by
    intro e he
    unfold planSearch
    simp only [List.mem_append, List.mem_map, spanConds]
    exact Or.inr ⟨e, Or.inl he, rfl⟩
  constructor
  · intro hf
    have h1 := hall _ (hmem (gt (.raw "start_time_unix_nano") (.int r.fromNs)) (by simp [spanTimeConds, hf]))
    simp only [scondHolds] at h1
    exact cmp_gt_int o row _ _ h1
  · intro ht
    have h2 := hall _ (hmem (le (.raw "start_time_unix_nano") (.int r.toNs)) (by simp [spanTimeConds, ht]))
    simp only [scondHolds] at h2
    exact cmp_le_int o row _ _ h2

/-- **tempo_search_nonpositive_reads_all.** What the statement reads when neither end is positive: the span read carries NO time
    conjunct at all (`spanTimeConds r = []`: a non-positive end is dropped, not compared), and without tags, duration bounds and
    limit it has no condition whatever — it returns one row per span of the table, the whole table. -/
theorem tempo_search_nonpositive_reads_all (o : Oracles) (db : SearchDb) (r : SearchReq) (ver : VersionInfo)
    (hf : r.fromNs ≤ 0) (ht : r.toNs ≤ 0) :
    spanTimeConds r = [] ∧
    (r.tags = none → r.minDurNs ≤ 0 → r.maxDurNs ≤ 0 → r.limit ≤ 0 →
      (planSearch r ver).conds = [] ∧ (searchRows o db (planSearch r ver)).length = db.spans.length) := by
  have h0 : spanTimeConds r = [] := by
    have a : ¬ r.fromNs > 0 := by omega
    have c : ¬ r.toNs > 0 := by omega
    simp [spanTimeConds, a, c]
  refine ⟨h0, fun htags hmin hmax hlim => ?_⟩
  have hd : spanDurConds r = [] := by
    have a : ¬ r.minDurNs > 0 := by omega
    have c : ¬ r.maxDurNs > 0 := by omega
    simp [spanDurConds, a, c]
  have hconds : (planSearch r ver).conds = [] := by simp [planSearch, htags, spanConds, h0, hd]
  refine ⟨hconds, ?_⟩
  have hl : (planSearch r ver).limit = none := by
    have a : ¬ r.limit > 0 := by omega
    simp [planSearch, a]
  have hfil : ∀ l : Table, l.filter (fun r => ([] : List SCond).all (scondHolds o db r)) = l := by
    intro l; induction l with
    | nil => rfl
    | cons x xs ih => simp [List.filter, ih]
  unfold searchRows
  simp only [hconds, hl, hfil]
  split
  · simp
  · rw [(Qryn.sortBy_perm _ _).length_eq]; simp

/-- the unconditional form of `tempo_search_results_in_window`: for ANY pair of ends handed to the service -/
def tempo_search_results_in_window_full : Prop :=
  ∀ (o : Oracles) (db : SearchDb) (r : SearchReq) (ver : VersionInfo) (row : Row), row ∈ searchRows o db (planSearch r ver) →
    ∃ ts, row.get "start_time_unix_nano" = .int ts ∧ r.fromNs < ts ∧ ts ≤ r.toNs

/-- a window of the service that ends before 1970: `end = −1 s` (what `GET /api/search?start=90000&end=-1` handed to the service
    before `fix: /api/search refuses a start / end …`) -/
def negEndReq : SearchReq := { cexReq with tags := none, toNs := -1000000000 }

/-- **tempo_search_service_counterexample.** `tempo_search_results_in_window` (hypotheses `0 < from`, `0 < to`) is the `_partial`
    form: at the SERVICE the unconditional statement fails — with `to = −10⁹` the upper bound is not written and the span of
    `cexDb`, 23 hours after `from`, is returned although the window `(from, to]` is empty. Kernel-checked. -/
theorem tempo_search_service_counterexample : ¬ tempo_search_results_in_window_full := by
  intro h
  have hrow : [("trace_id", Val.str [1]), ("span_id", .str [2]), ("service_name", .str []), ("name", .str []),
      ("timestamp_ns", .int 172799000000000), ("duration_ns", .int 5), ("root_service_name", .str []), ("root_trace_name", .str []),
      ("start_time_unix_nano", .int 172799000000000), ("duration_ms", .int 0)] ∈ searchRows cexOracles cexDb (planSearch negEndReq []) := by
    decide +kernel
  obtain ⟨ts, hts, _, hle⟩ := h cexOracles cexDb negEndReq [] _ hrow
  have : ts = 172799000000000 := by
    have e : Row.get [("trace_id", Val.str [1]), ("span_id", .str [2]), ("service_name", .str []), ("name", .str []),
      ("timestamp_ns", .int 172799000000000), ("duration_ns", .int 5), ("root_service_name", .str []), ("root_trace_name", .str []),
      ("start_time_unix_nano", .int 172799000000000), ("duration_ms", .int 0)] "start_time_unix_nano" = .int 172799000000000 := by decide
    rw [e] at hts; injection hts with hts; exact hts.symm
  subst this
  exact absurd hle (by decide)

/-- **tempo_http_ends_positive.** … and no HTTP request gets there: `parseTraceSearchParams` (after the fix; `Tempo.ctlSecond`, tied by
    the `http-tempo-ends` stream) refuses a `start` / `end` second that is negative or above `math.MaxInt64 / 10⁹`; 0 / absent is
    the clock default (now − 6 h, now: positive after 1970); every other value reaches the service as `s · 10⁹`, positive and
    within int64 — the hypotheses of `tempo_search_confined` / `tempo_search_results_in_window` for that end. -/
theorem tempo_http_ends_positive (s : Int) :
    (ctlSecond s = .refused ↔ (s < 0 ∨ 9223372036 < s)) ∧ (ctlSecond s = .default_ ↔ s = 0) ∧
    (∀ n, ctlSecond s = .ns n → n = s * 1000000000 ∧ 0 < n ∧ n < 2 ^ 63) := by
  unfold ctlSecond maxSec
  refine ⟨?_, ?_, ?_⟩
  · by_cases h : s < 0 ∨ s > 9223372036
    · simp [h]
    · by_cases h0 : s = 0 <;> simp [h, h0]
  · by_cases h : s < 0 ∨ s > 9223372036
    · simp [h]; omega
    · by_cases h0 : s = 0 <;> simp [h, h0]
  · intro n hn
    by_cases h : s < 0 ∨ s > 9223372036
    · simp [h] at hn
    · by_cases h0 : s = 0
      · simp [h, h0] at hn
      · simp only [h, h0, if_false] at hn
        injection hn with hn
        subst hn
        refine ⟨rfl, by omega, by omega⟩

end Qryn.C13

/-! ## "never miss data inside the window": the Prometheus select's window `[hints.Start, hints.End]` includes both ends -/
namespace Qryn.C13
open Qryn Qryn.Sql Qryn.LogQL Qryn.Confine Qryn.Prom

/-- **prom_window_covered.** The WHERE of the raw-sample scan (`InitClickhousePlanner`) and of the rollup scan
    (`InitDownsamplePlanner`) admits every row of the metrics signal stamped anywhere in the CLOSED window `[From, To]` — in
    particular a sample stamped exactly `hints.End`, the evaluation time of an instant query and of the last step. Together with
    `all_scans_confined_prom` (nothing outside): these scans read exactly the window. -/
theorem prom_window_covered (o : Oracles) (env : Env) (c : Ctx) (r : Row) (ts : Int) (h1 : c.fromNs ≤ ts) (h2 : ts ≤ c.toNs)
    (hts : r.get "samples.timestamp_ns" = .int ts) (hty : r.get "type" = .int (winOf c).tp) (m15 : String) :
    optB o env r (whereOf (initRaw c)) = true ∧ optB o env r (whereOf (initDown c m15)) = true := by
  have key : optB o env r (some (and_ [ge (.raw "samples.timestamp_ns") (.int c.fromNs), le (.raw "samples.timestamp_ns") (.int c.toNs), getTypes c])) = true := by
    simp only [optB, evalB, evalE_and, truthy_boolVal, evalAll_cons, Bool.and_eq_true]
    refine ⟨?_, ?_, ?_, ?_⟩
    · simp [evalE_ge, hts, cmpOp, Val.cmpLe, h1]
    · simp [evalE_le, hts, cmpOp, Val.cmpLe, h2]
    · have := evalB_isIn_ints (o := o) (env := env) (r := r) (.raw "type") (if c.tp = 0 then 1 else (c.tp : Int)) 0
      simp only [evalB] at this
      simp only [getTypes]
      rw [this]
      simp [hty, winOf]
    · rfl
  exact ⟨key, key⟩

/-- **prom_strict_upper_cuts_the_end.** COUNTER-PATTERN (seeded change C13-6: the LogQL half-open bound `< To` shared with the
    PromQL planners): a sample stamped exactly `To` does not pass `samples.timestamp_ns < To` — data inside the window is missed. -/
theorem prom_strict_upper_cuts_the_end (o : Oracles) (env : Env) (r : Row) (toNs : Int)
    (hts : r.get "samples.timestamp_ns" = .int toNs) :
    evalB o env r (lt (.raw "samples.timestamp_ns") (.int toNs)) = false := by
  simp [evalB, evalE_lt, hts, cmpOp, Val.cmpLt]

end Qryn.C13
