import Qryn.Proofs.Segs
import Qryn.Proofs.Ident
import Qryn.Proofs.Closed
import Qryn.Gen.Params
import Qryn.Proofs.PlanClosed
import Qryn.Proofs.PlanClosedMetric
import Qryn.Proofs.PlanClosedTraceQL
import Qryn.Proofs.SelectorClosed
import Qryn.Proofs.Leaf
import Qryn.Proofs.JsonParserClosed
import Qryn.Gen.GrammarFields
import Qryn.Proofs.PlanClosedX
import Qryn.Proofs.FormatClosed
import Qryn.Proofs.SameShape
import Qryn.Proofs.SameShapeMetric
import Qryn.Proofs.TempoClosed
import Qryn.Proofs.RawSqlCensus
import Qryn.Proofs.PlanClosedMetricX
import Qryn.Proofs.SameShapeMetricX
import Qryn.Proofs.SameShapeTraceQL
import Qryn.Proofs.ProfPlansRender
import Qryn.Proofs.ProfPlansRenderFull
import Qryn.Proofs.PromLabelsClosed
/-! # C10 — request strings can never change the structure of SQL sent to ClickHouse

Property theorems only. Model: `Qryn.Sql.quote` (= `StringVal.String`, table regenerated from
objects.go into `Gen.escapeTable`), `Qryn.Lex` (ClickHouse lexer model), statements as segment lists. -/
namespace Qryn.C10
open Qryn Qryn.Lex Qryn.Sql

/-- **stringval_single_literal.** From every lexer state in which a quote opens a literal, the text
    `StringVal.String` produces for *any* byte string `s` is lexed as: the pending token is closed, one
    literal is opened, its decoded bytes are exactly `s`, and the lexer stands just after the closing
    quote — nothing else is emitted, whatever `s` contains. -/
theorem stringval_single_literal (q : St) (hq : q.safe = true) (s : Bytes) :
    run q (quote s) = (.strQ, openEv q ++ s.map .sByte) :=
  run_quote q hq s

/-- after the literal, any following byte other than a quote closes it (and so does the end of input) -/
theorem literal_closes (c : UInt8) (hc : c ≠ 39) : ∃ q' ev, step .strQ c = (q', .sClose :: ev) := by
  simp [step, hc]

theorem literal_closes_at_end : flush .strQ = [.sClose] := rfl

/-- token form: a lone `StringVal` is exactly one string-literal token that decodes to the input -/
theorem stringval_token (s : Bytes) : lex (quote s) = [Tok.str s] := by
  have h := run_quote .normal rfl s
  simp only [lex, lexEv, h, openEv, flush]
  have : ∀ (acc : Bytes) (t : Bytes), assemble (some (.str acc)) (t.map .sByte ++ [.sClose]) = [Tok.str (acc ++ t)] := by
    intro acc t
    induction t generalizing acc with
    | nil => simp [assemble]
    | cons c t ih => simp [assemble, ih]
  simpa [assemble] using this [] s

/-- **like_single_literal.** The LIKE pattern rendered for a line filter is one literal whose value is
    `%` ++ LIKE-escaped needle ++ `%`. -/
theorem like_single_literal (v : Bytes) : lex (likeLiteral v) = [Tok.str (37 :: likeEscape v ++ [37])] :=
  stringval_token _

/-- **render_structure_invariant.** For a statement rendered from a template (`raw` parts) with string
    leaves, if the template is well formed for its leaves (`safeSegs`, a condition on the raw parts
    only), then replacing the contents of the string leaves by anything else (here: by empty strings)
    changes neither the final lexer state nor any event other than the decoded literal bytes. -/
theorem render_structure_invariant (segs : List Seg) (h : safeSegs .normal segs = true) :
    kinds (renderSegs segs) = kinds (renderSegs (segs.map Seg.shape)) := by
  have h' := runSegs_shape .normal segs h
  rw [runSegs_eq_run, runSegs_eq_run] at h'
  simp only [kinds, lex, lexEv]
  rw [assemble_kind, assemble_kind none (_ ++ _), eraseS_append, eraseS_append, h'.2, h'.1]

/-- the well-formedness condition does not depend on the request strings -/
theorem template_condition_independent (segs : List Seg) :
    safeSegs .normal (segs.map Seg.shape) = safeSegs .normal segs := safeSegs_shape _ _

/-- **escape_homomorphic.** The replace loop acts byte by byte, for every table of one-byte patterns
    (so the order of the loop cannot make two request bytes interact). -/
theorem escape_homomorphic (a b : Bytes) : escapeBody (a ++ b) = escapeBody a ++ escapeBody b :=
  escapeWith_append _ _ _


/-! ## Identifiers admitted by the query-language lexers (`Gen.Lexers`, regenerated from the lexer rule tables) -/

/-- **ident_safe.** The byte classes of the label-name rules — LogQL `Label_name` and `Macros_function`
    (the two tokens `LabelName` accepts), the profile-selector `Label_name`, TraceQL `Label_name` — decided
    over the classes extracted from the rule sources: a LogQL / profile label name consists of bareword bytes
    only and contains no quote, backslash, backtick, bracket, brace, blank, `-`, `/`, `*`, `;`, `,`, `#`;
    a TraceQL attribute name may in addition contain `-` (and `.`), and still no quote or backslash. -/
theorem ident_safe :
    (∀ c : UInt8, inRanges Gen.logqlLabelName c = true → sqlMeta c = false ∧ isWordByte c = true) ∧
    (∀ c : UInt8, inRanges Gen.logqlMacrosFunction c = true → sqlMeta c = false ∧ isWordByte c = true) ∧
    (∀ c : UInt8, inRanges Gen.profLabelName c = true → sqlMeta c = false ∧ isWordByte c = true) ∧
    (∀ c : UInt8, inRanges Gen.traceqlLabelName c = true → (sqlMeta c = false ∨ c = 45) ∧ litSafe c = true) := by
  refine ⟨?_, ?_, ?_, ?_⟩ <;> (apply forall_byte_of_lt; decide +kernel)

/-- the TraceQL class really contains `-`: such a name must never be embedded as a bare word (`--` opens a
    comment); the planners put it into `StringVal`s only (stream `leaves`) -/
theorem traceql_ident_has_minus : inRanges Gen.traceqlLabelName 45 = true := by decide +kernel

/-- **ident_literal** (the lift): for every byte string free of quote and backslash — in particular every
    string over any of the four classes — embedding it as `'…'` WITHOUT escaping is one literal that decodes
    to itself. -/
theorem ident_literal (s : Bytes) (h : ∀ c ∈ s, litSafe c = true) : lex (39 :: s ++ [39]) = [Tok.str s] :=
  lex_rawQuoted s h

theorem logql_label_literal (s : Bytes)
    (h : ∀ c ∈ s, inRanges Gen.logqlLabelName c = true ∨ inRanges Gen.logqlMacrosFunction c = true) :
    lex (39 :: s ++ [39]) = [Tok.str s] :=
  ident_literal s (fun c hc => by
    rcases h c hc with h1 | h1
    · exact litSafe_of_not_meta c (ident_safe.1 c h1).1
    · exact litSafe_of_not_meta c (ident_safe.2.1 c h1).1)

theorem prof_label_literal (s : Bytes) (h : ∀ c ∈ s, inRanges Gen.profLabelName c = true) :
    lex (39 :: s ++ [39]) = [Tok.str s] :=
  ident_literal s (fun c hc => litSafe_of_not_meta c (ident_safe.2.2.1 c (h c hc)).1)

theorem traceql_label_literal (s : Bytes) (h : ∀ c ∈ s, inRanges Gen.traceqlLabelName c = true) :
    lex (39 :: s ++ [39]) = [Tok.str s] :=
  ident_literal s (fun c hc => (ident_safe.2.2.2 c (h c hc)).2)

/-- a non-empty LogQL / profile label name written into SQL as it is (column of a map, alias) is exactly one
    bareword token -/
theorem logql_label_word (c : UInt8) (s : Bytes)
    (h : ∀ d ∈ c :: s, inRanges Gen.logqlLabelName d = true ∨ inRanges Gen.logqlMacrosFunction d = true) :
    lex (c :: s) = [Tok.word (c :: s)] :=
  lex_word c s (fun d hd => by
    rcases h d hd with h1 | h1
    · exact (ident_safe.1 d h1).2
    · exact (ident_safe.2.1 d h1).2)

/-! ## The statements the planner models render -/

/-- the rendering of a `sql_select` tree is the concatenation of raw planner text and escaped string leaves
    (`StringVal`, the pattern of `sqlMatch`): `render = concat segments`, for every tree -/
theorem render_is_segments (s : Sel) : renderSegs (segsSel s) = renderSel s := render_segsSel s

/-- **closed_fragments_partial.** Every tree whose raw atoms are well formed (`wfSel`: a computable condition
    on keywords, names, aliases, numbers and identifier-restricted `'name'` literals ONLY — it does not look
    into any string leaf) renders to a template that is well formed for its string leaves, from every lexer
    state in which a statement or clause can start. Proved for the WHOLE model AST (select, WITH list, joins,
    set operations, every expression node), by mutual induction over `render…`; the keyword fragments the
    renderer writes are checked by evaluation. -/
theorem closed_fragments_partial (s : Sel) (h : wfSel s = true) : safeSegs .normal (segsSel s) = true :=
  ((closedSel s h) .normal rfl).1

/-- … and so does every expression on its own -/
theorem closed_fragments_expr_partial (e : Expr) (h : wfExpr e = true) (q : St) (hq : q.ground = true) :
    safeSegs q (segsExpr e) = true :=
  ((closedExpr e h) q hq).1

/-- structure invariance for model trees: under `wfSel`, the token-kind sequence of the rendered statement
    does not depend on what the string leaves contain -/
theorem render_structure_invariant_sel (s : Sel) (h : wfSel s = true) :
    kinds (renderSel s) = kinds (renderSegs ((segsSel s).map Seg.shape)) := by
  rw [← render_is_segments]
  exact render_structure_invariant _ (closed_fragments_partial s h)

/-- **closed_fragments_planLog_partial.** The LogQL planner model: for every context and every query of the
    modelled fragment the rendered template is well formed for its string leaves — matcher values, regular
    expressions, line-filter needles and label-filter values may be ANY byte strings. Hypotheses (`AtomsOK`,
    `QueryOK`) concern only atoms that are not request strings: the four table names are closed text, the label
    names of label filters are free of quote and backslash (guaranteed by the lexer: `ident_safe`), and the
    numbers the planner prints (time bounds, limit, type, bit-set constants, `subsel_<k>`, `%f` literals) render
    as closed text. The last group is what makes this `_partial`: a lemma "`toString n` consists of digits"
    would discharge it for all numbers; here it is discharged by evaluation for concrete plans (examples). -/
theorem closed_fragments_planLog_partial (c : LogQL.Ctx) (q : LogQL.LogQuery)
    (ha : LogQL.AtomsOK c q) (hq : LogQL.QueryOK q) :
    safeSegs .normal (segsSel (LogQL.planLog c q)) = true :=
  closed_fragments_partial _ (LogQL.wf_planLog c q ha hq)

/-- … so the token structure of a planned LogQL statement does not depend on the request strings in it -/
theorem planLog_structure_invariant (c : LogQL.Ctx) (q : LogQL.LogQuery)
    (ha : LogQL.AtomsOK c q) (hq : LogQL.QueryOK q) :
    kinds (renderSel (LogQL.planLog c q)) = kinds (renderSegs ((segsSel (LogQL.planLog c q)).map Seg.shape)) :=
  render_structure_invariant_sel _ (LogQL.wf_planLog c q ha hq)


/-! ## Numbers, and the planners beyond the LogQL log planner -/

/-- **numbers_closed.** Everything the planners print with `%d` / `strconv.Itoa` / `toString` — time bounds, limits,
    durations, bit-set constants, shift amounts, `ctx.Id()` counters — is closed text for EVERY number: the decimal
    text of a natural number consists of digits (one bareword), an integer has at most a leading `-`; a `%f` literal
    (`fixedText`: integer part, point, six decimals) is one bareword. Read from a state between tokens they leave the
    lexer between tokens. This discharges the number hypotheses of `closed_fragments_planLog_partial`. -/
theorem numbers_closed :
    (∀ n : Nat, (∀ d ∈ natDigits n, isDigitB d = true) ∧ natDigits n ≠ [] ∧ rawE (natDigits n) = true) ∧
    (∀ i : Int, intText i = (if i < 0 then 45 :: natDigits i.natAbs else natDigits i.natAbs) ∧ rawE (intText i) = true) ∧
    (∀ u s : Nat, allWord (b (fixedText u s)) = true ∧ rawE (b (fixedText u s)) = true) :=
  ⟨fun n => ⟨natDigits_digits n, natDigits_ne_nil n, rawE_natDigits n⟩,
   fun i => ⟨intText_eq i, rawE_intText i⟩,
   fun u s => ⟨allWord_fixedText u s, rawE_fixedText u s⟩⟩

/-- **plan_closed_log.** `closed_fragments` for the LogQL log planner at full strength: for every context whose four
    table names are closed text (configuration) and every query of the modelled fragment whose label-FILTER names are
    `LabelName` tokens of the LogQL lexer (class regenerated in `Gen.Lexers`; they are embedded as `'name'` without
    escaping), the statement is well formed for its leaves. No hypothesis on any number, on matcher names/values,
    regexes, needles, label-filter values. -/
theorem plan_closed_log (c : LogQL.Ctx) (q : LogQL.LogQuery) (ht : LogQL.TablesOK c)
    (hn : ∀ lc ∈ LogQL.labelConds q, LogQL.condNamesOK lc) :
    safeSegs .normal (segsSel (LogQL.planLog c q)) = true ∧
    kinds (renderSel (LogQL.planLog c q)) = kinds (renderSegs ((segsSel (LogQL.planLog c q)).map Seg.shape)) :=
  have hw := LogQL.wf_planLog c q (LogQL.atomsOK_of_tables c q ht) (LogQL.queryOK_of_names q hn)
  ⟨closed_fragments_partial _ hw, render_structure_invariant_sel _ hw⟩

/-- **plan_closed_metric.** The LogQL METRIC planner model (`planMetric`: range aggregations with and without unwrap,
    the metrics_15s shortcut, by/without, vector aggregations, topk/bottomk, comparisons, step fix, labels join,
    matrix finalizer): for every context (tables closed) and every metric query (label-filter names `LabelName`
    tokens) the rendered template is well formed for its string leaves and its token structure does not depend on
    them. The by/without label names and the unwrap label need NO hypothesis: the planner passes them through the
    escape (`mapFilterKeys`, `mapAt` leaves). Durations, `k`, comparison literals, step: digits for all values. -/
theorem plan_closed_metric (c : LogQL.MCtx) (q : LogQL.MetricQuery) (h : LogQL.MAtomsOK c) (hn : LogQL.MetricNamesOK q) :
    safeSegs .normal (segsSel (LogQL.planMetric c q)) = true ∧
    kinds (renderSel (LogQL.planMetric c q)) = kinds (renderSegs ((segsSel (LogQL.planMetric c q)).map Seg.shape)) :=
  have hw := LogQL.wf_planMetric c q h hn
  ⟨closed_fragments_partial _ hw, render_structure_invariant_sel _ hw⟩

/-- **plan_closed_traceql.** The TraceQL planner model `plan` (simple and complex scripts, aggregators, the attr-less
    path, the random filter of complex request portions, `TracesDataPlanner`): whenever the planner accepts a script,
    the statement is well formed for its leaves and its token structure does not depend on them. Attribute names
    (TraceQL `Label_name` admits `-` and `.`), string values, regexes and the aggregated attribute are leaves: no
    hypothesis. `CtxOK`: the four table names are closed text, cached trace ids (second-order text, hex from the
    database) contain no quote or backslash. -/
theorem plan_closed_traceql (c : TraceQL.Ctx) (hc : TraceQL.CtxOK c) (script : TraceQL.Script) (X : Sel)
    (h : TraceQL.plan c script = .ok X) :
    safeSegs .normal (segsSel X) = true ∧ kinds (renderSel X) = kinds (renderSegs ((segsSel X).map Seg.shape)) :=
  have hw := TraceQL.wf_plan c hc script X h
  ⟨closed_fragments_partial _ hw, render_structure_invariant_sel _ hw⟩

/-- … the tag-names request (`PlanTagsV2`) -/
theorem plan_closed_traceql_tags (c : TraceQL.Ctx) (hc : TraceQL.CtxOK c) (kvTable : String)
    (hkv : rawE (b kvTable) = true) (script : TraceQL.Script) (X : Sel)
    (h : TraceQL.planTags c kvTable script = .ok X) :
    safeSegs .normal (segsSel X) = true ∧ kinds (renderSel X) = kinds (renderSegs ((segsSel X).map Seg.shape)) :=
  have hw := TraceQL.wf_planTags c hc kvTable hkv script X h
  ⟨closed_fragments_partial _ hw, render_structure_invariant_sel _ hw⟩

/-- … the tag-values request (`PlanValuesV2`): the requested tag `key` is ANY byte string (a leaf) -/
theorem plan_closed_traceql_values (c : TraceQL.Ctx) (hc : TraceQL.CtxOK c) (kvTable : String)
    (hkv : rawE (b kvTable) = true) (key : Bytes) (script : TraceQL.Script) (X : Sel)
    (h : TraceQL.planValues c kvTable key script = .ok X) :
    safeSegs .normal (segsSel X) = true ∧ kinds (renderSel X) = kinds (renderSegs ((segsSel X).map Seg.shape)) :=
  have hw := TraceQL.wf_planValues c hc kvTable hkv key script X h
  ⟨closed_fragments_partial _ hw, render_structure_invariant_sel _ hw⟩


/-! ## Every leaf is one literal -/

/-- **leaf_single_literal.** In ANY statement whose template is well formed for its leaves (every theorem
    `plan_closed_…` / `closed_fragments…` establishes that), each string leaf `s` — wherever it stands — is read by the
    lexer as exactly one string literal that decodes to `s`: after the events of the text before the leaf come the
    opening of a literal, exactly the bytes of `s`, and the close of the literal. "The user's bytes occur only inside
    single string literals that decode to the intended value." -/
theorem leaf_single_literal (pre post : List Seg) (s : Bytes) (h : safeSegs .normal (pre ++ .str s :: post) = true) :
    ∃ rest, lexEv (renderSegs (pre ++ .str s :: post)) =
      (runSegs .normal pre).2 ++ openEv (runSegs .normal pre).1 ++ s.map .sByte ++ .sClose :: rest :=
  leaf_events pre post s h

/-! ## The renderers that produce bytes directly: Prometheus matcher selection, raw-sample scan, Pyroscope selector -/

/-- **fpquery_closed.** `fingerprintsQuery` (PromQL label matchers → the `fp_sel` sub-query): for every table name that is
    closed text and EVERY list of matchers the planner accepts, the rendered text is a segment list
    (`render = renderSegs segs`) that is well formed for its leaves, so label names, values and (anchored) regular
    expressions sit in single literals and the token structure does not depend on them. The operators come from the
    regenerated tables `Gen.PromSelect`; their closedness is decided over the tables. -/
theorem fpquery_closed (full : Bytes → Bytes → Bool) (table : String) (fromDate : Bytes) (tp : Int) (ms : List Prom.Matcher)
    (q : Prom.FpQuery) (ht : rawE (Prom.ascii table) = true) (h : Prom.fingerprintsQuery full table fromDate tp ms = some q) :
    renderSegs q.segs = q.render ∧ safeSegs .normal q.segs = true ∧
    kinds q.render = kinds (renderSegs (q.segs.map Seg.shape)) := by
  have hq : q.table = table ∧ ∀ c ∈ q.conds, c.wf = true := by
    unfold Prom.fingerprintsQuery at h
    cases hc : Prom.condsOf (ms.map (Prom.asked full)) with
    | none => simp [hc] at h
    | some cs =>
      simp [hc] at h
      subst h
      exact ⟨rfl, Prom.condsOf_wf _ cs hc⟩
  have hs := ((Prom.FpQuery.closed q (by rw [hq.1]; exact ht) hq.2) .normal rfl).1
  refine ⟨Prom.FpQuery.render_segs q, hs, ?_⟩
  rw [← Prom.FpQuery.render_segs q]
  exact render_structure_invariant _ hs

/-- the bounds of the raw-sample scan: two integers, closed for all values -/
theorem scan_closed (f t : Int) :
    renderSegs (Prom.scanSegs f t) = Prom.renderScan f t ∧ safeSegs .normal (Prom.scanSegs f t) = true :=
  ⟨Prom.render_scanSegs f t, ((Prom.scan_closed f t) .normal rfl).1⟩

/-- **pquery_closed.** The Pyroscope label selector (`StreamSelectorPlanner`): for every closed table name and EVERY
    selector list the planner accepts — pseudo-labels (field expressions from `Gen.ProfSelect`, decided closed over the
    table) and ordinary labels alike — the text is a segment list well formed for its leaves: label names, values,
    regular expressions and the date bounds sit in single literals. -/
theorem pquery_closed (gre : Bytes → Bytes → Bool) (table : String) (fromDate toDate : Bytes) (ss : List Prof.Selector)
    (q : Prof.PQuery) (ht : rawE (Prom.ascii table) = true) (h : Prof.plan gre table fromDate toDate ss = some q) :
    renderSegs q.segs = q.render ∧ safeSegs .normal q.segs = true ∧
    kinds q.render = kinds (renderSegs (q.segs.map Seg.shape)) := by
  have hq := Prof.plan_wf gre table fromDate toDate ss q h
  have hs := ((Prof.PQuery.closed q (by rw [hq.1]; exact ht) hq.2.1 hq.2.2) .normal rfl).1
  refine ⟨Prof.PQuery.render_segs q, hs, ?_⟩
  rw [← Prof.PQuery.render_segs q]
  exact render_structure_invariant _ hs


/-! ## Two requests of the same shape -/

/-- **same_shape_same_structure.** ONE statement over two arbitrary statements (of any planner model): when both are
    well formed for their leaves and their segment lists agree after emptying the leaves — they "differ only in string
    leaves" — their token-kind sequences are equal. -/
theorem same_shape_same_structure (s1 s2 : Sel) (h1 : wfSel s1 = true) (h2 : wfSel s2 = true)
    (hs : (segsSel s1).map Seg.shape = (segsSel s2).map Seg.shape) :
    kinds (renderSel s1) = kinds (renderSel s2) := by
  rw [render_structure_invariant_sel s1 h1, render_structure_invariant_sel s2 h2, hs]

/-- **fpquery_two_requests.** Two PromQL matcher lists with the same match types position by position and the same
    positions accepting the empty value (such a matcher is asked inverted, with its bit not required — that is part of the
    shape) — ANY label names, values, regular expressions, and any date bound — planned in the same context give
    statements with the same token structure: `skeleton (render (plan q₁)) = skeleton (render (plan q₂))`. -/
theorem fpquery_two_requests (f1 f2 : Bytes → Bytes → Bool) (table : String) (d1 d2 : Bytes) (tp : Int)
    (ms1 ms2 : List Prom.Matcher)
    (q1 q2 : Prom.FpQuery) (ht : rawE (Prom.ascii table) = true) (hty : ms1.map (·.type) = ms2.map (·.type))
    (hacc : ms1.map (Prom.acceptsEmpty f1) = ms2.map (Prom.acceptsEmpty f2))
    (h1 : Prom.fingerprintsQuery f1 table d1 tp ms1 = some q1) (h2 : Prom.fingerprintsQuery f2 table d2 tp ms2 = some q2) :
    kinds q1.render = kinds q2.render := by
  rw [(fpquery_closed f1 table d1 tp ms1 q1 ht h1).2.2, (fpquery_closed f2 table d2 tp ms2 q2 ht h2).2.2,
    Prom.fpQuery_same_shape f1 f2 table d1 d2 tp ms1 ms2 q1 q2 hty hacc h1 h2]

/-- **pquery_two_requests.** Two profile selector lists that agree position by position in operator and in the class of
    the label name (the same pseudo-label, or both ordinary labels — an ordinary label NAME is a leaf) and in accepting
    the empty value give statements with the same token structure, whatever the names, values, regular expressions and
    date bounds are. -/
theorem pquery_two_requests (g1 g2 : Bytes → Bytes → Bool) (table : String) (f1 t1 f2 t2 : Bytes)
    (ss1 ss2 : List Prof.Selector) (q1 q2 : Prof.PQuery)
    (ht : rawE (Prom.ascii table) = true) (hc : Prof.SameClasses g1 g2 ss1 ss2)
    (h1 : Prof.plan g1 table f1 t1 ss1 = some q1) (h2 : Prof.plan g2 table f2 t2 ss2 = some q2) :
    kinds q1.render = kinds q2.render := by
  rw [(pquery_closed g1 table f1 t1 ss1 q1 ht h1).2.2, (pquery_closed g2 table f2 t2 ss2 q2 ht h2).2.2,
    Prof.pquery_same_shape g1 g2 table f1 t1 f2 t2 ss1 ss2 q1 q2 hc h1 h2]

/-! ## The parameters of `| json label="path"` -/

/-- **json_params_closed.** The object that renders the parameters of the LogQL json parser (`sqlJsonParser`): for
    EVERY list of (label, path) parameters — a name part of a path may be any byte string: a field name beginning
    with a digit, containing quotes, brackets, comment openers; an index part is any integer — the text is well formed
    for its leaves: each label and each name part is one literal, each index one decimal number. The model writes every
    name part as a leaf; that the code does (`jsonPaths[i][j]` is built only as `sql.NewStringVal(name)` or as
    `sql.NewIntVal(int64(idx)+1)` from a parsed `int`, and `part.String` is the only thing assigned in the loop of
    `path2Sql`) is the regenerated fact `Gen.JsonParser`, whose extractor fails closed on any other construction or
    loop body, and the `jsonparser` stream compares the model's text with the real object's. -/
theorem json_params_closed (ps : List (Bytes × List Sql.JArg)) :
    safeSegs .normal (LogQL.jsonParserSegs ps) = true ∧
    Gen.JsonParser.partsEscaped = true ∧ Gen.JsonParser.labelsEscaped = true :=
  ⟨((LogQL.jsonParserSegs_closed ps) .normal rfl).1, rfl, rfl⟩

/-- the grammar-field inventory has no duplicate entry (a key identifies one coverage obligation of the `grammar` stream) -/
theorem grammar_fields_distinct : (Gen.grammarFields.map (fun (l, s, f, _, _) => (l, s, f))).Nodup := by decide +kernel

/-- the parameter inventory has no duplicate entry (a key identifies one taint obligation) -/
theorem inventory_keys_distinct : Gen.params.Nodup := by decide +kernel

/-! ## The SQL objects of the LogQL pipeline stages: `| regexp`, `| drop`, `| label_format`, `| line_format` -/

/-- **regexp_closed.** `regexMap.String` (planner_parser_regexp.go): for EVERY list of group names, EVERY pattern text and
    every `ctx.Id()`, the text — `mapFromArrays(arrayFilter(… [<names>] as re_lbls_<id>, … extractAllGroupsHorizontal(string,
    <pattern>)) as re_vals_<id>), …)` — is the rendering of a segment list in which every name and the pattern are leaves,
    and that list is well formed for its leaves from every state between tokens. -/
theorem regexp_closed (names : List Bytes) (re : Bytes) (id : Nat) :
    renderSegs (regexMapSegs names re id) = regexMapText names re id ∧
    ∀ q : St, q.ground = true → safeSegs q (regexMapSegs names re id) = true ∧ (runSegs q (regexMapSegs names re id)).1.entry = true :=
  ⟨render_regexMapSegs names re id, PE_regexMapSegs names re id (LogQL.rawC_regexMid id) (LogQL.rawC_regexPost id)⟩

/-- **drop_closed.** `mapDropFilter.String` (planner_drop.go): for EVERY list of (name, value) pairs — a pair with an empty
    value renders `k!=<name>`, one with a value `(k, v)!=(<name>, <value>)`; names and values are leaves — around any
    well-formed labels expression. -/
theorem drop_closed (m : Expr) (ps : List (Bytes × Bytes)) (hm : wfExpr m = true) :
    renderSegs (segsExpr (.mapDrop m ps)) = renderExpr (.mapDrop m ps) ∧
    ∀ q : St, q.ground = true → safeSegs q (segsExpr (.mapDrop m ps)) = true ∧ (runSegs q (segsExpr (.mapDrop m ps))).1.entry = true :=
  ⟨render_segsExpr _, closedExpr (.mapDrop m ps) (by simpa only [wfExpr] using hm)⟩

/-- **line_format_closed.** The object `LineFormatPlanner.Process` puts in the `string` column — `format(<formatStr>,
    labels[<f₀>], labels[<f₁>], …)` with `formatStr` = the template's text nodes verbatim and `{n}` per field node, through
    `NewStringVal`; every field name through `NewStringVal` — for EVERY node list: template text and field names are ANY
    byte strings (quotes, `{0}`, comment openers …). -/
theorem line_format_closed (tpl : List LogQL.TplNode) :
    ∀ q : St, q.entry = true → safeSegs q (LogQL.lineFormatSegs tpl) = true ∧ (runSegs q (LogQL.lineFormatSegs tpl)).1.ground = true :=
  LogQL.PC_lineFormatSegs tpl

/-- **label_format_closed.** The object `LabelFormatPlanner.Process` puts in the `labels` column — `mapUpdate(<labels>,
    ([<k₀>,…],[<v₀>,…])::Map(String, String))` with every target name a leaf, a rename source `labels[<src>]` a leaf, a
    constant's template a `format(…)` as above — for EVERY list of operations, around any expression-like labels text. -/
theorem label_format_closed (labels : List Seg) (ops : List LogQL.LFOp)
    (hl : ∀ q : St, q.ground = true → safeSegs q labels = true ∧ (runSegs q labels).1.entry = true) :
    ∀ q : St, q.entry = true → safeSegs q (LogQL.labelFormatSegs labels ops) = true ∧
      (runSegs q (LogQL.labelFormatSegs labels ops)).1.ground = true :=
  LogQL.PC_labelFormatSegs labels ops hl

/-- **plan_closed_logx.** The extended LogQL log planner model `planLogX` (C07: the stages of `planLog` plus `| json
    l="path",…`, `| regexp`, `| drop` and line / label filters after them, one SELECT per run of stages, `finalize` on or
    off): for every context with closed table names and every query, the statement is well formed for its leaves and its
    token structure does not depend on them. Leaves: matcher names/values, needles, regexes, label-filter values, json
    labels and path name parts, regexp group names and pattern, drop names and values, the NAMES of label filters placed
    after a parser or drop. Hypothesis on request text: only the names of label filters placed BEFORE the first parser /
    drop (written `JSONExtractString(labels, '<name>')` unescaped) are `LabelName` tokens. -/
theorem plan_closed_logx (c : LogQL.Ctx) (fin : Bool) (q : LogQL.LogQueryX) (ht : LogQL.TablesOK c)
    (hn : ∀ lc ∈ LogQL.labelConds (LogQL.preQuery q), LogQL.condNamesOK lc) :
    safeSegs .normal (segsSel (LogQL.planLogX c fin q)) = true ∧
    kinds (renderSel (LogQL.planLogX c fin q)) = kinds (renderSegs ((segsSel (LogQL.planLogX c fin q)).map Seg.shape)) :=
  have hw := LogQL.wf_planLogX c fin q ht hn
  ⟨closed_fragments_partial _ hw, render_structure_invariant_sel _ hw⟩

/-- … what `logql_transpiler_v2.Plan` hands to ClickHouse for a whole script (the stages before the first in-process-only
    one; LIMIT iff none) -/
theorem plan_closed_script (c : LogQL.Ctx) (ms : List LogQL.Matcher) (ss : List LogQL.ScriptStage) (ht : LogQL.TablesOK c)
    (hn : ∀ lc ∈ LogQL.labelConds (LogQL.preQuery ⟨ms, LogQL.sqlPrefix ss⟩), LogQL.condNamesOK lc) :
    safeSegs .normal (segsSel (LogQL.planScript c ms ss)) = true ∧
    kinds (renderSel (LogQL.planScript c ms ss)) = kinds (renderSegs ((segsSel (LogQL.planScript c ms ss)).map Seg.shape)) :=
  have hw := LogQL.wf_planScript c ms ss ht hn
  ⟨closed_fragments_partial _ hw, render_structure_invariant_sel _ hw⟩

/-- the model writes the name of a label filter placed after a parser / drop as a leaf `labels[<name>]`; the code writes
    `labels['<name>']` with `Sprintf` — for a `LabelName` token (all the grammar admits) these are the same bytes, so the
    code's text is covered by `plan_closed_logx` -/
theorem label_getter_raw_is_leaf (name : String) (h : LogQL.LabelClass name) :
    renderExpr (LogQL.labelGetterMap name) = b "labels['" ++ b name ++ b "']" :=
  LogQL.labelGetterMap_text name h

/-- **plan_closed_series / plan_closed_values.** `match[]` of `/series` and `/label/{name}/values` (Loki and Prometheus
    routes end in the same planners): for every list of matchers, and EVERY byte string as the label name of the URL path -/
theorem plan_closed_series (c : LogQL.Ctx) (ms : List LogQL.Matcher) (ht : LogQL.TablesOK c) :
    safeSegs .normal (segsSel (LogQL.planSeries c ms)) = true ∧
    kinds (renderSel (LogQL.planSeries c ms)) = kinds (renderSegs ((segsSel (LogQL.planSeries c ms)).map Seg.shape)) :=
  have hw := LogQL.wf_planSeries c ms ht
  ⟨closed_fragments_partial _ hw, render_structure_invariant_sel _ hw⟩

theorem plan_closed_values (c : LogQL.Ctx) (key : Bytes) (ms : Option (List LogQL.Matcher)) (ht : LogQL.TablesOK c) :
    safeSegs .normal (segsSel (LogQL.planValues c key ms)) = true ∧
    kinds (renderSel (LogQL.planValues c key ms)) = kinds (renderSegs ((segsSel (LogQL.planValues c key ms)).map Seg.shape)) :=
  have hw := LogQL.wf_planValues c key ms ht
  ⟨closed_fragments_partial _ hw, render_structure_invariant_sel _ hw⟩

/-! ## Two requests of the same shape, from a relation on QUERIES -/

/-- **same_shape_logx.** `sameShapeX q₁ q₂` — the two queries are equal up to the contents of their string leaves (operators,
    stage kinds and order, and/or structure, label-filter names, number literals, json index parts equal; literal-regex flag,
    number of regexp groups, presence of a drop value equal) — implies that the statements planned for them in the same
    context have the same token structure: `kinds (render (plan q₁)) = kinds (render (plan q₂))`. Derived by walking the
    planner (`planLogX_sameShape`), not from equal emptied segment lists. -/
theorem same_shape_logx (c : LogQL.Ctx) (fin : Bool) (q1 q2 : LogQL.LogQueryX) (ht : LogQL.TablesOK c)
    (h1 : ∀ lc ∈ LogQL.labelConds (LogQL.preQuery q1), LogQL.condNamesOK lc)
    (h2 : ∀ lc ∈ LogQL.labelConds (LogQL.preQuery q2), LogQL.condNamesOK lc) (h : LogQL.sameShapeX q1 q2) :
    kinds (renderSel (LogQL.planLogX c fin q1)) = kinds (renderSel (LogQL.planLogX c fin q2)) :=
  same_shape_same_structure _ _ (LogQL.wf_planLogX c fin q1 ht h1) (LogQL.wf_planLogX c fin q2 ht h2)
    (LogQL.planLogX_sameShape c fin q1 q2 h)

/-- … for `planLog` (the C07 fragment without parsers / drop) -/
theorem same_shape_log (c : LogQL.Ctx) (q1 q2 : LogQL.LogQuery) (ht : LogQL.TablesOK c)
    (h1 : ∀ lc ∈ LogQL.labelConds q1, LogQL.condNamesOK lc) (h2 : ∀ lc ∈ LogQL.labelConds q2, LogQL.condNamesOK lc)
    (h : LogQL.sameShape q1 q2) : kinds (renderSel (LogQL.planLog c q1)) = kinds (renderSel (LogQL.planLog c q2)) :=
  same_shape_same_structure _ _ (LogQL.wf_planLog c q1 (LogQL.atomsOK_of_tables c q1 ht) (LogQL.queryOK_of_names q1 h1))
    (LogQL.wf_planLog c q2 (LogQL.atomsOK_of_tables c q2 ht) (LogQL.queryOK_of_names q2 h2)) (LogQL.planLog_sameShape c q1 q2 h)

/-- … for whole scripts as `logql_transpiler_v2.Plan` splits them (in-process stages must be the same stage kinds) -/
theorem same_shape_script (c : LogQL.Ctx) (ms ms' : List LogQL.Matcher) (ss ss' : List LogQL.ScriptStage) (ht : LogQL.TablesOK c)
    (h1 : ∀ lc ∈ LogQL.labelConds (LogQL.preQuery ⟨ms, LogQL.sqlPrefix ss⟩), LogQL.condNamesOK lc)
    (h2 : ∀ lc ∈ LogQL.labelConds (LogQL.preQuery ⟨ms', LogQL.sqlPrefix ss'⟩), LogQL.condNamesOK lc)
    (hm : LogQL.All2 LogQL.Matcher.same ms ms') (hs : LogQL.All2 LogQL.ScriptStage.same ss ss') :
    kinds (renderSel (LogQL.planScript c ms ss)) = kinds (renderSel (LogQL.planScript c ms' ss')) :=
  same_shape_same_structure _ _ (LogQL.wf_planScript c ms ss ht h1) (LogQL.wf_planScript c ms' ss' ht h2)
    (LogQL.planScript_sameShape c ms ms' ss ss' hm hs)

/-- **same_shape_metric.** … for EVERY plan of the metric planner model `planMetric` (range aggregations with and without unwrap,
    the metrics_15s shortcut, by/without, vector aggregations, topk/bottomk, comparisons, step fix, labels join, finalizer):
    `sameShapeM q₁ q₂` — equal SKELETONS: the queries agree in everything but the contents of matcher names/values, needles,
    regexes, label-filter values, by/without label names and the unwrap label; kept are operators, functions, durations, `k`,
    comparison literals, label-filter names and numbers, the literal-regex flag, whether a needle is empty (it decides the
    15 s shortcut), whether the unwrap label is `_entry`, the number of by/without labels — implies equal token structure.
    Proof: `shapeS (planMetric c q) = shapeS (planMetric c q.skel)` (the planner looks at a query through its skeleton only),
    by pushing `shapeS` through every builder of the planner. -/
theorem same_shape_metric (c : LogQL.MCtx) (q1 q2 : LogQL.MetricQuery) (h : LogQL.MAtomsOK c) (hn1 : LogQL.MetricNamesOK q1)
    (hn2 : LogQL.MetricNamesOK q2) (hs : LogQL.sameShapeM q1 q2) :
    kinds (renderSel (LogQL.planMetric c q1)) = kinds (renderSel (LogQL.planMetric c q2)) :=
  same_shape_same_structure _ _ (LogQL.wf_planMetric c q1 h hn1) (LogQL.wf_planMetric c q2 h hn2) (LogQL.planMetric_sameShape c q1 q2 hs)

/-- … for `match[]` selectors (series) and label-values requests: any two label names, selectors with the same operators -/
theorem same_shape_series (c : LogQL.Ctx) (ms ms' : List LogQL.Matcher) (ht : LogQL.TablesOK c) (h : LogQL.All2 LogQL.Matcher.same ms ms') :
    kinds (renderSel (LogQL.planSeries c ms)) = kinds (renderSel (LogQL.planSeries c ms')) :=
  same_shape_same_structure _ _ (LogQL.wf_planSeries c ms ht) (LogQL.wf_planSeries c ms' ht) (LogQL.planSeries_sameShape c ms ms' h)

theorem same_shape_values (c : LogQL.Ctx) (key key' : Bytes) (ms ms' : List LogQL.Matcher) (ht : LogQL.TablesOK c)
    (h : LogQL.All2 LogQL.Matcher.same ms ms') :
    kinds (renderSel (LogQL.planValues c key (some ms))) = kinds (renderSel (LogQL.planValues c key' (some ms'))) ∧
    kinds (renderSel (LogQL.planValues c key none)) = kinds (renderSel (LogQL.planValues c key' none)) :=
  ⟨same_shape_same_structure _ _ (LogQL.wf_planValues c key _ ht) (LogQL.wf_planValues c key' _ ht) (LogQL.planValues_sameShape c key key' ms ms' h).1,
   same_shape_same_structure _ _ (LogQL.wf_planValues c key _ ht) (LogQL.wf_planValues c key' _ ht) (LogQL.planValues_sameShape c key key' ms ms' h).2⟩

/-! ## The labelled metric path: `| json`, `| regexp`, `| drop` inside a metric selector, `quantile_over_time` -/

/-- **plan_closed_metricx.** EVERY plan of C08's extended metric planner model `planMetricX` (range aggregations, unwrap
    functions and `quantile_over_time` over selectors that carry the SQL-side stages `| json l="path",…`, `| regexp`, `| drop`
    and line / label filters after them — `planSpl` with `labelsJoinIdx != -1`: the samples joined with their series' labels,
    one SELECT per run of stages (`MainRenewPlanner`), `LRAPlanner.WithLabels`, `ByWithoutPlanner.processSimple`,
    `QuantilePlanner`, `AggOpPlanner` with labels, topk, comparisons, step fix, finalizer): for every context with closed table
    names the statement is well formed for its leaves and its token structure does not depend on them. Leaves: everything
    `plan_closed_metric` and `plan_closed_logx` list — matcher names/values, needles, regexes, label-filter values, json labels
    and path name parts, regexp group names and pattern, drop names and values, the names of label filters after a parser /
    drop, by/without labels, the unwrap label. The quantile parameter is a number (`%f`: digits and a point for every value).
    Hypothesis on request text: only the names of label filters BEFORE the first parser / drop are `LabelName` tokens. -/
theorem plan_closed_metricx (c : LogQL.MCtx) (q : LogQL.MetricQueryX) (h : LogQL.MAtomsOK c) (hn : LogQL.MetricXNamesOK q) :
    safeSegs .normal (segsSel (LogQL.planMetricX c q)) = true ∧
    kinds (renderSel (LogQL.planMetricX c q)) = kinds (renderSegs ((segsSel (LogQL.planMetricX c q)).map Seg.shape)) :=
  have hw := LogQL.wf_planMetricX c q h hn
  ⟨closed_fragments_partial _ hw, render_structure_invariant_sel _ hw⟩

/-- **same_shape_metricx.** Two metric queries of the labelled path with equal SKELETONS (`sameShapeMX`: everything equal but the
    contents of string leaves — kept are operators, stage kinds and order, and/or trees, label-filter names and numbers, the
    literal-regex flag, whether a needle is empty, json path part kinds and index parts, the numbers of json parameters / regexp
    groups / drop entries, whether a drop entry has a value, whether the unwrap label is `_entry`, functions, durations, the
    quantile parameter, `k`, comparison literals, the number of by/without labels) are planned, in the same context, to
    statements with the same token structure. Proof: `shapeS (planMetricX c q) = shapeS (planMetricX c q.skel)`, pushed through
    `chExpr`, `runSel`, `groupRuns`, `planRunsM`, `sourceX`, `quantileSel` and the matrix builders. -/
theorem same_shape_metricx (c : LogQL.MCtx) (q1 q2 : LogQL.MetricQueryX) (h : LogQL.MAtomsOK c) (hn1 : LogQL.MetricXNamesOK q1)
    (hn2 : LogQL.MetricXNamesOK q2) (hs : LogQL.sameShapeMX q1 q2) :
    kinds (renderSel (LogQL.planMetricX c q1)) = kinds (renderSel (LogQL.planMetricX c q2)) :=
  same_shape_same_structure _ _ (LogQL.wf_planMetricX c q1 h hn1) (LogQL.wf_planMetricX c q2 h hn2)
    (LogQL.planMetricX_sameShape c q1 q2 hs)

/-! ## TraceQL: two requests of the same shape, from a relation on QUERIES -/

/-- **same_shape_traceql.** `sameShapeT s₁ s₂` — the two TraceQL ASTs have equal SKELETONS: the same selectors, script
    operators and presence of condition / aggregator; per selector the same boolean tree over the INTERNED terms (the planner
    de-duplicates terms whose text is equal, so the relation keeps WHICH terms are equal) and, term by term, the same class
    of attribute name (`span.` / `resource.` / `.` attribute — the rest of the name is free —, `duration`, `name`, other),
    the same operator, the same KIND of value with equal number / duration literals (numbers are tokens of the statement) and,
    for a string, only whether `Unquote` succeeds — the string itself is free; aggregator: same function, comparison, number,
    unit and attribute class. Then, in the same context: the planner accepts both or neither, and the two statements have the
    same token structure. Covers every script incl. `{}` (no condition: the `attrless` statement), several selectors under
    `&&` / `||`, aggregators, portions, cached trace ids. Proof: `Except.map shapeS (plan c s₁) = Except.map shapeS (plan c s₂)`
    by walking the planner (`termSql`, `analyzeCond` / `internTerm`, `condSql`, `attrCondition`, `aggregator`, `simpleSel`,
    `complexSel`, `treeSel`, `rootSel`, `tracesData`), not from equal emptied segment lists. -/
theorem same_shape_traceql (c : TraceQL.Ctx) (hc : TraceQL.CtxOK c) (s1 s2 : TraceQL.Script) (h : TraceQL.sameShapeT s1 s2) :
    (TraceQL.plan c s1).isOk = (TraceQL.plan c s2).isOk ∧
    ∀ X1 X2, TraceQL.plan c s1 = .ok X1 → TraceQL.plan c s2 = .ok X2 → kinds (renderSel X1) = kinds (renderSel X2) :=
  ⟨TraceQL.plan_isOk_sameShape c s1 s2 h, fun X1 X2 h1 h2 =>
    same_shape_same_structure _ _ (TraceQL.wf_plan c hc s1 X1 h1) (TraceQL.wf_plan c hc s2 X2 h2)
      (TraceQL.plan_sameShape c s1 s2 X1 X2 h h1 h2)⟩

/-- … the tag-names request (`PlanTagsV2`) -/
theorem same_shape_traceql_tags (c : TraceQL.Ctx) (hc : TraceQL.CtxOK c) (kvTable : String) (hkv : rawE (b kvTable) = true)
    (s1 s2 : TraceQL.Script) (h : TraceQL.sameShapeT s1 s2) :
    (TraceQL.planTags c kvTable s1).isOk = (TraceQL.planTags c kvTable s2).isOk ∧
    ∀ X1 X2, TraceQL.planTags c kvTable s1 = .ok X1 → TraceQL.planTags c kvTable s2 = .ok X2 →
      kinds (renderSel X1) = kinds (renderSel X2) :=
  ⟨TraceQL.planTags_isOk_sameShape c kvTable s1 s2 h, fun X1 X2 h1 h2 =>
    same_shape_same_structure _ _ (TraceQL.wf_planTags c hc kvTable hkv s1 X1 h1) (TraceQL.wf_planTags c hc kvTable hkv s2 X2 h2)
      (TraceQL.planTags_sameShape c kvTable s1 s2 X1 X2 h h1 h2)⟩

/-- … the tag-values request (`PlanValuesV2`): ANY two requested tags -/
theorem same_shape_traceql_values (c : TraceQL.Ctx) (hc : TraceQL.CtxOK c) (kvTable : String) (hkv : rawE (b kvTable) = true)
    (key1 key2 : Bytes) (s1 s2 : TraceQL.Script) (h : TraceQL.sameShapeT s1 s2) :
    (TraceQL.planValues c kvTable key1 s1).isOk = (TraceQL.planValues c kvTable key2 s2).isOk ∧
    ∀ X1 X2, TraceQL.planValues c kvTable key1 s1 = .ok X1 → TraceQL.planValues c kvTable key2 s2 = .ok X2 →
      kinds (renderSel X1) = kinds (renderSel X2) :=
  ⟨TraceQL.planValues_isOk_sameShape c kvTable key1 key2 s1 s2 h, fun X1 X2 h1 h2 =>
    same_shape_same_structure _ _ (TraceQL.wf_planValues c hc kvTable hkv key1 s1 X1 h1)
      (TraceQL.wf_planValues c hc kvTable hkv key2 s2 X2 h2) (TraceQL.planValues_sameShape c kvTable key1 key2 s1 s2 X1 X2 h h1 h2)⟩

/-- the syntactic reading of the relation: the same tree (constructors, boolean operators), the same term class at every
    position, the same pattern of textually equal terms, the same aggregator class and script operators imply `sameShapeT` -/
theorem same_syntax_same_shape_traceql (s1 s2 : TraceQL.Script) (h : TraceQL.sameSyntaxT s1 s2) : TraceQL.sameShapeT s1 s2 :=
  TraceQL.sameShapeT_of_sameSyntaxT s1 s2 h

/-! ## The Pyroscope read statements around the selector -/

/-- a request of the fingerprint planner: what `getMatchers` (`Prof.plan`) makes of SOME selector list, for some `gre` -/
def ProfPlanned (q : Prof.PQuery) : Prop :=
  ∃ (gre : Bytes → Bytes → Bool) (table : String) (f t : Bytes) (ss : List Prof.Selector), Prof.plan gre table f t ss = some q

theorem ProfPlanned.ok {q : Prof.PQuery} (h : ProfPlanned q) : Prof.PQueryOK q := by
  obtain ⟨gre, table, f, t, ss, hp⟩ := h
  exact Prof.plan_queryOK gre table f t ss q hp

private theorem closedBoth (segs : List Seg) (h : safeSegs .normal segs = true) :
    safeSegs .normal segs = true ∧ kinds (renderSegs segs) = kinds (renderSegs (segs.map Seg.shape)) :=
  ⟨h, render_structure_invariant _ h⟩

/-- **plan_closed_prof_merge_profiles / _analyze.** `MergeProfilesPlanner` (SelectMergeProfile) and `ProfileSizePlanner` around
    it (AnalyzeQuery): for every planner context with closed table names, EVERY selector list of the fingerprint planner and
    of the planner's own global matchers (every `gre`): the statement — WITH `fp` = the selector statement, the payload scan
    with window, limit and the global conditions — is well formed for its leaves; selector names, values, regular expressions
    (also inside the `arrayExists(x -> …)` closure of a pseudo label) and the date bounds are leaves. -/
theorem plan_closed_prof_merge_profiles (c : Prof.PCtx) (hc : Prof.PCtxOK c) (fp m : Prof.PQuery) (hfp : ProfPlanned fp)
    (hm : ProfPlanned m) :
    (safeSegs .normal (Prof.mergeProfilesSegs c fp m.globals) = true ∧
      kinds (renderSegs (Prof.mergeProfilesSegs c fp m.globals)) =
        kinds (renderSegs ((Prof.mergeProfilesSegs c fp m.globals).map Seg.shape))) ∧
    (safeSegs .normal (Prof.analyzeQuerySegs c fp) = true ∧
      kinds (renderSegs (Prof.analyzeQuerySegs c fp)) = kinds (renderSegs ((Prof.analyzeQuerySegs c fp).map Seg.shape))) :=
  ⟨closedBoth _ (Prof.mergeProfiles_closed c fp m.globals hc hfp.ok hm.ok.1),
   closedBoth _ (Prof.analyzeQuery_closed c fp hc hfp.ok)⟩

/-- **plan_closed_prof_merge_traces.** `MergeRawPlanner` → `MergeJoinedPlanner` → `MergeAggregatedPlanner`
    (SelectMergeStacktraces, SelectMergeSpanProfile, render, render-diff): additionally the `sampleType:sampleUnit` part of the
    profile type id — written inside the closure `arrayMap(x -> … arrayFirst(y -> y.1 == <typeUnit>, x.4) …)` — is ANY byte
    string (a leaf). -/
theorem plan_closed_prof_merge_traces (c : Prof.PCtx) (hc : Prof.PCtxOK c) (typeUnit : Bytes) (fp m : Prof.PQuery)
    (hfp : ProfPlanned fp) (hm : ProfPlanned m) :
    safeSegs .normal (Prof.mergeTracesSegs c typeUnit fp m.globals) = true ∧
      kinds (renderSegs (Prof.mergeTracesSegs c typeUnit fp m.globals)) =
        kinds (renderSegs ((Prof.mergeTracesSegs c typeUnit fp m.globals).map Seg.shape)) :=
  closedBoth _ (Prof.mergeTraces_closed c typeUnit fp m.globals hc hfp.ok hm.ok.1)

/-- **plan_closed_prof_select_series.** `GetLabelsPlanner` + `SelectSeriesPlanner` (SelectSeries): the `group_by` names
    (`arrayFilter(x -> x.1 IN (<names>), p.tags)`), the type-id part in the value aggregate, every step and aggregation. -/
theorem plan_closed_prof_select_series (c : Prof.PCtx) (hc : Prof.PCtxOK c) (typeUnit : Bytes) (avg : Bool) (step : Int)
    (groupBy : List Bytes) (fp m : Prof.PQuery) (hfp : ProfPlanned fp) (hm : ProfPlanned m) :
    safeSegs .normal (Prof.selectSeriesSegs c typeUnit avg step groupBy fp m.globals) = true ∧
      kinds (renderSegs (Prof.selectSeriesSegs c typeUnit avg step groupBy fp m.globals)) =
        kinds (renderSegs ((Prof.selectSeriesSegs c typeUnit avg step groupBy fp m.globals).map Seg.shape)) :=
  closedBoth _ (Prof.selectSeries_closed c typeUnit avg step groupBy fp m.globals hc hfp.ok hm.ok.1)

/-- **plan_closed_prof_series.** Series: no selector set (`AllTimeSeriesSelectPlanner`), one (`TimeSeriesSelectPlanner` +
    `FilterLabelsPlanner`), two or more (UNION ALL under `TimeSeriesDistinctPlanner`): the `label_names` entries are leaves. -/
theorem plan_closed_prof_series (c : Prof.PCtx) (hc : Prof.PCtxOK c) (labels : List Bytes) :
    (∀ sel : Option Prof.PQuery, (∀ q, sel = some q → ProfPlanned q) →
      safeSegs .normal (Prof.planSeriesSegs c labels sel) = true ∧
      kinds (renderSegs (Prof.planSeriesSegs c labels sel)) = kinds (renderSegs ((Prof.planSeriesSegs c labels sel).map Seg.shape))) ∧
    (∀ scripts : List Prof.PQuery, (∀ q ∈ scripts, ProfPlanned q) →
      safeSegs .normal (Prof.seriesUnionSegs c labels scripts) = true ∧
      kinds (renderSegs (Prof.seriesUnionSegs c labels scripts)) =
        kinds (renderSegs ((Prof.seriesUnionSegs c labels scripts).map Seg.shape))) :=
  ⟨fun sel h => closedBoth _ (Prof.planSeries_closed c labels sel hc (fun q hq => (h q hq).ok)),
   fun scripts h => closedBoth _ (Prof.seriesUnion_closed c labels scripts hc (fun q hq => (h q hq).ok))⟩

/-- **plan_closed_prof_labels.** LabelNames (`key`) and LabelValues (`val`, the requested label name ANY bytes): without a
    selector set, and with one or more (`fp` = the UNION ALL of their selector statements). -/
theorem plan_closed_prof_labels (c : Prof.PCtx) (hc : Prof.PCtxOK c) (label : Option Bytes) :
    (∀ col, col = "key" ∨ col = "val" →
      safeSegs .normal (Prof.labelsNoSelSegs c col label) = true ∧
      kinds (renderSegs (Prof.labelsNoSelSegs c col label)) = kinds (renderSegs ((Prof.labelsNoSelSegs c col label).map Seg.shape))) ∧
    (∀ col, col = "key" ∨ col = "val" → ∀ scripts : List Prof.PQuery, (∀ q ∈ scripts, ProfPlanned q) →
      safeSegs .normal (Prof.labelsUnionSegs c col label scripts) = true ∧
      kinds (renderSegs (Prof.labelsUnionSegs c col label scripts)) =
        kinds (renderSegs ((Prof.labelsUnionSegs c col label scripts).map Seg.shape))) := by
  have hcol : ∀ col : String, col = "key" ∨ col = "val" → rawE (b col) = true := by
    rintro col (rfl | rfl)
    · exact Prof.col_key
    · exact Prof.col_val
  exact ⟨fun col h => closedBoth _ (Prof.labelsNoSel_closed c col label hc (hcol col h)),
    fun col h scripts hs => closedBoth _ (Prof.labelsUnion_closed c col label scripts hc (hcol col h) (fun q hq => (hs q hq).ok))⟩

/-- **prof_segs_are_model_text_full.** The segment views are the texts of C13's `Sel` terms (`Prof/Planners.lean`, tied byte for
    byte to the real planners by the `model-prof-plans` stream) for EVERY Pyroscope statement: merge profiles, merge stack traces
    (`MergeRawPlanner` → `MergeJoinedPlanner` → `MergeAggregatedPlanner`), SelectSeries (`SelectSeriesPlanner` over
    `GetLabelsPlanner`), Series for one selector set (`FilterLabelsPlanner` over `TimeSeriesSelectPlanner`), Series for any number
    of selector sets (UNION ALL under `TimeSeriesDistinctPlanner`), LabelValues over the UNION ALL of selector statements, and
    AnalyzeQuery (`ProfileSizePlanner`) — whenever the request strings the model routes through a `String` survive `utf8`.
    Proof (`Proofs/ProfPlansRenderFull.lean`): `with_one_withs` — `outer.With(alias, inner)` hoists `inner`'s WITH list unchanged
    when its aliases are pairwise different, for every `Sel` —, the alias lists along each stack (`RStA`), `render_unionB`. -/
theorem prof_segs_are_model_text_full :
  ∀ (c : Prof.PCtx) (typeUnit : Bytes) (avg : Bool) (step : Int) (names : List Bytes) (label : Option Bytes) (fp m : Prof.PQuery)
    (scripts : List Prof.PQuery),
    Prof.PQueryU fp → (∀ g ∈ m.globals, g.okU) → (∀ q ∈ scripts, Prof.PQueryU q) → Prof.Utf8OK (quote typeUnit) →
    Prof.Utf8OK (renderExpr (.isIn (.raw "x.1") (names.map .str))) → Prof.Utf8OK (renderExpr (eq (.raw "x.1") (.str typeUnit))) →
    renderSegs (Prof.mergeProfilesSegs c fp m.globals) = renderSel (Prof.mergeProfiles c fp m.globals) ∧
    renderSegs (Prof.mergeTracesSegs c typeUnit fp m.globals) = renderSel (Prof.mergeTraces c typeUnit fp m.globals) ∧
    renderSegs (Prof.selectSeriesSegs c typeUnit avg step names fp m.globals) =
      renderSel (Prof.selectSeries c typeUnit avg step (Prof.getLabels c names fp m.globals) m.globals) ∧
    renderSegs (Prof.planSeriesSegs c names (some fp)) = renderSel (Prof.planSeries c names (some fp)) ∧
    renderSegs (Prof.seriesUnionSegs c names scripts) = (Prof.seriesUnion c names scripts).render ∧
    renderSegs (Prof.labelsUnionSegs c "val" label scripts) = (Prof.labelsUnion c "val" label scripts).render ∧
    renderSegs (Prof.analyzeQuerySegs c fp) = renderSel (Prof.analyzeQuery c fp) :=
  fun c typeUnit avg step names label fp m scripts hq hg hs hu1 hu2 hu3 =>
    ⟨Prof.mergeProfilesSegs_render c fp m.globals hq hg,
     Prof.mergeTracesSegs_render c typeUnit fp m.globals hq hg hu1,
     Prof.selectSeriesSegs_render c typeUnit avg step names fp m.globals hq hg hu2 hu3,
     Prof.planSeriesSegs_render c names (some fp) (fun q h => by cases h; exact hq) hu2,
     Prof.seriesUnionSegs_render c names scripts hs hu2,
     Prof.labelsUnionSegs_render c "val" label scripts hs,
     Prof.analyzeQuerySegs_render c fp hq⟩

/-- **prof_segs_are_model_text_partial.** The same for the statements the ones above are stacked on (kept under its name; no
    longer partial — `prof_segs_are_model_text_full` is a theorem): the selector statement, merge profiles, the raw select of
    merge stack traces, the labels select of SelectSeries, the one-set series select, series without a selector, label
    names / values without a selector set and the main select of the union form. -/
theorem prof_segs_are_model_text_partial (c : Prof.PCtx) (typeUnit : Bytes) (names : List Bytes) (label : Option Bytes) (col : String)
    (fp m : Prof.PQuery) (hq : Prof.PQueryU fp) (hg : ∀ g ∈ m.globals, g.okU) :
    renderSegs (Prof.selectorSegs c fp) = renderSel (Prof.selectorSel c fp) ∧
    renderSegs (Prof.mergeProfilesSegs c fp m.globals) = renderSel (Prof.mergeProfiles c fp m.globals) ∧
    (Prof.Utf8OK (quote typeUnit) →
      renderSegs (Prof.mergeRawSegs c typeUnit fp m.globals) = renderSel (Prof.mergeRaw c typeUnit fp m.globals)) ∧
    (Prof.Utf8OK (renderExpr (.isIn (.raw "x.1") (names.map .str))) →
      renderSegs (Prof.getLabelsSegs c names fp m.globals) = renderSel (Prof.getLabels c names fp m.globals)) ∧
    renderSegs (Prof.timeSeriesSelectSegs c fp m.globals) = renderSel (Prof.timeSeriesSelect c fp m.globals) ∧
    renderSegs (Prof.allTimeSeriesSegs c) = renderSel (Prof.allTimeSeries c) ∧
    renderSegs (Prof.labelsNoSelSegs c col label) = renderSel (Prof.labelsNoSel c col label) ∧
    renderSegs (Prof.labelsSelSegs c col label true) = renderSel (Prof.labelsSel c col label true) :=
  ⟨Prof.selectorSegs_render c fp hq, Prof.mergeProfilesSegs_render c fp m.globals hq hg,
   fun hu => Prof.mergeRawSegs_render c typeUnit fp m.globals hq hg hu,
   fun hu => Prof.getLabelsSegs_render c names fp m.globals hq hg hu,
   Prof.timeSeriesSelectSegs_render c fp m.globals hq hg, Prof.allTimeSeriesSegs_render c,
   Prof.labelsNoSelSegs_render c col label, Prof.labelsSelSegs_render c col label true⟩

/-! ### `plan_closed_prof_*` about the text of C13's model terms

    C13's `prof_*_confined` theorems are about the `Sel` terms of `Prof/Planners.lean` (`confined cfg win (Prof.mergeTraces …)`, …);
    `model-prof-plans` ties `renderSel` of those terms to the real planners' text. With `prof_segs_are_model_text_full` the
    closedness theorems above become statements about THAT text: `renderSel (Prof.… …)` is the rendering of a segment list
    that is well formed for its leaves, so its token structure does not depend on any request string. Hypotheses besides those of
    `plan_closed_prof_*`: the strings the C13 model keeps inside a `String` survive `utf8` (`PQueryU`, `PCond.okU`, `Utf8OK`). -/

private theorem modelText {segs : List Seg} {t : Bytes} (hr : renderSegs segs = t) (h : safeSegs .normal segs = true) :
    t = renderSegs segs ∧ safeSegs .normal segs = true ∧ kinds t = kinds (renderSegs (segs.map Seg.shape)) :=
  ⟨hr.symm, h, hr ▸ render_structure_invariant _ h⟩

/-- **plan_closed_prof_merge_profiles_model.** SelectMergeProfile and AnalyzeQuery: the text of C13's `mergeProfiles` /
    `analyzeQuery` terms (`prof_merge_profiles_confined`, `prof_analyze_query_confined`). -/
theorem plan_closed_prof_merge_profiles_model (c : Prof.PCtx) (hc : Prof.PCtxOK c) (fp m : Prof.PQuery) (hfp : ProfPlanned fp)
    (hm : ProfPlanned m) (hq : Prof.PQueryU fp) (hg : ∀ g ∈ m.globals, g.okU) :
    (renderSel (Prof.mergeProfiles c fp m.globals) = renderSegs (Prof.mergeProfilesSegs c fp m.globals) ∧
      safeSegs .normal (Prof.mergeProfilesSegs c fp m.globals) = true ∧
      kinds (renderSel (Prof.mergeProfiles c fp m.globals)) =
        kinds (renderSegs ((Prof.mergeProfilesSegs c fp m.globals).map Seg.shape))) ∧
    (renderSel (Prof.analyzeQuery c fp) = renderSegs (Prof.analyzeQuerySegs c fp) ∧
      safeSegs .normal (Prof.analyzeQuerySegs c fp) = true ∧
      kinds (renderSel (Prof.analyzeQuery c fp)) = kinds (renderSegs ((Prof.analyzeQuerySegs c fp).map Seg.shape))) :=
  ⟨modelText (Prof.mergeProfilesSegs_render c fp m.globals hq hg) (plan_closed_prof_merge_profiles c hc fp m hfp hm).1.1,
   modelText (Prof.analyzeQuerySegs_render c fp hq) (plan_closed_prof_merge_profiles c hc fp m hfp hm).2.1⟩

/-- **plan_closed_prof_merge_traces_model.** SelectMergeStacktraces & co: the text of C13's `mergeTraces` term
    (`prof_merge_traces_confined`) — WITH `fp`, `raw`, `pre_joined`, `joined` and the two bracketed selects. -/
theorem plan_closed_prof_merge_traces_model (c : Prof.PCtx) (hc : Prof.PCtxOK c) (typeUnit : Bytes) (fp m : Prof.PQuery)
    (hfp : ProfPlanned fp) (hm : ProfPlanned m) (hq : Prof.PQueryU fp) (hg : ∀ g ∈ m.globals, g.okU)
    (hu : Prof.Utf8OK (quote typeUnit)) :
    renderSel (Prof.mergeTraces c typeUnit fp m.globals) = renderSegs (Prof.mergeTracesSegs c typeUnit fp m.globals) ∧
      safeSegs .normal (Prof.mergeTracesSegs c typeUnit fp m.globals) = true ∧
      kinds (renderSel (Prof.mergeTraces c typeUnit fp m.globals)) =
        kinds (renderSegs ((Prof.mergeTracesSegs c typeUnit fp m.globals).map Seg.shape)) :=
  modelText (Prof.mergeTracesSegs_render c typeUnit fp m.globals hq hg hu) (plan_closed_prof_merge_traces c hc typeUnit fp m hfp hm).1

/-- **plan_closed_prof_select_series_model.** SelectSeries: the text of C13's `selectSeries … (getLabels …)` term
    (`prof_select_series_confined`). -/
theorem plan_closed_prof_select_series_model (c : Prof.PCtx) (hc : Prof.PCtxOK c) (typeUnit : Bytes) (avg : Bool) (step : Int)
    (groupBy : List Bytes) (fp m : Prof.PQuery) (hfp : ProfPlanned fp) (hm : ProfPlanned m) (hq : Prof.PQueryU fp)
    (hg : ∀ g ∈ m.globals, g.okU) (hu1 : Prof.Utf8OK (renderExpr (.isIn (.raw "x.1") (groupBy.map .str))))
    (hu2 : Prof.Utf8OK (renderExpr (eq (.raw "x.1") (.str typeUnit)))) :
    renderSel (Prof.selectSeries c typeUnit avg step (Prof.getLabels c groupBy fp m.globals) m.globals) =
        renderSegs (Prof.selectSeriesSegs c typeUnit avg step groupBy fp m.globals) ∧
      safeSegs .normal (Prof.selectSeriesSegs c typeUnit avg step groupBy fp m.globals) = true ∧
      kinds (renderSel (Prof.selectSeries c typeUnit avg step (Prof.getLabels c groupBy fp m.globals) m.globals)) =
        kinds (renderSegs ((Prof.selectSeriesSegs c typeUnit avg step groupBy fp m.globals).map Seg.shape)) :=
  modelText (Prof.selectSeriesSegs_render c typeUnit avg step groupBy fp m.globals hq hg hu1 hu2)
    (plan_closed_prof_select_series c hc typeUnit avg step groupBy fp m hfp hm).1

/-- **plan_closed_prof_series_model.** Series: the text of C13's `planSeries` term (no selector set / one; `prof_series_confined`)
    and of its `seriesUnion` statement (any number of sets; `prof_series_union_confined`). -/
theorem plan_closed_prof_series_model (c : Prof.PCtx) (hc : Prof.PCtxOK c) (labels : List Bytes)
    (hu : Prof.Utf8OK (renderExpr (.isIn (.raw "x.1") (labels.map .str)))) :
    (∀ sel : Option Prof.PQuery, (∀ q, sel = some q → ProfPlanned q ∧ Prof.PQueryU q) →
      renderSel (Prof.planSeries c labels sel) = renderSegs (Prof.planSeriesSegs c labels sel) ∧
      safeSegs .normal (Prof.planSeriesSegs c labels sel) = true ∧
      kinds (renderSel (Prof.planSeries c labels sel)) = kinds (renderSegs ((Prof.planSeriesSegs c labels sel).map Seg.shape))) ∧
    (∀ scripts : List Prof.PQuery, (∀ q ∈ scripts, ProfPlanned q ∧ Prof.PQueryU q) →
      (Prof.seriesUnion c labels scripts).render = renderSegs (Prof.seriesUnionSegs c labels scripts) ∧
      safeSegs .normal (Prof.seriesUnionSegs c labels scripts) = true ∧
      kinds (Prof.seriesUnion c labels scripts).render =
        kinds (renderSegs ((Prof.seriesUnionSegs c labels scripts).map Seg.shape))) :=
  ⟨fun sel h => modelText (Prof.planSeriesSegs_render c labels sel (fun q hq => (h q hq).2) hu)
      ((plan_closed_prof_series c hc labels).1 sel (fun q hq => (h q hq).1)).1,
   fun scripts h => modelText (Prof.seriesUnionSegs_render c labels scripts (fun q hq => (h q hq).2) hu)
      ((plan_closed_prof_series c hc labels).2 scripts (fun q hq => (h q hq).1)).1⟩

/-- **plan_closed_prof_labels_model.** LabelNames / LabelValues: the text of C13's `labelsNoSel` term (`prof_labels_confined`) and
    of its `labelsUnion` statement (`prof_labels_union_confined`); the requested label name is a leaf of the model itself. -/
theorem plan_closed_prof_labels_model (c : Prof.PCtx) (hc : Prof.PCtxOK c) (label : Option Bytes) :
    (∀ col, col = "key" ∨ col = "val" →
      renderSel (Prof.labelsNoSel c col label) = renderSegs (Prof.labelsNoSelSegs c col label) ∧
      safeSegs .normal (Prof.labelsNoSelSegs c col label) = true ∧
      kinds (renderSel (Prof.labelsNoSel c col label)) = kinds (renderSegs ((Prof.labelsNoSelSegs c col label).map Seg.shape))) ∧
    (∀ col, col = "key" ∨ col = "val" → ∀ scripts : List Prof.PQuery, (∀ q ∈ scripts, ProfPlanned q ∧ Prof.PQueryU q) →
      (Prof.labelsUnion c col label scripts).render = renderSegs (Prof.labelsUnionSegs c col label scripts) ∧
      safeSegs .normal (Prof.labelsUnionSegs c col label scripts) = true ∧
      kinds (Prof.labelsUnion c col label scripts).render =
        kinds (renderSegs ((Prof.labelsUnionSegs c col label scripts).map Seg.shape))) :=
  ⟨fun col h => modelText (Prof.labelsNoSelSegs_render c col label) ((plan_closed_prof_labels c hc label).1 col h).1,
   fun col h scripts hs => modelText (Prof.labelsUnionSegs_render c col label scripts (fun q hq => (hs q hq).2))
      ((plan_closed_prof_labels c hc label).2 col h scripts (fun q hq => (hs q hq).1)).1⟩

/-! ## The Prometheus metadata endpoints: labels, label values, series with `match[]` -/

/-- **plan_closed_prom_labels / _values / _series.** `QueryLabelsService.PromLabels / PromValues / PromSeries` (model
    `Prom/Labels.lean`, C17): for closed table names, EVERY list of `match[]` selectors the planner accepts (any number of
    selectors, any matcher names / values / regular expressions, any `full`), every window and limit, and ANY bytes as the
    label name of the URL path: the WHOLE statement — `WITH fp_sel as ( <fingerprintsQuery> UNION ALL … ) SELECT DISTINCT …
    WHERE …` — is the rendering of a segment list (`render = renderSegs segs`) that is well formed for its leaves, so its
    token structure does not depend on them. Also without `match[]` (no WITH). -/
theorem plan_closed_prom_labels (full : Bytes → Bytes → Bool) (gin table : String) (hg : rawE (Prom.ascii gin) = true)
    (ht : rawE (Prom.ascii table) = true) (w : Prom.Labels.Win) (sels : List (List Prom.Matcher)) (u : Prom.Labels.FpUnion)
    (h : Prom.Labels.fpUnion full table w.fromDate w.tp sels = some u) :
    (renderSegs (Prom.Labels.namesSegs gin w (some u)) = Prom.Labels.namesRender gin w (some u) ∧
      safeSegs .normal (Prom.Labels.namesSegs gin w (some u)) = true ∧
      kinds (Prom.Labels.namesRender gin w (some u)) = kinds (renderSegs ((Prom.Labels.namesSegs gin w (some u)).map Seg.shape))) ∧
    (renderSegs (Prom.Labels.namesSegs gin w none) = Prom.Labels.namesRender gin w none ∧
      safeSegs .normal (Prom.Labels.namesSegs gin w none) = true) := by
  have h1 := Prom.Labels.names_closed full gin table hg ht w sels u h
  refine ⟨⟨h1.1, h1.2, ?_⟩, Prom.Labels.names_closed_none gin hg w⟩
  rw [← h1.1]; exact render_structure_invariant _ h1.2

theorem plan_closed_prom_values (full : Bytes → Bytes → Bool) (gin table : String) (hg : rawE (Prom.ascii gin) = true)
    (ht : rawE (Prom.ascii table) = true) (w : Prom.Labels.Win) (limit : Nat) (name : Bytes) (sels : List (List Prom.Matcher))
    (u : Prom.Labels.FpUnion) (h : Prom.Labels.fpUnion full table w.fromDate w.tp sels = some u) :
    (renderSegs (Prom.Labels.valuesSegs gin w limit name (some u)) = Prom.Labels.valuesRender gin w limit name (some u) ∧
      safeSegs .normal (Prom.Labels.valuesSegs gin w limit name (some u)) = true ∧
      kinds (Prom.Labels.valuesRender gin w limit name (some u)) =
        kinds (renderSegs ((Prom.Labels.valuesSegs gin w limit name (some u)).map Seg.shape))) ∧
    (renderSegs (Prom.Labels.valuesSegs gin w limit name none) = Prom.Labels.valuesRender gin w limit name none ∧
      safeSegs .normal (Prom.Labels.valuesSegs gin w limit name none) = true) := by
  have h1 := Prom.Labels.values_closed full gin table hg ht w limit name sels u h
  refine ⟨⟨h1.1, h1.2, ?_⟩, Prom.Labels.values_closed_none gin hg w limit name⟩
  rw [← h1.1]; exact render_structure_invariant _ h1.2

theorem plan_closed_prom_series (full : Bytes → Bytes → Bool) (tsTable table : String) (hs : rawE (Prom.ascii tsTable) = true)
    (ht : rawE (Prom.ascii table) = true) (w : Prom.Labels.Win) (limit : Nat) (sels : List (List Prom.Matcher))
    (u : Prom.Labels.FpUnion) (h : Prom.Labels.fpUnion full table w.fromDate w.tp sels = some u) :
    renderSegs (Prom.Labels.seriesSegs tsTable w limit u) = Prom.Labels.seriesRender tsTable w limit u ∧
      safeSegs .normal (Prom.Labels.seriesSegs tsTable w limit u) = true ∧
      kinds (Prom.Labels.seriesRender tsTable w limit u) = kinds (renderSegs ((Prom.Labels.seriesSegs tsTable w limit u).map Seg.shape)) := by
  have h1 := Prom.Labels.series_closed full tsTable table hs ht w limit sels u h
  refine ⟨h1.1, h1.2, ?_⟩
  rw [← h1.1]; exact render_structure_invariant _ h1.2

/-! ## Legacy Tempo: `?tags=` search, trace by id, tag values -/

/-- **tempo_search_closed.** The statement `TempoService.Search` sends (`GetTracesQuery` around `SQLIndexQuery.String`: one
    sub-select per tag of `tags=`, joined on (trace_id, span_id)): for EVERY list of parsed tags — names and values any
    byte strings, conditions `= != =~ !~` — every window, duration bound, limit and schema-version flag, the text is a
    segment list well formed for its leaves; dates are digits and `-` for every second, numbers digits. Hypothesis: the two
    table names are closed text. -/
theorem tempo_search_closed (s : TempoSegs.Search) (x : TempoSegs.Idx) (tags : List TempoSegs.Tag) (hs : rawE s.tracesTable = true)
    (hx : rawE x.table = true) :
    safeSegs .normal (TempoSegs.searchSegs s (TempoSegs.idxOf x tags)) = true ∧
    kinds (TempoSegs.searchText s x tags) = kinds (renderSegs ((TempoSegs.searchSegs s (TempoSegs.idxOf x tags)).map Seg.shape)) := by
  have h := (TempoSegs.PE_searchSegs s x tags hs hx .normal rfl).1
  exact ⟨h, render_structure_invariant _ h⟩

/-- **tempo_trace_closed / tempo_tag_values_closed.** Trace by id (`unhex(<id>)`: the id of the URL is a leaf: ANY bytes) and
    `/api/search/tag/{tag}/values` (the tag is a leaf) -/
theorem tempo_trace_closed (table : String) (traceId : Bytes) (startNs endNs : Int) (ht : rawE (b table) = true) :
    safeSegs .normal (segsSel (TempoSegs.traceSel table traceId startNs endNs)) = true :=
  closed_fragments_partial _ (TempoSegs.wf_traceSel table traceId startNs endNs ht)

theorem tempo_tag_values_closed (table : String) (tag : Bytes) (ht : rawE (b table) = true) :
    safeSegs .normal (segsSel (TempoSegs.tagValuesSel table tag)) = true :=
  closed_fragments_partial _ (TempoSegs.wf_tagValuesSel table tag ht)

/-! ## Every place where SQL text is written without an escaping constructor -/

/-- **template_closed.** A `fmt.Sprintf` format (or a `+` concatenation) whose constant pieces pass `checkT` for the kinds of
    its holes yields, for EVERY admissible filling — any byte string in a `leaf` hole (the text `StringVal.String` writes),
    any expression-like segment list in a `sub` hole, closed text in a `closed` hole, quote-and-backslash-free bytes inside
    the quotes of an `inLit` hole — a segment list that is well formed for its leaves. -/
theorem template_closed (kinds : List Hole) (ps : List Piece) (h : checkT kinds ps = true) (fills : List Fill)
    (hf : FillsOK kinds fills) :
    ∀ q : St, q.ground = true → safeSegs q (instT fills ps) = true ∧ (runSegs q (instT fills ps)).1.entry = true :=
  checkT_sound kinds ps h fills hf

/-- **raw_sql_census.** The regenerated inventory of raw-SQL construction sites under reader/ (`Gen.RawSqlSites`: every
    `fmt.Sprintf`, every `NewRawObject`/`NewSimpleCol`/`NewCol`/`NewWith`/`NewJoin`/`AddSetting` with a non-literal text
    argument, every `NewCustomCol` closure, every custom `String(ctx *sql.Ctx,…)` method, every concatenation / `+=` /
    builder write in the SQL-building files) equals the reviewed, classified table — file by file, site by site, over the
    hash of function, kind, format string and every argument with its origin. A new site, a changed format string or a
    changed argument breaks this theorem. -/
theorem raw_sql_census :
    Gen.RawSqlSites.files.map (fun f => (f.1, f.2.map (·.hash))) = RawSql.Table.files.map (fun f => (f.1, f.2.map (·.hash))) ∧
    Gen.RawSqlSites.sites.length = RawSql.Table.entries.length :=
  ⟨RawSql.census_sites, RawSql.census_length⟩

/-- **raw_sites_closed.** Every site the table marks as writing SQL with a format string: the REGENERATED format parses and,
    with the holes its reviewed argument classes admit, is closed for every admissible filling (`template_closed`); and in
    the whole table no argument is request text written raw. -/
theorem raw_sites_closed :
    (∀ p ∈ Gen.RawSqlSites.sites.zip RawSql.Table.entries, p.2.role = .sql → p.1.kindN ≤ 2 →
      ∃ hs ps, RawSql.holesOf p.2.cls = some hs ∧ parseFmt p.1.fmtB = some ps ∧
        ∀ fills, FillsOK hs fills → ∀ q : St, q.ground = true → safeSegs q (instT fills ps) = true ∧ (runSegs q (instT fills ps)).1.entry = true) ∧
    (∀ e ∈ RawSql.Table.entries, RawSql.Cls.userRaw ∉ e.cls) := by
  refine ⟨RawSql.sql_sites_closed, ?_⟩
  have h : RawSql.Table.entries.all (fun e => !e.cls.contains .userRaw) = true := by decide +kernel
  intro e he hc
  have := (List.all_eq_true.mp h) e he
  simp only [Bool.not_eq_true', List.contains_eq_mem, decide_eq_false_iff_not] at this
  exact this hc

/-- a format that writes its own quotes around an escaped value is refused: `'%s'` with a leaf, two adjacent leaves, a leaf
    behind a comment opener; `labels['%s']` is accepted only for identifier-restricted text -/
theorem template_rejects :
    fmtClosed (b "'%s'") [.leaf] = false ∧ fmtClosed (b "%s%s") [.leaf, .leaf] = false ∧ fmtClosed (b "-- %s") [.leaf] = false ∧
    fmtClosed (b "labels['%s']") [.leaf] = false ∧ fmtClosed (b "labels['%s']") [.inLit] = true ∧
    fmtClosed (b "labels[%s]") [.leaf] = true := by decide +kernel

-- non-vacuity: a hostile string in a two-leaf template
-- `a = '…' AND b = '…'`
example : safeSegs .normal [.raw [97, 32, 61, 32], .str [39, 59, 45, 45, 92],
    .raw [32, 65, 78, 68, 32, 98, 32, 61, 32], .str [0, 39, 39]] = true := by decide
example : lex (quote [39, 59, 45, 45, 92, 0]) = [Tok.str [39, 59, 45, 45, 92, 0]] := stringval_token _
-- a template that is *not* well formed is rejected: leaf directly after a literal, or inside a comment
example : safeSegs .normal [.raw [39, 97, 39], .str [98]] = false := by decide
example : safeSegs .normal [.raw [45, 45, 32], .str [98]] = false := by decide

-- non-vacuity of `closed_fragments_planLog_partial`: a whole LogQL plan with hostile matcher values, a regex, line
-- filters and label filters, in single-node and cluster naming; every hypothesis is discharged by evaluation
private def exCtx : LogQL.Ctx where
  fromNs := 1700000000000000000
  toNs := 1700003600000000000
  limit := 100
  orderAsc := false
  tp := 1
  isCluster := false
  ginTable := "time_series_gin"
  samplesTable := "samples_v3"
  tsTable := "time_series"
  tsDistTable := "time_series"
private def exCtxCluster : LogQL.Ctx where
  fromNs := 1700000000000000000
  toNs := 1700003600000000000
  limit := 0
  orderAsc := true
  tp := 0
  isCluster := true
  ginTable := "`qryn`.time_series_gin"
  samplesTable := "`qryn`.samples_v3_dist"
  tsTable := "`qryn`.time_series"
  tsDistTable := "`qryn`.time_series_dist"
private def exQuery : LogQL.LogQuery := {
  matchers := [⟨[97], .eq, [39, 59, 45, 45, 92]⟩, ⟨[98], .nre, [0, 39, 39, 47, 42]⟩],
  stages := [.line ⟨.contains, [37, 39, 95, 92], none⟩, .label (.or (.str "lbl" .neq [39]) (.num "x_1" .ge ⟨5, [5]⟩)),
             .line ⟨.nre, [92, 39], some ⟨[39], true⟩⟩, .label (.str "a" .re [42, 47])] }

private theorem exShifts : LogQL.shiftsOK 0 exQuery.matchers.length := fun j _ h => by
  have : j = 0 ∨ j = 1 := by simp [exQuery] at h; omega
  rcases this with rfl | rfl <;> decide +kernel
private theorem exAtoms : LogQL.AtomsOK exCtx exQuery :=
  ⟨by decide +kernel, by decide +kernel, by decide +kernel, by decide +kernel, by decide +kernel, by decide +kernel,
   by decide +kernel, by decide +kernel, by decide +kernel, exShifts⟩
private theorem exAtomsCluster : LogQL.AtomsOK exCtxCluster exQuery :=
  ⟨by decide +kernel, by decide +kernel, by decide +kernel, by decide +kernel, by decide +kernel, by decide +kernel,
   by decide +kernel, by decide +kernel, by decide +kernel, exShifts⟩
private theorem exQueryOK : LogQL.QueryOK exQuery where
  conds := by
    intro lc h
    simp [LogQL.labelConds, exQuery] at h
    rcases h with rfl | rfl
    · refine ⟨?_, ?_, ?_⟩
      · show (b "lbl").all litSafe = true
        decide +kernel
      · show (b "x_1").all litSafe = true
        decide +kernel
      · show rawE (b (LogQL.numText ⟨5, [5]⟩)) = true
        decide +kernel
    · show (b "a").all litSafe = true
      decide +kernel
  subs := fun j h1 h2 => by
    have : j = 1 ∨ j = 2 := by simp [LogQL.labelConds, exQuery] at h2; omega
    rcases this with rfl | rfl <;> exact ⟨by decide +kernel, by decide +kernel⟩
example : safeSegs .normal (segsSel (LogQL.planLog exCtx exQuery)) = true :=
  closed_fragments_planLog_partial _ _ exAtoms exQueryOK
example : safeSegs .normal (segsSel (LogQL.planLog exCtxCluster exQuery)) = true :=
  closed_fragments_planLog_partial _ _ exAtomsCluster exQueryOK

-- non-vacuity of `plan_closed_log`: the hypotheses are table names and label-filter names only
private theorem exTables : LogQL.TablesOK exCtx := ⟨by decide +kernel, by decide +kernel, by decide +kernel, by decide +kernel⟩
private theorem exTablesCluster : LogQL.TablesOK exCtxCluster :=
  ⟨by decide +kernel, by decide +kernel, by decide +kernel, by decide +kernel⟩
private theorem exNames : ∀ lc ∈ LogQL.labelConds exQuery, LogQL.condNamesOK lc := by
  intro lc h
  simp [LogQL.labelConds, exQuery] at h
  rcases h with rfl | rfl
  · exact ⟨by show LogQL.LabelClass "lbl"; unfold LogQL.LabelClass; decide +kernel,
      by show LogQL.LabelClass "x_1"; unfold LogQL.LabelClass; decide +kernel⟩
  · show LogQL.LabelClass "a"
    unfold LogQL.LabelClass; decide +kernel
example := plan_closed_log exCtx exQuery exTables exNames
example := plan_closed_log exCtxCluster exQuery exTablesCluster exNames
-- `plan_closed_metric`: topk over a grouped sum over an unwrapped rate, hostile by-labels, unwrap label and matcher values
private def exMCtx : LogQL.MCtx := { exCtxCluster with stepNs := 5000000000, metrics15Table := "`qryn`.metrics_15s_dist" }
private def exMetric : LogQL.MetricQuery :=
  .topk ⟨true, 3, .agg ⟨.sum, some ⟨true, ["a'b", "x\\"]⟩,
    ⟨.unwrap .rate "l'--", exQuery, 60000000000, none, some ⟨false, ["';"]⟩, some ⟨.gt, ⟨1, [5]⟩⟩⟩, none, none⟩, some ⟨.le, ⟨100, []⟩⟩⟩
example := plan_closed_metric exMCtx exMetric ⟨exTablesCluster, by decide +kernel⟩ exNames
-- `plan_closed_traceql`: a complex script with a hostile attribute name and value, accepted by the planner
private def exTCtx : TraceQL.Ctx := ⟨1700000000000000000, 1700003600000000000, 0, 20, true, "tempo_traces_attrs_gin",
  "`q`.tempo_traces_attrs_gin_dist", "tempo_traces", "`q`.tempo_traces_dist", 7, 3, ["0af7651916cd43dd8448eb211c80319c"]⟩
private def exTermA : TraceQL.Term := ⟨".a-b--c", .eq, .str [34, 39, 34] (some [39, 59, 45, 45, 92])⟩
private def exTermD : TraceQL.Term := ⟨"duration", .gt, .dur ⟨false, [1], false, []⟩ .s⟩
private def exScript : TraceQL.Script :=
  [(⟨some (.leafOp exTermA .or (.leaf exTermD)), some ⟨.avg, ".x'y", .gt, ⟨true, [2], true, [5]⟩, none⟩⟩, .and),
   (⟨some (.leaf exTermD), none⟩, .none)]
private theorem exTCtxOK : TraceQL.CtxOK exTCtx :=
  ⟨by decide +kernel, by decide +kernel, by decide +kernel, by decide +kernel, by decide +kernel⟩
example : (match TraceQL.plan exTCtx exScript with | .ok _ => true | .error _ => false) = true := by decide +kernel
example : ∀ X, TraceQL.plan exTCtx exScript = .ok X → safeSegs .normal (segsSel X) = true :=
  fun X h => (plan_closed_traceql exTCtx exTCtxOK exScript X h).1
example : (match TraceQL.planValues exTCtx "tempo_traces_kv" [39, 92] (exScript.take 1) with | .ok _ => true | .error _ => false) = true := by
  decide +kernel

-- `fpquery_closed` / `pquery_closed`: accepted matcher / selector lists with hostile names and values
example : ∃ q, Prom.fingerprintsQuery (fun _ _ => false) "time_series_gin" [50] 2
    [⟨[39, 45, 45], .eq, [92, 39]⟩, ⟨[97], .nre, [39, 41, 59]⟩] = some q := ⟨_, rfl⟩
example : rawE (Prom.ascii "`qryn`.profiles_series_gin_dist") = true := by decide +kernel
example : (Prof.plan (fun _ _ => false) "profiles_series_gin" [50] [51]
    [⟨[95, 95, 110, 97, 109, 101, 95, 95], .eq, [39]⟩, ⟨[39, 92], .re, [47, 42]⟩]).isSome = true := by decide +kernel
-- `json_params_closed`: a field name that begins with a digit and closes a call
example := json_params_closed [([120], [.key [48, 39, 41, 32, 45, 45], .key [97], .idx 1]), ([121], [])]
-- the string leaves of the nodes added for the TraceQL and the LogQL metric planners (`anyIfNum`, `mapAt`,
-- `mapFilterKeys`) with hostile keys
example : safeSegs .normal (segsExpr (.callT "bitAnd" [.anyIfNum [39, 92], .mapAt (.raw "labels") [39, 45, 45],
    .mapFilterKeys false [[39], [92, 39], []] (.raw "labels"), .divOp (.raw "x") (.fixedLit 5 0)])) = true :=
  closed_fragments_expr_partial _ (by simp only [wfExpr, wfExprs, Bool.and_eq_true, Bool.and_true]; decide +kernel) _ rfl
-- a raw atom that is not well formed is refused: a comment opener as a column name, a quote in a label name
example : wfExpr (.raw "a --") = false := by simp only [wfExpr]; decide +kernel
example : wfExpr (.lit "a'b") = false := by simp only [wfExpr]; decide +kernel
example : wfExpr (.call "x'" []) = false := by simp only [wfExpr, wfExprs, Bool.and_true]; decide +kernel

-- ### non-vacuity of the theorems added for the pipeline stages, sameShape, Tempo
private def exQueryX : LogQL.LogQueryX := {
  matchers := exQuery.matchers,
  stages := [.fl (.line ⟨.contains, [39, 92], none⟩), .fl (.label (.str "lbl" .eq [39])),
             .ch (.json [([120, 39], [.key [48, 39, 41, 45, 45], .idx 1]), ([121], [.key [97]])]),
             .fl (.label (.or (.str "x" .re [39, 41]) (.num "n" .gt ⟨1, [5]⟩))),
             .ch (.regexp [[103, 39], []] [40, 39, 92, 41]), .ch (.drop [([97, 39], []), ([98], [39, 59, 45, 45])]),
             .fl (.line ⟨.nre, [39], some ⟨[37, 39], true⟩⟩)] }
private def exQueryX' : LogQL.LogQueryX := {
  matchers := [⟨[120], .eq, [97]⟩, ⟨[121, 121], .nre, []⟩],
  stages := [.fl (.line ⟨.contains, [97], none⟩), .fl (.label (.str "lbl" .eq [])),
             .ch (.json [([], [.key [], .idx 1]), ([122, 122, 122], [.key [98, 98]])]),
             .fl (.label (.or (.str "x" .re [97]) (.num "n" .gt ⟨1, [5]⟩))),
             .ch (.regexp [[], [104]] []), .ch (.drop [([], []), ([99, 99], [100])]),
             .fl (.line ⟨.nre, [97, 98], some ⟨[], true⟩⟩)] }
private theorem exNamesX : ∀ lc ∈ LogQL.labelConds (LogQL.preQuery exQueryX), LogQL.condNamesOK lc := by
  intro lc h
  simp [LogQL.labelConds, LogQL.preQuery, LogQL.splitPre, exQueryX] at h
  subst h
  show LogQL.LabelClass "lbl"
  unfold LogQL.LabelClass; decide +kernel
private theorem exNamesX' : ∀ lc ∈ LogQL.labelConds (LogQL.preQuery exQueryX'), LogQL.condNamesOK lc := by
  intro lc h
  simp [LogQL.labelConds, LogQL.preQuery, LogQL.splitPre, exQueryX'] at h
  subst h
  show LogQL.LabelClass "lbl"
  unfold LogQL.LabelClass; decide +kernel
example := plan_closed_logx exCtxCluster true exQueryX exTablesCluster exNamesX
example := plan_closed_logx exCtx false exQueryX exTables exNamesX
-- the two queries differ in every string leaf and have the same shape
private theorem exSame : LogQL.sameShapeX exQueryX exQueryX' := by
  refine ⟨⟨rfl, rfl, trivial⟩, ⟨rfl, ⟨rfl, rfl⟩, ⟨⟨trivial, rfl, trivial⟩, ⟨trivial, trivial⟩, trivial⟩, ⟨⟨rfl, rfl⟩, rfl, rfl, rfl⟩, rfl,
    ⟨rfl, rfl, trivial⟩, rfl, trivial⟩⟩
example := same_shape_logx exCtxCluster true exQueryX exQueryX' exTablesCluster exNamesX exNamesX' exSame
-- a query with one more stage, or a drop entry with / without a value, is NOT of the same shape
example : ¬ LogQL.sameShapeX exQueryX ⟨exQueryX.matchers, exQueryX.stages ++ [.ch (.drop [])]⟩ := by
  intro h
  simp [LogQL.sameShapeX, LogQL.All2, exQueryX] at h
example : ¬ LogQL.Changer.same (.drop [([97], [])]) (.drop [([97], [98])]) := by
  simp [LogQL.Changer.same, LogQL.All2]
-- `same_shape_metric`: the metric example and a copy with every string leaf replaced
private def exMetric' : LogQL.MetricQuery :=
  .topk ⟨true, 3, .agg ⟨.sum, some ⟨true, ["q", ""]⟩,
    ⟨.unwrap .rate "z", ⟨[⟨[120], .eq, []⟩, ⟨[], .nre, [97]⟩],
      [.line ⟨.contains, [97], none⟩, .label (.or (.str "lbl" .neq []) (.num "x_1" .ge ⟨5, [5]⟩)),
       .line ⟨.nre, [98, 98], some ⟨[], true⟩⟩, .label (.str "a" .re [120])]⟩, 60000000000, none, some ⟨false, ["k"]⟩, some ⟨.gt, ⟨1, [5]⟩⟩⟩,
    none, none⟩, some ⟨.le, ⟨100, []⟩⟩⟩
example : LogQL.sameShapeM exMetric exMetric' := by decide +kernel
private theorem exNames' : LogQL.MetricNamesOK exMetric' := by
  intro lc h
  simp [LogQL.labelConds, exMetric', LogQL.MetricQuery.rangeAgg, LogQL.TopInner.rangeAgg] at h
  rcases h with rfl | rfl
  · exact ⟨by show LogQL.LabelClass "lbl"; unfold LogQL.LabelClass; decide +kernel,
      by show LogQL.LabelClass "x_1"; unfold LogQL.LabelClass; decide +kernel⟩
  · show LogQL.LabelClass "a"
    unfold LogQL.LabelClass; decide +kernel
example := same_shape_metric exMCtx exMetric exMetric' ⟨exTablesCluster, by decide +kernel⟩ exNames exNames' (by decide +kernel)
-- `plan_closed_metricx` / `same_shape_metricx`: topk over a grouped sum over a quantile over a selector with a json parameter,
-- a regexp, a drop and filters after them, hostile leaves; and a copy with every string leaf replaced
private def exRangeX : LogQL.RangeAggX :=
  ⟨.quantile ⟨0, [9, 9]⟩ "l'--", exQuery,
   [.ch (.json [([120, 39], [.key [48, 39, 41, 45, 45], .idx 1])]), .fl (.label (.str "x" .re [39, 41])),
    .ch (.regexp [[103, 39], []] [40, 39, 92, 41]), .ch (.drop [([97, 39], []), ([98], [39, 59, 45, 45])]),
    .fl (.line ⟨.contains, [39, 92], none⟩)],
   60000000000, none, some ⟨false, ["';"]⟩, some ⟨.gt, ⟨1, [5]⟩⟩⟩
private def exRangeX' : LogQL.RangeAggX :=
  ⟨.quantile ⟨0, [9, 9]⟩ "z", exMetric'.rangeAgg.sel,
   [.ch (.json [([], [.key [], .idx 1])]), .fl (.label (.str "x" .re [97])),
    .ch (.regexp [[], [104]] []), .ch (.drop [([], []), ([99, 99], [100])]),
    .fl (.line ⟨.contains, [97], none⟩)],
   60000000000, none, some ⟨false, ["k"]⟩, some ⟨.gt, ⟨1, [5]⟩⟩⟩
private def exMetricX : LogQL.MetricQueryX := ⟨exRangeX, some ⟨.sum, some ⟨true, ["a'b", "x\\"]⟩, none, none⟩, some ⟨true, 3, some ⟨.le, ⟨100, []⟩⟩⟩⟩
private def exMetricX' : LogQL.MetricQueryX := ⟨exRangeX', some ⟨.sum, some ⟨true, ["q", ""]⟩, none, none⟩, some ⟨true, 3, some ⟨.le, ⟨100, []⟩⟩⟩⟩
example := plan_closed_metricx exMCtx exMetricX ⟨exTablesCluster, by decide +kernel⟩ exNames
example : LogQL.sameShapeMX exMetricX exMetricX' := by decide +kernel
example := same_shape_metricx exMCtx exMetricX exMetricX' ⟨exTablesCluster, by decide +kernel⟩ exNames exNames' (by decide +kernel)
-- one more group in the regexp, or a drop entry that gains a value: not the same shape
example : ¬ LogQL.sameShapeMX exMetricX ⟨{ exRangeX with post := [.ch (.regexp [[103]] [40, 41])] }, none, none⟩ := by decide +kernel
-- `same_shape_traceql`: two scripts that differ in every string leaf (a repeated term, `duration`, `name`, a number, `avg(attr)`),
-- accepted by the planner; a broken repetition, another operator, another number are refused; `{}` is of its own shape
example := (same_shape_traceql TraceQL.SameShapeEx.ctx0 (by constructor <;> decide +kernel) _ _ TraceQL.SameShapeEx.sameShape_A_B).2
example : ¬ TraceQL.sameShapeT TraceQL.SameShapeEx.scriptB TraceQL.SameShapeEx.scriptC := TraceQL.SameShapeEx.notSameShape_B_C
example : TraceQL.sameShapeT TraceQL.SameShapeEx.scriptEmpty TraceQL.SameShapeEx.scriptEmpty := TraceQL.SameShapeEx.sameShape_empty
-- Pyroscope / Prometheus metadata: non-vacuity examples with hostile selector values, group_by names, type ids and label names are
-- in Proofs/ProfPlansClosed.lean and below
example : ProfPlanned ((Prof.plan (fun _ _ => false) "t" [50] [51]
    [⟨[95, 95, 110, 97, 109, 101, 95, 95], .eq, [39]⟩, ⟨[39, 92], .re, [47, 42]⟩]).get (by decide +kernel)) :=
  ⟨_, _, _, _, _, (Option.some_get _).symm⟩
-- `plan_closed_prof_*_model` / `prof_segs_are_model_text_full`: a planned request with hostile bytes in a pseudo-label value (inside
-- the `arrayExists` closure), an ordinary name and value and a regular expression satisfies the `utf8` hypotheses (decided)
private def exPQ : Prof.PQuery := (Prof.plan (fun _ _ => false) "t" [50] [51]
    [⟨[95, 95, 115, 97, 109, 112, 108, 101, 95, 116, 121, 112, 101, 95, 95], .eq, [39, 92, 45, 45]⟩,
     ⟨[39, 45, 45], .eq, [92, 39]⟩, ⟨[97], .re, [39, 41, 45, 45]⟩]).get (by decide +kernel)
private def exPCtx : Prof.PCtx :=
  { fromNs := 1700000000000000000, toNs := 1700000360000000000, limit := 10, ginTable := "profiles_series_gin",
    ginDistTable := "`qryn`.profiles_series_gin_dist", seriesTable := "profiles_series", seriesDistTable := "profiles_series_dist",
    profilesDistTable := "profiles_dist" }
private theorem exPQ_planned : ProfPlanned exPQ := ⟨_, _, _, _, _, (Option.some_get _).symm⟩
example := plan_closed_prof_merge_traces_model exPCtx (by constructor <;> decide +kernel) [39, 92, 45, 45] exPQ exPQ exPQ_planned
  exPQ_planned (by decide +kernel) (by decide +kernel) (by decide +kernel)
example := (plan_closed_prof_labels_model exPCtx (by constructor <;> decide +kernel) (some [39, 92])).2 "val" (Or.inr rfl) [exPQ, exPQ]
  (by intro q hq; simp at hq; subst hq; exact ⟨exPQ_planned, by decide +kernel⟩)
example : ∃ u, Prom.Labels.fpUnion (fun _ _ => false) "time_series_gin" [50] 2
    [[⟨[39, 45, 45], .eq, [92, 39]⟩], [⟨[97], .nre, [39, 41, 59]⟩, ⟨[98], .re, [0]⟩]] = some u := ⟨_, rfl⟩
-- Tempo: hostile tag names / values under all four conditions, every optional clause present
private def exIdx : TempoSegs.Idx := ⟨b "`qryn`.tempo_traces_attrs_gin", 1700000000000000000, 1700003600000000000, 1000000, 10000000000, 20, true⟩
private def exSearch : TempoSegs.Search := ⟨b "tempo_traces", 20, 1700000000000000000, 1700003600000000000, 1000000, 10000000000⟩
private def exTags : List TempoSegs.Tag := [⟨[39, 45, 45], .eq, [92, 39]⟩, ⟨[97], .neq, [39, 41, 59]⟩, ⟨[0], .re, [42, 47]⟩, ⟨[], .nre, [39]⟩]
example := tempo_search_closed exSearch exIdx exTags (by decide +kernel) (by decide +kernel)
example := tempo_search_closed exSearch exIdx [] (by decide +kernel) (by decide +kernel)
example := tempo_trace_closed "tempo_traces" [39, 41, 32, 45, 45] 0 5 (by decide +kernel)
-- line_format / label_format with hostile template text and names
example := line_format_closed [.text [39, 123, 48, 125, 92], .field [39, 93, 45, 45], .text [0], .field []]
example := label_format_closed [.raw (b "labels")] [.rename [39] [92, 39], .tmpl [97, 39] [.text [39], .field [93]]]
  (PE_raw (by decide +kernel))

end Qryn.C10
