import Qryn.Proofs.Segs
/-! # C10 — request strings can never change the structure of SQL sent to ClickHouse

Property theorems only. Model: `Qryn.Sql.quote` (= `StringVal.String`, table regenerated from
objects.go into `Gen.escapeTable`), `Qryn.Lex` (ClickHouse lexer model), statements as segment lists. -/
namespace Qryn.C10
open Qryn Qryn.Lex Qryn.Sql

/-- **stringval_single_literal.** From every lexer state in which a quote opens a literal, the text
    `StringVal.String` produces for *any* byte string `s` is lexed as: the pending token is closed, one
    literal is opened, its decoded bytes are exactly `s`, and the lexer stands just after the closing
    quote — nothing else is emitted, whatever `s` contains. -/
theorem stringval_single_literal (q : St) (hq : q.safe = true) (s : Bytes) :
    run q (quote s) = (.strQ, openEv q ++ s.map .sByte) :=
  run_quote q hq s

/-- after the literal, any following byte other than a quote closes it (and so does the end of input) -/
theorem literal_closes (c : UInt8) (hc : c ≠ 39) : ∃ q' ev, step .strQ c = (q', .sClose :: ev) := by
  simp [step, hc]

theorem literal_closes_at_end : flush .strQ = [.sClose] := rfl

/-- token form: a lone `StringVal` is exactly one string-literal token that decodes to the input -/
theorem stringval_token (s : Bytes) : lex (quote s) = [Tok.str s] := by
  have h := run_quote .normal rfl s
  simp only [lex, lexEv, h, openEv, flush]
  have : ∀ (acc : Bytes) (t : Bytes), assemble (some (.str acc)) (t.map .sByte ++ [.sClose]) = [Tok.str (acc ++ t)] := by
    intro acc t
    induction t generalizing acc with
    | nil => simp [assemble]
    | cons c t ih => simp [assemble, ih]
  simpa [assemble] using this [] s

/-- **like_single_literal.** The LIKE pattern rendered for a line filter is one literal whose value is
    `%` ++ LIKE-escaped needle ++ `%`. -/
theorem like_single_literal (v : Bytes) : lex (likeLiteral v) = [Tok.str (37 :: likeEscape v ++ [37])] :=
  stringval_token _

/-- **render_structure_invariant.** For a statement rendered from a template (`raw` parts) with string
    leaves, if the template is well formed for its leaves (`safeSegs`, a condition on the raw parts
    only), then replacing the contents of the string leaves by anything else (here: by empty strings)
    changes neither the final lexer state nor any event other than the decoded literal bytes. -/
theorem render_structure_invariant (segs : List Seg) (h : safeSegs .normal segs = true) :
    kinds (renderSegs segs) = kinds (renderSegs (segs.map Seg.shape)) := by
  have h' := runSegs_shape .normal segs h
  rw [runSegs_eq_run, runSegs_eq_run] at h'
  simp only [kinds, lex, lexEv]
  rw [assemble_kind, assemble_kind none (_ ++ _), eraseS_append, eraseS_append, h'.2, h'.1]

/-- the well-formedness condition does not depend on the request strings -/
theorem template_condition_independent (segs : List Seg) :
    safeSegs .normal (segs.map Seg.shape) = safeSegs .normal segs := safeSegs_shape _ _

/-- **escape_homomorphic.** The replace loop acts byte by byte, for every table of one-byte patterns
    (so the order of the loop cannot make two request bytes interact). -/
theorem escape_homomorphic (a b : Bytes) : escapeBody (a ++ b) = escapeBody a ++ escapeBody b :=
  escapeWith_append _ _ _

-- non-vacuity: a hostile string in a two-leaf template
-- `a = '…' AND b = '…'`
example : safeSegs .normal [.raw [97, 32, 61, 32], .str [39, 59, 45, 45, 92],
    .raw [32, 65, 78, 68, 32, 98, 32, 61, 32], .str [0, 39, 39]] = true := by decide
example : lex (quote [39, 59, 45, 45, 92, 0]) = [Tok.str [39, 59, 45, 45, 92, 0]] := stringval_token _
-- a template that is *not* well formed is rejected: leaf directly after a literal, or inside a comment
example : safeSegs .normal [.raw [39, 97, 39], .str [98]] = false := by decide
example : safeSegs .normal [.raw [45, 45, 32], .str [98]] = false := by decide

end Qryn.C10
