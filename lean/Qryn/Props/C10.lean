import Qryn.Proofs.Segs
import Qryn.Proofs.Ident
import Qryn.Proofs.Closed
import Qryn.Gen.Params
import Qryn.Proofs.PlanClosed
import Qryn.Proofs.PlanClosedMetric
import Qryn.Proofs.PlanClosedTraceQL
import Qryn.Proofs.SelectorClosed
import Qryn.Proofs.Leaf
import Qryn.Proofs.JsonParserClosed
import Qryn.Gen.GrammarFields
/-! # C10 — request strings can never change the structure of SQL sent to ClickHouse

Property theorems only. Model: `Qryn.Sql.quote` (= `StringVal.String`, table regenerated from
objects.go into `Gen.escapeTable`), `Qryn.Lex` (ClickHouse lexer model), statements as segment lists. -/
namespace Qryn.C10
open Qryn Qryn.Lex Qryn.Sql

/-- **stringval_single_literal.** From every lexer state in which a quote opens a literal, the text
    `StringVal.String` produces for *any* byte string `s` is lexed as: the pending token is closed, one
    literal is opened, its decoded bytes are exactly `s`, and the lexer stands just after the closing
    quote — nothing else is emitted, whatever `s` contains. -/
theorem stringval_single_literal (q : St) (hq : q.safe = true) (s : Bytes) :
    run q (quote s) = (.strQ, openEv q ++ s.map .sByte) :=
  run_quote q hq s

/-- after the literal, any following byte other than a quote closes it (and so does the end of input) -/
theorem literal_closes (c : UInt8) (hc : c ≠ 39) : ∃ q' ev, step .strQ c = (q', .sClose :: ev) := by
  simp [step, hc]

theorem literal_closes_at_end : flush .strQ = [.sClose] := rfl

/-- token form: a lone `StringVal` is exactly one string-literal token that decodes to the input -/
theorem stringval_token (s : Bytes) : lex (quote s) = [Tok.str s] := by
  have h := run_quote .normal rfl s
  simp only [lex, lexEv, h, openEv, flush]
  have : ∀ (acc : Bytes) (t : Bytes), assemble (some (.str acc)) (t.map .sByte ++ [.sClose]) = [Tok.str (acc ++ t)] := by
    intro acc t
    induction t generalizing acc with
    | nil => simp [assemble]
    | cons c t ih => simp [assemble, ih]
  simpa [assemble] using this [] s

/-- **like_single_literal.** The LIKE pattern rendered for a line filter is one literal whose value is
    `%` ++ LIKE-escaped needle ++ `%`. -/
theorem like_single_literal (v : Bytes) : lex (likeLiteral v) = [Tok.str (37 :: likeEscape v ++ [37])] :=
  stringval_token _

/-- **render_structure_invariant.** For a statement rendered from a template (`raw` parts) with string
    leaves, if the template is well formed for its leaves (`safeSegs`, a condition on the raw parts
    only), then replacing the contents of the string leaves by anything else (here: by empty strings)
    changes neither the final lexer state nor any event other than the decoded literal bytes. -/
theorem render_structure_invariant (segs : List Seg) (h : safeSegs .normal segs = true) :
    kinds (renderSegs segs) = kinds (renderSegs (segs.map Seg.shape)) := by
  have h' := runSegs_shape .normal segs h
  rw [runSegs_eq_run, runSegs_eq_run] at h'
  simp only [kinds, lex, lexEv]
  rw [assemble_kind, assemble_kind none (_ ++ _), eraseS_append, eraseS_append, h'.2, h'.1]

/-- the well-formedness condition does not depend on the request strings -/
theorem template_condition_independent (segs : List Seg) :
    safeSegs .normal (segs.map Seg.shape) = safeSegs .normal segs := safeSegs_shape _ _

/-- **escape_homomorphic.** The replace loop acts byte by byte, for every table of one-byte patterns
    (so the order of the loop cannot make two request bytes interact). -/
theorem escape_homomorphic (a b : Bytes) : escapeBody (a ++ b) = escapeBody a ++ escapeBody b :=
  escapeWith_append _ _ _


/-! ## Identifiers admitted by the query-language lexers (`Gen.Lexers`, regenerated from the lexer rule tables) -/

/-- **ident_safe.** The byte classes of the label-name rules — LogQL `Label_name` and `Macros_function`
    (the two tokens `LabelName` accepts), the profile-selector `Label_name`, TraceQL `Label_name` — decided
    over the classes extracted from the rule sources: a LogQL / profile label name consists of bareword bytes
    only and contains no quote, backslash, backtick, bracket, brace, blank, `-`, `/`, `*`, `;`, `,`, `#`;
    a TraceQL attribute name may in addition contain `-` (and `.`), and still no quote or backslash. -/
theorem ident_safe :
    (∀ c : UInt8, inRanges Gen.logqlLabelName c = true → sqlMeta c = false ∧ isWordByte c = true) ∧
    (∀ c : UInt8, inRanges Gen.logqlMacrosFunction c = true → sqlMeta c = false ∧ isWordByte c = true) ∧
    (∀ c : UInt8, inRanges Gen.profLabelName c = true → sqlMeta c = false ∧ isWordByte c = true) ∧
    (∀ c : UInt8, inRanges Gen.traceqlLabelName c = true → (sqlMeta c = false ∨ c = 45) ∧ litSafe c = true) := by
  refine ⟨?_, ?_, ?_, ?_⟩ <;> (apply forall_byte_of_lt; decide +kernel)

/-- the TraceQL class really contains `-`: such a name must never be embedded as a bare word (`--` opens a
    comment); the planners put it into `StringVal`s only (stream `leaves`) -/
theorem traceql_ident_has_minus : inRanges Gen.traceqlLabelName 45 = true := by decide +kernel

/-- **ident_literal** (the lift): for every byte string free of quote and backslash — in particular every
    string over any of the four classes — embedding it as `'…'` WITHOUT escaping is one literal that decodes
    to itself. -/
theorem ident_literal (s : Bytes) (h : ∀ c ∈ s, litSafe c = true) : lex (39 :: s ++ [39]) = [Tok.str s] :=
  lex_rawQuoted s h

theorem logql_label_literal (s : Bytes)
    (h : ∀ c ∈ s, inRanges Gen.logqlLabelName c = true ∨ inRanges Gen.logqlMacrosFunction c = true) :
    lex (39 :: s ++ [39]) = [Tok.str s] :=
  ident_literal s (fun c hc => by
    rcases h c hc with h1 | h1
    · exact litSafe_of_not_meta c (ident_safe.1 c h1).1
    · exact litSafe_of_not_meta c (ident_safe.2.1 c h1).1)

theorem prof_label_literal (s : Bytes) (h : ∀ c ∈ s, inRanges Gen.profLabelName c = true) :
    lex (39 :: s ++ [39]) = [Tok.str s] :=
  ident_literal s (fun c hc => litSafe_of_not_meta c (ident_safe.2.2.1 c (h c hc)).1)

theorem traceql_label_literal (s : Bytes) (h : ∀ c ∈ s, inRanges Gen.traceqlLabelName c = true) :
    lex (39 :: s ++ [39]) = [Tok.str s] :=
  ident_literal s (fun c hc => (ident_safe.2.2.2 c (h c hc)).2)

/-- a non-empty LogQL / profile label name written into SQL as it is (column of a map, alias) is exactly one
    bareword token -/
theorem logql_label_word (c : UInt8) (s : Bytes)
    (h : ∀ d ∈ c :: s, inRanges Gen.logqlLabelName d = true ∨ inRanges Gen.logqlMacrosFunction d = true) :
    lex (c :: s) = [Tok.word (c :: s)] :=
  lex_word c s (fun d hd => by
    rcases h d hd with h1 | h1
    · exact (ident_safe.1 d h1).2
    · exact (ident_safe.2.1 d h1).2)

/-! ## The statements the planner models render -/

/-- the rendering of a `sql_select` tree is the concatenation of raw planner text and escaped string leaves
    (`StringVal`, the pattern of `sqlMatch`): `render = concat segments`, for every tree -/
theorem render_is_segments (s : Sel) : renderSegs (segsSel s) = renderSel s := render_segsSel s

/-- **closed_fragments_partial.** Every tree whose raw atoms are well formed (`wfSel`: a computable condition
    on keywords, names, aliases, numbers and identifier-restricted `'name'` literals ONLY — it does not look
    into any string leaf) renders to a template that is well formed for its string leaves, from every lexer
    state in which a statement or clause can start. Proved for the WHOLE model AST (select, WITH list, joins,
    set operations, every expression node), by mutual induction over `render…`; the keyword fragments the
    renderer writes are checked by evaluation. -/
theorem closed_fragments_partial (s : Sel) (h : wfSel s = true) : safeSegs .normal (segsSel s) = true :=
  ((closedSel s h) .normal rfl).1

/-- … and so does every expression on its own -/
theorem closed_fragments_expr_partial (e : Expr) (h : wfExpr e = true) (q : St) (hq : q.ground = true) :
    safeSegs q (segsExpr e) = true :=
  ((closedExpr e h) q hq).1

/-- structure invariance for model trees: under `wfSel`, the token-kind sequence of the rendered statement
    does not depend on what the string leaves contain -/
theorem render_structure_invariant_sel (s : Sel) (h : wfSel s = true) :
    kinds (renderSel s) = kinds (renderSegs ((segsSel s).map Seg.shape)) := by
  rw [← render_is_segments]
  exact render_structure_invariant _ (closed_fragments_partial s h)

/-- **closed_fragments_planLog_partial.** The LogQL planner model: for every context and every query of the
    modelled fragment the rendered template is well formed for its string leaves — matcher values, regular
    expressions, line-filter needles and label-filter values may be ANY byte strings. Hypotheses (`AtomsOK`,
    `QueryOK`) concern only atoms that are not request strings: the four table names are closed text, the label
    names of label filters are free of quote and backslash (guaranteed by the lexer: `ident_safe`), and the
    numbers the planner prints (time bounds, limit, type, bit-set constants, `subsel_<k>`, `%f` literals) render
    as closed text. The last group is what makes this `_partial`: a lemma "`toString n` consists of digits"
    would discharge it for all numbers; here it is discharged by evaluation for concrete plans (examples). -/
theorem closed_fragments_planLog_partial (c : LogQL.Ctx) (q : LogQL.LogQuery)
    (ha : LogQL.AtomsOK c q) (hq : LogQL.QueryOK q) :
    safeSegs .normal (segsSel (LogQL.planLog c q)) = true :=
  closed_fragments_partial _ (LogQL.wf_planLog c q ha hq)

/-- … so the token structure of a planned LogQL statement does not depend on the request strings in it -/
theorem planLog_structure_invariant (c : LogQL.Ctx) (q : LogQL.LogQuery)
    (ha : LogQL.AtomsOK c q) (hq : LogQL.QueryOK q) :
    kinds (renderSel (LogQL.planLog c q)) = kinds (renderSegs ((segsSel (LogQL.planLog c q)).map Seg.shape)) :=
  render_structure_invariant_sel _ (LogQL.wf_planLog c q ha hq)


/-! ## Numbers, and the planners beyond the LogQL log planner -/

/-- **numbers_closed.** Everything the planners print with `%d` / `strconv.Itoa` / `toString` — time bounds, limits,
    durations, bit-set constants, shift amounts, `ctx.Id()` counters — is closed text for EVERY number: the decimal
    text of a natural number consists of digits (one bareword), an integer has at most a leading `-`; a `%f` literal
    (`fixedText`: integer part, point, six decimals) is one bareword. Read from a state between tokens they leave the
    lexer between tokens. This discharges the number hypotheses of `closed_fragments_planLog_partial`. -/
theorem numbers_closed :
    (∀ n : Nat, (∀ d ∈ natDigits n, isDigitB d = true) ∧ natDigits n ≠ [] ∧ rawE (natDigits n) = true) ∧
    (∀ i : Int, intText i = (if i < 0 then 45 :: natDigits i.natAbs else natDigits i.natAbs) ∧ rawE (intText i) = true) ∧
    (∀ u s : Nat, allWord (b (fixedText u s)) = true ∧ rawE (b (fixedText u s)) = true) :=
  ⟨fun n => ⟨natDigits_digits n, natDigits_ne_nil n, rawE_natDigits n⟩,
   fun i => ⟨intText_eq i, rawE_intText i⟩,
   fun u s => ⟨allWord_fixedText u s, rawE_fixedText u s⟩⟩

/-- **plan_closed_log.** `closed_fragments` for the LogQL log planner at full strength: for every context whose four
    table names are closed text (configuration) and every query of the modelled fragment whose label-FILTER names are
    `LabelName` tokens of the LogQL lexer (class regenerated in `Gen.Lexers`; they are embedded as `'name'` without
    escaping), the statement is well formed for its leaves. No hypothesis on any number, on matcher names/values,
    regexes, needles, label-filter values. -/
theorem plan_closed_log (c : LogQL.Ctx) (q : LogQL.LogQuery) (ht : LogQL.TablesOK c)
    (hn : ∀ lc ∈ LogQL.labelConds q, LogQL.condNamesOK lc) :
    safeSegs .normal (segsSel (LogQL.planLog c q)) = true ∧
    kinds (renderSel (LogQL.planLog c q)) = kinds (renderSegs ((segsSel (LogQL.planLog c q)).map Seg.shape)) :=
  have hw := LogQL.wf_planLog c q (LogQL.atomsOK_of_tables c q ht) (LogQL.queryOK_of_names q hn)
  ⟨closed_fragments_partial _ hw, render_structure_invariant_sel _ hw⟩

/-- **plan_closed_metric.** The LogQL METRIC planner model (`planMetric`: range aggregations with and without unwrap,
    the metrics_15s shortcut, by/without, vector aggregations, topk/bottomk, comparisons, step fix, labels join,
    matrix finalizer): for every context (tables closed) and every metric query (label-filter names `LabelName`
    tokens) the rendered template is well formed for its string leaves and its token structure does not depend on
    them. The by/without label names and the unwrap label need NO hypothesis: the planner passes them through the
    escape (`mapFilterKeys`, `mapAt` leaves). Durations, `k`, comparison literals, step: digits for all values. -/
theorem plan_closed_metric (c : LogQL.MCtx) (q : LogQL.MetricQuery) (h : LogQL.MAtomsOK c) (hn : LogQL.MetricNamesOK q) :
    safeSegs .normal (segsSel (LogQL.planMetric c q)) = true ∧
    kinds (renderSel (LogQL.planMetric c q)) = kinds (renderSegs ((segsSel (LogQL.planMetric c q)).map Seg.shape)) :=
  have hw := LogQL.wf_planMetric c q h hn
  ⟨closed_fragments_partial _ hw, render_structure_invariant_sel _ hw⟩

/-- **plan_closed_traceql.** The TraceQL planner model `plan` (simple and complex scripts, aggregators, the attr-less
    path, the random filter of complex request portions, `TracesDataPlanner`): whenever the planner accepts a script,
    the statement is well formed for its leaves and its token structure does not depend on them. Attribute names
    (TraceQL `Label_name` admits `-` and `.`), string values, regexes and the aggregated attribute are leaves: no
    hypothesis. `CtxOK`: the four table names are closed text, cached trace ids (second-order text, hex from the
    database) contain no quote or backslash. -/
theorem plan_closed_traceql (c : TraceQL.Ctx) (hc : TraceQL.CtxOK c) (script : TraceQL.Script) (X : Sel)
    (h : TraceQL.plan c script = .ok X) :
    safeSegs .normal (segsSel X) = true ∧ kinds (renderSel X) = kinds (renderSegs ((segsSel X).map Seg.shape)) :=
  have hw := TraceQL.wf_plan c hc script X h
  ⟨closed_fragments_partial _ hw, render_structure_invariant_sel _ hw⟩

/-- … the tag-names request (`PlanTagsV2`) -/
theorem plan_closed_traceql_tags (c : TraceQL.Ctx) (hc : TraceQL.CtxOK c) (script : TraceQL.Script) (X : Sel)
    (h : TraceQL.planTags c script = .ok X) :
    safeSegs .normal (segsSel X) = true ∧ kinds (renderSel X) = kinds (renderSegs ((segsSel X).map Seg.shape)) :=
  have hw := TraceQL.wf_planTags c hc script X h
  ⟨closed_fragments_partial _ hw, render_structure_invariant_sel _ hw⟩

/-- … the tag-values request (`PlanValuesV2`): the requested tag `key` is ANY byte string (a leaf) -/
theorem plan_closed_traceql_values (c : TraceQL.Ctx) (hc : TraceQL.CtxOK c) (kvTable : String)
    (hkv : rawE (b kvTable) = true) (key : Bytes) (script : TraceQL.Script) (X : Sel)
    (h : TraceQL.planValues c kvTable key script = .ok X) :
    safeSegs .normal (segsSel X) = true ∧ kinds (renderSel X) = kinds (renderSegs ((segsSel X).map Seg.shape)) :=
  have hw := TraceQL.wf_planValues c hc kvTable hkv key script X h
  ⟨closed_fragments_partial _ hw, render_structure_invariant_sel _ hw⟩


/-! ## Every leaf is one literal -/

/-- **leaf_single_literal.** In ANY statement whose template is well formed for its leaves (every theorem
    `plan_closed_…` / `closed_fragments…` establishes that), each string leaf `s` — wherever it stands — is read by the
    lexer as exactly one string literal that decodes to `s`: after the events of the text before the leaf come the
    opening of a literal, exactly the bytes of `s`, and the close of the literal. "The user's bytes occur only inside
    single string literals that decode to the intended value." -/
theorem leaf_single_literal (pre post : List Seg) (s : Bytes) (h : safeSegs .normal (pre ++ .str s :: post) = true) :
    ∃ rest, lexEv (renderSegs (pre ++ .str s :: post)) =
      (runSegs .normal pre).2 ++ openEv (runSegs .normal pre).1 ++ s.map .sByte ++ .sClose :: rest :=
  leaf_events pre post s h

/-! ## The renderers that produce bytes directly: Prometheus matcher selection, raw-sample scan, Pyroscope selector -/

/-- **fpquery_closed.** `fingerprintsQuery` (PromQL label matchers → the `fp_sel` sub-query): for every table name that is
    closed text and EVERY list of matchers the planner accepts, the rendered text is a segment list
    (`render = renderSegs segs`) that is well formed for its leaves, so label names, values and (anchored) regular
    expressions sit in single literals and the token structure does not depend on them. The operators come from the
    regenerated tables `Gen.PromSelect`; their closedness is decided over the tables. -/
theorem fpquery_closed (full : Bytes → Bytes → Bool) (table : String) (fromDate : Bytes) (tp : Int) (ms : List Prom.Matcher)
    (q : Prom.FpQuery) (ht : rawE (Prom.ascii table) = true) (h : Prom.fingerprintsQuery full table fromDate tp ms = some q) :
    renderSegs q.segs = q.render ∧ safeSegs .normal q.segs = true ∧
    kinds q.render = kinds (renderSegs (q.segs.map Seg.shape)) := by
  have hq : q.table = table ∧ ∀ c ∈ q.conds, c.wf = true := by
    unfold Prom.fingerprintsQuery at h
    cases hc : Prom.condsOf (ms.map (Prom.asked full)) with
    | none => simp [hc] at h
    | some cs =>
      simp [hc] at h
      subst h
      exact ⟨rfl, Prom.condsOf_wf _ cs hc⟩
  have hs := ((Prom.FpQuery.closed q (by rw [hq.1]; exact ht) hq.2) .normal rfl).1
  refine ⟨Prom.FpQuery.render_segs q, hs, ?_⟩
  rw [← Prom.FpQuery.render_segs q]
  exact render_structure_invariant _ hs

/-- the bounds of the raw-sample scan: two integers, closed for all values -/
theorem scan_closed (f t : Int) :
    renderSegs (Prom.scanSegs f t) = Prom.renderScan f t ∧ safeSegs .normal (Prom.scanSegs f t) = true :=
  ⟨Prom.render_scanSegs f t, ((Prom.scan_closed f t) .normal rfl).1⟩

/-- **pquery_closed.** The Pyroscope label selector (`StreamSelectorPlanner`): for every closed table name and EVERY
    selector list the planner accepts — pseudo-labels (field expressions from `Gen.ProfSelect`, decided closed over the
    table) and ordinary labels alike — the text is a segment list well formed for its leaves: label names, values,
    regular expressions and the date bounds sit in single literals. -/
theorem pquery_closed (gre : Bytes → Bytes → Bool) (table : String) (fromDate toDate : Bytes) (ss : List Prof.Selector)
    (q : Prof.PQuery) (ht : rawE (Prom.ascii table) = true) (h : Prof.plan gre table fromDate toDate ss = some q) :
    renderSegs q.segs = q.render ∧ safeSegs .normal q.segs = true ∧
    kinds q.render = kinds (renderSegs (q.segs.map Seg.shape)) := by
  have hq := Prof.plan_wf gre table fromDate toDate ss q h
  have hs := ((Prof.PQuery.closed q (by rw [hq.1]; exact ht) hq.2.1 hq.2.2) .normal rfl).1
  refine ⟨Prof.PQuery.render_segs q, hs, ?_⟩
  rw [← Prof.PQuery.render_segs q]
  exact render_structure_invariant _ hs


/-! ## Two requests of the same shape -/

/-- **same_shape_same_structure.** ONE statement over two arbitrary statements (of any planner model): when both are
    well formed for their leaves and their segment lists agree after emptying the leaves — they "differ only in string
    leaves" — their token-kind sequences are equal. -/
theorem same_shape_same_structure (s1 s2 : Sel) (h1 : wfSel s1 = true) (h2 : wfSel s2 = true)
    (hs : (segsSel s1).map Seg.shape = (segsSel s2).map Seg.shape) :
    kinds (renderSel s1) = kinds (renderSel s2) := by
  rw [render_structure_invariant_sel s1 h1, render_structure_invariant_sel s2 h2, hs]

/-- **fpquery_two_requests.** Two PromQL matcher lists with the same match types position by position and the same
    positions accepting the empty value (such a matcher is asked inverted, with its bit not required — that is part of the
    shape) — ANY label names, values, regular expressions, and any date bound — planned in the same context give
    statements with the same token structure: `skeleton (render (plan q₁)) = skeleton (render (plan q₂))`. -/
theorem fpquery_two_requests (f1 f2 : Bytes → Bytes → Bool) (table : String) (d1 d2 : Bytes) (tp : Int)
    (ms1 ms2 : List Prom.Matcher)
    (q1 q2 : Prom.FpQuery) (ht : rawE (Prom.ascii table) = true) (hty : ms1.map (·.type) = ms2.map (·.type))
    (hacc : ms1.map (Prom.acceptsEmpty f1) = ms2.map (Prom.acceptsEmpty f2))
    (h1 : Prom.fingerprintsQuery f1 table d1 tp ms1 = some q1) (h2 : Prom.fingerprintsQuery f2 table d2 tp ms2 = some q2) :
    kinds q1.render = kinds q2.render := by
  rw [(fpquery_closed f1 table d1 tp ms1 q1 ht h1).2.2, (fpquery_closed f2 table d2 tp ms2 q2 ht h2).2.2,
    Prom.fpQuery_same_shape f1 f2 table d1 d2 tp ms1 ms2 q1 q2 hty hacc h1 h2]

/-- **pquery_two_requests.** Two profile selector lists that agree position by position in operator and in the class of
    the label name (the same pseudo-label, or both ordinary labels — an ordinary label NAME is a leaf) and in accepting
    the empty value give statements with the same token structure, whatever the names, values, regular expressions and
    date bounds are. -/
theorem pquery_two_requests (g1 g2 : Bytes → Bytes → Bool) (table : String) (f1 t1 f2 t2 : Bytes)
    (ss1 ss2 : List Prof.Selector) (q1 q2 : Prof.PQuery)
    (ht : rawE (Prom.ascii table) = true) (hc : Prof.SameClasses g1 g2 ss1 ss2)
    (h1 : Prof.plan g1 table f1 t1 ss1 = some q1) (h2 : Prof.plan g2 table f2 t2 ss2 = some q2) :
    kinds q1.render = kinds q2.render := by
  rw [(pquery_closed g1 table f1 t1 ss1 q1 ht h1).2.2, (pquery_closed g2 table f2 t2 ss2 q2 ht h2).2.2,
    Prof.pquery_same_shape g1 g2 table f1 t1 f2 t2 ss1 ss2 q1 q2 hc h1 h2]

/-! ## The parameters of `| json label="path"` -/

/-- **json_params_closed.** The object that renders the parameters of the LogQL json parser (`sqlJsonParser`): for
    EVERY list of (label, path) parameters — a name part of a path may be any byte string: a field name beginning
    with a digit, containing quotes, brackets, comment openers; an index part is any integer — the text is well formed
    for its leaves: each label and each name part is one literal, each index one decimal number. The model writes every
    name part as a leaf; that the code does (`jsonPaths[i][j]` is built only as `sql.NewStringVal(name)` or as
    `sql.NewIntVal(int64(idx)+1)` from a parsed `int`, and `part.String` is the only thing assigned in the loop of
    `path2Sql`) is the regenerated fact `Gen.JsonParser`, whose extractor fails closed on any other construction or
    loop body, and the `jsonparser` stream compares the model's text with the real object's. -/
theorem json_params_closed (ps : List (Bytes × List Sql.JArg)) :
    safeSegs .normal (LogQL.jsonParserSegs ps) = true ∧
    Gen.JsonParser.partsEscaped = true ∧ Gen.JsonParser.labelsEscaped = true :=
  ⟨((LogQL.jsonParserSegs_closed ps) .normal rfl).1, rfl, rfl⟩

/-- the grammar-field inventory has no duplicate entry (a key identifies one coverage obligation of the `grammar` stream) -/
theorem grammar_fields_distinct : (Gen.grammarFields.map (fun (l, s, f, _, _) => (l, s, f))).Nodup := by decide +kernel

/-- the parameter inventory has no duplicate entry (a key identifies one taint obligation) -/
theorem inventory_keys_distinct : Gen.params.Nodup := by decide +kernel

-- non-vacuity: a hostile string in a two-leaf template
-- `a = '…' AND b = '…'`
example : safeSegs .normal [.raw [97, 32, 61, 32], .str [39, 59, 45, 45, 92],
    .raw [32, 65, 78, 68, 32, 98, 32, 61, 32], .str [0, 39, 39]] = true := by decide
example : lex (quote [39, 59, 45, 45, 92, 0]) = [Tok.str [39, 59, 45, 45, 92, 0]] := stringval_token _
-- a template that is *not* well formed is rejected: leaf directly after a literal, or inside a comment
example : safeSegs .normal [.raw [39, 97, 39], .str [98]] = false := by decide
example : safeSegs .normal [.raw [45, 45, 32], .str [98]] = false := by decide

-- non-vacuity of `closed_fragments_planLog_partial`: a whole LogQL plan with hostile matcher values, a regex, line
-- filters and label filters, in single-node and cluster naming; every hypothesis is discharged by evaluation
private def exCtx : LogQL.Ctx where
  fromNs := 1700000000000000000
  toNs := 1700003600000000000
  limit := 100
  orderAsc := false
  tp := 1
  isCluster := false
  ginTable := "time_series_gin"
  samplesTable := "samples_v3"
  tsTable := "time_series"
  tsDistTable := "time_series"
private def exCtxCluster : LogQL.Ctx where
  fromNs := 1700000000000000000
  toNs := 1700003600000000000
  limit := 0
  orderAsc := true
  tp := 0
  isCluster := true
  ginTable := "`qryn`.time_series_gin"
  samplesTable := "`qryn`.samples_v3_dist"
  tsTable := "`qryn`.time_series"
  tsDistTable := "`qryn`.time_series_dist"
private def exQuery : LogQL.LogQuery := {
  matchers := [⟨[97], .eq, [39, 59, 45, 45, 92]⟩, ⟨[98], .nre, [0, 39, 39, 47, 42]⟩],
  stages := [.line ⟨.contains, [37, 39, 95, 92], none⟩, .label (.or (.str "lbl" .neq [39]) (.num "x_1" .ge ⟨5, [5]⟩)),
             .line ⟨.nre, [92, 39], some ⟨[39], true⟩⟩, .label (.str "a" .re [42, 47])] }

private theorem exShifts : LogQL.shiftsOK 0 exQuery.matchers.length := fun j _ h => by
  have : j = 0 ∨ j = 1 := by simp [exQuery] at h; omega
  rcases this with rfl | rfl <;> decide +kernel
private theorem exAtoms : LogQL.AtomsOK exCtx exQuery :=
  ⟨by decide +kernel, by decide +kernel, by decide +kernel, by decide +kernel, by decide +kernel, by decide +kernel,
   by decide +kernel, by decide +kernel, by decide +kernel, exShifts⟩
private theorem exAtomsCluster : LogQL.AtomsOK exCtxCluster exQuery :=
  ⟨by decide +kernel, by decide +kernel, by decide +kernel, by decide +kernel, by decide +kernel, by decide +kernel,
   by decide +kernel, by decide +kernel, by decide +kernel, exShifts⟩
private theorem exQueryOK : LogQL.QueryOK exQuery where
  conds := by
    intro lc h
    simp [LogQL.labelConds, exQuery] at h
    rcases h with rfl | rfl
    · refine ⟨?_, ?_, ?_⟩
      · show (b "lbl").all litSafe = true
        decide +kernel
      · show (b "x_1").all litSafe = true
        decide +kernel
      · show rawE (b (LogQL.numText ⟨5, [5]⟩)) = true
        decide +kernel
    · show (b "a").all litSafe = true
      decide +kernel
  subs := fun j h1 h2 => by
    have : j = 1 ∨ j = 2 := by simp [LogQL.labelConds, exQuery] at h2; omega
    rcases this with rfl | rfl <;> exact ⟨by decide +kernel, by decide +kernel⟩
example : safeSegs .normal (segsSel (LogQL.planLog exCtx exQuery)) = true :=
  closed_fragments_planLog_partial _ _ exAtoms exQueryOK
example : safeSegs .normal (segsSel (LogQL.planLog exCtxCluster exQuery)) = true :=
  closed_fragments_planLog_partial _ _ exAtomsCluster exQueryOK

-- non-vacuity of `plan_closed_log`: the hypotheses are table names and label-filter names only
private theorem exTables : LogQL.TablesOK exCtx := ⟨by decide +kernel, by decide +kernel, by decide +kernel, by decide +kernel⟩
private theorem exTablesCluster : LogQL.TablesOK exCtxCluster :=
  ⟨by decide +kernel, by decide +kernel, by decide +kernel, by decide +kernel⟩
private theorem exNames : ∀ lc ∈ LogQL.labelConds exQuery, LogQL.condNamesOK lc := by
  intro lc h
  simp [LogQL.labelConds, exQuery] at h
  rcases h with rfl | rfl
  · exact ⟨by show LogQL.LabelClass "lbl"; unfold LogQL.LabelClass; decide +kernel,
      by show LogQL.LabelClass "x_1"; unfold LogQL.LabelClass; decide +kernel⟩
  · show LogQL.LabelClass "a"
    unfold LogQL.LabelClass; decide +kernel
example := plan_closed_log exCtx exQuery exTables exNames
example := plan_closed_log exCtxCluster exQuery exTablesCluster exNames
-- `plan_closed_metric`: topk over a grouped sum over an unwrapped rate, hostile by-labels, unwrap label and matcher values
private def exMCtx : LogQL.MCtx := { exCtxCluster with stepNs := 5000000000, metrics15Table := "`qryn`.metrics_15s_dist" }
private def exMetric : LogQL.MetricQuery :=
  .topk ⟨true, 3, .agg ⟨.sum, some ⟨true, ["a'b", "x\\"]⟩,
    ⟨.unwrap .rate "l'--", exQuery, 60000000000, none, some ⟨false, ["';"]⟩, some ⟨.gt, ⟨1, [5]⟩⟩⟩, none, none⟩, some ⟨.le, ⟨100, []⟩⟩⟩
example := plan_closed_metric exMCtx exMetric ⟨exTablesCluster, by decide +kernel⟩ exNames
-- `plan_closed_traceql`: a complex script with a hostile attribute name and value, accepted by the planner
private def exTCtx : TraceQL.Ctx := ⟨1700000000000000000, 1700003600000000000, 0, 20, true, "tempo_traces_attrs_gin",
  "`q`.tempo_traces_attrs_gin_dist", "tempo_traces", "`q`.tempo_traces_dist", 7, 3, ["0af7651916cd43dd8448eb211c80319c"]⟩
private def exTermA : TraceQL.Term := ⟨".a-b--c", .eq, .str [34, 39, 34] (some [39, 59, 45, 45, 92])⟩
private def exTermD : TraceQL.Term := ⟨"duration", .gt, .dur ⟨false, [1], false, []⟩ .s⟩
private def exScript : TraceQL.Script :=
  [(⟨some (.leafOp exTermA .or (.leaf exTermD)), some ⟨.avg, ".x'y", .gt, ⟨true, [2], true, [5]⟩, none⟩⟩, .and),
   (⟨some (.leaf exTermD), none⟩, .none)]
private theorem exTCtxOK : TraceQL.CtxOK exTCtx :=
  ⟨by decide +kernel, by decide +kernel, by decide +kernel, by decide +kernel, by decide +kernel⟩
example : (match TraceQL.plan exTCtx exScript with | .ok _ => true | .error _ => false) = true := by decide +kernel
example : ∀ X, TraceQL.plan exTCtx exScript = .ok X → safeSegs .normal (segsSel X) = true :=
  fun X h => (plan_closed_traceql exTCtx exTCtxOK exScript X h).1
example : (match TraceQL.planValues exTCtx "tempo_traces_kv" [39, 92] (exScript.take 1) with | .ok _ => true | .error _ => false) = true := by
  decide +kernel

-- `fpquery_closed` / `pquery_closed`: accepted matcher / selector lists with hostile names and values
example : ∃ q, Prom.fingerprintsQuery (fun _ _ => false) "time_series_gin" [50] 2
    [⟨[39, 45, 45], .eq, [92, 39]⟩, ⟨[97], .nre, [39, 41, 59]⟩] = some q := ⟨_, rfl⟩
example : rawE (Prom.ascii "`qryn`.profiles_series_gin_dist") = true := by decide +kernel
example : (Prof.plan (fun _ _ => false) "profiles_series_gin" [50] [51]
    [⟨[95, 95, 110, 97, 109, 101, 95, 95], .eq, [39]⟩, ⟨[39, 92], .re, [47, 42]⟩]).isSome = true := by decide +kernel
-- `json_params_closed`: a field name that begins with a digit and closes a call
example := json_params_closed [([120], [.key [48, 39, 41, 32, 45, 45], .key [97], .idx 1]), ([121], [])]
-- the string leaves of the nodes added for the TraceQL and the LogQL metric planners (`anyIfNum`, `mapAt`,
-- `mapFilterKeys`) with hostile keys
example : safeSegs .normal (segsExpr (.callT "bitAnd" [.anyIfNum [39, 92], .mapAt (.raw "labels") [39, 45, 45],
    .mapFilterKeys false [[39], [92, 39], []] (.raw "labels"), .divOp (.raw "x") (.fixedLit 5 0)])) = true :=
  closed_fragments_expr_partial _ (by simp only [wfExpr, wfExprs, Bool.and_eq_true, Bool.and_true]; decide +kernel) _ rfl
-- a raw atom that is not well formed is refused: a comment opener as a column name, a quote in a label name
example : wfExpr (.raw "a --") = false := by simp only [wfExpr]; decide +kernel
example : wfExpr (.lit "a'b") = false := by simp only [wfExpr]; decide +kernel
example : wfExpr (.call "x'" []) = false := by simp only [wfExpr, wfExprs, Bool.and_true]; decide +kernel

end Qryn.C10
