import Qryn.LogQL.PlannerMetric
/-! C14 for metric LogQL: the prepared plan `planner.plan()` returns is a chain of planner objects sharing the two
    memo fields of `planner` through `**sql.With` pointers:

    * `fpCache`   — written and read by `WithConnectorPlanner.Process` (inside `FingerprintFilterPlanner` and
                    `LabelsJoinPlanner`), read by `ByWithoutPlanner.processTSTable` (`labelsFromScratch(ctx, *b.FPCache)`);
    * `labelsCache` — written by `LabelsJoinPlanner.Process` (the one `planSpl` puts at `labelsJoinIdx`) and by
                    `ByWithoutPlanner.processTSTable`, read by `ByWithoutPlanner.processTSTable`.

    Both are cleared by `cacheResetPlanner.Process` at the start of every execution. Here every planner of the chain is
    a state transformer over (fpCache, labelsCache, the `ctx.Id()` counter of the context), composed in the order the
    Go code calls `Process` (a `LabelsJoinPlanner` first connects the fingerprint sub-query to the time-series select
    and only then processes its `Main`). `Props/C14.lean` proves the chain equal to the pure `planMetric` of C08 from
    every memo state. -/
namespace Qryn.LogQL
open Qryn Qryn.Sql

/-- a `*sql.With`: alias and query -/
abbrev With := Alias × Sel

/-- the memo fields of `planner` that survive from one `Process` to the next -/
structure MPlanState where
  fpCache : Option With := none
  labelsCache : Option With := none

/-- `cacheResetPlanner.Process`: `for _, cache := range c.Caches { *cache = nil }` -/
def MPlanState.reset (_ : MPlanState) : MPlanState := {}

/-- state while one `Process(ctx)` runs: the memo fields and `ctx.id` (a fresh context starts at 0) -/
structure XState where
  fpCache : Option With
  labelsCache : Option With
  id : Nat

/-- a planner object: `Process` over the state -/
abbrev Proc := XState → XState × Sel

/-- `p.fpPlanner.Process(ctx)` (`planTS`): the stream selector wrapped by the `SimpleLabelFilterPlanner`s, each
    taking one `ctx.Id()`; `k` = the counter before -/
def fpQueryAt (c : Ctx) (q : LogQuery) (k : Nat) : Sel :=
  let chain := fpChain c (streamSelect c q.matchers) k (labelConds q)
  match chain.getLast? with
  | some (_, s) => s.setWiths chain.dropLast
  | none => streamSelect c q.matchers

/-- `WithConnectorPlanner.Process` up to the call of `ProcessFn`: `main` is the processed `w.Main`; the sub-query is
    the memo if there is one, else it is built, named `fp_sel` and memoized. Returns `main.With(with)` and `with`. -/
def withConnector (c : Ctx) (q : LogQuery) (main : Sel) (st : XState) : XState × Sel × With :=
  match st.fpCache with
  | some w => (st, main.with_ [w], w)
  | none =>
    let w : With := (.named "fp_sel", fpQueryAt c q st.id)
    ({ st with fpCache := some w, id := st.id + (labelConds q).length }, main.with_ [w], w)

/-- `FingerprintFilterPlanner.Process` around an already processed main request -/
def fingerprintFilterP (c : Ctx) (q : LogQuery) (main : Sel) : Proc := fun st =>
  let (st', m, w) := withConnector c q main st
  (st', m.andWhere [.isIn (.raw "samples.fingerprint") [.withRef w.1]])

/-- `planSpl`: `FingerprintFilterPlanner{SqlMainInitPlanner}` and the line filters -/
def samplesMainP (c : Ctx) (q : LogQuery) : Proc := fun st =>
  let (st', s) := fingerprintFilterP c q (samplesInit c) st
  (st', (lineFilters q).foldl (fun s f => s.andWhere [lineClause f]) s)

/-- `TimeSeriesInitPlanner.Process` -/
def timeSeriesInit (c : Ctx) : Sel :=
  .mk [] false
    [simpleCol "time_series.fingerprint" "fingerprint", .col .tsLabels "labels"]
    (some (.col (.raw c.tsDistTable) "time_series")) []
    (some (and_ [ge (.raw "time_series.date") (.str (Time.formatFromDate c.fromNs)), getTypes c]))
    none [] none [] none

/-- `LabelsJoinPlanner.Process`: FIRST the time-series select is connected to the fingerprint sub-query (memo or
    build), THEN `l.Main` is processed; `setLabelsCache` = the object has a `LabelsCache` pointer -/
def labelsJoinP (c : Ctx) (q : LogQuery) (setLabelsCache : Bool) (main : Proc) : Proc := fun st =>
  let (st1, ts, w) := withConnector c q (timeSeriesInit c) st
  let tsReq := ts.andPreWhere [.isIn (.raw "time_series.fingerprint") [.withRef w.1]]
  let (st2, m) := main st1
  let withTS : With := (.named "_time_series", tsReq)
  let st3 := if setLabelsCache then { st2 with labelsCache := some withTS } else st2
  (st3, (joinedSel c).with_ [(.named "main", m), withTS])

/-- a planner that only rewrites what its `Main` returns -/
def mapP (f : Sel → Sel) (main : Proc) : Proc := fun st => let (s, m) := main st; (s, f m)

/-- `labelsFromScratch(ctx, *b.FPCache)`; a nil `*b.FPCache` makes a `WithRef` to nil whose rendering faults —
    `<nil>` here; `process_stable_metric` shows the chain never gets there -/
def labelsFromScratch (c : Ctx) (fp : Option With) : Sel :=
  (timeSeriesInit c).andPreWhere
    [.isIn (.raw "time_series.fingerprint") [.withRef ((fp.map (·.1)).getD (.named "<nil>"))]]

/-- `ByWithoutPlanner.processTSTable`: reads `*b.LabelsCache` (a memoized labels select is filtered again, otherwise
    the labels are read from time_series), takes two ids, memoizes its labels select -/
def byWithoutTSP (c : Ctx) (g : Grouping) (main : Sel) : Proc := fun st =>
  let labels : Sel :=
    match st.labelsCache with
    | some lc =>
      .mk [] false
        [.raw "fingerprint", .col hashLabels "new_fingerprint", .col (byWithoutCol g (.raw "a.labels")) "labels"]
        (some (.col (.withRef lc.1) "a")) [] none none [] none [] none
    | none =>
      let from_ := labelsFromScratch c st.fpCache
      from_.setCols (patchCol from_.cols "labels" (byWithoutCol g) ++ [.col hashLabels "new_fingerprint"])
  let l := "labels_" ++ toString (st.id + 1)
  let p := "pre_without_" ++ toString (st.id + 2)
  let withLabels : With := (.named l, labels)
  ({ st with labelsCache := some withLabels, id := st.id + 2 },
   (Sel.mk [] false
    [simpleCol (l ++ ".new_fingerprint") "fingerprint", simpleCol (p ++ ".timestamp_ns") "timestamp_ns",
     simpleCol (p ++ ".value") "value", emptyStr, simpleCol (l ++ ".labels") "labels"]
    (some (.withRef (.named p)))
    [(joinType c, .named l, eq (.raw (p ++ ".fingerprint")) (.raw (l ++ ".fingerprint")))]
    none none [] none [] none).with_ [(.named p, main), withLabels])

/-- `planByWithout` + `ByWithoutPlanner.Process` -/
def planByWithoutP (c : Ctx) (useTS : Bool) (g : Option Grouping) (main : Proc) : Proc :=
  match g with
  | none => main
  | some g => fun st =>
    let (st1, m) := main st
    if useTS then byWithoutTSP c g m st1
    else ({ st1 with id := st1.id + 1 }, byWithoutSimple st1.id g m)

/-- the samples side (`planSpl`); for `| unwrap` the `LabelsJoinPlanner` of `planSpl` (it has the `LabelsCache`
    pointer) and the `UnwrapPlanner` -/
def splP (c : MCtx) (q : MetricQuery) : Proc :=
  let r := q.rangeAgg
  match r.kind with
  | .lra _ => samplesMainP c.toCtx r.sel
  | .unwrap _ label =>
    mapP (unwrapSel label)
      (labelsJoinP c.toCtx r.sel true
        (mapP (fun m => m.setOrderBy [.orderBy (.raw "timestamp_ns") (dirOf c.toCtx)]) (samplesMainP c.toCtx r.sel)))

/-- one planner of `matrixFunctionsOrder` (resp. of `planMetrics15Shortcut`) wrapped around the chain so far.
    The shortcut's `FingerprintFilterPlanner{Metrics15ShortcutPlanner}` has no `Main` below it. -/
def stepP (c : MCtx) (q : MetricQuery) (main : Proc) : Step → Proc
  | .lra fn d => mapP (lraSel fn d q.rangeAgg.isUnwrap) main
  | .shortcut fn d => fingerprintFilterP c.toCtx q.rangeAgg.sel (metrics15Sel c fn d)
  | .unwrapFn fn d g => mapP (unwrapFnSel fn d) (planByWithoutP c.toCtx (!q.rangeAgg.isUnwrap) g main)
  | .agg fn g => mapP (aggSel fn (matrixLabels q)) (planByWithoutP c.toCtx (!q.rangeAgg.isUnwrap) g main)
  | .topk isTop k => mapP (topkSel isTop k) main
  | .cmp cm => mapP (comparisonSel cm) main

/-- the chain below `cacheResetPlanner`: `MainFinalizerPlanner{[LabelsJoinPlanner{]StepFixPlanner{matrix functions{planSpl}}[}]}` -/
def metricChainP (c : MCtx) (q : MetricQuery) : Proc :=
  let r := q.rangeAgg
  let inner : Proc := mapP (stepFixSel c r.durNs) ((planSteps q).foldl (stepP c q) (splP c q))
  let joined : Proc := if matrixLabels q then inner else labelsJoinP c.toCtx r.sel false inner
  mapP finalizeMatrix joined

/-- the chain run on a fresh context from given memo fields — `Process` of the plan WITHOUT `cacheResetPlanner`
    (what `plan()` returned before the `fix:`) -/
def processMetricFrom (st : MPlanState) (c : MCtx) (q : MetricQuery) : MPlanState × Sel :=
  let (x, s) := metricChainP c q ⟨st.fpCache, st.labelsCache, 0⟩
  (⟨x.fpCache, x.labelsCache⟩, s)

/-- **one `Process(ctx)` of a prepared metric plan**: `cacheResetPlanner`, then the chain -/
def processMetric (st : MPlanState) (c : MCtx) (q : MetricQuery) : MPlanState × Sel :=
  processMetricFrom st.reset c q

/-- the statements of successive executions of one plan -/
def runsMetric (st : MPlanState) (q : MetricQuery) : List MCtx → List Sel
  | [] => []
  | c :: cs => let r := processMetric st c q; r.2 :: runsMetric r.1 q cs

/-- the same without the reset (before the `fix:`) -/
def runsMetricNoReset (st : MPlanState) (q : MetricQuery) : List MCtx → List Sel
  | [] => []
  | c :: cs => let r := processMetricFrom st c q; r.2 :: runsMetricNoReset r.1 q cs

end Qryn.LogQL

namespace Qryn.LogQL
open Qryn Qryn.Sql
/-- a WITH sub-query whose FROM is `<its own alias> as …`: a statement ClickHouse cannot resolve -/
def selfRefWith (s : Sel) : Bool :=
  s.withs.any (fun w =>
    match w.2 with
    | .mk _ _ _ (some (.col (.withRef a) _)) _ _ _ _ _ _ _ => a == w.1
    | _ => false)
end Qryn.LogQL
