import Qryn.LogQL.PlannerX
/-! `sameShape` — two LogQL queries are equal up to the CONTENTS of their string leaves.

    String leaves: matcher label names and values (regular expressions included), line-filter needles and regular
    expressions, label-filter values, `| json` labels and the name parts of their paths, `| regexp` group names and
    pattern, `| drop` names and values. Everything else is shape: operators, the and/or structure of label filters,
    label-filter NAMES (identifiers, written into the statement as such) and NUMBER literals (number tokens of the
    statement), the index parts of json paths, the order and kind of the stages — and the three properties of a string the
    planner branches on: whether a `|~` / `!~` pattern is a literal (then it becomes a LIKE, case-folded or not), how
    many groups a `| regexp` pattern has, whether a `| drop` entry has a value. -/
namespace Qryn.LogQL
open Qryn Qryn.Sql

/-- pointwise relation on two lists (same length) -/
def All2 {α β : Type} (R : α → β → Prop) : List α → List β → Prop
  | [], [] => True
  | a :: as, b :: bs => R a b ∧ All2 R as bs
  | _, _ => False

def Matcher.same (a b : Matcher) : Prop := a.op = b.op

/-- what the planner looks at besides the needle: the operator and, for `|~` / `!~`, whether the pattern is a literal
    (`re2Like`) and then its fold-case flag -/
def LineFilter.skel (f : LineFilter) : LineOp × Option Bool :=
  match f.op with
  | .contains => (.contains, none)
  | .notContains => (.notContains, none)
  | .re => (.re, f.like.map (·.insensitive))
  | .nre => (.nre, f.like.map (·.insensitive))

def LineFilter.same (f g : LineFilter) : Prop := f.skel = g.skel

def LabelCond.same : LabelCond → LabelCond → Prop
  | .str l op _, .str l' op' _ => l = l' ∧ op = op'
  | .num l op v, .num l' op' v' => l = l' ∧ op = op' ∧ v = v'
  | .and l r, .and l' r' => LabelCond.same l l' ∧ LabelCond.same r r'
  | .or l r, .or l' r' => LabelCond.same l l' ∧ LabelCond.same r r'
  | _, _ => False

def Stage.same : Stage → Stage → Prop
  | .line f, .line g => f.same g
  | .label c, .label d => c.same d
  | _, _ => False

def JArg.same : JArg → JArg → Prop
  | .key _, .key _ => True
  | .idx i, .idx j => i = j
  | _, _ => False

def Changer.same : Changer → Changer → Prop
  | .json ps, .json ps' => All2 (fun p p' => All2 JArg.same p.2 p'.2) ps ps'
  | .regexp names _, .regexp names' _ => names.length = names'.length
  | .drop ps, .drop ps' => All2 (fun p p' => p.2.isEmpty = p'.2.isEmpty) ps ps'
  | _, _ => False

def StageX.same : StageX → StageX → Prop
  | .fl s, .fl t => s.same t
  | .ch c, .ch d => c.same d
  | _, _ => False

/-- **sameShape** for the queries of `planLog` -/
def sameShape (q1 q2 : LogQuery) : Prop := All2 Matcher.same q1.matchers q2.matchers ∧ All2 Stage.same q1.stages q2.stages

/-- **sameShape** for the queries of `planLogX` (json / regexp / drop stages and the filters after them) -/
def sameShapeX (q1 q2 : LogQueryX) : Prop := All2 Matcher.same q1.matchers q2.matchers ∧ All2 StageX.same q1.stages q2.stages

def ScriptStage.same : ScriptStage → ScriptStage → Prop
  | .sql s, .sql t => s.same t
  | .inproc a, .inproc b => a = b
  | _, _ => False

end Qryn.LogQL
