/-! The Go post-processors of a matrix result (reader/logql/logql_transpiler_v2): `ZeroEaterPlanner`
    (planner_zero_eater.go) and `FixPeriodPlanner` (planner_from_fix.go), as functions on the flattened
    entry list (the batching of the channel is not part of the result). `MatrixPostProcessors` composes
    them: the SQL rows go through the zero eater, then through the period fixer, which also chooses the
    window handed to the SQL planner. Values are integers here: the code only copies them and compares
    them with 0. -/
namespace Qryn.LogQL

structure MEntry where
  fp : Nat           -- Fingerprint (uint64)
  lbl : Nat          -- identity of the Labels map carried by the entry
  ts : Int           -- TimestampNS
  value : Int
deriving DecidableEq, Repr

/-- `ZeroEaterPlanner`: entries whose value is 0 are dropped -/
def zeroEater (es : List MEntry) : List MEntry := es.filter (fun e => e.value != 0)

/-- the window `FixPeriodPlanner` hands to the SQL planners: `[from/d*d, to/d*d + d)` (unchanged when d ≤ 0) -/
def fixWindow (fromNs toNs d : Int) : Int × Int :=
  if 0 < d then (Int.tdiv fromNs d * d, Int.tdiv toNs d * d + d) else (fromNs, toNs)

/-- `fastFill(values[i:j+1], v)` -/
def fillRange (vs : List Int) (i j : Nat) (v : Int) : List Int :=
  vs.zipIdx.map (fun (p : Int × Nat) => if i ≤ p.2 ∧ p.2 ≤ j then v else p.1)

structure FixState where
  started : Bool         -- `values != nil`: a value array has been allocated
  fp : Nat
  lbl : Nat
  values : List Int
  out : List MEntry      -- exported so far

/-- `exportEntries` -/
def exportRun (fromNs step : Int) (s : FixState) : List MEntry :=
  s.values.zipIdx.filterMap (fun (p : Int × Nat) =>
    if p.1 = 0 then none else some ⟨s.fp, s.lbl, fromNs + (p.2 : Int) * step, p.1⟩)

/-- first half of a loop iteration: a new series exports the finished one and allocates a zeroed value array -/
def fixReset (fromNs toNs step : Int) (s : FixState) (e : MEntry) : FixState :=
  if !s.started ∨ e.fp ≠ s.fp then
    { started := true, fp := e.fp, lbl := e.lbl,
      values := List.replicate (Int.tdiv (toNs - fromNs) step + 1).toNat 0,
      out := s.out ++ exportRun fromNs step s }
  else s

/-- second half: the row's value is written to the step points from the start of its range bucket to the start of the next one -/
def fixFill (fromNs step d : Int) (s : FixState) (e : MEntry) : FixState :=
  let idxFrom := Int.tdiv (Int.tdiv e.ts d * d - fromNs) step
  let idxTo := Int.tdiv ((Int.tdiv e.ts d + 1) * d - fromNs) step
  let len : Int := s.values.length
  if idxTo < 0 ∨ len ≤ idxFrom then s
  else
    let i := if idxFrom < 0 then 0 else idxFrom
    let j := if len ≤ idxTo then len - 1 else idxTo
    { s with values := fillRange s.values i.toNat j.toNat e.value }

/-- one iteration of the loop over the incoming entries -/
def fixStep (fromNs toNs step d : Int) (s : FixState) (e : MEntry) : FixState :=
  fixFill fromNs step d (fixReset fromNs toNs step s e) e

/-- `FixPeriodPlanner.Process` on the flattened input: the initial state has no value array -/
def fixPeriod (fromNs toNs step d : Int) (es : List MEntry) : List MEntry :=
  let s := es.foldl (fixStep fromNs toNs step d) ⟨false, 0, 0, [], []⟩
  s.out ++ exportRun fromNs step s

/-- `MatrixPostProcessors` applied to the rows of the SQL -/
def postProcess (fromNs toNs step d : Int) (rows : List MEntry) : List MEntry :=
  fixPeriod fromNs toNs step d (zeroEater rows)

end Qryn.LogQL
