import Qryn.Sql.Build
/-! C14: `LineFormatPlanner` (planner_line_format.go) keeps the SQL `format(...)` call it builds in two fields of the
    planner object: `formatStr` (the format string with `{i}` placeholders) and `args` (one `labels['name']` per
    field of the template). `ProcessTpl` parses the template (text/template, third-party: the parse tree is the input
    here, `none` = parse error), resets both fields and walks the tree (`visitNodes` with `l.node`):
    a text node appends its text, a field node appends `{len(args)}` and one argument. Before the `fix:` the
    reset was missing. `LabelFormatPlanner` keeps one `LineFormatPlanner` per constant operand (`formatters`, a memo
    of immutable configuration) and calls `ProcessTpl` on it. -/
namespace Qryn.LogQL
open Qryn Qryn.Sql

/-- the leaves `visitNodes` reaches, in order (NodeList and NodeAction are descended, other nodes contribute nothing) -/
inductive TplNode
  | text (s : Bytes)
  | field (name : Bytes)          -- `{{.name}}`: `Ident[0]`
deriving DecidableEq, Repr

/-- the two unexported fields of a `LineFormatPlanner` -/
structure FmtState where
  formatStr : Bytes := []
  args : List Bytes := []          -- the label name of each `labels['…']` argument
deriving DecidableEq, Repr

def placeholder (i : Nat) : Bytes := [123] ++ (toString i).toUTF8.toList ++ [125]    -- "{i}"

/-- `l.node(n)`: `textNode` / `fieldNode` -/
def nodeStep (st : FmtState) : TplNode → FmtState
  | .text s => { st with formatStr := st.formatStr ++ s }
  | .field name => { formatStr := st.formatStr ++ placeholder st.args.length, args := st.args ++ [name] }

/-- `ProcessTpl` after the `fix:`: parse; on success reset the fields, then walk -/
def processTpl (st : FmtState) : Option (List TplNode) → FmtState × Bool
  | none => (st, false)
  | some nodes => (nodes.foldl nodeStep {}, true)

/-- `ProcessTpl` before the `fix:`: the walk continued from what the previous call left -/
def processTplOld (st : FmtState) : Option (List TplNode) → FmtState × Bool
  | none => (st, false)
  | some nodes => (nodes.foldl nodeStep st, true)

/-- the format string of a template whose first field gets number `k` — a function of the template alone -/
def fmtText : Nat → List TplNode → Bytes
  | _, [] => []
  | k, .text s :: rest => s ++ fmtText k rest
  | k, .field _ :: rest => placeholder k ++ fmtText (k + 1) rest

def fmtArgs (nodes : List TplNode) : List Bytes := nodes.filterMap (fun | .field n => some n | .text _ => none)

/-- what `Process` puts into the statement: `sqlFormat{format: l.formatStr, args: l.args}` -/
def FmtState.out (st : FmtState) : Bytes × List Bytes := (st.formatStr, st.args)

/-- successive `ProcessTpl` calls on one planner object -/
def runsTpl (f : FmtState → Option (List TplNode) → FmtState × Bool) (st : FmtState) (tpl : Option (List TplNode)) :
    Nat → List (Option (Bytes × List Bytes))
  | 0 => []
  | n + 1 => let r := f st tpl; (if r.2 then some r.1.out else none) :: runsTpl f r.1 tpl n

end Qryn.LogQL
