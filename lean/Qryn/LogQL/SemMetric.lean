import Qryn.Sql.SemAgg
import Qryn.LogQL.Sem
import Qryn.LogQL.PlannerMetric
/-! Direct semantics of LogQL metric queries (the C08 fragment) over the Loki tables of qryn, written
    without SQL: this is the *specification* the generated SQL is judged against.

    Reading: the matching entries (C07's `entryMatches` conditions, over a window `[lo, hi)`) are bucketed
    by stream and by `bucketOf d ts` (start of the width-`d` window containing `ts`); the range function
    is applied to each bucket; then the vector aggregation groups the series by the label set kept by
    `by`/`without` (no grouping clause = one series with the empty label set, as in LogQL), then the
    comparison threshold, then top/bottom-k per timestamp; when the step is larger than the range the
    points are re-bucketed to the step (value of the earliest range bucket of each step bucket).
    Numbers are exact rationals. RE2, JSON label documents, number parsing and cityHash64 are the same
    oracles as in `Sql.Sem`. A grouping clause written on a plain (not unwrapped) range aggregation is not
    LogQL (Loki rejects it); it is ignored here, as the planner ignores it. -/
namespace Qryn.LogQL
open Qryn Qryn.Sql

/-! ### the database: C07's tables plus the `metrics_15s` materialized view -/

/-- `metrics_15s_mv`: one row per (fingerprint, 15 s slot, type) with the number of samples in it
    (`countState()`), in order of first occurrence -/
def metrics15Rows (d : LokiDb) : Table :=
  let keyOf := fun (s : Sample) => (s.fp, Int.tdiv s.ts slot15 * slot15, s.tp)
  (d.samples.map keyOf).eraseDups.map (fun k =>
    [("fingerprint", .int k.1), ("timestamp_ns", .int k.2.1), ("type", .int k.2.2),
     ("count", .int ((d.samples.filter (fun s => keyOf s == k)).length))])

def LokiDb.toDbM (d : LokiDb) (c : MCtx) : Db := fun n =>
  if n = c.metrics15Table then metrics15Rows d else d.toDb c.toCtx n

def MCtx.namesOk (c : MCtx) : Prop :=
  c.toCtx.namesOk ∧ c.metrics15Table ≠ c.samplesTable ∧ c.metrics15Table ≠ c.ginTable ∧
  c.metrics15Table ≠ c.tsTable ∧ c.metrics15Table ≠ c.tsDistTable

/-! ### the direct reading -/

/-- start of the window of width `d` that contains `ts` -/
def bucketOf (d : Int) (ts : Int) : Int := Int.tdiv ts d * d

/-- an entry takes part: inside `[lo, hi)`, of the logs signal, stream selected, every line filter passes -/
def entryMatchesW (o : Oracles) (c : Ctx) (d : LokiDb) (q : LogQuery) (lo hi : Int) (s : Sample) : Bool :=
  decide (lo ≤ s.ts) && decide (s.ts < hi) && typeOk c s.tp && fpSelected o c d q s.fp &&
  (lineFilters q).all (fun f => lineHolds o f s.str)

/-- a point of a series -/
structure Pt where
  key : Val          -- series identity: the stream fingerprint, or cityHash64 of the grouped label set
  labels : Val       -- `.map` once labels are attached, `.null` before
  ts : Int
  value : Rat
deriving DecidableEq, Repr

/-- seconds of a range duration -/
def secondsOf (durNs : Nat) : Rat := ((durNs : Int) : Rat) / 1000000000

def ratSumL (qs : List Rat) : Rat := qs.foldl (· + ·) 0

/-- `by (…)` keeps the listed labels, `without (…)` drops them; the series identity is recomputed from the kept set -/
def regroup (o : Oracles) (g : Grouping) (labels : Val) : Val × Val :=
  match labels with
  | .map m =>
    let m' := m.filter (fun p => (groupingKeys g).contains p.1 == g.isBy)
    (.int (o.cityHash m'), .map m')
  | _ => (.null, .null)

/-- the range functions without unwrap, on the entries of one (stream, bucket) -/
def lraVal (fn : RangeFn) (durNs : Nat) (grp : List Sample) : Rat :=
  match fn with
  | .rate => (grp.length : Int) / secondsOf durNs
  | .countOverTime => (grp.length : Int)
  | .bytesRate => ((grp.map (fun s => (s.str.length : Int))).foldl (· + ·) 0 : Int) / secondsOf durNs
  | .bytesOverTime => ((grp.map (fun s => (s.str.length : Int))).foldl (· + ·) 0 : Int)

/-- value at the least timestamp (first such entry) -/
def firstBy : List (Int × Rat) → Option Rat
  | [] => none
  | p :: ps => some (ps.foldl (fun best q => if q.1 < best.1 then q else best) p).2
/-- value at the greatest timestamp (first such entry) -/
def lastBy : List (Int × Rat) → Option Rat
  | [] => none
  | p :: ps => some (ps.foldl (fun best q => if best.1 < q.1 then q else best) p).2

/-- the range functions over unwrapped values: `grp` = (timestamp, value) of the entries of one (series, bucket); `none` for
    an empty group. stdvar_over_time = population variance, stddev_over_time = the oracle `sqrt` of it (the square root is
    not a rational function: the SQL side applies the same uninterpreted function) -/
def unwrapVal (o : Oracles) (fn : UnwrapFn) (durNs : Nat) (grp : List (Int × Rat)) : Option Rat :=
  let vs := grp.map (·.2)
  match fn, vs with
  | _, [] => none
  | .rate, _ => some (ratSumL vs / secondsOf durNs)
  | .sumOT, _ => some (ratSumL vs)
  | .avgOT, _ => some (ratSumL vs / (vs.length : Int))
  | .maxOT, v :: rest => some (rest.foldl max v)
  | .minOT, v :: rest => some (rest.foldl min v)
  | .firstOT, _ => firstBy grp
  | .lastOT, _ => lastBy grp
  | .stdvarOT, _ => some (varPopRat vs)
  | .stddevOT, _ => some (o.sqrt (varPopRat vs))

/-- the unwrapped value of an entry -/
def unwrapOf (o : Oracles) (label : String) (labels : Val) (s : Sample) : Rat :=
  if label = "_entry" then o.toFloat s.str
  else match labels with
    | .map m => o.toFloat ((m.lookup label.toUTF8.toList).getD [])
    | _ => 0

/-- the range stage: one point per (series, bucket), in order of first occurrence -/
def rangePoints (o : Oracles) (c : Ctx) (d : LokiDb) (r : RangeAgg) (lo hi : Int) : List Pt :=
  let es := d.samples.filter (entryMatchesW o c d r.sel lo hi)
  match r.kind with
  | .lra fn =>
    let keyOf := fun (s : Sample) => (s.fp, bucketOf r.durNs s.ts)
    (es.map keyOf).eraseDups.map (fun k =>
      ⟨.int k.1, .null, k.2, lraVal fn r.durNs (es.filter (fun s => keyOf s == k))⟩)
  | .unwrap fn label =>
    -- every entry carries its stream's labels; an optional grouping on the range aggregation regroups the entries
    let items := es.map (fun s =>
      let ls := labelsOf o c d r.sel s.fp
      let v := unwrapOf o label ls s
      match chosenGrouping r.byPrefix r.bySuffix with
      | some g => let kl := regroup o g ls; (kl.1, kl.2, s.ts, v)
      | none => (Val.int s.fp, ls, s.ts, v))
    let keyOf := fun (it : Val × Val × Int × Rat) => (it.1, bucketOf r.durNs it.2.2.1)
    (items.map keyOf).eraseDups.filterMap (fun k =>
      let grp := items.filter (fun it => keyOf it == k)
      (unwrapVal o fn r.durNs (grp.map (fun it => (it.2.2.1, it.2.2.2)))).map (fun v =>
        ⟨k.1, (grp.head?.map (·.2.1)).getD .null, k.2, v⟩))

def numOf (n : NumLit) : Rat :=
  let frac := n.frac.take 6
  ((n.int * 10 ^ frac.length + frac.foldl (fun acc x => acc * 10 + x) 0 : Nat) : Int) / ((10 ^ frac.length : Nat) : Int)

def cmpHoldsR (op : CmpOp) (x y : Rat) : Bool :=
  match op with
  | .eq => x == y | .neq => x != y | .gt => decide (y < x) | .ge => decide (y ≤ x)
  | .lt => decide (x < y) | .le => decide (x ≤ y)

def cmpStage (cm : Option Comparison) (pts : List Pt) : List Pt :=
  match cm with
  | none => pts
  | some c => pts.filter (fun p => cmpHoldsR c.op p.value (numOf c.val))

def aggVal (o : Oracles) (fn : AggFn) (vs : List Rat) : Option Rat :=
  match fn, vs with
  | _, [] => none
  | .sum, _ => some (ratSumL vs)
  | .avg, _ => some (ratSumL vs / (vs.length : Int))
  | .min, v :: rest => some (rest.foldl min v)
  | .max, v :: rest => some (rest.foldl max v)
  | .count, _ => some (vs.length : Int)
  | .stddev, _ => some (o.sqrt (varPopRat vs))
  | .stdvar, _ => some (varPopRat vs)

/-- labels of a point: its own once attached, else those of its stream -/
def ptLabels (o : Oracles) (c : Ctx) (d : LokiDb) (q : LogQuery) (p : Pt) : Val :=
  match p.labels, p.key with
  | .null, .int fp => labelsOf o c d q fp
  | l, _ => l

/-- the vector aggregation: regroup by the kept label set (none written: everything into the empty set), aggregate per timestamp -/
def aggStage (o : Oracles) (c : Ctx) (d : LokiDb) (q : LogQuery) (a : VecAgg) (pts : List Pt) : List Pt :=
  let g : Grouping := (chosenGrouping a.byPrefix a.bySuffix).getD ⟨true, []⟩
  let items := pts.map (fun p => let kl := regroup o g (ptLabels o c d q p); (kl.1, kl.2, p.ts, p.value))
  let keyOf := fun (it : Val × Val × Int × Rat) => (it.1, it.2.2.1)
  (items.map keyOf).eraseDups.filterMap (fun k =>
    let grp := items.filter (fun it => keyOf it == k)
    (aggVal o a.fn (grp.map (·.2.2.2))).map (fun v => ⟨k.1, (grp.head?.map (·.2.1)).getD .null, k.2, v⟩))

def keyIntOf : Val → Int
  | .int i => i
  | _ => 0

/-- better-first order for topk: greater value, ties by smaller series key; for bottomk: smaller value -/
def ptLe (isTop : Bool) (x y : Pt) : Bool :=
  (if isTop then decide (y.value < x.value) else decide (x.value < y.value)) ||
  (x.value == y.value && decide (keyIntOf x.key ≤ keyIntOf y.key))

/-- top/bottom-k: per timestamp (in order of first occurrence) the k best points -/
def topkStage (isTop : Bool) (k : Nat) (pts : List Pt) : List Pt :=
  (pts.map (·.ts)).eraseDups.flatMap (fun t => (sortBy (ptLe isTop) (pts.filter (fun p => p.ts == t))).take k)

/-- step larger than the range: one point per (step bucket, series): the value of its earliest range bucket -/
def stepStage (stepNs : Int) (durNs : Nat) (pts : List Pt) : List Pt :=
  if stepNs ≤ (durNs : Int) then pts
  else
    let keyOf := fun (p : Pt) => (bucketOf stepNs p.ts, p.key)
    (pts.map keyOf).eraseDups.filterMap (fun k =>
      let grp := pts.filter (fun p => keyOf p == k)
      (firstBy (grp.map (fun p => (p.ts, p.value)))).map (fun v => ⟨k.2, (grp.head?.map (·.labels)).getD .null, k.1, v⟩))

def Pt.row (p : Pt) : Row :=
  [("fingerprint", p.key), ("labels", p.labels), ("value", .rat p.value), ("timestamp_ns", .int p.ts)]

def matrixKeys : List (String × Dir) := [("fingerprint", .asc), ("timestamp_ns", .asc)]

/-- the points of a metric query over the entry window `[lo, hi)` -/
def metricPoints (o : Oracles) (c : MCtx) (d : LokiDb) (q : MetricQuery) (lo hi : Int) : List Pt :=
  let r := q.rangeAgg
  let p0 := cmpStage r.cmp (rangePoints o c.toCtx d r lo hi)
  let p1 := match q.agg? with
    | some a => cmpStage a.cmp (aggStage o c.toCtx d r.sel a p0)
    | none => p0
  let p2 := match q with
    | .topk t => cmpStage t.cmp (topkStage t.isTop t.k p1)
    | _ => p1
  let p3 := stepStage c.stepNs r.durNs p2
  p3.map (fun p => { p with labels := ptLabels o c.toCtx d r.sel p })

/-- the entry window a plan reads: the metrics_15s shortcut works on whole 15 s slots -/
def effWindow (c : MCtx) (q : MetricQuery) : Int × Int :=
  if takesShortcut q then (Int.tdiv c.fromNs slot15 * slot15, Int.tdiv c.toNs slot15 * slot15) else (c.fromNs, c.toNs)

/-- **the specification**: the matrix a metric query of the fragment returns (before the Go post-processors) -/
def evalMetric (o : Oracles) (c : MCtx) (d : LokiDb) (q : MetricQuery) : Table :=
  let w := effWindow c q
  sortBy (rowLe matrixKeys) ((metricPoints o c d q w.1 w.2).map Pt.row)

/-- Float64 and UInt64 result columns are read as numbers: compare values as rationals -/
def normRow (r : Row) : Row :=
  r.map (fun p => if p.1 = "value" then (p.1, match p.2.toRat? with | some q => Val.rat q | none => p.2) else p)

end Qryn.LogQL
