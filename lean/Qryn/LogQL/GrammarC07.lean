import Qryn.Gen.C07Grammar
/-! What the C07 model makes of every production of the LogQL log-query grammar (`Gen.C07Grammar.productions`, regenerated
    from the participle tags of logql_parser/model_v2.go):

    * `modelled` — inside the fragment of `plan_correct_ext` / `script_correct`: the generator of the C07 streams must emit it
      (at every pipeline position and, for the label-filter productions, at every nesting depth) and the semantic stream
      judges the SQL built for it;
    * `handover` — a stage (or part of a stage) only the in-process engine has: `handover_point` says ClickHouse gets the
      stages before it; the generator must emit it, what follows it is C09's;
    * `outside: why` — not part of a log query the fragment covers.

    Field-level classes cannot say everything: `| regexp` without a pattern (index fault in `ParserPlanner.regexp`, a
    `ParserParams = 0` case that is not a hand-over), a label filter chain without `and`/`or` between two heads
    (`LabelFilter.Op` absent with `Tail` set: `illegal expression`) and a comparison whose value kind does not fit the
    operator (`a > "x"`, `a =~ 5`) are REFUSED by the planner; the harness emits them and checks the refusal. -/
namespace Qryn.LogQL.GrammarC07

def classTable : List ((String × String × String) × String) := [
  (("StrSelector", "StrSelCmds", "1"), "modelled"),
  (("StrSelector", "StrSelCmds", "many"), "modelled"),
  (("StrSelector", "Pipelines", "0"), "modelled"),
  (("StrSelector", "Pipelines", "1"), "modelled"),
  (("StrSelector", "Pipelines", "many"), "modelled"),
  (("StrSelCmd", "Label", "set"), "modelled"),
  (("StrSelCmd", "Op", "=="), "modelled"),
  (("StrSelCmd", "Op", "=!="), "modelled"),
  (("StrSelCmd", "Op", "==~"), "modelled"),
  (("StrSelCmd", "Op", "=!~"), "modelled"),
  (("StrSelCmd", "Val", "set"), "modelled"),
  (("LabelName", "Name", "tok:Macros_function"), "modelled"),
  (("LabelName", "Name", "tok:Label_name"), "modelled"),
  (("QuotedString", "Str", "tok:Quoted_string"), "modelled"),
  (("QuotedString", "Str", "tok:Ticked_string"), "modelled"),
  (("StrSelectorPipeline", "LineFilter", "set"), "modelled"),
  (("StrSelectorPipeline", "LineFilter", "absent"), "modelled"),
  (("StrSelectorPipeline", "LabelFilter", "set"), "modelled"),
  (("StrSelectorPipeline", "LabelFilter", "absent"), "modelled"),
  (("StrSelectorPipeline", "Parser", "set"), "modelled"),
  (("StrSelectorPipeline", "Parser", "absent"), "modelled"),
  (("StrSelectorPipeline", "LineFormat", "set"), "handover"),
  (("StrSelectorPipeline", "LineFormat", "absent"), "modelled"),
  (("StrSelectorPipeline", "LabelFormat", "set"), "handover"),
  (("StrSelectorPipeline", "LabelFormat", "absent"), "modelled"),
  (("StrSelectorPipeline", "Unwrap", "set"), "outside: a log query carries no unwrap stage (metric queries: C08)"),
  (("StrSelectorPipeline", "Unwrap", "absent"), "modelled"),
  (("StrSelectorPipeline", "Drop", "set"), "modelled"),
  (("StrSelectorPipeline", "Drop", "absent"), "modelled"),
  (("LineFilter", "Fn", "=|="), "modelled"),
  (("LineFilter", "Fn", "=!="), "modelled"),
  (("LineFilter", "Fn", "=|~"), "modelled"),
  (("LineFilter", "Fn", "=!~"), "modelled"),
  (("LineFilter", "Val", "set"), "modelled"),
  (("LabelFilter", "Head", "set"), "modelled"),
  (("LabelFilter", "Op", "=and"), "modelled"),
  (("LabelFilter", "Op", "=or"), "modelled"),
  (("LabelFilter", "Op", "absent"), "modelled"),
  (("LabelFilter", "Tail", "set"), "modelled"),
  (("LabelFilter", "Tail", "absent"), "modelled"),
  (("Head", "ComplexHead", "set"), "modelled"),
  (("Head", "ComplexHead", "absent"), "modelled"),
  (("Head", "SimpleHead", "set"), "modelled"),
  (("Head", "SimpleHead", "absent"), "modelled"),
  (("SimpleLabelFilter", "Label", "set"), "modelled"),
  (("SimpleLabelFilter", "Fn", "=="), "modelled"),
  (("SimpleLabelFilter", "Fn", "=!="), "modelled"),
  (("SimpleLabelFilter", "Fn", "=!~"), "modelled"),
  (("SimpleLabelFilter", "Fn", "==="), "modelled"),
  (("SimpleLabelFilter", "Fn", "=>="), "modelled"),
  (("SimpleLabelFilter", "Fn", "=>"), "modelled"),
  (("SimpleLabelFilter", "Fn", "=<="), "modelled"),
  (("SimpleLabelFilter", "Fn", "=<"), "modelled"),
  (("SimpleLabelFilter", "Fn", "==~"), "modelled"),
  (("SimpleLabelFilter", "StrVal", "set"), "modelled"),
  (("SimpleLabelFilter", "StrVal", "absent"), "modelled"),
  (("SimpleLabelFilter", "NumVal", "seq:=.,tok:Integer"), "modelled"),
  (("SimpleLabelFilter", "NumVal", "absent"), "modelled"),
  (("Parser", "Fn", "=json"), "modelled"),
  (("Parser", "Fn", "=logfmt"), "handover"),
  (("Parser", "Fn", "=regexp"), "modelled"),
  (("Parser", "ParserParams", "0"), "handover"),
  (("Parser", "ParserParams", "1"), "modelled"),
  (("Parser", "ParserParams", "many"), "modelled"),
  (("ParserParam", "Label", "set"), "modelled"),
  (("ParserParam", "Label", "absent"), "modelled"),
  (("ParserParam", "Val", "set"), "modelled"),
  (("LineFormat", "Val", "set"), "handover"),
  (("LabelFormat", "LabelFormatOps", "1"), "handover"),
  (("LabelFormat", "LabelFormatOps", "many"), "handover"),
  (("LabelFormatOp", "Label", "set"), "handover"),
  (("LabelFormatOp", "LabelVal", "set"), "handover"),
  (("LabelFormatOp", "LabelVal", "absent"), "handover"),
  (("LabelFormatOp", "ConstVal", "set"), "handover"),
  (("LabelFormatOp", "ConstVal", "absent"), "handover"),
  (("Unwrap", "Fn", "=unwrap"), "outside: a log query carries no unwrap stage (metric queries: C08)"),
  (("Unwrap", "Fn", "=unwrap_value"), "outside: a log query carries no unwrap stage (metric queries: C08)"),
  (("Unwrap", "Label", "set"), "outside: a log query carries no unwrap stage (metric queries: C08)"),
  (("Unwrap", "Label", "absent"), "outside: a log query carries no unwrap stage (metric queries: C08)"),
  (("Drop", "Fn", "=drop"), "modelled"),
  (("Drop", "Params", "0"), "outside: `| drop` without a label renders an empty lambda (no such query in Loki)"),
  (("Drop", "Params", "1"), "modelled"),
  (("Drop", "Params", "many"), "modelled"),
  (("DropParam", "Label", "set"), "modelled"),
  (("DropParam", "Val", "set"), "modelled"),
  (("DropParam", "Val", "absent"), "modelled")
]

def classOf (p : String × String × String) : Option String := classTable.lookup p

/-- the productions the generator has to cover -/
def mustEmit : List (String × String × String) :=
  (classTable.filter (fun e => e.2 == "modelled" || e.2 == "handover")).map (·.1)

end Qryn.LogQL.GrammarC07
