import Qryn.Sql.SemX
import Qryn.LogQL.Sem
import Qryn.LogQL.PlannerX
/-! Direct semantics (no SQL) of a LogQL log query whose pipeline has `| json l="path"`, `| regexp`, `| drop` and
    filters after them: the *specification* `planLogX` is proved against. The stages act on the entries one after
    the other, in pipeline order; an entry carries its line, its timestamp, its current label set and the
    fingerprint of that set. JSON path extraction, RE2 capture groups and CityHash64 are the oracles of `Sql.Sem`. -/
namespace Qryn.LogQL
open Qryn Qryn.Sql

abbrev Labels := List (Bytes × Bytes)

structure EntryX where
  fp : Int
  ts : Int
  labels : Labels
  line : Bytes
deriving Repr, DecidableEq

/-- the label set after a label-rewriting stage; extracted labels replace stored or earlier extracted ones of the
    same name (`mapUpdate`), a regexp group that is unnamed or captured nothing sets no label -/
def applyChanger (o : Oracles) (line : Bytes) (l : Labels) : Changer → Labels
  | .json ps => mapUpdate l (ps.map (fun p => (p.1, o.jsonField line p.2)))
  | .regexp names re => mapUpdate l (regexPairs names (o.reCaps re line))
  | .drop ps => l.filter (dropKeeps ps)

/-- the entry moves to the series of its new label set -/
def relabel (o : Oracles) (c : Changer) (e : EntryX) : EntryX :=
  let l := applyChanger o e.line e.labels c
  { e with labels := l, fp := o.cityHash (sortPairs l) }

def stageHolds (o : Oracles) (e : EntryX) : Stage → Bool
  | .line f => lineHolds o f e.line
  | .label lc => labelCondHolds o e.labels lc

def stageX (o : Oracles) (es : List EntryX) : StageX → List EntryX
  | .fl s => es.filter (fun e => stageHolds o e s)
  | .ch c => es.map (relabel o c)

def stagesX (o : Oracles) (ss : List StageX) (es : List EntryX) : List EntryX := ss.foldl (stageX o) es

/-- the entries the part before the first label-rewriting stage lets through, with their stream's labels, in
    timestamp order (newest first unless forward) -/
def entriesAtJoin (o : Oracles) (c : Ctx) (d : LokiDb) (q0 : LogQuery) : List EntryX :=
  (limited o { c with limit := 0 } d q0).map (fun s => ⟨s.fp, s.ts, asMap (labelsOf o c d q0 s.fp), s.str⟩)

def EntryX.row (e : EntryX) : Row :=
  [("fingerprint", .int e.fp), ("labels", .map e.labels), ("string", .str e.line), ("timestamp_ns", .int e.ts)]

def tsLeX (c : Ctx) (a b : EntryX) : Bool := if c.orderAsc then decide (a.ts ≤ b.ts) else decide (b.ts ≤ a.ts)

def takeLimit {α} (limit : Int) (l : List α) : List α := if limit = 0 then l else l.take limit.toNat

def finalKeysX (c : Ctx) (fin : Bool) : List (String × Dir) :=
  if fin then [("fingerprint", dirOf c), ("timestamp_ns", dirOf c)] else [("timestamp_ns", dirOf c)]

/-- **the specification**: what ClickHouse is asked to return for the SQL-side stages `q`, the limit applying only
    when the whole script runs there (`fin`): the entries that pass the stages, in timestamp order, cut at the limit,
    then ordered by series. (Entries with equal timestamps: ClickHouse leaves their order open; `sortBy` fixes one, and
    the statement sorts by timestamp once more after the stages — so does the specification.) -/
def evalLogX (o : Oracles) (c : Ctx) (fin : Bool) (d : LokiDb) (q : LogQueryX) : Table :=
  let pre := (splitPre q.stages).1
  let post := (splitPre q.stages).2
  let q0 : LogQuery := ⟨q.matchers, pre⟩
  match post with
  | [] => sortBy (rowLe (finalKeysX c fin)) ((limited o (limCtx c fin) d q0).map (outRow o c d q0))
  | _ :: _ =>
    sortBy (rowLe (finalKeysX c fin))
      ((takeLimit (limCtx c fin).limit (sortBy (tsLeX c) (stagesX o post (entriesAtJoin o c d q0)))).map EntryX.row)

/-- the specification for a whole script: the stages up to the hand-over -/
def evalScript (o : Oracles) (c : Ctx) (d : LokiDb) (matchers : List Matcher) (ss : List ScriptStage) : Table :=
  evalLogX o c (finalizes ss) d ⟨matchers, sqlPrefix ss⟩

end Qryn.LogQL
