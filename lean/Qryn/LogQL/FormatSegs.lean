import Qryn.Sql.SegsOf
import Qryn.LogQL.ProcessFormat
/-! The SQL objects of `| line_format` and `| label_format` in reader/logql/logql_transpiler_v2/clickhouse_planner
    (planner_line_format.go, planner_label_format.go, sql_misc.go `sqlFormat` / `sqlMapInit` / `sqlMapUpdate`), as segment
    lists: raw text written by `fmt.Sprintf`, and the string leaves that go through `sql.NewStringVal`.

    `LineFormatPlanner.ProcessTpl` parses the template with text/template (environment: the harness hands over the nodes in
    the order `visitNodes` meets them: `TplNode` of LogQL/ProcessFormat.lean, C14's model of the same code) and builds `formatStr` (`fmtText`) — the TEXT nodes verbatim, `{n}` for the n-th FIELD node — and
    `args` (`fmtArgs`): one custom column `labels[<Ident[0]>]` per field node, the name through `NewStringVal`. `sqlFormat.String`
    writes `format(<NewStringVal(formatStr)>, <args joined by ", ">)`.

    `LabelFormatPlanner.Process`: `mapUpdate(<labels>, ([k₀,…],[v₀,…])::Map(String, String))` with `kᵢ = NewStringVal(name)`
    and `vᵢ` either `labels[<NewStringVal(src)>]` (rename) or a `sqlFormat` of the constant's template.
    (Since the `fix:` that hands `| label_format` to the in-process engine, and because `GetBreakpoint` stops at
    `| line_format`, neither object is reachable from the HTTP API; both are reachable through the exported
    `clickhouse_planner.Plan` / the exported planner types, which is how the correspondence stream drives them.) -/
namespace Qryn.LogQL
open Qryn Qryn.Sql

/-- the custom column `labels[<name>]` of `fieldNode` and of a `label_format` rename -/
def labelRefSegs (name : Bytes) : List Seg := [.raw (b "labels["), .str name, .raw (b "]")]

/-- `sqlFormat.String` -/
def sqlFormatSegs (fmt : Bytes) (args : List (List Seg)) : List Seg :=
  [.raw (b "format("), .str fmt, .raw (b ", ")] ++ joinS (b ", ") args ++ [.raw (b ")")]

/-- the object `LineFormatPlanner.Process` puts in the `string` column -/
def lineFormatSegs (tpl : List TplNode) : List Seg :=
  sqlFormatSegs (fmtText 0 tpl) ((fmtArgs tpl).map labelRefSegs)

/-- one operation of `| label_format`: `name=src` or `name="template"` (nodes of the unquoted constant) -/
inductive LFOp
  | rename (name src : Bytes)
  | tmpl (name : Bytes) (tpl : List TplNode)
deriving DecidableEq, Repr

def LFOp.keySegs : LFOp → List Seg
  | .rename name _ => [.str name]
  | .tmpl name _ => [.str name]

def LFOp.valSegs : LFOp → List Seg
  | .rename _ src => labelRefSegs src
  | .tmpl _ tpl => lineFormatSegs tpl

/-- `sqlMapInit.String` with `TypeName = "Map(String, String)"` -/
def mapInitSegs (keys vals : List (List Seg)) : List Seg :=
  [.raw (b "([")] ++ joinS (b ",") keys ++ [.raw (b "],[")] ++ joinS (b ",") vals ++ [.raw (b "])::Map(String, String)")]

/-- the object `LabelFormatPlanner.Process` puts in the `labels` column; `labels` = the rendering of the column it patches -/
def labelFormatSegs (labels : List Seg) (ops : List LFOp) : List Seg :=
  [.raw (b "mapUpdate(")] ++ labels ++ [.raw (b ", ")] ++ mapInitSegs (ops.map LFOp.keySegs) (ops.map LFOp.valSegs) ++ [.raw (b ")")]

def lineFormatText (tpl : List TplNode) : Bytes := renderSegs (lineFormatSegs tpl)
def labelFormatText (labelsCol : String) (ops : List LFOp) : Bytes := renderSegs (labelFormatSegs [.raw (b labelsCol)] ops)

end Qryn.LogQL
