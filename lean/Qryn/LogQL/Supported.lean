import Qryn.LogQL.SemMetric
/-! The class of metric queries for which the whole-plan equality `evalSelA (planMetric c q) = evalMetric c q` is
    *proved* (`Qryn.C08.plan_metric_correct`), as decidable predicates; the driver uses the same predicates to label the
    cases of the semantic stream, so the evidence shows how many cases fall under the theorem and how many are only
    searched. -/
namespace Qryn.LogQL
open Qryn Qryn.Sql

/-- the queries the plan-level theorem covers: the range aggregation is rate / count_over_time / bytes_rate /
    bytes_over_time (no unwrap), its range positive (any unit down to nanoseconds), at most 63 stream matchers; any vector
    aggregation (sum / min / max / avg / count / stddev / stdvar, with or without grouping clause) -/
def supported (q : MetricQuery) : Bool :=
  (match q.rangeAgg.kind with | .lra _ => true | .unwrap _ _ => false) &&
  decide (0 < q.rangeAgg.durNs) && decide (q.rangeAgg.sel.matchers.length ≤ 63)

/-- the unwrapped range aggregations the plan-level theorem `plan_metric_correct_unwrap` covers: rate / sum / avg / min /
    max / first / last_over_time over `| unwrap <label>` (with or without grouping clause), same side conditions -/
def supportedU (q : MetricQuery) : Bool :=
  (match q.rangeAgg.kind with
   | .unwrap _ _ => true
   | .lra _ => false) &&
  decide (0 < q.rangeAgg.durNs) && decide (q.rangeAgg.sel.matchers.length ≤ 63)

/-- the database with the `samples` table read in timestamp order (ascending when the request is forward): the plan of
    an unwrapped range aggregation orders `main` by timestamp before it joins the labels and groups -/
def sortedDb (c : Ctx) (d : LokiDb) : LokiDb := { d with samples := sortBy (tsLe c) d.samples }

/-- what the metrics_15s shortcut relies on (executable form): no negative timestamp, and the line filters it does not
    plan pass every stored line -/
def shortcutOkB (o : Oracles) (d : LokiDb) (q : MetricQuery) : Bool :=
  d.samples.all (fun s => decide (0 ≤ s.ts)) &&
  d.samples.all (fun s => (lineFilters q.rangeAgg.sel).all (fun f => lineHolds o f s.str))

def optN {α} : Option α → Nat
  | some _ => 1
  | none => 0

/-- number of matrix planners the plan chains (range function, by/without, aggregation, topk, comparisons, StepFix) -/
def stageCount (c : MCtx) (q : MetricQuery) : Nat :=
  let r := q.rangeAgg
  1 + optN r.cmp +
  (match q.agg? with
   | some a => 1 + optN (chosenGrouping a.byPrefix a.bySuffix) + optN a.cmp
   | none => 0) +
  (match q with | .topk t => 1 + optN t.cmp | _ => 0) +
  (if c.stepNs ≤ (r.durNs : Int) then 0 else 1)

def shapeName : MetricQuery → String
  | .range _ => "range"
  | .agg _ => "agg"
  | .topk t => match t.inner with | .range _ => "topk(range)" | .agg _ => "topk(agg)"

/-- label of a case of the semantic stream: `proved:<path>:<shape>` when `plan_metric_correct` applies to it (its
    hypotheses hold: `supported`, and `ShortcutOk` on the metrics_15s path), else `searched:<why>` -/
def planClass (o : Oracles) (c : MCtx) (d : LokiDb) (q : MetricQuery) : String :=
  let path := if takesShortcut q then "metrics_15s" else "samples"
  if supported q && (!takesShortcut q || shortcutOkB o d q) then
    s!"proved:{path}:{shapeName q}"
  else if supportedU q then
    s!"proved-in-timestamp-order:samples:{shapeName q}"
  else
    let why :=
      match q.rangeAgg.kind with
      | .unwrap _ _ => "unwrap"
      | .lra _ => "other"
    s!"searched:{why}:{shapeName q}"

end Qryn.LogQL
