import Qryn.Base.Bytes
/-! The fragment of the LogQL AST (logql_parser/model_v2.go) the planner model covers. -/
namespace Qryn.LogQL

inductive MatchOp | eq | neq | re | nre
deriving DecidableEq, Repr

structure Matcher where
  label : Bytes
  op : MatchOp
  val : Bytes          -- unquoted
deriving DecidableEq, Repr

inductive LineOp | contains | notContains | re | nre
deriving DecidableEq, Repr

/-- result of `re2Like` (regexp/syntax says the pattern is one literal): the literal and the fold-case flag.
    Supplied by the environment: RE2 parsing is not modelled. -/
structure LikeInfo where
  lit : Bytes
  insensitive : Bool
deriving DecidableEq, Repr

structure LineFilter where
  op : LineOp
  val : Bytes
  like : Option LikeInfo := none
deriving DecidableEq, Repr

/-- a number literal `Integer "."? Integer*` kept as its digits -/
structure NumLit where
  int : Nat
  frac : List Nat       -- decimal digits after the point
deriving DecidableEq, Repr

inductive CmpOp | eq | neq | gt | ge | lt | le
deriving DecidableEq, Repr

inductive LabelCond
  | str (label : String) (op : MatchOp) (val : Bytes)
  | num (label : String) (op : CmpOp) (val : NumLit)
  | and (l r : LabelCond)
  | or (l r : LabelCond)
deriving DecidableEq, Repr

inductive Stage
  | line (f : LineFilter)
  | label (c : LabelCond)
deriving DecidableEq, Repr

structure LogQuery where
  matchers : List Matcher
  stages : List Stage
deriving DecidableEq, Repr

end Qryn.LogQL
