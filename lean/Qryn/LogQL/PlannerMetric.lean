import Qryn.LogQL.Planner
import Qryn.LogQL.AstMetric
/-! Model of reader/logql/logql_transpiler_v2/clickhouse_planner for metric queries (`StrSelector == nil`)
    whose inner selector is of the C07 fragment (stream selector, line filters, label filters before any
    parser), optionally ending in `| unwrap <label>`.
    Mirrors: planner.go (`plan`, `planSpl`, `planMetrics15Shortcut`, `planLRA`, `planUnwrapFn`,
    `planByWithout`, `planAgg`, `planTopK`, `planComparison`, `planUnwrap`), analyze.go (`analyzeScript`,
    `AnalyzeMetrics15sShortcut`, `getFunctionOrder`), planner_lra.go, planner_unwrap.go (`processSimple`),
    planner_unwrap_function.go, planner_agg_op.go, planner_by_without.go, planner_comparison.go,
    planner_topk.go, planner_step_fix.go, planner_metrics15s_shortcut.go, planner_labels_joiner.go,
    planner_main_order_by.go, planner_main_finalizer.go (`processMatrix`), sql_misc.go
    (`labelsFromScratch`, `patchCol`, `hasColumn`, `getCol`). The tree mirrored is the fixed one
    (see notes/C08.md). -/

namespace Qryn.LogQL
open Qryn Qryn.Sql

structure MCtx extends Ctx where
  stepNs : Int                -- ctx.Step
  metrics15Table : String     -- ctx.Metrics15sTableName
deriving Repr

/-- `hasColumn`: an `Aliased` column of that alias -/
def hasColumn (cols : List Expr) (name : String) : Bool :=
  cols.any (fun | .col _ a => a == name | _ => false)

/-- `patchCol` -/
def patchCol (cols : List Expr) (name : String) (f : Expr → Expr) : List Expr :=
  cols.map (fun | .col e a => if a == name then .col (f e) name else .col e a | c => c)

/-- LRAPlanner's in-place rename of the column aliased `string` -/
def renameCol (cols : List Expr) (old new : String) : List Expr :=
  cols.map (fun | .col e a => if a == old then .col e new else .col e a | c => c)

/-- `getCol` -/
def getCol (cols : List Expr) (name : String) : Option Expr :=
  cols.findSome? (fun | .col e a => if a == name then some e else none | _ => none)

def emptyStr : Expr := .col (.lit "") "string"       -- `'' as string`

/-! ### analysis -/
def chosenGrouping (pre suf : Option Grouping) : Option Grouping :=
  match suf with | some g => some g | none => pre       -- `planByWithout`: the last non-nil argument wins

def RangeAgg.isUnwrap (r : RangeAgg) : Bool := match r.kind with | .unwrap _ _ => true | .lra _ => false

def VecAgg.grouped (a : VecAgg) : Bool := a.byPrefix.isSome || a.bySuffix.isSome

/-- `planAgg`: the grouping of a vector aggregation; none written = `by ()`, the empty label set -/
def aggGrouping (a : VecAgg) : Grouping := (chosenGrouping a.byPrefix a.bySuffix).getD ⟨true, []⟩

def MetricQuery.agg? : MetricQuery → Option VecAgg
  | .agg a => some a
  | .topk t => (match t.inner with | .agg a => some a | .range _ => none)
  | .range _ => none

/-- a line filter the 15 s shortcut may drop: empty needle and a positive operator -/
def lineFilterTrivial (f : LineFilter) : Bool := f.val.isEmpty && (f.op == .contains || f.op == .re)

def slot15 : Nat := 15000000000

/-- `AnalyzeMetrics15sShortcut` -/
def takesShortcut (q : MetricQuery) : Bool :=
  let r := q.rangeAgg
  match r.kind with
  | .lra fn => (fn == .rate || fn == .countOverTime) && decide (slot15 ≤ r.durNs) && r.durNs % slot15 == 0 &&
      (lineFilters r.sel).all lineFilterTrivial
  | .unwrap _ _ => false

/-- `matrixFunctionsLabelsIDX != -1` after analysis (resp. after `planMetrics15Shortcut`) -/
def matrixLabels (q : MetricQuery) : Bool :=
  (q.rangeAgg.isUnwrap && !takesShortcut q) || q.agg?.isSome

/-! ### the planned steps (`matrixFunctionsOrder`, resp. the calls of `planMetrics15Shortcut`) -/
inductive Step
  | lra (fn : RangeFn) (durNs : Nat)
  | shortcut (fn : RangeFn) (durNs : Nat)
  | unwrapFn (fn : UnwrapFn) (durNs : Nat) (g : Option Grouping)
  | agg (fn : AggFn) (g : Option Grouping)
  | topk (isTop : Bool) (k : Nat)
  | cmp (c : Comparison)
deriving DecidableEq, Repr

def cmpStep : Option Comparison → List Step
  | none => []
  | some c => [.cmp c]

/-- `getFunctionOrder` on an `LRAOrUnwrap` node -/
def orderRange (r : RangeAgg) : List Step :=
  (match r.kind with
   | .unwrap fn _ => [Step.unwrapFn fn r.durNs (chosenGrouping r.byPrefix r.bySuffix)]
   | .lra fn => [Step.lra fn r.durNs]) ++ cmpStep r.cmp

def orderAgg (a : VecAgg) : List Step :=
  orderRange a.inner ++ [Step.agg a.fn (some (aggGrouping a))] ++ cmpStep a.cmp

/-- `getFunctionOrder` -/
def functionOrder : MetricQuery → List Step
  | .range r => orderRange r
  | .agg a => orderAgg a
  | .topk t => (match t.inner with | .range r => orderRange r | .agg a => orderAgg a) ++
      [Step.topk t.isTop t.k] ++ cmpStep t.cmp

/-- in the shortcut the range node plans `Metrics15ShortcutPlanner` instead of planSpl + `LRAPlanner` -/
def shortcutRange (r : RangeAgg) : List Step :=
  (match r.kind with
   | .lra fn => [Step.shortcut fn r.durNs]
   | .unwrap fn _ => [Step.unwrapFn fn r.durNs (chosenGrouping r.byPrefix r.bySuffix)]) ++ cmpStep r.cmp

def shortcutAgg (a : VecAgg) : List Step :=
  shortcutRange a.inner ++ [Step.agg a.fn (some (aggGrouping a))] ++ cmpStep a.cmp

/-- the calls `planMetrics15Shortcut` makes, in order -/
def shortcutOrder : MetricQuery → List Step
  | .range r => shortcutRange r
  | .agg a => shortcutAgg a
  | .topk t => (match t.inner with | .range r => shortcutRange r | .agg a => shortcutAgg a) ++
      [Step.topk t.isTop t.k] ++ cmpStep t.cmp

def planSteps (q : MetricQuery) : List Step := if takesShortcut q then shortcutOrder q else functionOrder q

/-! ### the selects of the single planners -/

/-- the fingerprint planner's select (`planTS`): stream selector wrapped by the simple label filters; its own
    WITH list holds the inner `subsel_<k>` -/
def fpQuery (c : Ctx) (q : LogQuery) : Sel :=
  let chain := fpChain c (streamSelect c q.matchers) 0 (labelConds q)
  match chain.getLast? with
  | some (_, s) => s.setWiths chain.dropLast
  | none => streamSelect c q.matchers

def fpWith (c : Ctx) (q : LogQuery) : Alias × Sel := (.named "fp_sel", fpQuery c q)

/-- `SqlMainInitPlanner` -/
def samplesInit (c : Ctx) : Sel :=
  .mk [] false
    [simpleCol "samples.timestamp_ns" "timestamp_ns", simpleCol "samples.fingerprint" "fingerprint",
     simpleCol "samples.string" "string", simpleCol "toFloat64(0)" "value"]
    (some (.col (.raw c.samplesTable) "samples")) []
    (some (and_ [ge (.raw "samples.timestamp_ns") (.int c.fromNs),
                 lt (.raw "samples.timestamp_ns") (.int c.toNs), getTypes c]))
    none [] none [] none

/-- `FingerprintFilterPlanner` (through `WithConnectorPlanner`): `main.With(fp_sel)`, `AndWhere(samples.fingerprint IN fp_sel)` -/
def fingerprintFilter (c : Ctx) (q : LogQuery) (main : Sel) : Sel :=
  (main.with_ [fpWith c q]).andWhere [.isIn (.raw "samples.fingerprint") [.withRef (.named "fp_sel")]]

/-- `planSpl` for the line filters of the selector (simple label filters plan nothing here) -/
def samplesMain (c : Ctx) (q : LogQuery) : Sel :=
  (lineFilters q).foldl (fun s f => s.andWhere [lineClause f]) (fingerprintFilter c q (samplesInit c))

/-- the literal `fmt.Sprintf("%f", float64(d.Milliseconds())/1000)`: whole milliseconds over 1000 (only the metrics_15s shortcut
    still writes it: its ranges are multiples of 15 s) -/
def secLit (durNs : Nat) : Expr := .fixedLit (durNs / 1000000) 3

/-- `intDiv(<src>, d) * d as timestamp_ns` -/
def bucketCol (src : String) (d : Int) : Expr :=
  .col (.mulOp (.call "intDiv" [.raw src, .int d]) (.int d)) "timestamp_ns"

def countF : Expr := .call "toFloat64" [.call "COUNT" []]
def bytesF : Expr := .call "toFloat64" [.call "sum" [.call "length" [.raw "_string"]]]

/-- `x * 1000000000 / <range in ns>`: per second of the range, whatever its unit (after the `fix:` of the truncated
    `Milliseconds()/1000` divisor) -/
def perSecond (x ns : Expr) : Expr := .divOp (.mulOp x (.int 1000000000)) ns

/-- the `switch l.Func` of `LRAPlanner.Process`; `ns` is the range in nanoseconds (`%d` of `Duration.Nanoseconds()`) -/
def lraValue (fn : RangeFn) (ns : Expr) : Expr :=
  match fn with
  | .rate => perSecond countF ns
  | .countOverTime => countF
  | .bytesRate => perSecond bytesF ns
  | .bytesOverTime => bytesF

/-- `LRAPlanner.Process` -/
def lraSel (fn : RangeFn) (durNs : Nat) (withLabels : Bool) (main : Sel) : Sel :=
  let main' := main.setCols (renameCol main.cols "string" "_string")
  (Sel.mk [] false
    ([bucketCol "time_series.timestamp_ns" durNs, simpleCol "fingerprint" "fingerprint", emptyStr,
      .col (lraValue fn (.int durNs)) "value"] ++
      (if withLabels then [.col (.call "any" [.raw "labels"]) "labels"] else []))
    (some (.col (.withRef (.named "agg_a")) "time_series")) [] none none
    [.raw "fingerprint", .raw "timestamp_ns"] none [] none).with_ [(.named "agg_a", main')]

/-- the `switch m.Function` of `Metrics15ShortcutPlanner.Process` -/
def shortcutValue (fn : RangeFn) (sec : Expr) : Expr :=
  match fn with
  | .rate => .divOp (.call "toFloat64" [.call "countMerge" [.raw "count"]]) sec
  | _ => .call "countMerge" [.raw "count"]

/-- `Metrics15ShortcutPlanner.GetQuery` -/
def metrics15Sel (c : MCtx) (fn : RangeFn) (durNs : Nat) : Sel :=
  .mk [] false
    [bucketCol "samples.timestamp_ns" durNs, simpleCol "fingerprint" "fingerprint", emptyStr,
     .col (shortcutValue fn (secLit durNs)) "value"]
    (some (.col (.raw c.metrics15Table) "samples")) [] none
    (some (and_ [ge (.raw "samples.timestamp_ns") (.int (Int.tdiv c.fromNs slot15 * slot15)),
                 lt (.raw "samples.timestamp_ns") (.int (Int.tdiv c.toNs slot15 * slot15)), getTypes c.toCtx]))
    [.raw "fingerprint", .raw "timestamp_ns"] none [] none

def joinType (c : Ctx) : String := if c.isCluster then "GLOBAL ANY LEFT " else "ANY LEFT "

def groupingKeys (g : Grouping) : List Bytes := g.labels.map (fun l => l.toUTF8.toList)

/-- `byWithoutFilterCol` -/
def byWithoutCol (g : Grouping) (labelsCol : Expr) : Expr := .mapFilterKeys g.isBy (groupingKeys g) labelsCol

def hashLabels : Expr := .call "cityHash64" [.raw "labels"]

/-- `ByWithoutPlanner.processTSTable` with an empty labels cache; `id` = ids handed out so far -/
def byWithoutTS (c : Ctx) (id : Nat) (g : Grouping) (main : Sel) : Sel :=
  let ts := timeSeriesSel c
  let labelsSel := ts.setCols (patchCol ts.cols "labels" (byWithoutCol g) ++ [.col hashLabels "new_fingerprint"])
  let l := "labels_" ++ toString (id + 1)
  let p := "pre_without_" ++ toString (id + 2)
  (Sel.mk [] false
    [simpleCol (l ++ ".new_fingerprint") "fingerprint", simpleCol (p ++ ".timestamp_ns") "timestamp_ns",
     simpleCol (p ++ ".value") "value", emptyStr, simpleCol (l ++ ".labels") "labels"]
    (some (.withRef (.named p)))
    [(joinType c, .named l, eq (.raw (p ++ ".fingerprint")) (.raw (l ++ ".fingerprint")))]
    none none [] none [] none).with_ [(.named p, main), (.named l, labelsSel)]

/-- `ByWithoutPlanner.processSimple` -/
def byWithoutSimple (id : Nat) (g : Grouping) (main : Sel) : Sel :=
  let p := "pre_by_without_" ++ toString (id + 1)
  (Sel.mk [] false
    [simpleCol "timestamp_ns" "timestamp_ns", .col hashLabels "fingerprint",
     .col (byWithoutCol g (.raw (p ++ ".labels"))) "labels", simpleCol "string" "string", simpleCol "value" "value"]
    (some (.withRef (.named p))) [] none none [] none [] none).with_ [(.named p, main)]

/-- planner state: the select built so far and the value of the `ctx.Id()` counter -/
structure PState where
  sel : Sel
  id : Nat

/-- `planByWithout` + `ByWithoutPlanner.Process` (`UseTimeSeriesTable = labelsJoinIdx == -1`) -/
def planByWithout (c : Ctx) (useTS : Bool) (g : Option Grouping) (s : PState) : PState :=
  match g with
  | none => s
  | some g => if useTS then ⟨byWithoutTS c s.id g s.sel, s.id + 2⟩ else ⟨byWithoutSimple s.id g s.sel, s.id + 1⟩

/-- the `switch u.Func` of `UnwrapFunctionPlanner.Process`; `ns` is the range in nanoseconds -/
def unwrapValue (fn : UnwrapFn) (ns : Expr) : Expr :=
  let v := Expr.raw "unwrap_1.value"
  let t := Expr.raw "unwrap_1.timestamp_ns"
  match fn with
  | .rate => perSecond (.call "sum" [v]) ns
  | .sumOT => .call "sum" [v]
  | .avgOT => .call "avg" [v]
  | .maxOT => .call "max" [v]
  | .minOT => .call "min" [v]
  | .firstOT => .call "argMin" [v, t]
  | .lastOT => .call "argMax" [v, t]
  | .stdvarOT => .call "varPop" [v]
  | .stddevOT => .call "stddevPop" [v]

/-- `UnwrapFunctionPlanner.Process` -/
def unwrapFnSel (fn : UnwrapFn) (durNs : Nat) (main : Sel) : Sel :=
  (Sel.mk [] false
    [bucketCol "timestamp_ns" durNs, .raw "fingerprint", emptyStr, .col (unwrapValue fn (.int durNs)) "value",
     .col (.call "any" [.raw "labels"]) "labels"]
    (some (.withRef (.named "unwrap_1"))) [] none none
    [.raw "fingerprint", .raw "timestamp_ns"] none [] none).with_ [(.named "unwrap_1", main)]

/-- the `switch b.Func` of `AggOpPlanner.Process` -/
def aggValue (fn : AggFn) : Expr :=
  let v := Expr.raw "lra_main.value"
  match fn with
  | .sum => .call "sum" [v]
  | .min => .call "min" [v]
  | .max => .call "max" [v]
  | .avg => .call "avg" [v]
  | .stddev => .call "stddevPop" [v]
  | .stdvar => .call "varPop" [v]
  | .count => .call "count" []

/-- `AggOpPlanner.Process` -/
def aggSel (fn : AggFn) (withLabels : Bool) (main : Sel) : Sel :=
  (Sel.mk [] false
    ([simpleCol "fingerprint" "fingerprint", .col (aggValue fn) "value",
      simpleCol "lra_main.timestamp_ns" "timestamp_ns", emptyStr] ++
      (if withLabels then [.col (.call "any" [.raw "lra_main.labels"]) "labels"] else []))
    (some (.withRef (.named "lra_main"))) [] none none
    [.raw "fingerprint", .raw "timestamp_ns"] none [] none).with_ [(.named "lra_main", main)]

/-- `TopKPlanner.Process` -/
def topkSel (isTop : Bool) (k : Nat) (main : Sel) : Sel :=
  let hasLabels := hasColumn main.cols "labels"
  let parB := (Sel.mk [] false
    [simpleCol "par_a.timestamp_ns" "timestamp_ns", .col (.topkSlice isTop hasLabels k) "slice"]
    (some (.withRef (.named "par_a"))) [] none none [.raw "timestamp_ns"] none [] none).with_ [(.named "par_a", main)]
  (Sel.mk [] false
    ([.col (.tupleAt "arr_b" 2) "fingerprint", simpleCol "par_b.timestamp_ns" "timestamp_ns",
      .col (.tupleAt "arr_b" 1) "value", emptyStr] ++
      (if hasLabels then [.col (.tupleAt "arr_b" 3) "labels"] else []))
    (some (.arrayJoinFrom (.withRef (.named "par_b")) (simpleCol "par_b.slice" "arr_b")))
    [] none none [] none [] none).with_ [(.named "par_b", parB)]

/-- `sql.NewFloatVal(strconv.ParseFloat(script.Val))`: at most six decimals are kept by `%f` -/
def cmpLit (n : NumLit) : Expr :=
  let frac := n.frac.take 6
  .fixedLit (n.int * 10 ^ frac.length + frac.foldl (fun acc d => acc * 10 + d) 0) frac.length

def cmpExpr (cm : Comparison) : Expr :=
  let l := Expr.raw "value"
  let r := cmpLit cm.val
  match cm.op with
  | .gt => gt l r | .lt => lt l r | .ge => ge l r | .le => le l r | .eq => eq l r | .neq => neq l r

/-- `ComparisonPlanner.Process` -/
def comparisonSel (cm : Comparison) (main : Sel) : Sel := main.andHaving [cmpExpr cm]

/-- `StepFixPlanner.Process` -/
def stepFixSel (c : MCtx) (durNs : Nat) (main : Sel) : Sel :=
  if c.stepNs ≤ (durNs : Int) then main
  else
    (Sel.mk [] false
      ([bucketCol "pre_step_fix.timestamp_ns" c.stepNs, .raw "fingerprint", emptyStr,
        .col (.call "argMin" [.raw "pre_step_fix.value", .raw "pre_step_fix.timestamp_ns"]) "value"] ++
        (if hasColumn main.cols "labels" then [.col (.call "any" [.raw "labels"]) "labels"] else []))
      (some (.withRef (.named "pre_step_fix"))) [] none none
      [.raw "timestamp_ns", .raw "fingerprint"] none [] none).with_ [(.named "pre_step_fix", main)]

/-- the time-series select restricted to the selected fingerprints, as `LabelsJoinPlanner` builds it -/
def tsWith (c : Ctx) (q : LogQuery) : Alias × Sel := (.named "_time_series", (timeSeriesSel c).with_ [fpWith c q])

/-- `LabelsJoinPlanner.Process` around `main` -/
def labelsJoin (c : Ctx) (q : LogQuery) (main : Sel) : Sel :=
  (joinedSel c).with_ [(.named "main", main), tsWith c q]

/-- `UnwrapPlanner.processSimple` on the joined select -/
def unwrapSel (label : String) (joined : Sel) : Sel :=
  let src : Expr :=
    if label = "_entry" then (getCol joined.cols "string").getD (.raw "string")
    else .mapAt ((getCol joined.cols "labels").getD (.raw "labels")) label.toUTF8.toList
  joined.setCols (patchCol joined.cols "value" (fun _ => .call "toFloat64OrZero" [src]))

/-- `MainFinalizerPlanner.processMatrix` -/
def finalizeMatrix (req : Sel) : Sel :=
  (Sel.mk [] false
    [simpleCol "prefinal.fingerprint" "fingerprint", simpleCol "prefinal.labels" "labels",
     simpleCol "prefinal.value" "value", simpleCol "prefinal.timestamp_ns" "timestamp_ns"]
    (some (.withRef (.named "prefinal"))) [] none none [] none
    [.orderBy (.raw "fingerprint") .asc, .orderBy (.raw "timestamp_ns") .asc] none).with_ [(.named "prefinal", req)]

/-- the samples side before the matrix functions: `planSpl` (resp. nothing in the shortcut, where the
    `shortcut` step creates the select) -/
def splSel (c : MCtx) (q : MetricQuery) : Sel :=
  let r := q.rangeAgg
  match r.kind with
  | .lra _ => samplesMain c.toCtx r.sel
  | .unwrap _ label =>
    -- labelsJoinIdx = index of the unwrap stage: LabelsJoinPlanner{MainOrderByPlanner{timestamp_ns}}, then UnwrapPlanner
    unwrapSel label (labelsJoin c.toCtx r.sel
      ((samplesMain c.toCtx r.sel).setOrderBy [.orderBy (.raw "timestamp_ns") (dirOf c.toCtx)]))

/-- one entry of `matrixFunctionsOrder` (resp. one call of `planMetrics15Shortcut`) -/
def applyStep (c : MCtx) (q : MetricQuery) (s : PState) : Step → PState
  | .lra fn d => { s with sel := lraSel fn d q.rangeAgg.isUnwrap s.sel }
  | .shortcut fn d => { s with sel := fingerprintFilter c.toCtx q.rangeAgg.sel (metrics15Sel c fn d) }
  | .unwrapFn fn d g =>
    let s' := planByWithout c.toCtx (!q.rangeAgg.isUnwrap) g s
    { s' with sel := unwrapFnSel fn d s'.sel }
  | .agg fn g =>
    let s' := planByWithout c.toCtx (!q.rangeAgg.isUnwrap) g s
    { s' with sel := aggSel fn (matrixLabels q) s'.sel }
  | .topk isTop k => { s with sel := topkSel isTop k s.sel }
  | .cmp cm => { s with sel := comparisonSel cm s.sel }

/-- **`plan()`** for a metric query, `finalize = true`, `CHFinalize = true` -/
def planMetric (c : MCtx) (q : MetricQuery) : Sel :=
  let r := q.rangeAgg
  let init : PState := ⟨splSel c q, (labelConds r.sel).length⟩
  let s := (planSteps q).foldl (applyStep c q) init
  let fixed := stepFixSel c r.durNs s.sel
  let joined := if matrixLabels q then fixed else labelsJoin c.toCtx r.sel fixed
  finalizeMatrix joined

end Qryn.LogQL
