import Qryn.Read.Internal
/-! The LogQL definition of the pipeline stages the in-process engine runs, on a *flat* list of entries
    (no channel, no batches, no carried state): what each stage means, written independently of how
    internal_planner computes it. Line and label filters are `LogQL.lineHolds` / `LogQL.labelCondHolds` of
    `LogQL.Sem` (the reading the ClickHouse path is proved against in C07). A series is a label set; the
    series identity carried in `fp` after a stage that changes labels is the fingerprint of the new set.
    The decoders, templates, RE2 and float arithmetic are the same uninterpreted functions as in the model. -/
namespace Qryn.LogQL.Stages
open Qryn Qryn.Sql Qryn.LogQL Qryn.Read

variable {V : Type}

/-- an entry moved to the series of a new label set -/
def relabel (E : Env V) (e : Entry V) (l : Labels) : Entry V := { e with labels := l, fp := fingerprint E.hash l }

/-! ### filters -/
def lineStage (E : Env V) (op : LineOp) (val : Bytes) (es : List (Entry V)) : List (Entry V) :=
  es.filter (fun e => lineHolds E.o ⟨op, val, none⟩ e.msg)

def labelStage (E : Env V) (c : LabelCond) (es : List (Entry V)) : List (Entry V) :=
  es.filter (fun e => labelCondHolds E.o e.labels c)

/-! ### `| json`: every scalar outside arrays becomes a label named by its path -/
/- scalar leaves in document order, each with the keys leading to it, up to the point where the decoder fails -/
mutual
def leavesVal (path : List Bytes) : JVal → List (List Bytes × Bytes) × Bool
  | .obj _ kvs => leavesKvs path kvs
  | .str s => ([(path, s)], true)
  | .raw t => ([(path, t)], true)
  | .arr _ xs => ([], !hasBadList xs)
  | .bad => ([], false)
def leavesKvs (path : List Bytes) : JKvs → List (List Bytes × Bytes) × Bool
  | .nil => ([], true)
  | .cons k v rest =>
    let r := leavesVal (path ++ [k]) v
    if r.2 then
      let r' := leavesKvs path rest
      (r.1 ++ r'.1, r'.2)
    else r
end

/-- label name of a path: keys joined by `_`, then sanitised -/
def pathLabel (path : List Bytes) : Bytes := sanitizeLabel (path.foldl joinPrefix [])

def jsonLabels (doc : JVal) (l : Labels) : Labels :=
  match doc with
  | .obj _ kvs => (leavesKvs [] kvs).1.foldl (fun acc pv => acc.set (pathLabel pv.1) pv.2) l
  | _ => l

/-! ### `| json name="path"`: the value found by following the path — the content of a string, the source text of a
    number / `true` / `false` / `null`, the JSON text of an object or an array (for a key that occurs twice the last
    occurrence the path leads somewhere in) -/
mutual
def lookupPath : JVal → List PathSeg → Option Bytes
  | .str s, [] => some s
  | .raw t, [] => some t
  | .obj text _, [] => some text
  | .arr text _, [] => some text
  | .obj _ kvs, .key k :: rest => lookupKvs kvs k rest
  | .arr _ xs, .idx i :: rest => lookupList xs i rest
  | _, _ => none
def lookupKvs : JKvs → Bytes → List PathSeg → Option Bytes
  | .nil, _, _ => none
  | .cons k' v rest, k, p =>
    match lookupKvs rest k p with
    | some x => some x
    | none => if k' = k then lookupPath v p else none
def lookupList : JList → Nat → List PathSeg → Option Bytes
  | .nil, _, _ => none
  | .cons v _, 0, p => lookupPath v p
  | .cons _ rest, i + 1, p => lookupList rest i p
end

/-! ### `| json n₁="path₁", n₂="path₂", …` in general. Every value of the document — scalar, object or array — has an
    address (the object keys and array indexes leading to it); going through the values in document order (a composite
    before its members), a value whose address is the path of a parameter gives that parameter's label its text. So a
    label named by several parameters, or addressed through a key that occurs twice, ends with the value that comes last
    in the document. **Every** named label is set: a parameter no value was found for — its path leads nowhere, or the
    line is not one JSON document — sets its label to the empty string (what ClickHouse's
    `mapUpdate(labels, mapFromArrays(names, [JSONExtract…]))` does). -/
mutual
def pleavesVal : JVal → List (List PathSeg × Bytes)
  | .obj text kvs => ([], text) :: pleavesKvs kvs
  | .arr text xs => ([], text) :: pleavesArr 0 xs
  | .str s => [([], s)]
  | .raw t => [([], t)]
  | .bad => []
def pleavesKvs : JKvs → List (List PathSeg × Bytes)
  | .nil => []
  | .cons k v rest => (pleavesVal v).map (fun pv => (PathSeg.key k :: pv.1, pv.2)) ++ pleavesKvs rest
def pleavesArr (i : Nat) : JList → List (List PathSeg × Bytes)
  | .nil => []
  | .cons v rest => (pleavesVal v).map (fun pv => (PathSeg.idx i :: pv.1, pv.2)) ++ pleavesArr (i + 1) rest
end

/-- one value `pv = (address, text)`: every parameter whose path is that address gets the text -/
def setMatching (params : List Ahead) (acc : Labels) (pv : List PathSeg × Bytes) : Labels :=
  params.foldl (fun acc a => if a.2 = pv.1 then acc.set a.1 pv.2 else acc) acc

/-- label ↦ text for the parameters the document has a value for (a document read to the end) -/
def jsonPathFound (params : List Ahead) (doc : JVal) : Labels :=
  (pleavesVal doc).foldl (setMatching params) []

/-- `readable`: the line is one JSON document (`Env.jsonValid`) and the decoder read it to the end -/
def jsonPathLabels (readable : Bool) (params : List Ahead) (doc : JVal) (l : Labels) : Labels :=
  let found := if readable then jsonPathFound params doc else []
  params.foldl (fun acc a => acc.set a.1 (found.get a.1)) l

/-- the reading by lookup, parameter by parameter (equal to the general one when no two parameters share a name:
    `Qryn.C09.jsonParams_distinct_is_lookup`): each label is the text its path leads to, "" when it leads nowhere -/
def jsonParamLabels (readable : Bool) (params : List Ahead) (doc : JVal) (l : Labels) : Labels :=
  params.foldl (fun acc a => acc.set a.1 (if readable then (lookupPath doc a.2).getD [] else [])) l

/-! ### `| logfmt` -/
def logfmtLabels (pairs : List (Bytes × Bytes)) (l : Labels) : Labels :=
  pairs.foldl (fun acc kv => acc.set (sanitizeLabel kv.1) kv.2) l

/-- `| logfmt n₁="k₁", …`: the label a logfmt key is extracted to — the name of the last parameter whose
    expression starts with that key (Loki picks one of them; expressions starting with an index name no key) -/
def fieldParam : List Ahead → Bytes → Option Bytes
  | [], _ => none
  | a :: rest, k =>
    match fieldParam rest k with
    | some n => some n
    | none => if a.2.head? = some (.key k) then some a.1 else none

def logfmtParamLabels (params : List Ahead) (pairs : List (Bytes × Bytes)) (l : Labels) : Labels :=
  pairs.foldl (fun acc kv => match fieldParam params kv.1 with
    | some name => if name.isEmpty then acc else acc.set name kv.2
    | none => acc) l

def parserLabels (E : Env V) (k : ParserKind) (msg : Bytes) (l : Labels) : Labels :=
  match k with
  | .json => jsonLabels (E.jsonDecode msg) l
  | .jsonParams ps => jsonPathLabels (E.jsonValid msg && !hasBad (E.jsonDecode msg)) ps (E.jsonDecode msg) l
  | .logfmt => logfmtLabels (E.logfmtDecode msg) l
  | .logfmtParams ps => logfmtParamLabels ps (E.logfmtDecode msg) l

def parserStage (E : Env V) (k : ParserKind) (es : List (Entry V)) : List (Entry V) :=
  es.map (fun e => relabel E e (parserLabels E k e.msg e.labels))

/-! ### label_format, line_format, drop, unwrap -/
def labelFormatStage (E : Env V) (ops : List FormatOp) (es : List (Entry V)) : List (Entry V) :=
  es.map (fun e => relabel E e (ops.foldl (fun m op => match op with
    | .const l v => m.set l v
    | .copy l src => if (m.get src).isEmpty then m else m.set l (m.get src)) e.labels))

/-- the line becomes the template's output; an entry whose template fails is not returned -/
def lineFormatStage (E : Env V) (tpl : Bytes) (es : List (Entry V)) : List (Entry V) :=
  es.filterMap (fun e => (E.tpl tpl (e.labels.set entryKey e.msg)).map (fun out => { e with msg := out }))

def dropMatches (names vals : List Bytes) (kv : Bytes × Bytes) : Bool :=
  (names.zip vals).any (fun nv => nv.1 == kv.1 && (nv.2 == [] || nv.2 == kv.2))

/-- labels named in the list (with the given value, when one is given) are removed -/
def dropStage (E : Env V) (names vals : List Bytes) (es : List (Entry V)) : List (Entry V) :=
  es.map (fun e => relabel E e (e.labels.filter (fun kv => !dropMatches names vals kv)))

def unwrapStage (E : Env V) (label : Bytes) (es : List (Entry V)) : List (Entry V) :=
  es.map (fun e =>
    let s := if label = entryKey then e.msg else e.labels.get label
    match (if s = [] then none else E.num.parse s) with
    | some v => { e with val := v }
    | none => e)

def stage (E : Env V) : StageK V → List (Entry V) → List (Entry V)
  | .line op val => lineStage E op val
  | .labelFilter c => labelStage E c
  | .parser k => parserStage E k
  | .labelFormat ops => labelFormatStage E ops
  | .lineFormat t => lineFormatStage E t
  | .drop ns vs => dropStage E ns vs
  | .unwrap l => unwrapStage E l

def stages (E : Env V) (ss : List (StageK V)) (es : List (Entry V)) : List (Entry V) :=
  ss.foldl (fun acc s => stage E s acc) es

/-! ### grouping -/
def byWithoutStage (E : Env V) (isBy : Bool) (names : List Bytes) (es : List (Entry V)) : List (Entry V) :=
  es.map (fun e => relabel E e (e.labels.filter (fun kv => (names.contains kv.1) == isBy)))

/-- elements whose key has not occurred before, in order of first occurrence -/
def firstBy {α κ : Type} [DecidableEq κ] (key : α → κ) : List α → List α
  | [] => []
  | x :: xs => x :: (firstBy key xs).filter (fun y => key y ≠ key x)

/-! ### aggregation over the grid of windows `[start + i·dur, start + (i+1)·dur)`, `i < n` -/
/-- the LogQL value of one window of one series, by function, from the entries that fall into it (in arrival order) -/
def sumOf (N : NumOps V) (vs : List V) : V := vs.foldl N.add N.zero
def countOf (N : NumOps V) (l : List (Entry V)) : V := l.foldl (fun a _ => N.add a N.one) N.zero
def bytesOf (N : NumOps V) (l : List (Entry V)) : V := sumOf N (l.map (fun e => N.ofNat e.msg.length))
def minOf (N : NumOps V) : List V → V
  | [] => N.zero
  | x :: xs => xs.foldl (fun m v => if N.lt v m then v else m) x
def maxOf (N : NumOps V) : List V → V
  | [] => N.zero
  | x :: xs => xs.foldl (fun m v => if N.lt m v then v else m) x

def rangeValue (N : NumOps V) (durNs : Int) (fn : RangeFn) (l : List (Entry V)) : V :=
  match fn with
  | .rate => N.div (countOf N l) (N.durSeconds durNs)
  | .countOverTime => countOf N l
  | .bytesRate => N.div (bytesOf N l) (N.durSeconds durNs)
  | .bytesOverTime => bytesOf N l
  | .other => N.zero

def unwrapValue (N : NumOps V) (durNs : Int) (fn : UnwrapFn) (l : List (Entry V)) : V :=
  let vs := l.map (·.val)
  match fn with
  | .rate => N.div (sumOf N vs) (N.durSeconds durNs)
  | .sumOverTime => sumOf N vs
  | .avgOverTime => N.div (sumOf N vs) (N.ofNat vs.length)
  | .maxOverTime => maxOf N vs
  | .minOverTime => minOf N vs
  | .firstOverTime => (vs.head?).getD N.zero
  | .lastOverTime => (vs.getLast?).getD N.zero
  | .other => N.zero

def vecValue (N : NumOps V) (fn : VecFn) (l : List (Entry V)) : V :=
  let vs := l.map (·.val)
  match fn with
  | .sum => sumOf N vs
  | .min => minOf N vs
  | .max => maxOf N vs
  | .avg => N.div (sumOf N vs) (N.ofNat vs.length)
  | .count => countOf N l

/-- does a function produce samples at all (the names the engine has no case for never do) -/
def rangeCounts : RangeFn → Bool | .other => false | _ => true
def unwrapCounts : UnwrapFn → Bool | .other => false | _ => true

/-- one sample per series and non-empty window, series in order of first occurrence, windows ascending;
    `key` says which entries form one series (the label set, for LogQL) -/
def aggregate {κ : Type} [DecidableEq κ] (key : Entry V → κ) (g : Grid) (value : List (Entry V) → V)
    (es : List (Entry V)) : List (List (Entry V)) :=
  ((firstBy key es).map (fun r =>
    (List.range g.n).filterMap (fun i =>
      let sel := es.filter (fun e => key e = key r && g.bucket e.ts == some i)
      if sel.isEmpty then none
      else some (⟨g.start + (i : Int) * g.dur, r.fp, r.labels, [], value sel, none⟩ : Entry V)))).filter (fun b => !b.isEmpty)

def compareStage (N : NumOps V) (op : CmpOp) (v : V) (es : List (Entry V)) : List (Entry V) :=
  es.filter (fun e => compareVal N op e.val v)

/-- the first `limit` entries; 0 = no limit (the meaning on the ClickHouse path, `LogQL.limited`) -/
def limitStage (limit : Int) (es : List (Entry V)) : List (Entry V) :=
  if limit = 0 then es else es.take limit.toNat

def optCompare (N : NumOps V) (c : Option (CmpOp × V)) (bs : List (List (Entry V))) : List (List (Entry V)) :=
  match c with
  | some (op, v) => bs.map (compareStage N op v)
  | none => bs

def optByWithout (E : Env V) (b : Option ByWithout) (es : List (Entry V)) : List (Entry V) :=
  match b with
  | some bw => byWithoutStage E bw.isBy bw.names es
  | none => es

/-- **the LogQL reading of a whole in-process plan** over the flat list of upstream entries -/
def evalPlan (E : Env V) (c : Read.Ctx) (p : Plan V) (es : List (Entry V)) : List (List (Entry V)) :=
  let s := stages E p.stages es
  match p.agg with
  | none => [limitStage c.limit s]
  | some (k, dur) =>
    let g := Grid.of c.fromNs c.toNs dur
    let a := match k with
      | .range fn => if rangeCounts fn then aggregate (·.labels) g (rangeValue E.num dur fn) s else []
      | .unwrap fn => if unwrapCounts fn then aggregate (·.labels) g (unwrapValue E.num dur (dirFn c.orderAsc fn)) (optByWithout E p.aggBy s) else []
    let a := optCompare E.num p.aggCmp a
    match p.vec with
    | none => a
    | some (fn, bw, cmp) =>
      optCompare E.num cmp (aggregate (·.labels) g (vecValue E.num fn) (optByWithout E bw a.flatten))

end Qryn.LogQL.Stages
