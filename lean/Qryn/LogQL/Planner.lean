import Qryn.Sql.Build
import Qryn.Base.Time
import Qryn.LogQL.Ast
/-! Model of reader/logql/logql_transpiler_v2/clickhouse_planner for log queries made of a stream
    selector, line filters and label filters placed before any parser ("simple" label filters).
    Mirrors: planner.go (plan, planTS, planSpl), analyze.go, planner_stream_select.go,
    planner_simple_label_filter.go, planner_label_filter.go, planner_line_filter.go,
    planner_main_init.go, planner_fingerprint_filter.go, planner_with_connector.go,
    planner_main_order_by.go, planner_main_limit.go, planner_labels_joiner.go,
    planner_time_series_init.go, planner_main_finalizer.go, sql_misc.go. -/
namespace Qryn.LogQL
open Qryn Qryn.Sql

structure Ctx where
  fromNs : Int
  toNs : Int
  limit : Int
  orderAsc : Bool
  tp : Nat                    -- ctx.Type: 0 both, 1 logs, 2 metrics
  isCluster : Bool
  ginTable : String
  samplesTable : String
  tsTable : String
  tsDistTable : String
deriving Repr

/-- `GetTypes` -/
def getTypes (c : Ctx) : Expr :=
  .isIn (.raw "type") [.int (if c.tp = 0 then 1 else c.tp), .int 0]

/-- one clause of the stream selector: `(key == name) and (<val condition>)` -/
def matcherClause (m : Matcher) : Expr :=
  and_ [eq (.raw "key") (.str m.label),
    match m.op with
    | .eq => eq (.raw "val") (.str m.val)
    | .neq => neq (.raw "val") (.str m.val)
    | .re => eq (.matchFn (.raw "val") m.val) (.int 1)
    | .nre => eq (.matchFn (.raw "val") m.val) (.int 0)]

/-- `StreamSelectPlanner.Process` -/
def streamSelect (c : Ctx) (ms : List Matcher) : Sel :=
  let clauses := ms.map matcherClause
  .mk [] false [.raw "fingerprint"] (some (.raw c.ginTable)) [] none
    (some (and_ [ge (.raw "date") (.str (Time.formatFromDate c.fromNs)), getTypes c, or_ clauses]))
    [.raw "fingerprint"]
    (some (and_ [eq (.bitSetAnd clauses) (.int ((2 : Int) ^ clauses.length - 1))])) [] none

/-- digits of a `%f`-formatted literal (six decimals; exact for the literals the generators produce) -/
def numText (n : NumLit) : String :=
  let frac := (n.frac ++ List.replicate 6 0).take 6
  toString n.int ++ "." ++ String.join (frac.map toString)

/-- `LabelFilterPlanner.makeSqlCond` with the label getter of the simple planner
    (`JSONExtractString(labels, '<name>')`; the name is restricted by the LogQL lexer to `[a-zA-Z_][a-zA-Z0-9_]*`) -/
def labelGetterTS (name : String) : Expr := .call "JSONExtractString" [.raw "labels", .lit name]

def labelCondSql (getter : String → Expr) : LabelCond → Expr
  | .str l op v =>
    match op with
    | .eq => eq (getter l) (.str v)
    | .neq => neq (getter l) (.str v)
    | .re => eq (.call "match" [getter l, .str v]) (.int 1)
    | .nre => eq (.call "match" [getter l, .str v]) (.int 0)
  | .num l op v =>
    let lab := Expr.call "toFloat64OrNull" [getter l]
    let lit := Expr.numLit (numText v)
    and_ [.notNull lab,
      match op with
      | .eq => eq lab lit | .neq => neq lab lit | .gt => gt lab lit | .ge => ge lab lit
      | .lt => lt lab lit | .le => le lab lit]
  | .and l r => and_ [labelCondSql getter l, labelCondSql getter r]
  | .or l r => or_ [labelCondSql getter l, labelCondSql getter r]

/-- body of `SimpleLabelFilterPlanner.Process`: filter the fingerprints of `subsel_<k>` on time_series -/
def labelFilterBody (c : Ctx) (k : Nat) (cond : LabelCond) : Sel :=
  .mk [] false [.raw "fingerprint"] (some (.raw c.tsTable)) [] none
    (some (and_ [.isIn (.raw "fingerprint") [.withRef (.sub k)], labelCondSql labelGetterTS cond])) [] none [] none

/-- `planTS` flattened: the stream selector wrapped by every simple label filter, in pipeline order;
    every inner select becomes `subsel_<id>` (ids from `ctx.Id()`), the outermost one `fp_sel`. -/
def fpChain (c : Ctx) (cur : Sel) (k : Nat) : List LabelCond → List (Alias × Sel)
  | [] => [(.named "fp_sel", cur)]
  | lc :: rest => (.sub (k + 1), cur) :: fpChain c (labelFilterBody c (k + 1) lc) (k + 1) rest

def labelConds (q : LogQuery) : List LabelCond := q.stages.filterMap (fun | .label lc => some lc | _ => none)
def lineFilters (q : LogQuery) : List LineFilter := q.stages.filterMap (fun | .line f => some f | _ => none)

/-- `LineFilterPlanner.doLike` (after the `fix:`): `like(samples.string, '%<LIKE-escaped needle>%')` -/
def likeClause (fn : String) (needle : Bytes) : Expr :=
  eq (.call fn [.raw "samples.string", .str (37 :: likeEscape needle ++ [37])]) (.int 1)

/-- `LineFilterPlanner.Process` -/
def lineClause (f : LineFilter) : Expr :=
  match f.op with
  | .contains => likeClause "like" f.val
  | .notContains => likeClause "notLike" f.val
  | .re => match f.like with
    | some li => likeClause (if li.insensitive then "ilike" else "like") li.lit
    | none => eq (.matchFn (.raw "string") f.val) (.int 1)
  | .nre => match f.like with
    | some li => likeClause (if li.insensitive then "notILike" else "notLike") li.lit
    | none => eq (.matchFn (.raw "string") f.val) (.int 0)

def dirOf (c : Ctx) : Dir := if c.orderAsc then .asc else .desc

/-- `SqlMainInitPlanner` + `FingerprintFilterPlanner` + the line filters + `MainOrderByPlanner` + `MainLimitPlanner` -/
def mainSel (c : Ctx) (q : LogQuery) : Sel :=
  .mk [] false
    [simpleCol "samples.timestamp_ns" "timestamp_ns", simpleCol "samples.fingerprint" "fingerprint",
     simpleCol "samples.string" "string", simpleCol "toFloat64(0)" "value"]
    (some (.col (.raw c.samplesTable) "samples")) []
    (some (and_ [ge (.raw "samples.timestamp_ns") (.int c.fromNs),
                 lt (.raw "samples.timestamp_ns") (.int c.toNs), getTypes c]))
    (some (and_ (.isIn (.raw "samples.fingerprint") [.withRef (.named "fp_sel")] :: (lineFilters q).map lineClause)))
    [] none [.orderBy (.raw "timestamp_ns") (dirOf c)]
    (if c.limit = 0 then none else some (.int c.limit))

/-- `TimeSeriesInitPlanner` restricted to the selected fingerprints (`LabelsJoinPlanner`) -/
def timeSeriesSel (c : Ctx) : Sel :=
  .mk [] false
    [simpleCol "time_series.fingerprint" "fingerprint", .col .tsLabels "labels"]
    (some (.col (.raw c.tsDistTable) "time_series")) []
    (some (and_ [ge (.raw "time_series.date") (.str (Time.formatFromDate c.fromNs)), getTypes c,
                 .isIn (.raw "time_series.fingerprint") [.withRef (.named "fp_sel")]]))
    none [] none [] none

/-- `LabelsJoinPlanner.Process` -/
def joinedSel (c : Ctx) : Sel :=
  .mk [] false
    [simpleCol "main.fingerprint" "fingerprint", simpleCol "main.timestamp_ns" "timestamp_ns",
     simpleCol "_time_series.labels" "labels", simpleCol "main.string" "string", simpleCol "main.value" "value"]
    (some (.withRef (.named "main")))
    [(if c.isCluster then "GLOBAL ANY LEFT " else "ANY LEFT ", .named "_time_series",
      eq (.raw "main.fingerprint") (.raw "_time_series.fingerprint"))]
    none none [] none [] none

/-- The whole plan for a log query of the fragment (`finalize = true`, `CHFinalize = true`), with the
    WITH list in the hoisted, de-duplicated order `Select.AddWith` produces. -/
def planLog (c : Ctx) (q : LogQuery) : Sel :=
  .mk (fpChain c (streamSelect c q.matchers) 0 (labelConds q) ++
        [(.named "main", mainSel c q), (.named "_time_series", timeSeriesSel c), (.named "prefinal", joinedSel c)])
    false
    [simpleCol "prefinal.fingerprint" "fingerprint", simpleCol "prefinal.labels" "labels",
     simpleCol "prefinal.string" "string", simpleCol "prefinal.timestamp_ns" "timestamp_ns"]
    (some (.withRef (.named "prefinal"))) [] none none [] none
    [.orderBy (.raw "fingerprint") (dirOf c), .orderBy (.raw "timestamp_ns") (dirOf c)] none

end Qryn.LogQL
