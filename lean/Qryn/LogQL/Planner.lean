import Qryn.Sql.Build
import Qryn.Base.Time
import Qryn.LogQL.Ast
/-! Model of reader/logql/logql_transpiler_v2/clickhouse_planner for log queries made of a stream
    selector, line filters and label filters placed before any parser ("simple" label filters).
    Mirrors: planner.go (plan, planTS, planSpl), analyze.go, planner_stream_select.go,
    planner_simple_label_filter.go, planner_label_filter.go, planner_line_filter.go,
    planner_main_init.go, planner_fingerprint_filter.go, planner_with_connector.go,
    planner_main_order_by.go, planner_main_limit.go, planner_labels_joiner.go,
    planner_time_series_init.go, planner_main_finalizer.go, sql_misc.go. -/
namespace Qryn.LogQL
open Qryn Qryn.Sql

structure Ctx where
  fromNs : Int
  toNs : Int
  limit : Int
  orderAsc : Bool
  tp : Nat                    -- ctx.Type: 0 both, 1 logs, 2 metrics
  isCluster : Bool
  ginTable : String
  samplesTable : String
  tsTable : String
  tsDistTable : String
deriving Repr

/-- `GetTypes` -/
def getTypes (c : Ctx) : Expr :=
  .isIn (.raw "type") [.int (if c.tp = 0 then 1 else c.tp), .int 0]

/-- one clause of the stream selector: `(key == name) and (<val condition>)` -/
def matcherClause (m : Matcher) : Expr :=
  and_ [eq (.raw "key") (.str m.label),
    match m.op with
    | .eq => eq (.raw "val") (.str m.val)
    | .neq => neq (.raw "val") (.str m.val)
    | .re => eq (.matchFn (.raw "val") m.val) (.int 1)
    | .nre => eq (.matchFn (.raw "val") m.val) (.int 0)]

/-- `StreamSelectPlanner.Process` -/
def streamSelect (c : Ctx) (ms : List Matcher) : Sel :=
  let clauses := ms.map matcherClause
  .mk [] false [.raw "fingerprint"] (some (.raw c.ginTable)) [] none
    (some (and_ [ge (.raw "date") (.str (Time.formatFromDate c.fromNs)), getTypes c, or_ clauses]))
    [.raw "fingerprint"]
    (some (and_ [eq (.bitSetAnd clauses) (.int ((2 : Int) ^ clauses.length - 1))])) [] none

/-- digits of a `%f`-formatted literal (six decimals; exact for the literals the generators produce) -/
def numText (n : NumLit) : String :=
  let frac := (n.frac ++ List.replicate 6 0).take 6
  toString n.int ++ "." ++ String.join (frac.map toString)

/-- `LabelFilterPlanner.makeSqlCond` with the label getter of the simple planner
    (`JSONExtractString(labels, '<name>')`) -/
def labelGetterTS (name : String) : Expr := .raw ("JSONExtractString(labels, '" ++ name ++ "')")

def labelCondSql (getter : String → Expr) : LabelCond → Expr
  | .str l op v =>
    match op with
    | .eq => eq (getter l) (.str v)
    | .neq => neq (getter l) (.str v)
    | .re => eq (.call "match" [getter l, .str v]) (.int 1)
    | .nre => eq (.call "match" [getter l, .str v]) (.int 0)
  | .num l op v =>
    let lab := Expr.call "toFloat64OrNull" [getter l]
    let lit := Expr.raw (numText v)
    and_ [.notNull lab,
      match op with
      | .eq => eq lab lit | .neq => neq lab lit | .gt => gt lab lit | .ge => ge lab lit
      | .lt => lt lab lit | .le => le lab lit]
  | .and l r => and_ [labelCondSql getter l, labelCondSql getter r]
  | .or l r => or_ [labelCondSql getter l, labelCondSql getter r]

/-- `SimpleLabelFilterPlanner.Process`: wrap the fingerprint select in `subsel_<id>` and filter on time_series -/
def simpleLabelFilter (c : Ctx) (id : Nat) (fp : Sel) (cond : LabelCond) : Sel :=
  let alias := "subsel_" ++ toString id
  let base : Sel := .mk [] false [.raw "fingerprint"] (some (.raw c.tsTable)) [] none none [] none [] none
  ((base.with_ [(alias, fp)]).andWhere [.isIn (.raw "fingerprint") [.withRef alias]]).andWhere
    [labelCondSql labelGetterTS cond]

/-- `planTS`: stream selector wrapped by every simple label filter, in pipeline order; ids from `ctx.Id()` -/
def planFp (c : Ctx) (q : LogQuery) : Sel :=
  let conds := q.stages.filterMap (fun | .label lc => some lc | _ => none)
  -- the outermost planner is the LAST filter; Process recurses first, so ids are handed out innermost-first
  (conds.foldl (fun (acc : Sel × Nat) lc => (simpleLabelFilter c (acc.2 + 1) acc.1 lc, acc.2 + 1)) (streamSelect c q.matchers, 0)).1

/-- `LineFilterPlanner.doLike` (after the `fix:`): `like(samples.string, '%<LIKE-escaped needle>%')` -/
def likeClause (fn : String) (needle : Bytes) : Expr :=
  eq (.call fn [.raw "samples.string", .str (37 :: likeEscape needle ++ [37])]) (.int 1)

/-- `LineFilterPlanner.Process` -/
def lineClause (f : LineFilter) : Expr :=
  match f.op with
  | .contains => likeClause "like" f.val
  | .notContains => likeClause "notLike" f.val
  | .re => match f.like with
    | some li => likeClause (if li.insensitive then "ilike" else "like") li.lit
    | none => eq (.matchFn (.raw "string") f.val) (.int 1)
  | .nre => match f.like with
    | some li => likeClause (if li.insensitive then "notILike" else "notLike") li.lit
    | none => eq (.matchFn (.raw "string") f.val) (.int 0)

/-- `SqlMainInitPlanner.Process` -/
def mainInit (c : Ctx) : Sel :=
  .mk [] false
    [simpleCol "samples.timestamp_ns" "timestamp_ns", simpleCol "samples.fingerprint" "fingerprint",
     simpleCol "samples.string" "string", simpleCol "toFloat64(0)" "value"]
    (some (.col (.raw c.samplesTable) "samples")) []
    (some (and_ [ge (.raw "samples.timestamp_ns") (.int c.fromNs),
                 lt (.raw "samples.timestamp_ns") (.int c.toNs), getTypes c]))
    none [] none [] none

def dirOf (c : Ctx) : Dir := if c.orderAsc then .asc else .desc

/-- `TimeSeriesInitPlanner.Process` -/
def timeSeriesInit (c : Ctx) : Sel :=
  .mk [] false
    [simpleCol "time_series.fingerprint" "fingerprint",
     simpleCol ("mapFromArrays(arrayMap(x -> x.1, JSONExtractKeysAndValues(time_series.labels, 'String') as rawlbls), " ++
                "arrayMap(x -> x.2, rawlbls))") "labels"]
    (some (.col (.raw c.tsDistTable) "time_series")) []
    (some (and_ [ge (.raw "time_series.date") (.str (Time.formatFromDate c.fromNs)), getTypes c]))
    none [] none [] none

/-- the whole plan for a log query of the fragment, `finalize = true`, `CHFinalize = true` -/
def planLog (c : Ctx) (q : LogQuery) : Sel :=
  let fp := planFp c q
  let fpW : String × Sel := ("fp_sel", fp)
  -- FingerprintFilterPlanner over SqlMainInitPlanner
  let main0 := ((mainInit c).with_ [fpW]).andWhere [.isIn (.raw "samples.fingerprint") [.withRef "fp_sel"]]
  -- line filters, in order
  let main1 := (q.stages.filterMap (fun | .line f => some f | _ => none)).foldl (fun s f => s.andWhere [lineClause f]) main0
  -- MainOrderByPlanner, MainLimitPlanner
  let main2 := main1.setOrderBy [.orderBy (.raw "timestamp_ns") (dirOf c)]
  let main3 := if c.limit = 0 then main2 else main2.setLimit (some (.int c.limit))
  -- LabelsJoinPlanner
  let ts := ((timeSeriesInit c).with_ [fpW]).andPreWhere [.isIn (.raw "time_series.fingerprint") [.withRef "fp_sel"]]
  let joined : Sel :=
    (Sel.mk [] false
      [simpleCol "main.fingerprint" "fingerprint", simpleCol "main.timestamp_ns" "timestamp_ns",
       simpleCol "_time_series.labels" "labels", simpleCol "main.string" "string", simpleCol "main.value" "value"]
      (some (.withRef "main"))
      [(if c.isCluster then "GLOBAL ANY LEFT " else "ANY LEFT ", .withRef "_time_series",
        eq (.raw "main.fingerprint") (.raw "_time_series.fingerprint"))]
      none none [] none [] none).with_ [("main", main3), ("_time_series", ts)]
  -- MainFinalizerPlanner (IsFinal, not matrix)
  (Sel.mk [] false
    [simpleCol "prefinal.fingerprint" "fingerprint", simpleCol "prefinal.labels" "labels",
     simpleCol "prefinal.string" "string", simpleCol "prefinal.timestamp_ns" "timestamp_ns"]
    (some (.withRef "prefinal")) [] none none [] none
    [.orderBy (.raw "fingerprint") (dirOf c), .orderBy (.raw "timestamp_ns") (dirOf c)] none).with_
    [("prefinal", joined)]

end Qryn.LogQL
