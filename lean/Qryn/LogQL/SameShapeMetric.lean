import Qryn.LogQL.PlannerMetric
/-! `sameShapeM` — two LogQL METRIC queries are equal up to the contents of their string leaves, as equality of SKELETONS:
    `skel` erases every string leaf (matcher names and values, needles, regexes, label-filter values, the by/without label
    names, the unwrap label) and keeps everything the planner looks at: operators and functions, durations, `k`, comparison
    literals, the and/or structure / names / numbers of label filters, the literal-regex flag of `|~`/`!~`, whether a needle
    is EMPTY (an empty `|=`/`|~` needle lets the query take the metrics_15s shortcut), whether the unwrap label is `_entry`,
    how many labels a by/without clause has. -/
namespace Qryn.LogQL
open Qryn

/-- a leaf whose emptiness the planner looks at -/
def skelBytes (v : Bytes) : Bytes := if v.isEmpty then [] else [120]

def Matcher.skel (m : Matcher) : Matcher := ⟨[], m.op, []⟩

def LineFilter.skelF (f : LineFilter) : LineFilter :=
  match f.op with
  | .contains => ⟨.contains, skelBytes f.val, none⟩
  | .notContains => ⟨.notContains, skelBytes f.val, none⟩
  | .re => ⟨.re, skelBytes f.val, f.like.map (fun li => ⟨[], li.insensitive⟩)⟩
  | .nre => ⟨.nre, skelBytes f.val, f.like.map (fun li => ⟨[], li.insensitive⟩)⟩

def LabelCond.skel : LabelCond → LabelCond
  | .str l op _ => .str l op []
  | .num l op v => .num l op v
  | .and l r => .and l.skel r.skel
  | .or l r => .or l.skel r.skel

def Stage.skel : Stage → Stage
  | .line f => .line f.skelF
  | .label c => .label c.skel

def LogQuery.skel (q : LogQuery) : LogQuery := ⟨q.matchers.map Matcher.skel, q.stages.map Stage.skel⟩

def Grouping.skel (g : Grouping) : Grouping := ⟨g.isBy, g.labels.map (fun _ => "")⟩

def RangeKind.skel : RangeKind → RangeKind
  | .lra fn => .lra fn
  | .unwrap fn label => .unwrap fn (if label = "_entry" then "_entry" else "")

def RangeAgg.skel (r : RangeAgg) : RangeAgg :=
  ⟨r.kind.skel, r.sel.skel, r.durNs, r.byPrefix.map Grouping.skel, r.bySuffix.map Grouping.skel, r.cmp⟩

def VecAgg.skel (a : VecAgg) : VecAgg :=
  ⟨a.fn, a.byPrefix.map Grouping.skel, a.inner.skel, a.bySuffix.map Grouping.skel, a.cmp⟩

def TopInner.skel : TopInner → TopInner
  | .range r => .range r.skel
  | .agg a => .agg a.skel

def TopK.skel (t : TopK) : TopK := ⟨t.isTop, t.k, t.inner.skel, t.cmp⟩

def MetricQuery.skel : MetricQuery → MetricQuery
  | .range r => .range r.skel
  | .agg a => .agg a.skel
  | .topk t => .topk t.skel

/-- **sameShapeM**: equal skeletons -/
def sameShapeM (q1 q2 : MetricQuery) : Prop := q1.skel = q2.skel

instance (q1 q2 : MetricQuery) : Decidable (sameShapeM q1 q2) := inferInstanceAs (Decidable (q1.skel = q2.skel))

end Qryn.LogQL
