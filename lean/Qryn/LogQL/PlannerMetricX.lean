import Qryn.LogQL.PlannerMetric
import Qryn.LogQL.PlannerX
/-! Model of reader/logql/logql_transpiler_v2/clickhouse_planner for the metric queries `LogQL.PlannerMetric` leaves out:

    * range aggregations whose selector carries SQL-side label-rewriting stages (`| json l="path"`, `| regexp`, `| drop`,
      label and line filters after them): `labelsJoinIdx != -1`, the samples are joined with their series' labels at the
      first such stage and every later planner carries the labels (`LRAPlanner.WithLabels`, `ByWithoutPlanner.processSimple`,
      `AggOpPlanner.WithLabels`; no `LabelsJoinPlanner` at the end);
    * `quantile_over_time(φ, … | unwrap x [d])` (`planQuantileOverTime`, planner_quantile.go), with or without such stages.

    Mirrors: planner.go (`plan`, `planSpl` with `planParser`/`planDrop`/`planLabelFilter`/`planLineFilter`/`planUnwrap`,
    `planLRA`, `planUnwrapFn`, `planQuantileOverTime`, `planByWithout`, `planAgg`, `planTopK`, `planComparison`), analyze.go
    (`labelsJoinIdx`, `renewMainAfter`, `getFunctionOrder` incl. the `QuantileOverTime` case), planner_main_renew.go,
    planner_parser*.go, planner_drop.go, planner_label_filter.go (through `LogQL.PlannerX.runSel`), planner_unwrap.go
    (`processSimple` on a renewed SELECT), planner_quantile.go. The matrix planners themselves are those of
    `LogQL.PlannerMetric` (`lraSel`, `unwrapFnSel`, `byWithoutSimple`, `aggSel`, `topkSel`, `comparisonSel`, `stepFixSel`,
    `finalizeMatrix`). -/
namespace Qryn.LogQL
open Qryn Qryn.Sql

/-- the range function of a range aggregation of the extended fragment -/
inductive RangeKindX
  | lra (fn : RangeFn)                          -- no unwrap: `LRAPlanner`
  | unwrap (fn : UnwrapFn) (label : String)     -- selector ends in `| unwrap label`: `UnwrapFunctionPlanner`
  | quantile (phi : NumLit) (label : String)    -- `quantile_over_time(φ, … | unwrap label [d])`: `QuantilePlanner`
deriving DecidableEq, Repr

def RangeKindX.label? : RangeKindX → Option String
  | .lra _ => none
  | .unwrap _ l => some l
  | .quantile _ l => some l

/-- `LRAOrUnwrap` / `QuantileOverTime` over a selector of the extended fragment -/
structure RangeAggX where
  kind : RangeKindX
  sel : LogQuery            -- stream selector and the stages before the first parser / drop (`LogQL.Planner` fragment)
  post : List StageX        -- the stages from the first parser / drop on, without the final unwrap
  durNs : Nat
  byPrefix : Option Grouping := none
  bySuffix : Option Grouping := none
  cmp : Option Comparison := none
deriving DecidableEq, Repr

/-- `AggOperator` without its operand -/
structure VecOp where
  fn : AggFn
  byPrefix : Option Grouping := none
  bySuffix : Option Grouping := none
  cmp : Option Comparison := none
deriving DecidableEq, Repr

/-- `planAgg`: the grouping of a vector aggregation; none written = `by ()`, the empty label set -/
def VecOp.grouping (a : VecOp) : Grouping := (chosenGrouping a.byPrefix a.bySuffix).getD ⟨true, []⟩

/-- `TopK` without its operand -/
structure TopOp where
  isTop : Bool
  k : Nat
  cmp : Option Comparison := none
deriving DecidableEq, Repr

/-- a metric script: `range`, `agg(range)`, `topk(k, range)`, `topk(k, agg(range))` -/
structure MetricQueryX where
  range : RangeAggX
  agg : Option VecOp := none
  topk : Option TopOp := none
deriving DecidableEq, Repr

/-! ### the samples side (`planSpl`) -/

/-- the WITH list of the fingerprint planner, hoisted: the `subsel_<k>` of the simple label filters, then `fp_sel` -/
def fpWithsM (c : Ctx) (q : LogQuery) : List (Alias × Sel) := (fpQuery c q).withs ++ [fpWith c q]

/-- `MainOrderByPlanner{timestamp_ns}` around the samples request (inside `LabelsJoinPlanner`) -/
def mainOrdered (c : Ctx) (q : LogQuery) : Sel := (samplesMain c q).setOrderBy [.orderBy (.raw "timestamp_ns") (dirOf c)]

/-- the runs of the pipeline after the join: the final `| unwrap` does not rewrite the labels, so after a parser / drop
    `renewMainAfter` gives it a SELECT of its own (one without WHERE) -/
def runsM (post : List StageX) (uw : Bool) : List Run :=
  let rs := groupRuns post
  if uw then (match rs.getLast? with | some (.fl _) => rs | _ => rs ++ [.fl []]) else rs

/-- one run as one SELECT (no ORDER BY / LIMIT: a matrix request has no `MainLimitPlanner`); a run of no filter at all
    (the SELECT `MainRenewPlanner` opens for `| unwrap`) has no WHERE -/
def runSelM (c : Ctx) (src : Option Nat) (rid : Nat) (r : Run) : Sel × Nat :=
  match src, r with
  | some k, .fl [] =>
    (.mk [] false
      [simpleCol "samples.timestamp_ns" "timestamp_ns", simpleCol "samples.fingerprint" "fingerprint",
       simpleCol "samples.labels" "labels", simpleCol "samples.string" "string", simpleCol "samples.value" "value"]
      (some (.col (.withRef (.sub k)) "samples")) [] none none [] none [] none, rid)
  | src, r => runSel c src rid r [] none

/-- the WITH entries `subsel_<id+1>, …` of all runs but the last, the SELECT of the last run, the `ctx.Id()` counter
    afterwards (`MainRenewPlanner` draws one id per renewed SELECT) -/
def planRunsM (c : Ctx) : Option Nat → Nat → Nat → List Run → List (Alias × Sel) × Sel × Nat
  | _, id, _, [] => ([], emptySel, id)
  | src, id, rid, [r] => ([], (runSelM c src rid r).1, id)
  | src, id, rid, r :: r' :: rest =>
    let t := planRunsM c (some (id + 1)) (id + 1) (runSelM c src rid r).2 (r' :: rest)
    ((.sub (id + 1), (runSelM c src rid r).1) :: t.1, t.2.1, t.2.2)

/-- the statement `planSpl` builds for a selector with label-rewriting stages, before the matrix functions: the last run,
    with the WITH list in the hoisted order `Select.AddWith` produces (`fp_sel` chain, `main`, `_time_series`, `subsel_<k>`…) -/
def runsSource (c : Ctx) (r : RangeAggX) : PState :=
  let t := planRunsM c none (labelConds r.sel).length 1 (runsM r.post r.kind.label?.isSome)
  ⟨t.2.1.setWiths (fpWithsM c r.sel ++
      [(.named "main", mainOrdered c r.sel), (.named "_time_series", (timeSeriesSel c).setWiths (fpWithsM c r.sel))] ++ t.1),
    t.2.2⟩

/-- `planSpl`: the select the matrix functions start from, and the value of the `ctx.Id()` counter -/
def sourceX (c : Ctx) (r : RangeAggX) : PState :=
  match r.post, r.kind.label? with
  | [], some label =>
    -- no label-rewriting stage: `labelsJoinIdx` is the index of the unwrap stage (as `LogQL.splSel`)
    ⟨unwrapSel label (labelsJoin c r.sel (mainOrdered c r.sel)), (labelConds r.sel).length⟩
  | [], none => ⟨samplesMain c r.sel, (labelConds r.sel).length⟩      -- the fragment of `LogQL.PlannerMetric` (not used here)
  | _ :: _, some label => let s := runsSource c r; { s with sel := unwrapSel label s.sel }
  | _ :: _, none => runsSource c r

/-! ### the matrix functions -/

def optCmp (cm : Option Comparison) (s : Sel) : Sel :=
  match cm with
  | none => s
  | some c => comparisonSel c s

/-- `fmt.Sprintf("quantile(%f)(value)", strconv.ParseFloat(Param))`: at most six decimals are kept by `%f` -/
def quantileCol (phi : NumLit) : Expr :=
  let frac := phi.frac.take 6
  .quantileAgg (phi.int * 10 ^ frac.length + frac.foldl (fun acc d => acc * 10 + d) 0) frac.length "value"

/-- `QuantilePlanner.Process` -/
def quantileSel (phi : NumLit) (durNs : Nat) (main : Sel) : Sel :=
  (Sel.mk [] false
    ([simpleCol "quant_a.fingerprint" "fingerprint", bucketCol "quant_a.timestamp_ns" durNs, .col (quantileCol phi) "value"] ++
      (if hasColumn main.cols "labels" then [.col (.call "any" [.raw "quant_a.labels"]) "labels"] else []))
    (some (.withRef (.named "quant_a"))) [] none none
    [.raw "timestamp_ns", .raw "fingerprint"] none [] none).with_ [(.named "quant_a", main)]

/-- the range node of `getFunctionOrder` on the labelled path (`labelsJoinIdx != -1`): `planLRA` with `WithLabels`, or
    `planByWithout` (`processSimple`) + `UnwrapFunctionPlanner` / `QuantilePlanner`; then the optional comparison -/
def rangePhaseX (c : MCtx) (r : RangeAggX) : PState :=
  let s := sourceX c.toCtx r
  let g := chosenGrouping r.byPrefix r.bySuffix
  let s1 : PState :=
    match r.kind with
    | .lra fn => { s with sel := lraSel fn r.durNs true s.sel }
    | .unwrap fn _ => let s' := planByWithout c.toCtx false g s; { s' with sel := unwrapFnSel fn r.durNs s'.sel }
    | .quantile phi _ => let s' := planByWithout c.toCtx false g s; { s' with sel := quantileSel phi r.durNs s'.sel }
  { s1 with sel := optCmp r.cmp s1.sel }

/-- `planAgg` on the labelled path: `ByWithoutPlanner.processSimple`, `AggOpPlanner` with labels, the comparison -/
def aggPhaseX (c : MCtx) (a : Option VecOp) (s : PState) : PState :=
  match a with
  | none => s
  | some a =>
    let s' := planByWithout c.toCtx false (some a.grouping) s
    { s' with sel := optCmp a.cmp (aggSel a.fn true s'.sel) }

def topkPhaseX (t : Option TopOp) (s : Sel) : Sel :=
  match t with
  | none => s
  | some t => optCmp t.cmp (topkSel t.isTop t.k s)

/-- **`plan()`** for a metric query of the labelled path (`finalize = true`, `CHFinalize = true`): no labels join at the end -/
def planMetricX (c : MCtx) (q : MetricQueryX) : Sel :=
  finalizeMatrix (stepFixSel c q.range.durNs (topkPhaseX q.topk (aggPhaseX c q.agg (rangePhaseX c q.range)).sel))

end Qryn.LogQL
