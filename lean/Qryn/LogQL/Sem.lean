import Qryn.Sql.Sem
import Qryn.LogQL.Planner
/-! Direct semantics of LogQL log queries (fragment: stream selector, line filters, label filters on
    stream labels) over the Loki tables of qryn, written without SQL: this is the *specification* the
    generated SQL is proved against. RE2, JSON label documents and number parsing are the same oracles
    as in `Sql.Sem`. -/
namespace Qryn.LogQL
open Qryn Qryn.Sql

structure GinRow where
  date : Bytes      -- 'YYYY-MM-DD'
  key : Bytes
  val : Bytes
  tp : Int
  fp : Int
deriving Repr, DecidableEq

structure TsRow where
  date : Bytes
  fp : Int
  labels : Bytes    -- the stored JSON label document
  tp : Int
deriving Repr, DecidableEq

structure Sample where
  fp : Int
  ts : Int
  str : Bytes
  tp : Int
deriving Repr, DecidableEq

structure LokiDb where
  gin : List GinRow
  ts : List TsRow
  samples : List Sample
deriving Repr

def GinRow.row (g : GinRow) : Row :=
  [("date", .str g.date), ("key", .str g.key), ("val", .str g.val), ("type", .int g.tp), ("fingerprint", .int g.fp)]
def TsRow.row (t : TsRow) : Row :=
  [("date", .str t.date), ("fingerprint", .int t.fp), ("labels", .str t.labels), ("type", .int t.tp)]
def Sample.row (s : Sample) : Row :=
  [("fingerprint", .int s.fp), ("timestamp_ns", .int s.ts), ("string", .str s.str), ("type", .int s.tp)]

/-- the SQL view of the database under the table names of the planner context -/
def LokiDb.toDb (d : LokiDb) (c : Ctx) : Db := fun n =>
  if n = c.samplesTable then d.samples.map Sample.row
  else if n = c.ginTable then d.gin.map GinRow.row
  else if n = c.tsTable ∨ n = c.tsDistTable then d.ts.map TsRow.row
  else []

/-- table names are pairwise different where they have to be (true of `PopulateTableNames`) -/
def Ctx.namesOk (c : Ctx) : Prop :=
  c.samplesTable ≠ c.ginTable ∧ c.samplesTable ≠ c.tsTable ∧ c.samplesTable ≠ c.tsDistTable ∧
  c.ginTable ≠ c.tsTable ∧ c.ginTable ≠ c.tsDistTable

/-! ### the direct reading -/
def typeOk (c : Ctx) (tp : Int) : Bool := tp == (if c.tp = 0 then 1 else (c.tp : Int)) || tp == 0

def fromDate (c : Ctx) : Bytes := Time.formatFromDate c.fromNs

def matcherHolds (o : Oracles) (m : Matcher) (key val : Bytes) : Bool :=
  key == m.label &&
  match m.op with
  | .eq => val == m.val
  | .neq => val != m.val
  | .re => o.reMatch m.val val
  | .nre => !o.reMatch m.val val

/-- index rows the selector may look at: not older than the day of (start − 30 min), of the API's signal -/
def ginAdmissible (c : Ctx) (g : GinRow) : Bool := decide (fromDate c ≤ g.date) && typeOk c g.tp

/-- a stream is selected iff every matcher is satisfied by one of its admissible index rows
    (and at least one index row matches at all — which only matters for an empty selector) -/
def streamSelected (o : Oracles) (c : Ctx) (d : LokiDb) (ms : List Matcher) (fp : Int) : Bool :=
  d.gin.any (fun g => g.fp == fp && ginAdmissible c g && ms.any (fun m => matcherHolds o m g.key g.val)) &&
  ms.all (fun m => d.gin.any (fun g => g.fp == fp && ginAdmissible c g && matcherHolds o m g.key g.val))

def cmpName : CmpOp → String
  | .eq => "==" | .neq => "!=" | .gt => ">" | .ge => ">=" | .lt => "<" | .le => "<="

def labelValue (lbls : List (Bytes × Bytes)) (name : String) : Bytes := (lbls.lookup name.toUTF8.toList).getD []

def labelCondHolds (o : Oracles) (lbls : List (Bytes × Bytes)) : LabelCond → Bool
  | .str l op v =>
    let x := labelValue lbls l
    (match op with
     | .eq => x == v
     | .neq => x != v
     | .re => o.reMatch v x
     | .nre => !o.reMatch v x)
  | .num l op v => let x := labelValue lbls l; o.isNum x && o.numCmp (cmpName op) x (numText v)
  | .and a b => labelCondHolds o lbls a && labelCondHolds o lbls b
  | .or a b => labelCondHolds o lbls a || labelCondHolds o lbls b

/-- label filters before any parser are decided on the series table, one after the other -/
def chainSelected (o : Oracles) (d : LokiDb) : (Int → Bool) → List LabelCond → Int → Bool
  | base, [] => base
  | base, lc :: rest =>
    chainSelected o d (fun fp => d.ts.any (fun t => t.fp == fp && base t.fp && labelCondHolds o (o.jsonLabels t.labels) lc)) rest

def fpSelected (o : Oracles) (c : Ctx) (d : LokiDb) (q : LogQuery) : Int → Bool :=
  chainSelected o d (streamSelected o c d q.matchers) (labelConds q)

def contains (needle hay : Bytes) : Bool := decide (needle <:+: hay)

def lineHolds (o : Oracles) (f : LineFilter) (line : Bytes) : Bool :=
  match f.op with
  | .contains => contains f.val line
  | .notContains => !contains f.val line
  | .re => match f.like with
    | some li => if li.insensitive then like (o.lower line) (o.lower (37 :: likeEscape li.lit ++ [37])) else contains li.lit line
    | none => o.reMatch f.val line
  | .nre => match f.like with
    | some li => if li.insensitive then !like (o.lower line) (o.lower (37 :: likeEscape li.lit ++ [37])) else !contains li.lit line
    | none => !o.reMatch f.val line

/-- the entries a log query matches: inside [start, end), of the logs signal, stream selected, every line filter passes -/
def entryMatches (o : Oracles) (c : Ctx) (d : LokiDb) (q : LogQuery) (s : Sample) : Bool :=
  decide (c.fromNs ≤ s.ts) && decide (s.ts < c.toNs) && typeOk c s.tp && fpSelected o c d q s.fp &&
  (lineFilters q).all (fun f => lineHolds o f s.str)

def tsLe (c : Ctx) (a b : Sample) : Bool := if c.orderAsc then decide (a.ts ≤ b.ts) else decide (b.ts ≤ a.ts)

/-- matching entries, newest first (oldest first when forward), cut at the limit (0 = no limit) -/
def limited (o : Oracles) (c : Ctx) (d : LokiDb) (q : LogQuery) : List Sample :=
  let sorted := sortBy (tsLe c) (d.samples.filter (entryMatches o c d q))
  if c.limit = 0 then sorted else sorted.take c.limit.toNat

/-- labels handed out with an entry: those of the first admissible series row of its stream -/
def labelsOf (o : Oracles) (c : Ctx) (d : LokiDb) (q : LogQuery) (fp : Int) : Val :=
  match d.ts.find? (fun t => decide (fromDate c ≤ t.date) && typeOk c t.tp && fpSelected o c d q t.fp && t.fp == fp) with
  | some t => .map (o.jsonLabels t.labels)
  | none => .null

def outRow (o : Oracles) (c : Ctx) (d : LokiDb) (q : LogQuery) (s : Sample) : Row :=
  [("fingerprint", .int s.fp), ("labels", labelsOf o c d q s.fp), ("string", .str s.str), ("timestamp_ns", .int s.ts)]

def finalKeys (c : Ctx) : List (String × Dir) := [("fingerprint", dirOf c), ("timestamp_ns", dirOf c)]

/-- **the specification**: what a log query of the fragment returns -/
def evalLog (o : Oracles) (c : Ctx) (d : LokiDb) (q : LogQuery) : Table :=
  sortBy (rowLe (finalKeys c)) ((limited o c d q).map (outRow o c d q))

end Qryn.LogQL
