import Qryn.LogQL.SameShapeMetric
import Qryn.LogQL.PlannerMetricX
import Qryn.Sql.Shape
/-! C10, "two requests of the same shape" for C08's extended metric planner model `planMetricX`: the SKELETON of a
    metric query of the labelled path. Erased: everything `MetricQuery.skel` erases in the selector (matcher names/values,
    needles, regexes, label-filter values), and in the stages from the first parser / drop on: json labels and path NAME
    parts, regexp group names and pattern, drop names and values, label-filter values, needles; by/without label names and
    the unwrap label. Kept: operators, stage kinds and order, and/or trees, label-filter names and numbers, the
    literal-regex flag, whether a needle is empty, json path part kinds and INDEX parts, the number of json parameters /
    regexp groups / drop entries, whether a drop entry has a value, whether the unwrap label is `_entry`, range functions,
    durations, the quantile parameter, `k`, comparison literals, the number of by/without labels. Core-only (the driver
    answers `c10sameshapemx`). -/
namespace Qryn.LogQL
open Qryn Qryn.Sql

def Changer.skel : Changer → Changer
  | .json ps => .json (ps.map (fun p => ([], p.2.map shapeJArg)))
  | .regexp names _ => .regexp (names.map (fun _ => [])) []
  | .drop ps => .drop (ps.map (fun p => ([], if p.2.isEmpty then [] else [0])))

def StageX.skel : StageX → StageX
  | .fl s => .fl s.skel
  | .ch c => .ch c.skel

def RangeKindX.skel : RangeKindX → RangeKindX
  | .lra fn => .lra fn
  | .unwrap fn label => .unwrap fn (if label = "_entry" then "_entry" else "")
  | .quantile phi label => .quantile phi (if label = "_entry" then "_entry" else "")

def RangeAggX.skel (r : RangeAggX) : RangeAggX :=
  ⟨r.kind.skel, r.sel.skel, r.post.map StageX.skel, r.durNs, r.byPrefix.map Grouping.skel, r.bySuffix.map Grouping.skel, r.cmp⟩

def VecOp.skel (a : VecOp) : VecOp := ⟨a.fn, a.byPrefix.map Grouping.skel, a.bySuffix.map Grouping.skel, a.cmp⟩

def MetricQueryX.skel (q : MetricQueryX) : MetricQueryX := ⟨q.range.skel, q.agg.map VecOp.skel, q.topk⟩

/-- **sameShapeMX**: equal skeletons -/
def sameShapeMX (q1 q2 : MetricQueryX) : Prop := q1.skel = q2.skel

instance (q1 q2 : MetricQueryX) : Decidable (sameShapeMX q1 q2) := inferInstanceAs (Decidable (q1.skel = q2.skel))

end Qryn.LogQL
