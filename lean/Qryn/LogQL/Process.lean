import Qryn.LogQL.Planner
/-! C14: a prepared plan is an object with state. `WithConnectorPlanner` memoizes the fingerprint sub-query
    (`fpCache`) during a `Process`; the top-level `cacheResetPlanner` (the `fix:` for re-execution) clears the
    memo at the start of every `Process`, so each execution builds the chain for the context it is given. -/
namespace Qryn.LogQL
open Qryn Qryn.Sql

/-- `planLog` with the fingerprint chain given explicitly -/
def planLogWith (chain : List (Alias × Sel)) (c : Ctx) (q : LogQuery) : Sel :=
  .mk (chain ++ [(.named "main", mainSel c q), (.named "_time_series", timeSeriesSel c), (.named "prefinal", joinedSel c)])
    false
    [simpleCol "prefinal.fingerprint" "fingerprint", simpleCol "prefinal.labels" "labels",
     simpleCol "prefinal.string" "string", simpleCol "prefinal.timestamp_ns" "timestamp_ns"]
    (some (.withRef (.named "prefinal"))) [] none none [] none
    [.orderBy (.raw "fingerprint") (dirOf c), .orderBy (.raw "timestamp_ns") (dirOf c)] none

def chainOf (c : Ctx) (q : LogQuery) : List (Alias × Sel) := fpChain c (streamSelect c q.matchers) 0 (labelConds q)

/-- mutable state of a prepared log-query plan: the cached fingerprint chain (`planner.fpCache`) -/
structure PlanState where
  fpCache : Option (List (Alias × Sel)) := none

/-- `cacheResetPlanner.Process`: forget what the previous execution memoized -/
def PlanState.reset (_ : PlanState) : PlanState := ⟨none⟩

/-- one `Process(ctx)` of a prepared plan: reset, then the first planner that needs the fingerprint
    sub-query builds and memoizes it, the others re-use the memo -/
def process (st : PlanState) (c : Ctx) (q : LogQuery) : PlanState × Sel :=
  let chain := st.reset.fpCache.getD (chainOf c q)
  (⟨some chain⟩, planLogWith chain c q)

/-- the statements of successive executions -/
def runs (st : PlanState) (q : LogQuery) : List Ctx → List Sel
  | [] => []
  | c :: cs => let r := process st c q; r.2 :: runs r.1 q cs

/-- the parts of a context that do not move while a plan is re-executed (tail: only From/To advance) -/
def Ctx.sameStatic (a b : Ctx) : Prop :=
  a.limit = b.limit ∧ a.orderAsc = b.orderAsc ∧ a.tp = b.tp ∧ a.isCluster = b.isCluster ∧
  a.ginTable = b.ginTable ∧ a.samplesTable = b.samplesTable ∧ a.tsTable = b.tsTable ∧ a.tsDistTable = b.tsDistTable

end Qryn.LogQL
