import Qryn.LogQL.SemX
/-! The push-down of label filters to the stored labels (`analyzeScript` → `planTS`): what it needs to be sound.

    `labelsAt`: the label set an entry carries when it reaches a stage of the pipeline (the stream's stored labels folded
    through the json / regexp / drop stages before it, as in `LogQL.SemX.stagesX`). A filter may be decided on the stored
    labels iff it evaluates the same on both. `independent` is a syntactic criterion that guarantees it (the filter reads no
    label an earlier stage may set or remove); the pinned rule (`simpleOps`: nothing rewrote the labels yet) is its
    trivial instance.

    `PFilter` keeps the parentheses of the parsed filter (`logql_parser.LabelFilter` / `Head`), which `LabelCond` forgets:
    needed to state the rule of a rejected change that continues the push-down after `| drop` and looks for dropped
    labels in unparenthesised comparisons only (`simpleOpsPastDrop`). -/
namespace Qryn.LogQL
open Qryn Qryn.Sql

/-- the labels of an entry (stored labels `stored`, line `line`) when it reaches stage `i` of the pipeline `ss` -/
def labelsAt (o : Oracles) (line : Bytes) (stored : Labels) (ss : List StageX) (i : Nat) : Labels :=
  (changersOf (ss.take i)).foldl (applyChanger o line) stored

/-- the label names a filter reads -/
def LabelCond.reads : LabelCond → List Bytes
  | .str l _ _ => [l.toUTF8.toList]
  | .num l _ _ => [l.toUTF8.toList]
  | .and a b => a.reads ++ b.reads
  | .or a b => a.reads ++ b.reads

/-- the label names a stage may set (json parameters, named groups) or remove (drop) -/
def Changer.writes : Changer → List Bytes
  | .json ps => ps.map (·.1)
  | .regexp names _ => names
  | .drop ps => ps.map (·.1)

/-- no label the filter reads is touched by one of the stages -/
def independent (cs : List Changer) (lc : LabelCond) : Bool :=
  cs.all (fun c => c.writes.all (fun n => !lc.reads.contains n))

/-! ### the parsed filter, parentheses kept -/
/-- `LabelFilter{Head, Op, Tail}` with `Head = SimpleHead | "(" ComplexHead ")"`; `isAnd = false` is `or` -/
inductive PFilter
  | simple (atom : LabelCond)                                      -- a comparison, end of the chain
  | complex (inner : PFilter)                                      -- a parenthesised group, end of the chain
  | simpleThen (atom : LabelCond) (isAnd : Bool) (tail : PFilter)
  | complexThen (inner : PFilter) (isAnd : Bool) (tail : PFilter)
deriving Repr

/-- what the planners make of it (`LabelFilterPlanner.makeSqlCond`): the parentheses only group -/
def PFilter.cond : PFilter → LabelCond
  | .simple a => a
  | .complex f => f.cond
  | .simpleThen a true t => .and a t.cond
  | .simpleThen a false t => .or a t.cond
  | .complexThen f true t => .and f.cond t.cond
  | .complexThen f false t => .or f.cond t.cond

inductive PStage
  | line (f : LineFilter)
  | label (f : PFilter)
  | ch (c : Changer)
deriving Repr

def PStage.erase : PStage → StageX
  | .line f => .fl (.line f)
  | .label f => .fl (.label f.cond)
  | .ch c => .ch c

/-- the helper of the rejected change (`filterReadsLabels`): follows `Tail`, looks at `Head.SimpleHead` only — never
    into a parenthesised group -/
def PFilter.readsUnparenthesised (labels : List Bytes) : PFilter → Bool
  | .simple a => a.reads.any labels.contains
  | .complex _ => false
  | .simpleThen a _ t => a.reads.any labels.contains || t.readsUnparenthesised labels
  | .complexThen _ _ t => t.readsUnparenthesised labels

/-- the marking loop of the rejected change: `| drop` no longer ends it; the names dropped so far are collected and a
    later label filter is still marked unless `filterReadsLabels` finds one of them; a parser still ends the loop -/
def simpleOpsPastDrop (dropped : List Bytes) : List PStage → List Bool
  | [] => []
  | .label f :: rest => (!f.readsUnparenthesised dropped) :: simpleOpsPastDrop dropped rest
  | .line _ :: rest => false :: simpleOpsPastDrop dropped rest
  | .ch (.drop ps) :: rest => false :: simpleOpsPastDrop (dropped ++ ps.map (·.1)) rest
  | .ch _ :: rest => false :: rest.map (fun _ => false)

end Qryn.LogQL
