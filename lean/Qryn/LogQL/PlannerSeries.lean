import Qryn.LogQL.Planner
/-! Model of the Loki series and label-values planners:
    planner_series.go (`SeriesPlanner.Process`), planner_values.go (`ValuesPlanner.Process`), with the fingerprint
    planner of `PlanFingerprints` (planner_plan_fingerprints.go: the stream selector's matchers only — pipeline stages
    of the script are not planned). Tied by text (stream `model-series` of C13). -/
namespace Qryn.LogQL
open Qryn Qryn.Sql

/-- `ctx.To.UTC().Format("2006-01-02")` -/
def toDate (c : Ctx) : Bytes := Time.formatDate (Int.fdiv c.toNs 1000000000)

def limitOf (c : Ctx) : Option Expr := if c.limit > 0 then some (.int c.limit) else none

/-- `sql.NewWith(fpSel, "fp_sel")` over `PlanFingerprints(script).Process` -/
def fpSelWith (c : Ctx) (ms : List Matcher) : Alias × Sel := (.named "fp_sel", streamSelect c ms)

/-- `SeriesPlanner.Process` -/
def planSeries (c : Ctx) (ms : List Matcher) : Sel :=
  let table := if c.isCluster then c.tsDistTable else c.tsTable
  ((Sel.mk [] true [simpleCol "labels" "labels"] (some (.col (.raw table) "time_series")) [] none
    (some (and_ [ge (.raw "date") (.str (Time.formatFromDate c.fromNs)), le (.raw "date") (.str (toDate c)),
                 .isIn (.raw "fingerprint") [.withRef (.named "fp_sel")], getTypes c]))
    [] none [] none).with_ [fpSelWith c ms]).setLimit (limitOf c)

/-- the scan of `ValuesPlanner.Process` before the optional fingerprint restriction -/
def valuesBase (c : Ctx) (key : Bytes) : Sel :=
  .mk [] true [.raw "val"] (some (.raw c.ginTable)) [] none
    (some (and_ [ge (.raw "date") (.str (Time.formatFromDate c.fromNs)), le (.raw "date") (.str (toDate c)),
                 eq (.raw "key") (.str key), getTypes c]))
    [] none [] none

/-- `ValuesPlanner.Process`; `ms = none`: no selector was given (`FingerprintsPlanner == nil`) -/
def planValues (c : Ctx) (key : Bytes) (ms : Option (List Matcher)) : Sel :=
  (match ms with
   | none => valuesBase c key
   | some ms => ((valuesBase c key).with_ [fpSelWith c ms]).andWhere [.isIn (.raw "fingerprint") [.withRef (.named "fp_sel")]]).setLimit (limitOf c)

end Qryn.LogQL
