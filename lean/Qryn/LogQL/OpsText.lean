import Qryn.LogQL.PlannerMetric
import Qryn.LogQL.Sem
/-! The function-name → SQL tables of the planner model as text, for the tie with the regenerated
    `Gen.LogQLOps` (the `switch` statements of planner_lra.go, planner_unwrap_function.go, planner_agg_op.go,
    planner_metrics15s_shortcut.go, planner_comparison.go). `exprText` is `renderExpr` on `String` for the
    purely textual expressions those switches build; the driver checks `renderExpr e = (exprText e).toUTF8`
    on every table entry at run time (op `c08optext`). -/
namespace Qryn.LogQL
open Qryn Qryn.Sql

/-! ### the op tables of the model, as text, for the tie with `Gen.LogQLOps` -/

/-- text of the purely textual expressions the value switches build (same shape as `renderExpr`, on `String`) -/
def exprText : Expr → String
  | .raw s => s
  | .int i => toString i
  | .divOp x y => exprText x ++ " / " ++ exprText y
  | .mulOp x y => exprText x ++ " * " ++ exprText y
  | .call fn [] => fn ++ "()"
  | .call fn [x] => fn ++ "(" ++ exprText x ++ ")"
  | .call fn [x, y] => fn ++ "(" ++ exprText x ++ ", " ++ exprText y ++ ")"
  | _ => "?"

def RangeFn.name : RangeFn → String
  | .rate => "rate" | .countOverTime => "count_over_time" | .bytesRate => "bytes_rate" | .bytesOverTime => "bytes_over_time"
def UnwrapFn.name : UnwrapFn → String
  | .rate => "rate" | .sumOT => "sum_over_time" | .avgOT => "avg_over_time" | .maxOT => "max_over_time"
  | .minOT => "min_over_time" | .firstOT => "first_over_time" | .lastOT => "last_over_time"
  | .stdvarOT => "stdvar_over_time" | .stddevOT => "stddev_over_time"
def AggFn.name : AggFn → String
  | .sum => "sum" | .min => "min" | .max => "max" | .avg => "avg" | .stddev => "stddev" | .stdvar => "stdvar" | .count => "count"

def allRangeFns : List RangeFn := [.rate, .countOverTime, .bytesRate, .bytesOverTime]
def allUnwrapFns : List UnwrapFn := [.rate, .sumOT, .avgOT, .maxOT, .minOT, .firstOT, .lastOT, .stdvarOT, .stddevOT]
def allAggFns : List AggFn := [.sum, .min, .max, .avg, .stddev, .stdvar, .count]
def allCmpOps : List CmpOp := [.gt, .lt, .ge, .le, .eq, .neq]

/-- the seconds literal stands where the Go format has `%f` -/
def secHole : Expr := .raw "%f"
/-- the range in nanoseconds stands where the Go format has `%d` -/
def nsHole : Expr := .raw "%d"

def lraOpsModel : List (String × String) := allRangeFns.map (fun f => (f.name, exprText (lraValue f nsHole)))
def unwrapOpsModel : List (String × String) := allUnwrapFns.map (fun f => (f.name, exprText (unwrapValue f nsHole)))
def aggOpsModel : List (String × String) := allAggFns.map (fun f => (f.name, exprText (aggValue f)))
def shortcutOpsModel : List (String × String) :=
  [RangeFn.rate, RangeFn.countOverTime].map (fun f => (f.name, exprText (shortcutValue f secHole)))

/-- the SQL operator `cmpExpr` writes for a LogQL comparison operator -/
def cmpSqlOp (op : CmpOp) : String :=
  match cmpExpr ⟨op, ⟨0, []⟩⟩ with
  | .logical fn _ => fn
  | _ => "?"
def cmpOpsModel : List (String × String) := allCmpOps.map (fun op => (cmpName op, cmpSqlOp op))


/-- every expression the tables are made of -/
def tableExprs : List Expr :=
  allRangeFns.map (fun f => lraValue f nsHole) ++ allUnwrapFns.map (fun f => unwrapValue f nsHole) ++
  allAggFns.map aggValue ++ [shortcutValue .rate secHole, shortcutValue .countOverTime secHole]

def tablesRenderAsText : Bool := tableExprs.all (fun e => renderExpr e == b (exprText e))

end Qryn.LogQL
