import Qryn.LogQL.Planner
import Qryn.Gen.C07Analyze
/-! The SQL-side pipeline stages of a LogQL log query beyond `LogQL.Planner`: `| json l="path", …`,
    `| regexp "…"`, `| drop …`, and label / line filters placed after them.

    Mirrors (after the `fix:` commits of C07 ext): logql_transpiler_v2/planner.go (`GetBreakpoint`, `breakScript`:
    what is handed to ClickHouse and with which `finalize`), clickhouse_planner/analyze.go (`simpleLabelOperation`,
    `labelsJoinIdx`, `renewMainAfter`), planner.go (`planSpl`, `planParser`, `planDrop`, `planLabelFilter`,
    `planLineFilter`), planner_parser.go, planner_parser_json.go, planner_parser_regexp.go (`regexMap`; the
    participle parse of the pattern is an environment function, like `re2Like`), planner_drop.go,
    planner_label_filter.go with the default getter `labels['name']`, planner_main_renew.go,
    planner_labels_joiner.go, planner_main_finalizer.go.

    Shape of the plan. Let J be the first stage that rewrites the labels (parser or drop). Stages before J are
    those of `LogQL.Planner` (line filters in `main`, label filters on the series table). At J the samples are
    joined with their series' labels; from there the stages form maximal runs of label-rewriting stages
    (`Run.ch`) and of filters (`Run.fl`); every run is one SELECT: the first on the join, the others on the
    previous one (`MainRenewPlanner`, `subsel_<k>`); the last one carries ORDER BY timestamp and, when the
    whole script runs in ClickHouse (`finalize`), the LIMIT. -/
namespace Qryn.LogQL
open Qryn Qryn.Sql

/-- stages that rewrite the labels column -/
inductive Changer
  | json (ps : List (Bytes × List JArg))       -- `| json l="a.b[0]", …` (at least one parameter): label, ClickHouse path
  | regexp (names : List Bytes) (re : Bytes)   -- `| regexp "…"`: group names in order ("" = unnamed) and the pattern
                                               --   with `?P<name>` removed, as `parseRe` / `collectGroupNames` / `String` give them
  | drop (ps : List (Bytes × Bytes))           -- `| drop a, b="v"`: name, value ("" = any value)
deriving DecidableEq, Repr

inductive StageX
  | fl (s : Stage)       -- a line filter or a label filter
  | ch (c : Changer)
deriving DecidableEq, Repr

structure LogQueryX where
  matchers : List Matcher
  stages : List StageX
deriving Repr

/-! ### the hand-over to the in-process engine (`GetBreakpoint`, `breakScript`) -/
/-- a pipeline element of a script: a stage ClickHouse can run, or one only the in-process engine has
    (`| json` without parameters, `| logfmt`, `| line_format`, `| label_format`) -/
inductive ScriptStage
  | sql (s : StageX)
  | inproc (tag : String)
deriving DecidableEq, Repr

def ScriptStage.breaks : ScriptStage → Bool
  | .inproc _ => true
  | .sql _ => false

/-- `Pipelines[:breakpoint]` -/
def sqlPrefix : List ScriptStage → List StageX
  | .sql s :: rest => s :: sqlPrefix rest
  | _ => []

/-- `finalize`: the whole script runs in ClickHouse (`breakpoint == BreakpointNo`) -/
def finalizes (ss : List ScriptStage) : Bool := ss.all (fun s => !s.breaks)

/-! ### analyze.go -/
/-- the specification's view of a pipeline (used by `LogQL.SemX`, not by the plan): the filters before the first
    label-rewriting stage — they can only see the labels the stream was stored with — and the rest -/
def splitPre : List StageX → List Stage × List StageX
  | .fl s :: rest => ((splitPre rest).1 |> (s :: ·), (splitPre rest).2)
  | rest => ([], rest)

/-- the field of `logql_parser.StrSelectorPipeline` that is set for a stage of the fragment -/
def StageX.kind : StageX → String
  | .fl (.line _) => "LineFilter"
  | .fl (.label _) => "LabelFilter"
  | .ch (.json _) => "Parser"
  | .ch (.regexp _ _) => "Parser"
  | .ch (.drop _) => "Drop"

/-- `analyzeScript`, first loop, the two tests (tables regenerated from analyze.go: `Gen.C07Analyze`): the stage is
    marked as decidable on the stored labels / the loop ends after it. Both look at the KIND of the stage only — a
    label filter is marked whatever its shape (comparison, and/or chain, parenthesised group). -/
def marksSimple (s : StageX) : Bool := Gen.C07Analyze.pushdownMarks.contains s.kind
def stopsPushdown (s : StageX) : Bool := Gen.C07Analyze.pushdownStops.contains s.kind

/-- `p.simpleLabelOperation`: `for i, ppl := range pipeline { if <mark> { simple[i] = true }; if <stop> { break } }` -/
def simpleOps : List StageX → List Bool
  | [] => []
  | s :: rest => marksSimple s :: (if stopsPushdown s then rest.map (fun _ => false) else simpleOps rest)

/-- one test of the second loop of `analyzeScript` -/
def joinsAt (s : StageX) (simple : Bool) : Bool :=
  Gen.C07Analyze.joinAt.any (fun t => t.1 == s.kind && (!t.2 || !simple))

/-- `p.labelsJoinIdx` (`none` = −1): the first stage that needs the labels column -/
def labelsJoinIdx (ss : List StageX) : Option Nat :=
  (ss.zip (simpleOps ss)).findIdx? (fun p => joinsAt p.1 p.2)

/-- the `plan*` method `planSpl` dispatches the stage to plans nothing when the stage is marked -/
def skippedWhenSimple (s : StageX) : Bool :=
  match Gen.C07Analyze.dispatch.lookup s.kind with
  | some m => Gen.C07Analyze.skipsWhenSimple.contains m
  | none => false

def flOf : StageX → Option Stage
  | .fl s => some s
  | .ch _ => none

/-- what `planTS` / `planSpl` do with the analysis -/
structure Analysis where
  pushed : List LabelCond    -- `planTS`: the marked label filters, in pipeline order, wrap the fingerprint selection
  pre : List Stage           -- the stages before `labelsJoinIdx`: planned on `main` (marked ones: nothing is planned)
  post : List StageX         -- from `labelsJoinIdx` on: planned on the join with the labels, marked ones skipped

/-- `planTS`: `if !isSimpleLabelFilter { continue }; if ppl.LabelFilter != nil { wrap }` -/
def pushedOf : StageX × Bool → Option LabelCond
  | (.fl (.label lc), true) => if Gen.C07Analyze.tsWraps == "LabelFilter" then some lc else none
  | _ => none

/-- `planSpl` from `labelsJoinIdx` on: a marked stage whose `plan*` method returns at once leaves nothing in the request -/
def keptOf (p : StageX × Bool) : Bool := !(p.2 && skippedWhenSimple p.1)

def analyze (ss : List StageX) : Analysis :=
  let t := ss.zip (simpleOps ss)
  let j := (labelsJoinIdx ss).getD ss.length
  { pushed := t.filterMap pushedOf
    pre := (ss.take j).filterMap flOf
    post := ((t.drop j).filter keptOf).map (·.1) }

/-- the label-rewriting stages of a pipeline, in order -/
def changersOf : List StageX → List Changer
  | [] => []
  | .ch c :: rest => c :: changersOf rest
  | .fl _ :: rest => changersOf rest

inductive Run
  | ch (cs : List Changer)
  | fl (fs : List Stage)
deriving DecidableEq, Repr

def consCh (c : Changer) : List Run → List Run
  | .ch cs :: more => .ch (c :: cs) :: more
  | more => .ch [c] :: more
def consFl (s : Stage) : List Run → List Run
  | .fl fs :: more => .fl (s :: fs) :: more
  | more => .fl [s] :: more

/-- maximal runs of stages of one kind: `renewMainAfter[i] = changesLabels(i) != changesLabels(i+1)` -/
def groupRuns : List StageX → List Run
  | [] => []
  | .ch c :: rest => consCh c (groupRuns rest)
  | .fl s :: rest => consFl s (groupRuns rest)

/-! ### the labels column -/
/-- `ParserPlanner.json/regexp`, `PlannerDrop` applied in order to the labels expression; `rid` = next `ctx.Id()`
    of the rendering context (only `regexMap` draws one) -/
def chExpr : Nat → Expr → List Changer → Expr × Nat
  | rid, base, [] => (base, rid)
  | rid, base, .json ps :: rest => chExpr rid (.call "mapUpdate" [base, .jsonMap ps]) rest
  | rid, base, .regexp names re :: rest => chExpr (rid + 1) (.call "mapUpdate" [base, .regexMap names re rid]) rest
  | rid, base, .drop ps :: rest => chExpr rid (.mapDrop base ps) rest

/-- the default label getter of `LabelFilterPlanner`: `labels['name']` (names are restricted by the LogQL lexer
    to `[a-zA-Z_][a-zA-Z0-9_]*`, for which the escaped and the raw text coincide) -/
def labelGetterMap (name : String) : Expr := .mapAt (.raw "labels") name.toUTF8.toList

def stageClause : Stage → Expr
  | .line f => lineClause f
  | .label lc => labelCondSql labelGetterMap lc

def joinSpec (c : Ctx) : String × Alias × Expr :=
  (if c.isCluster then "GLOBAL ANY LEFT " else "ANY LEFT ", .named "_time_series",
    eq (.raw "main.fingerprint") (.raw "_time_series.fingerprint"))

/-- one run as one SELECT: on the join of `main` with `_time_series` (`src = none`) or on `subsel_<k>` -/
def runSel (c : Ctx) (src : Option Nat) (rid : Nat) (r : Run) (ob : List Expr) (lim : Option Expr) : Sel × Nat :=
  match src, r with
  | none, .ch cs =>
    let l := chExpr rid (.raw "_time_series.labels") cs
    (.mk [] false
      [.col .labelsFp "fingerprint", simpleCol "main.timestamp_ns" "timestamp_ns", .col l.1 "labels",
       simpleCol "main.string" "string", simpleCol "main.value" "value"]
      (some (.withRef (.named "main"))) [joinSpec c] none none [] none ob lim, l.2)
  | none, .fl fs =>
    (.mk [] false
      [simpleCol "main.fingerprint" "fingerprint", simpleCol "main.timestamp_ns" "timestamp_ns",
       simpleCol "_time_series.labels" "labels", simpleCol "main.string" "string", simpleCol "main.value" "value"]
      (some (.withRef (.named "main"))) [joinSpec c] none (some (and_ (fs.map stageClause))) [] none ob lim, rid)
  | some k, .ch cs =>
    let l := chExpr rid (.raw "samples.labels") cs
    (.mk [] false
      [simpleCol "samples.timestamp_ns" "timestamp_ns", .col .labelsFp "fingerprint", .col l.1 "labels",
       simpleCol "samples.string" "string", simpleCol "samples.value" "value"]
      (some (.col (.withRef (.sub k)) "samples")) [] none none [] none ob lim, l.2)
  | some k, .fl fs =>
    (.mk [] false
      [simpleCol "samples.timestamp_ns" "timestamp_ns", simpleCol "samples.fingerprint" "fingerprint",
       simpleCol "samples.labels" "labels", simpleCol "samples.string" "string", simpleCol "samples.value" "value"]
      (some (.col (.withRef (.sub k)) "samples")) [] none (some (and_ (fs.map stageClause))) [] none ob lim, rid)

/-- the WITH entries of the runs: all but the last are `subsel_<k>` (ids continue those of the fingerprint
    chain), the last one is `prefinal` and carries ORDER BY / LIMIT -/
def planRuns (c : Ctx) (ob : List Expr) (lim : Option Expr) : Option Nat → Nat → Nat → List Run → List (Alias × Sel)
  | _, _, _, [] => []
  | src, _, rid, [r] => [(.named "prefinal", (runSel c src rid r ob lim).1)]
  | src, k, rid, r :: r' :: rest =>
    (.sub k, (runSel c src rid r [] none).1) :: planRuns c ob lim (some k) (k + 1) (runSel c src rid r [] none).2 (r' :: rest)

def finalCols : List Expr :=
  [simpleCol "prefinal.fingerprint" "fingerprint", simpleCol "prefinal.labels" "labels",
   simpleCol "prefinal.string" "string", simpleCol "prefinal.timestamp_ns" "timestamp_ns"]

/-- `MainFinalizerPlanner`: ORDER BY fingerprint, timestamp when final, timestamp only otherwise -/
def finalOrder (c : Ctx) (fin : Bool) : List Expr :=
  if fin then [.orderBy (.raw "fingerprint") (dirOf c), .orderBy (.raw "timestamp_ns") (dirOf c)]
  else [.orderBy (.raw "timestamp_ns") (dirOf c)]

/-- the context the limit planner sees: `MainLimitPlanner` is only planned when `finalize` -/
def limCtx (c : Ctx) (fin : Bool) : Ctx := { c with limit := if fin then c.limit else 0 }

/-- **the plan** of `clickhouse_planner.Plan(script, fin)` → `Process` for the SQL-side stages -/
def planLogX (c : Ctx) (fin : Bool) (q : LogQueryX) : Sel :=
  let a := analyze q.stages
  let q0 : LogQuery := ⟨q.matchers, a.pre⟩
  let chain := fpChain c (streamSelect c q.matchers) 0 a.pushed
  match a.post with
  | [] =>
    .mk (chain ++ [(.named "main", mainSel (limCtx c fin) q0), (.named "_time_series", timeSeriesSel c),
                   (.named "prefinal", joinedSel c)])
      false finalCols (some (.withRef (.named "prefinal"))) [] none none [] none (finalOrder c fin) none
  | _ :: _ =>
    .mk (chain ++ [(.named "main", mainSel { c with limit := 0 } q0), (.named "_time_series", timeSeriesSel c)] ++
          planRuns c [.orderBy (.raw "timestamp_ns") (dirOf c)]
            (if (limCtx c fin).limit = 0 then none else some (.int (limCtx c fin).limit))
            none (a.pushed.length + 1) 1 (groupRuns a.post))
      false finalCols (some (.withRef (.named "prefinal"))) [] none none [] none (finalOrder c fin) none

/-- what `logql_transpiler_v2.Plan` sends to ClickHouse for a script -/
def planScript (c : Ctx) (matchers : List Matcher) (ss : List ScriptStage) : Sel :=
  planLogX c (finalizes ss) ⟨matchers, sqlPrefix ss⟩

end Qryn.LogQL
