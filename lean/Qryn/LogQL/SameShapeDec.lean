import Qryn.LogQL.SameShape
/-! `sameShapeX` is decidable (executable: the driver answers `c10sameshape` with it). -/
namespace Qryn.LogQL
open Qryn Qryn.Sql

def All2.dec {α β : Type} {R : α → β → Prop} (d : ∀ a b, Decidable (R a b)) : ∀ (xs : List α) (ys : List β), Decidable (All2 R xs ys)
  | [], [] => isTrue trivial
  | a :: as, b :: bs =>
    match d a b, All2.dec d as bs with
    | isTrue h1, isTrue h2 => isTrue ⟨h1, h2⟩
    | isFalse h1, _ => isFalse (fun h => h1 h.1)
    | _, isFalse h2 => isFalse (fun h => h2 h.2)
  | [], _ :: _ => isFalse (fun h => h)
  | _ :: _, [] => isFalse (fun h => h)

instance : ∀ a b : Matcher, Decidable (a.same b) := fun a b => inferInstanceAs (Decidable (a.op = b.op))
instance : ∀ a b : LineFilter, Decidable (a.same b) := fun a b => inferInstanceAs (Decidable (a.skel = b.skel))

def LabelCond.sameDec : ∀ a b : LabelCond, Decidable (a.same b)
  | .str l op _, .str l' op' _ => inferInstanceAs (Decidable (l = l' ∧ op = op'))
  | .num l op v, .num l' op' v' => inferInstanceAs (Decidable (l = l' ∧ op = op' ∧ v = v'))
  | .and l r, .and l' r' =>
    match LabelCond.sameDec l l', LabelCond.sameDec r r' with
    | isTrue h1, isTrue h2 => isTrue ⟨h1, h2⟩
    | isFalse h1, _ => isFalse (fun h => h1 h.1)
    | _, isFalse h2 => isFalse (fun h => h2 h.2)
  | .or l r, .or l' r' =>
    match LabelCond.sameDec l l', LabelCond.sameDec r r' with
    | isTrue h1, isTrue h2 => isTrue ⟨h1, h2⟩
    | isFalse h1, _ => isFalse (fun h => h1 h.1)
    | _, isFalse h2 => isFalse (fun h => h2 h.2)
  | .str _ _ _, .num _ _ _ => isFalse (fun h => h)
  | .str _ _ _, .and _ _ => isFalse (fun h => h)
  | .str _ _ _, .or _ _ => isFalse (fun h => h)
  | .num _ _ _, .str _ _ _ => isFalse (fun h => h)
  | .num _ _ _, .and _ _ => isFalse (fun h => h)
  | .num _ _ _, .or _ _ => isFalse (fun h => h)
  | .and _ _, .str _ _ _ => isFalse (fun h => h)
  | .and _ _, .num _ _ _ => isFalse (fun h => h)
  | .and _ _, .or _ _ => isFalse (fun h => h)
  | .or _ _, .str _ _ _ => isFalse (fun h => h)
  | .or _ _, .num _ _ _ => isFalse (fun h => h)
  | .or _ _, .and _ _ => isFalse (fun h => h)
instance : ∀ a b : LabelCond, Decidable (a.same b) := LabelCond.sameDec

instance : ∀ a b : Stage, Decidable (a.same b)
  | .line f, .line g => inferInstanceAs (Decidable (f.same g))
  | .label c, .label d => inferInstanceAs (Decidable (c.same d))
  | .line _, .label _ => isFalse (fun h => h)
  | .label _, .line _ => isFalse (fun h => h)

def jargSameDec : ∀ a b : JArg, Decidable (JArg.same a b)
  | .key _, .key _ => isTrue trivial
  | .idx i, .idx j => inferInstanceAs (Decidable (i = j))
  | .key _, .idx _ => isFalse (fun h => h)
  | .idx _, .key _ => isFalse (fun h => h)

instance : ∀ a b : Changer, Decidable (a.same b)
  | .json ps, .json ps' =>
    show Decidable (All2 (fun (p p' : Bytes × List JArg) => All2 JArg.same p.2 p'.2) ps ps') from
      All2.dec (fun p p' => All2.dec jargSameDec p.2 p'.2) ps ps'
  | .regexp names _, .regexp names' _ => inferInstanceAs (Decidable (names.length = names'.length))
  | .drop ps, .drop ps' =>
    show Decidable (All2 (fun (p p' : Bytes × Bytes) => p.2.isEmpty = p'.2.isEmpty) ps ps') from
      All2.dec (fun p p' => inferInstanceAs (Decidable (p.2.isEmpty = p'.2.isEmpty))) ps ps'
  | .json _, .regexp _ _ => isFalse (fun h => h)
  | .json _, .drop _ => isFalse (fun h => h)
  | .regexp _ _, .json _ => isFalse (fun h => h)
  | .regexp _ _, .drop _ => isFalse (fun h => h)
  | .drop _, .json _ => isFalse (fun h => h)
  | .drop _, .regexp _ _ => isFalse (fun h => h)

instance : ∀ a b : StageX, Decidable (a.same b)
  | .fl s, .fl t => inferInstanceAs (Decidable (s.same t))
  | .ch c, .ch d => inferInstanceAs (Decidable (c.same d))
  | .fl _, .ch _ => isFalse (fun h => h)
  | .ch _, .fl _ => isFalse (fun h => h)

instance : ∀ a b : ScriptStage, Decidable (a.same b)
  | .sql s, .sql t => inferInstanceAs (Decidable (s.same t))
  | .inproc a, .inproc b => inferInstanceAs (Decidable (a = b))
  | .sql _, .inproc _ => isFalse (fun h => h)
  | .inproc _, .sql _ => isFalse (fun h => h)

instance (q1 q2 : LogQueryX) : Decidable (sameShapeX q1 q2) :=
  match All2.dec (fun _ _ => inferInstance) q1.matchers q2.matchers, All2.dec (fun _ _ => inferInstance) q1.stages q2.stages with
  | isTrue h1, isTrue h2 => isTrue ⟨h1, h2⟩
  | isFalse h1, _ => isFalse (fun h => h1 h.1)
  | _, isFalse h2 => isFalse (fun h => h2 h.2)

/-- scripts (with in-process stages) of the same shape -/
def sameScript (ms ms' : List Matcher) (ss ss' : List ScriptStage) : Prop :=
  All2 Matcher.same ms ms' ∧ All2 ScriptStage.same ss ss'

instance (ms ms' : List Matcher) (ss ss' : List ScriptStage) : Decidable (sameScript ms ms' ss ss') :=
  match All2.dec (fun _ _ => inferInstance) ms ms', All2.dec (fun _ _ => inferInstance) ss ss' with
  | isTrue h1, isTrue h2 => isTrue ⟨h1, h2⟩
  | isFalse h1, _ => isFalse (fun h => h1 h.1)
  | _, isFalse h2 => isFalse (fun h => h2 h.2)

end Qryn.LogQL
