import Qryn.LogQL.SemMetric
import Qryn.LogQL.SemX
import Qryn.LogQL.PlannerMetricX
/-! Direct semantics (no SQL) of the metric queries of the labelled path (`LogQL.PlannerMetricX`): the *specification*
    `planMetricX` is proved against.

    Reading. The entries the stream selector and the stages before the first parser / drop let through (`entriesAtJoin`,
    C07: inside `[from, to)`, of the signal, stream selected, line filters; each with its stream's labels; in timestamp
    order) run through the remaining pipeline stages one after the other (`stagesX`, C07: a filter keeps the entries whose
    line / *current* labels satisfy it, `| json` / `| regexp` / `| drop` rewrite the labels and move the entry to the series
    of its new label set). The entries are then bucketed by series and by the range window `bucketOf d ts` and the range
    function is applied to each bucket: count / bytes (no unwrap), the unwrap functions over `toFloat64OrZero` of the
    unwrapped label (or of the line for `_entry`), `quantile_over_time(φ, …)` as the oracle `quantile φ` of the bucket's
    unwrapped values in timestamp order (the SQL side applies the same function: ClickHouse's `quantile` is not
    interpreted). A grouping clause on an unwrapped / quantile range aggregation regroups the entries before bucketing.
    Then, as in `LogQL.SemMetric`: comparison, vector aggregation by the kept label set, comparison, top/bottom-k,
    comparison, step re-bucketing. Every point carries its labels; no stream labels are attached at the end.
    stddev / stdvar: population variance, and the oracle `sqrt` of it. -/
namespace Qryn.LogQL
open Qryn Qryn.Sql

/-- `quantile_over_time(φ, …)` over the (timestamp, value) pairs of one (series, bucket) -/
def quantileVal (o : Oracles) (phi : NumLit) (grp : List (Int × Rat)) : Option Rat :=
  match grp with
  | [] => none
  | _ => some (o.quantile (numOf phi) (grp.map (·.2)))

/-- the entries the range aggregation sees: what the selector's pipeline lets through, in timestamp order -/
def entriesX (o : Oracles) (c : Ctx) (d : LokiDb) (r : RangeAggX) : List EntryX :=
  stagesX o r.post (entriesAtJoin o c d r.sel)

/-- the unwrapped value of an entry: of its label `label` as it is after the pipeline, or of its line for `_entry` -/
def unwrapOfX (o : Oracles) (label : String) (e : EntryX) : Rat :=
  if label = "_entry" then o.toFloat e.line else o.toFloat ((e.labels.lookup label.toUTF8.toList).getD [])

/-- an entry as a point of its series -/
def entryPtX (o : Oracles) (label : String) (e : EntryX) : Pt := ⟨.int e.fp, .map e.labels, e.ts, unwrapOfX o label e⟩

/-- the entry points an unwrapped / quantile range aggregation buckets. Without label-rewriting stage the labels are those
    of the stream's series row (`LogQL.SemMetric`: absent when the stream has none — ClickHouse: the type's default) -/
def entryPtsX (o : Oracles) (c : Ctx) (d : LokiDb) (r : RangeAggX) (label : String) : List Pt :=
  match r.post with
  | [] => (limited o { c with limit := 0 } d r.sel).map (fun s =>
      ⟨.int s.fp, labelsOf o c d r.sel s.fp, s.ts, unwrapOf o label (labelsOf o c d r.sel s.fp) s⟩)
  | _ :: _ => (entriesX o c d r).map (entryPtX o label)

/-- a point that carries its labels moves to the series of the label set `g` keeps -/
def regroupP (o : Oracles) (g : Grouping) (p : Pt) : Pt :=
  let kl := regroup o g p.labels
  ⟨kl.1, kl.2, p.ts, p.value⟩

/-- one point per (series, range bucket) of the entry points, in order of first occurrence -/
def groupRange (d : Nat) (val : List (Int × Rat) → Option Rat) (pts : List Pt) : List Pt :=
  let keyOf := fun (p : Pt) => (p.key, bucketOf d p.ts)
  (pts.map keyOf).eraseDups.filterMap (fun k =>
    let grp := pts.filter (fun p => keyOf p == k)
    (val (grp.map (fun p => (p.ts, p.value)))).map (fun v => ⟨k.1, (grp.head?.map (·.labels)).getD .null, k.2, v⟩))

/-- the range stage -/
def rangePointsX (o : Oracles) (c : Ctx) (d : LokiDb) (r : RangeAggX) : List Pt :=
  let es := entriesX o c d r
  let items := fun (label : String) =>
    let pts := entryPtsX o c d r label
    match chosenGrouping r.byPrefix r.bySuffix with
    | some g => pts.map (regroupP o g)
    | none => pts
  match r.kind with
  | .lra fn =>
    let keyOf := fun (e : EntryX) => (e.fp, bucketOf r.durNs e.ts)
    (es.map keyOf).eraseDups.map (fun k =>
      let grp := es.filter (fun e => keyOf e == k)
      ⟨.int k.1, (grp.head?.map (fun e => Val.map e.labels)).getD .null, k.2,
        lraVal fn r.durNs (grp.map (fun e => ⟨e.fp, e.ts, e.line, 0⟩))⟩)
  | .unwrap fn label => groupRange r.durNs (unwrapVal o fn r.durNs) (items label)
  | .quantile phi label => groupRange r.durNs (quantileVal o phi) (items label)

/-- the vector aggregation over points that carry their labels (none written: everything into the empty label set) -/
def aggStageX (o : Oracles) (a : VecOp) (pts : List Pt) : List Pt :=
  let items := pts.map (regroupP o a.grouping)
  let keyOf := fun (p : Pt) => (p.key, p.ts)
  (items.map keyOf).eraseDups.filterMap (fun k =>
    let grp := items.filter (fun p => keyOf p == k)
    (aggVal o a.fn (grp.map (·.value))).map (fun v => ⟨k.1, (grp.head?.map (·.labels)).getD .null, k.2, v⟩))

/-- the points of a metric query of the labelled path -/
def metricPointsX (o : Oracles) (c : MCtx) (d : LokiDb) (q : MetricQueryX) : List Pt :=
  let p0 := cmpStage q.range.cmp (rangePointsX o c.toCtx d q.range)
  let p1 := match q.agg with
    | some a => cmpStage a.cmp (aggStageX o a p0)
    | none => p0
  let p2 := match q.topk with
    | some t => cmpStage t.cmp (topkStage t.isTop t.k p1)
    | none => p1
  stepStage c.stepNs q.range.durNs p2

/-- **the specification**: the matrix a metric query of the labelled path returns (before the Go post-processors) -/
def evalMetricX (o : Oracles) (c : MCtx) (d : LokiDb) (q : MetricQueryX) : Table :=
  sortBy (rowLe matrixKeys) ((metricPointsX o c d q).map Pt.row)

end Qryn.LogQL
