import Qryn.LogQL.Ast
/-! The LogQL metric-query fragment of logql_parser/model_v2.go the C08 planner model covers:
    `LRAOrUnwrap` (range aggregation over a log selector of the C07 fragment, optionally ending in
    `| unwrap <label>`), `AggOperator`, `TopK`, with `ByOrWithout` in prefix and suffix position and
    `Comparison`. `quantile_over_time` and selectors with `| json l="p"` / `| regexp` / `| drop` are modelled by
    `LogQL.PlannerMetricX` (types `RangeAggX`, `MetricQueryX`). Outside: `absent_over_time`, macros, stages only the
    in-process engine has. -/
namespace Qryn.LogQL

/-- `LRAOrUnwrap.Fn` without a final unwrap stage (switch of `LRAPlanner.Process`) -/
inductive RangeFn | rate | countOverTime | bytesRate | bytesOverTime
deriving DecidableEq, Repr

/-- `LRAOrUnwrap.Fn` when the selector ends in `| unwrap` (switch of `UnwrapFunctionPlanner.Process`) -/
inductive UnwrapFn | rate | sumOT | avgOT | maxOT | minOT | firstOT | lastOT | stdvarOT | stddevOT
deriving DecidableEq, Repr

/-- `AggOperator.Fn` (switch of `AggOpPlanner.Process`) -/
inductive AggFn | sum | min | max | avg | stddev | stdvar | count
deriving DecidableEq, Repr

/-- `ByOrWithout`: label names are `Label_name`/`Macros_function` tokens: `[a-zA-Z_][a-zA-Z0-9_]*` -/
structure Grouping where
  isBy : Bool
  labels : List String
deriving DecidableEq, Repr

structure Comparison where
  op : CmpOp
  val : NumLit
deriving DecidableEq, Repr

inductive RangeKind
  | lra (fn : RangeFn)
  | unwrap (fn : UnwrapFn) (label : String)     -- selector ends in `| unwrap label`; `_entry` unwraps the line
deriving DecidableEq, Repr

/-- `LRAOrUnwrap`: `fn [by..] ( <selector> [<dur>] ) [by..] [cmp]` -/
structure RangeAgg where
  kind : RangeKind
  sel : LogQuery                  -- the selector without the final unwrap stage
  durNs : Nat                     -- `time.ParseDuration(Time + TimeUnit)` in nanoseconds
  byPrefix : Option Grouping := none
  bySuffix : Option Grouping := none
  cmp : Option Comparison := none
deriving DecidableEq, Repr

/-- `AggOperator` -/
structure VecAgg where
  fn : AggFn
  byPrefix : Option Grouping := none
  inner : RangeAgg
  bySuffix : Option Grouping := none
  cmp : Option Comparison := none
deriving DecidableEq, Repr

inductive TopInner
  | range (r : RangeAgg)
  | agg (a : VecAgg)
deriving DecidableEq, Repr

/-- `TopK`: `topk|bottomk ( k , inner ) [cmp]` -/
structure TopK where
  isTop : Bool
  k : Nat
  inner : TopInner
  cmp : Option Comparison := none
deriving DecidableEq, Repr

/-- `LogQLScript` with `StrSelector == nil` -/
inductive MetricQuery
  | range (r : RangeAgg)
  | agg (a : VecAgg)
  | topk (t : TopK)
deriving DecidableEq, Repr

def TopInner.rangeAgg : TopInner → RangeAgg
  | .range r => r
  | .agg a => a.inner

/-- `findFirst[LRAOrUnwrap]` / `getStreamSelector` / `shared.GetDuration`: the one range aggregation of a script -/
def MetricQuery.rangeAgg : MetricQuery → RangeAgg
  | .range r => r
  | .agg a => a.inner
  | .topk t => t.inner.rangeAgg

end Qryn.LogQL
