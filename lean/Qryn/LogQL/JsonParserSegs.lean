import Qryn.Sql.SegsOf
import Qryn.Gen.JsonParser
/-! C10: model of `sqlJsonParser.String` / `path2Sql` (clickhouse_planner/planner_parser_json.go), the object that
    renders the parameters of `| json label="path", …`, as a segment list: it is the `jsonMap` node of the SQL object
    model (`Sql.jsonMapSegs`, shared with C07's planner model). Every label and every NAME part of every path
    (`shared.JsonPathParamToArray`: identifiers and quoted field names — of any bytes) is a string leaf; an index part
    `[n]` is the decimal integer n+1 (`sql.NewIntVal`, after `fix: | json label="a[0]" …`). That the Go code builds every
    part as `NewStringVal(name)` or `NewIntVal(int64(idx)+1)` and writes it with `part.String` is the regenerated fact
    `Gen.JsonParser` (the extractor fails closed on any other construction or loop body); the text is compared byte for
    byte with the real object's `String` by the `jsonparser` stream. -/
namespace Qryn.LogQL
open Qryn Qryn.Sql

def jsonParserSegs (ps : List (Bytes × List JArg)) : List Seg := jsonMapSegs ps

def jsonParserText (ps : List (Bytes × List JArg)) : Bytes := renderSegs (jsonParserSegs ps)

end Qryn.LogQL
