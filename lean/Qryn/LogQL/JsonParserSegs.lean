import Qryn.Sql.SegsOf
import Qryn.Gen.JsonParser
/-! C10: model of `sqlJsonParser.String` / `path2Sql` (clickhouse_planner/planner_parser_json.go), the object that
    renders the parameters of `| json label="path", …`: as a segment list. Every label and every PART of every path
    (`shared.JsonPathParamToArray`: identifiers, 1-based positions, unquoted field names — all arrive as strings) is
    a string leaf; `col` is the text of the line column, `id` the value of the `ctx.Id()` counter before the call
    (one id per path: `jp_<id+1>`, `jp_<id+2>`, …). That the Go code writes every part through `NewStringVal` is the
    regenerated fact `Gen.JsonParser.partsEscaped` (the extractor fails closed on any other loop body); the text is
    compared byte for byte with the real object's `String` by the `jsonparser` stream. -/
namespace Qryn.LogQL
open Qryn Qryn.Sql

/-- `path2Sql`: `if(JSONType(col, 'p1','p2' as jp_N) == 'String', JSONExtractString(col, jp_N), JSONExtractRaw(col, jp_N))` -/
def pathSegs (col : Bytes) (n : Nat) (path : List Bytes) : List Seg :=
  [.raw (b "if(JSONType(" ++ col ++ b ", ")] ++ joinS (b ",") (path.map (fun p => [Seg.str p])) ++
  [.raw (b " as jp_" ++ natDigits n ++ b ") == 'String', JSONExtractString(" ++ col ++ b ", jp_" ++ natDigits n ++
         b "), JSONExtractRaw(" ++ col ++ b ", jp_" ++ natDigits n ++ b "))")]

def pathsSegs (col : Bytes) : Nat → List (List Bytes) → List (List Seg)
  | _, [] => []
  | id, p :: ps => pathSegs col (id + 1) p :: pathsSegs col (id + 1) ps

/-- `sqlJsonParser.String`: `mapFromArrays(['l1','l2'], [<path 1>,<path 2>])` -/
def jsonParserSegs (col : Bytes) (id : Nat) (labels : List Bytes) (paths : List (List Bytes)) : List Seg :=
  [.raw (b "mapFromArrays([")] ++ joinS (b ",") (labels.map (fun l => [Seg.str l])) ++ [.raw (b "], [")] ++
  joinS (b ",") (pathsSegs col id paths) ++ [.raw (b "])")]

def jsonParserText (col : Bytes) (id : Nat) (labels : List Bytes) (paths : List (List Bytes)) : Bytes :=
  renderSegs (jsonParserSegs col id labels paths)

end Qryn.LogQL
