import Qryn.LogQL.SemMetricX
import Qryn.LogQL.Supported
/-! The class of metric queries of the labelled path for which `evalSelA (planMetricX c q) = evalMetricX c q` is *proved*
    (`Qryn.C08.plan_metric_correct_ext`), as a decidable predicate; the driver labels the cases of the semantic stream with
    the same predicate. -/
namespace Qryn.LogQL
open Qryn Qryn.Sql

def RangeKindX.isQuantile : RangeKindX → Bool
  | .quantile _ _ => true
  | _ => false

/-- the queries `plan_metric_correct_ext` covers: the selector has a label-rewriting stage (`post` starts with one: it is
    what `splitPre` leaves) or the range aggregation is `quantile_over_time` over `| unwrap`; a plain range function needs
    such a stage (otherwise the query is one of `LogQL.supported`); range positive; at most 63
    stream matchers; any vector aggregation, with or without grouping clause -/
def supportedX (q : MetricQueryX) : Bool :=
  let r := q.range
  decide ((splitPre r.post).1 = []) &&
  (match r.kind with
   | .lra _ => !r.post.isEmpty
   | .unwrap _ _ => !r.post.isEmpty
   | .quantile _ _ => true) &&
  decide (0 < r.durNs) && decide (r.sel.matchers.length ≤ 63)

def shapeNameX (q : MetricQueryX) : String :=
  match q.agg, q.topk with
  | none, none => "range"
  | some _, none => "agg"
  | none, some _ => "topk(range)"
  | some _, some _ => "topk(agg)"

def kindNameX : RangeKindX → String
  | .lra _ => "lra"
  | .unwrap _ _ => "unwrap"
  | .quantile _ _ => "quantile"

def stageCountX (c : MCtx) (q : MetricQueryX) : Nat :=
  1 + optN q.range.cmp + optN (match q.range.kind with | .lra _ => none | _ => chosenGrouping q.range.byPrefix q.range.bySuffix) +
  (match q.agg with | some a => 1 + optN (chosenGrouping a.byPrefix a.bySuffix) + optN a.cmp | none => 0) +
  (match q.topk with | some t => 1 + optN t.cmp | none => 0) +
  (if c.stepNs ≤ (q.range.durNs : Int) then 0 else 1)

/-- label of a case of the semantic stream -/
def planClassX (q : MetricQueryX) : String :=
  let tail := s!"{kindNameX q.range.kind}{if q.range.post.isEmpty then "" else "+stages"}:{shapeNameX q}"
  if supportedX q then s!"proved-ext:{tail}"
  else
    s!"searched-ext:other:{tail}"

end Qryn.LogQL
