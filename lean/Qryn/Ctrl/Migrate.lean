/-! # Model of qryn's schema initialisation (ctrl/qryn/maintenance/update.go, ctrl/maintenance/shared.go)

  * `Stmt`, `Cat`, `exec` — the DDL statement shapes that occur in ctrl/qryn/sql/*.sql (and the bootstrap
    statements issued from Go), with ClickHouse's documented outcome for each: unguarded CREATE of an
    existing object, DROP/RENAME of a missing one, RENAME onto an existing one, ADD COLUMN of an existing
    column are errors; `IF NOT EXISTS` / `IF EXISTS` forms are no-ops; a statement that fails has no effect.
  * `Phase`, `run`, `steps` — `InitDBTry` followed by `Update`: every `updateScripts` call first issues its
    bootstrap statements (`CREATE TABLE IF NOT EXISTS ver …`), reads `max(ver)` for its stream key `k`,
    then `for i := ver; i < len(scripts); i++ { exec(scripts[i]); INSERT INTO ver (k, i+1) }`.
    `steps` lists every database call of a run with the state in which it is issued; a failure point is
    an index into that list.
  Object and column names are numbers (indices into the regenerated `Gen.Migrations.names`), so that the
  checks over the extracted statement table reduce in the kernel. Core-only: the driver links this file. -/
namespace Qryn.Ctrl.Migrate

abbrev Name := Nat

inductive Kind | table | view | mview
  deriving DecidableEq, Repr

/-- one object of the database's catalogue (tables, views and materialized views share one name space) -/
structure Obj where
  name : Name
  kind : Kind
  cols : List Name
  /-- identity of the text the object was created from (engine, column types, SELECT) -/
  body : Nat
  /-- 0, or the identity of the last `MODIFY ORDER BY` applied -/
  order : Nat
  deriving DecidableEq, Repr

structure Cat where
  /-- `CREATE DATABASE` has happened -/
  db : Bool
  objs : List Obj
  deriving DecidableEq, Repr

inductive AlterOp
  | addColumn (col : Name) (guarded : Bool)
  | modifyOrderBy (h : Nat)
  deriving DecidableEq, Repr

inductive Stmt
  | createDatabase (guarded : Bool)
  | create (kind : Kind) (name : Name) (guarded : Bool) (cols : List Name) (body : Nat) (needs : List Name)
  | drop (name : Name) (guarded : Bool)
  | rename (src dst : Name) (guarded : Bool)
  | alter (name : Name) (ops : List AlterOp)
  | insert (table : Name)
  deriving DecidableEq, Repr

inductive Err
  | noDatabase | databaseExists
  | exists_ (n : Name) | missing (n : Name) | dupColumn (t c : Name) | notTable (n : Name)
  deriving DecidableEq, Repr

def hasName (n : Name) (o : Obj) : Bool := o.name == n

def Cat.find (c : Cat) (n : Name) : Option Obj := c.objs.find? (hasName n)
def Cat.has (c : Cat) (n : Name) : Bool := c.objs.any (hasName n)

def applyOp (t : Name) (st : List Name × Nat) : AlterOp → Except Err (List Name × Nat)
  | .addColumn col g =>
    if st.1.contains col then (if g then .ok st else .error (.dupColumn t col)) else .ok (st.1 ++ [col], st.2)
  | .modifyOrderBy h => .ok (st.1, h)

/-- the commands of one ALTER are applied in order; the ALTER is atomic -/
def applyOps (t : Name) (st : List Name × Nat) : List AlterOp → Except Err (List Name × Nat)
  | [] => .ok st
  | op :: r => match applyOp t st op with
    | .error e => .error e
    | .ok st' => applyOps t st' r

def setObj (n : Name) (o' : Obj) (o : Obj) : Obj := if hasName n o then o' else o
def renameObj (a b : Name) (o : Obj) : Obj := if hasName a o then { o with name := b } else o

/-- ClickHouse's outcome of one statement on a catalogue; `.error` = the statement failed and changed nothing -/
def exec (c : Cat) : Stmt → Except Err Cat
  | .createDatabase g =>
    if c.db then (if g then .ok c else .error .databaseExists) else .ok { c with db := true }
  | .create k n g cols body needs =>
    if !c.db then .error .noDatabase
    else if c.has n then (if g then .ok c else .error (.exists_ n))
    else match needs.find? (fun m => !c.has m) with
      | some m => .error (.missing m)
      | none => .ok { c with objs := c.objs ++ [⟨n, k, cols, body, 0⟩] }
  | .drop n g =>
    if !c.db then .error .noDatabase
    else if c.has n then .ok { c with objs := c.objs.filter (fun o => !hasName n o) }
    else if g then .ok c else .error (.missing n)
  | .rename a b g =>
    if !c.db then .error .noDatabase
    else if !c.has a then (if g then .ok c else .error (.missing a))
    else if c.has b then .error (.exists_ b)
    else .ok { c with objs := c.objs.map (renameObj a b) }
  | .alter n ops =>
    if !c.db then .error .noDatabase
    else match c.find n with
      | none => .error (.missing n)
      | some o =>
        if o.kind != .table then .error (.notTable n)
        else match applyOps n (o.cols, o.order) ops with
          | .error e => .error e
          | .ok st => .ok { c with objs := c.objs.map (setObj n { o with cols := st.1, order := st.2 }) }
  | .insert n =>
    if !c.db then .error .noDatabase
    else if c.has n then .ok c else .error (.missing n)

/-! ## The initialisation procedure -/

/-- database state: catalogue + the rows `(k, ver)` inserted into the `ver` table -/
structure Db where
  cat : Cat
  vers : List (Nat × Nat)
  deriving DecidableEq, Repr

/-- `SELECT max(ver) FROM ver WHERE k = $1` (0 on no rows) -/
def getVer : List (Nat × Nat) → Nat → Nat
  | [], _ => 0
  | (k', v) :: r, k => if k' == k then max v (getVer r k) else getVer r k

/-- one `InitDBTry` or one `updateScripts` call: bootstrap statements, then (for a stream) the version loop -/
structure Phase where
  boot : List Stmt
  scripts : Option (Nat × List Stmt)
  deriving DecidableEq, Repr

def execAll : List Stmt → Cat → Except Err Cat
  | [], c => .ok c
  | s :: r, c => match exec c s with
    | .error e => .error e
    | .ok c' => execAll r c'

/-- `for i := ver; i < len(scripts); i++`: `l` is the rest of the script list from index `i` on -/
def loopRun (k : Nat) : List Stmt → Nat → Db → Except Err Db
  | [], _, db => .ok db
  | s :: r, i, db => match exec db.cat s with
    | .error e => .error e
    | .ok c => loopRun k r (i + 1) ⟨c, db.vers ++ [(k, i + 1)]⟩

def phaseRun (ph : Phase) (db : Db) : Except Err Db :=
  match execAll ph.boot db.cat with
  | .error e => .error e
  | .ok c => match ph.scripts with
    | none => .ok ⟨c, db.vers⟩
    | some (k, ss) => loopRun k (ss.drop (getVer db.vers k)) (getVer db.vers k) ⟨c, db.vers⟩

/-- an uninterrupted start -/
def run : List Phase → Db → Except Err Db
  | [], db => .ok db
  | ph :: r, db => match phaseRun ph db with
    | .error e => .error e
    | .ok d => run r d

/-- a database call of the procedure -/
inductive Call
  | boot (s : Stmt)
  | query (k : Nat)
  | script (k i : Nat) (s : Stmt)
  | record (k v : Nat)
  deriving DecidableEq, Repr

/-- a call together with the state in which it is issued -/
abbrev Step := Db × Call

def bootSteps (vs : List (Nat × Nat)) : List Stmt → Cat → List Step
  | [], _ => []
  | s :: r, c => (⟨c, vs⟩, .boot s) :: match exec c s with
    | .error _ => []
    | .ok c' => bootSteps vs r c'

def loopSteps (k : Nat) : List Stmt → Nat → Db → List Step
  | [], _, _ => []
  | s :: r, i, db => (db, .script k i s) :: match exec db.cat s with
    | .error _ => []
    | .ok c => (⟨c, db.vers⟩, .record k (i + 1)) :: loopSteps k r (i + 1) ⟨c, db.vers ++ [(k, i + 1)]⟩

def phaseSteps (ph : Phase) (db : Db) : List Step :=
  bootSteps db.vers ph.boot db.cat ++
  match execAll ph.boot db.cat with
  | .error _ => []
  | .ok c => match ph.scripts with
    | none => []
    | some (k, ss) =>
      (⟨c, db.vers⟩, .query k) :: loopSteps k (ss.drop (getVer db.vers k)) (getVer db.vers k) ⟨c, db.vers⟩

/-- every call of a start in order (it ends with the first call that fails, if any) -/
def steps : List Phase → Db → List Step
  | [], _ => []
  | ph :: r, db => phaseSteps ph db ++ match phaseRun ph db with
    | .error _ => []
    | .ok d => steps r d

def states (P : List Phase) (db : Db) : List Db := (steps P db).map (·.1)
def calls (P : List Phase) (db : Db) : List Call := (steps P db).map (·.2)

/-- the states a start can be stopped in: before each call, and (when it completes) the final one -/
def points (P : List Phase) (db : Db) : List Db :=
  states P db ++ match run P db with
    | .ok fin => [fin]
    | .error _ => []

/-- a failure point: call number `n` (0-based, counted over the whole start) does not succeed.
    `applied = false`: the call has no effect (error returned, or the process dies before it);
    `applied = true`: its effect is in the database but the caller does not get to see a success
    (connection lost after the server applied it, or the process dies right after it). -/
structure Fault where
  n : Nat
  applied : Bool
  deriving DecidableEq, Repr

inductive Status
  | done                -- the start completed
  | died                -- stopped at the failure point
  | failed (e : Err)    -- a statement failed by itself (no injected failure)
  deriving DecidableEq, Repr

structure Outcome where
  status : Status
  db : Db
  /-- database calls issued by this start -/
  ncalls : Nat
  deriving Repr

/-- one start with at most one failure point -/
def attempt (P : List Phase) (db : Db) (f : Option Fault) : Outcome :=
  let sts := states P db
  let clean : Outcome := match run P db with
    | .ok fin => ⟨.done, fin, sts.length⟩
    | .error e => ⟨.failed e, sts.getLast?.getD db, sts.length⟩
  match f with
  | none => clean
  | some f =>
    if f.n < sts.length then
      match (points P db)[if f.applied then f.n + 1 else f.n]? with
      | some mid => ⟨.died, mid, f.n + 1⟩
      | none => clean     -- `applied` on a call that fails by itself
    else clean

/-- a sequence of starts, each stopped at its failure point -/
def sched (P : List Phase) (db : Db) : List Fault → Db
  | [] => db
  | f :: r => sched P (attempt P db (some f)).db r

/-! ## Re-runnability, as a property of statements, and the syntactic criteria that imply it -/

/-- executing the statement again right after it succeeded succeeds and changes nothing -/
def Rerunnable (s : Stmt) : Prop := ∀ c c', exec c s = .ok c' → exec c' s = .ok c'

/-- `s` does not disturb the settledness of bootstrap statement `b` -/
def Preserves (s b : Stmt) : Prop := ∀ c c', exec c b = .ok c → exec c s = .ok c' → exec c' b = .ok c'

def AlterOp.guardedB : AlterOp → Bool
  | .addColumn _ g => g
  | .modifyOrderBy _ => true

/-- decidable criterion for `Rerunnable` -/
def Stmt.rerunnableB : Stmt → Bool
  | .createDatabase g => g
  | .create _ _ g _ _ _ => g
  | .drop _ g => g
  | .rename a b g => g && a != b
  | .alter _ ops => ops.all AlterOp.guardedB
  | .insert _ => true

/-- the object a bootstrap statement makes sure exists (`none` = the database itself) -/
def Stmt.bootTarget : Stmt → Option (Option Name)
  | .createDatabase true => some none
  | .create _ n true _ _ _ => some (some n)
  | _ => none

/-- names a statement may remove from the catalogue -/
def Stmt.removes : Stmt → List Name
  | .drop n _ => [n]
  | .rename a _ _ => [a]
  | _ => []

/-- decidable criterion for `Preserves s b` -/
def preservesB (s b : Stmt) : Bool :=
  match b.bootTarget with
  | some none => true
  | some (some n) => !(s.removes.contains n)
  | none => false

def Phase.stmts (ph : Phase) : List Stmt :=
  ph.boot ++ match ph.scripts with
    | none => []
    | some (_, ss) => ss

def allStmts (P : List Phase) : List Stmt := P.flatMap Phase.stmts
def allBoots (P : List Phase) : List Stmt := P.flatMap (·.boot)

/-- everything the convergence proof needs of a program, as one decidable check -/
def wfB (P : List Phase) : Bool :=
  (allStmts P).all Stmt.rerunnableB && (allBoots P).all (fun b => (allStmts P).all (fun s => preservesB s b))

structure WF (P : List Phase) : Prop where
  rerun : ∀ s ∈ allStmts P, Rerunnable s
  pres : ∀ b ∈ allBoots P, ∀ s ∈ allStmts P, Preserves s b

/-- every stream of the program is at (or beyond) its last script -/
def UpToDate (P : List Phase) (vs : List (Nat × Nat)) : Prop :=
  ∀ ph ∈ P, ∀ k ss, ph.scripts = some (k, ss) → ss.length ≤ getVer vs k

def Call.isMigration : Call → Bool
  | .script .. => true
  | .record .. => true
  | _ => false

/-- the calls of a version loop that runs to its end from version `i`: script `i`, record `i+1`, script `i+1`, … -/
def altCalls (k : Nat) : List Stmt → Nat → List Call
  | [], _ => []
  | s :: r, i => .script k i s :: .record k (i + 1) :: altCalls k r (i + 1)

inductive Mode | single | replicated | clustered | clusteredReplicated
  deriving DecidableEq, Repr

def emptyDb : Db := ⟨⟨false, []⟩, []⟩

end Qryn.Ctrl.Migrate
