import Qryn.Ctrl.Migrate
/-! # Schema initialisation on a ClickHouse CLUSTER (N nodes, N ≥ 1 arbitrary)

  Multi-node reading of `ctrl.Init` = `InitDB` (ctrl/qryn/maintenance/maintain.go) followed by `UpgradeAll` →
  `upgradeDB` → `Update` → `updateScripts` (update.go), on top of the single-catalogue model `Qryn.Ctrl.Migrate`.

  * Every node has its own catalogue (`Cluster.cat i`). A statement that carries `ON CLUSTER` (`CStmt.oc`, regenerated
    from the instantiated .sql text) is executed by every node independently — a node on which it fails keeps its
    catalogue, the others apply it, the initiator sees an error as soon as one node failed. A statement WITHOUT
    `ON CLUSTER` (every `INSERT`, and on the pinned tree the eight `type_v2` ALTERs) touches only the node the
    process is connected to (`conn`). Every start may be connected to a different node (`conn` is an argument of
    every start: a load balancer / round-robin DNS in front of the cluster); "always the same node" is the special
    case of constant `conn`.
  * `ver` is a local table of every node: `INSERT INTO ver` stores the row on the connected node. The rows of all
    nodes are kept in ONE list in global insertion order, each with its home node (`Cluster.rows`); the per-node
    table is the sub-list with that home. When a cluster is configured (`CProg.dist`) the version is read from
    `ver_dist`, a `Distributed` table over `ver` of ALL nodes (assumption: every node is one shard of the cluster,
    or the replicas of a shard share the rows; every node answers — `ver_dist` is created without
    `skip_unavailable_shards`, so a node that does not answer makes the read fail): `max(ver)` is the maximum over
    the rows of all nodes. Without a cluster it is read from the connected node's `ver` alone.
  * Failure points: `CFault` = call number of the start + the set of nodes on which the failing call still took
    effect (`ON CLUSTER` is applied node by node; a failure after any prefix in any order = any subset) + whether the
    process was killed or the call returned an error. The two differ at exactly one call: `InitDB` OVERWRITES the
    error of `CREATE DATABASE` with the result of `SHOW CREATE DATABASE`, so a start whose `CREATE DATABASE` returned
    an error goes on if the database exists on the connected node.
  Core-only: the driver links this file. -/
namespace Qryn.Ctrl.Migrate

/-- a statement as sent by the process: what it does to a catalogue, and whether the text carries `ON CLUSTER` -/
structure CStmt where
  stmt : Stmt
  oc : Bool
  deriving DecidableEq, Repr

structure CPhase where
  boot : List CStmt
  scripts : Option (Nat × List CStmt)
  deriving Repr

def CPhase.toPhase (p : CPhase) : Phase :=
  ⟨p.boot.map (·.stmt), match p.scripts with
    | none => none
    | some (k, ss) => some (k, ss.map (·.stmt))⟩

/-- what `ctrl.Init` does for one configured database -/
structure CProg where
  /-- `clusterName != ""`: versions are read from `ver_dist` -/
  dist : Bool
  /-- database name `""` or `default`: `InitDB` returns before doing anything -/
  skipInit : Bool
  /-- `InitDBTry`'s `CREATE DATABASE IF NOT EXISTS … [ON CLUSTER …]` -/
  createDb : CStmt
  /-- the `updateScripts` calls of `Update`, in order -/
  phases : List CPhase
  deriving Repr

/-- the single-catalogue program a node experiences -/
def CProg.toProg (P : CProg) : List Phase :=
  if P.skipInit then P.phases.map CPhase.toPhase
  else ⟨[P.createDb.stmt], none⟩ :: P.phases.map CPhase.toPhase

structure Cluster where
  /-- number of nodes -/
  n : Nat
  cat : Nat → Cat
  /-- rows of the `ver` tables of all nodes, in global insertion order: (home node, k, ver) -/
  rows : List (Nat × Nat × Nat)

/-- the rows a version read connected to `conn` sees -/
def visible (dist : Bool) (conn : Nat) (rows : List (Nat × Nat × Nat)) : List (Nat × Nat) :=
  (rows.filter (fun r => dist || r.1 == conn)).map (·.2)

/-- node `i` as a single-catalogue database: its catalogue and the version rows a process connected to it reads -/
def view (dist : Bool) (cl : Cluster) (i : Nat) : Db := ⟨cl.cat i, visible dist i cl.rows⟩

/-- the nodes a statement sent over a connection to `conn` is executed on -/
def tgt (N conn : Nat) (oc : Bool) (i : Nat) : Bool := decide (i < N) && (oc || i == conn)

def execOk (c : Cat) (s : Stmt) : Bool :=
  match exec c s with
  | .ok _ => true
  | .error _ => false

/-- the statement is executed by the selected target nodes; a node on which it fails keeps its catalogue -/
def stepCat (N conn : Nat) (sel : Nat → Bool) (s : CStmt) (cat : Nat → Cat) : Nat → Cat :=
  fun i => if tgt N conn s.oc i && sel i then
      (match exec (cat i) s.stmt with
        | .ok c => c
        | .error _ => cat i)
    else cat i

/-- every target node executes the statement successfully (what the initiator reports as success) -/
def okAll (N conn : Nat) (s : CStmt) (cat : Nat → Cat) : Bool :=
  (List.range N).all fun i => !(tgt N conn s.oc i) || execOk (cat i) s.stmt

/-- the error the initiator reports: that of the first node (in node order) on which the statement fails -/
def firstErr (N conn : Nat) (s : CStmt) (cat : Nat → Cat) : Option Err :=
  (List.range N).findSome? fun i =>
    if tgt N conn s.oc i then
      (match exec (cat i) s.stmt with
        | .ok _ => none
        | .error e => some e)
    else none

def allSel : Nat → Bool := fun _ => true

/-- the same cluster with the catalogues of its `n` nodes tabulated (an executable detail: `memo cl = cl`,
    `memo_eq`; without it every catalogue lookup of the compiled model would replay the whole history) -/
def memo (cl : Cluster) : Cluster :=
  let t := ((List.range cl.n).map cl.cat).toArray
  { cl with cat := fun i => if h : i < t.size then t[i] else cl.cat i }

theorem memo_eq (cl : Cluster) : memo cl = cl := by
  obtain ⟨n, cat, rows⟩ := cl
  simp only [memo, Cluster.mk.injEq, true_and, and_true]
  funext i
  split
  · simp
  · rfl

/-- the cluster after a statement took effect on the selected target nodes -/
def Cluster.step (cl : Cluster) (conn : Nat) (sel : Nat → Bool) (s : CStmt) : Cluster :=
  memo { cl with cat := stepCat cl.n conn sel s cl.cat }

theorem Cluster.step_eq (cl : Cluster) (conn : Nat) (sel : Nat → Bool) (s : CStmt) :
    cl.step conn sel s = { cl with cat := stepCat cl.n conn sel s cl.cat } := memo_eq _

inductive CCall
  | createDb (s : CStmt)
  | showCreate
  | boot (s : CStmt)
  | query (k : Nat)
  | script (k i : Nat) (s : CStmt)
  | record (k v : Nat)
  deriving DecidableEq, Repr

abbrev CStep := Cluster × CCall

/-- the effect of a call on the cluster when it takes effect on the nodes of `sel` only -/
def ceffect (conn : Nat) (sel : Nat → Bool) (cl : Cluster) : CCall → Cluster
  | .createDb s | .boot s | .script _ _ s => cl.step conn sel s
  | .record k v => if sel conn then { cl with rows := cl.rows ++ [(conn, k, v)] } else cl
  | .query _ | .showCreate => cl

/-- the call succeeds by itself (no injected failure) -/
def callOk (conn : Nat) (cl : Cluster) : CCall → Bool
  | .createDb s | .boot s | .script _ _ s => okAll cl.n conn s cl.cat
  | .showCreate => (cl.cat conn).db
  | .record .. | .query _ => true

/-! ## `Update`: the phases -/

def cexecAll (conn : Nat) : List CStmt → Cluster → Option Cluster
  | [], cl => some cl
  | s :: r, cl =>
    if okAll cl.n conn s cl.cat then cexecAll conn r (cl.step conn allSel s) else none

def cbootSteps (conn : Nat) : List CStmt → Cluster → List CStep
  | [], _ => []
  | s :: r, cl => (cl, .boot s) ::
    if okAll cl.n conn s cl.cat then cbootSteps conn r (cl.step conn allSel s) else []

def cloopRun (conn k : Nat) : List CStmt → Nat → Cluster → Option Cluster
  | [], _, cl => some cl
  | s :: r, i, cl =>
    if okAll cl.n conn s cl.cat then
      cloopRun conn k r (i + 1) { cl.step conn allSel s with rows := cl.rows ++ [(conn, k, i + 1)] }
    else none

def cloopSteps (conn k : Nat) : List CStmt → Nat → Cluster → List CStep
  | [], _, _ => []
  | s :: r, i, cl => (cl, .script k i s) ::
    if okAll cl.n conn s cl.cat then
      (cl.step conn allSel s, .record k (i + 1)) ::
        cloopSteps conn k r (i + 1) { cl.step conn allSel s with rows := cl.rows ++ [(conn, k, i + 1)] }
    else []

def cphaseRun (dist : Bool) (conn : Nat) (ph : CPhase) (cl : Cluster) : Option Cluster :=
  match cexecAll conn ph.boot cl with
  | none => none
  | some cl1 => match ph.scripts with
    | none => some cl1
    | some (k, ss) =>
      let v := getVer (visible dist conn cl.rows) k
      cloopRun conn k (ss.drop v) v cl1

def cphaseSteps (dist : Bool) (conn : Nat) (ph : CPhase) (cl : Cluster) : List CStep :=
  cbootSteps conn ph.boot cl ++
  match cexecAll conn ph.boot cl with
  | none => []
  | some cl1 => match ph.scripts with
    | none => []
    | some (k, ss) =>
      let v := getVer (visible dist conn cl.rows) k
      (cl1, .query k) :: cloopSteps conn k (ss.drop v) v cl1

def crun (dist : Bool) (conn : Nat) : List CPhase → Cluster → Option Cluster
  | [], cl => some cl
  | ph :: r, cl => match cphaseRun dist conn ph cl with
    | none => none
    | some cl1 => crun dist conn r cl1

/-- every call of the `Update` part of a start, in order, with the cluster state it is issued in (it ends with the
    first call that some node fails, if any) -/
def csteps (dist : Bool) (conn : Nat) : List CPhase → Cluster → List CStep
  | [], _ => []
  | ph :: r, cl => cphaseSteps dist conn ph cl ++ match cphaseRun dist conn ph cl with
    | none => []
    | some cl1 => csteps dist conn r cl1

/-! ## one start -/

/-- a failure point: call number `n` of the start (0 = `CREATE DATABASE`, 1 = `SHOW CREATE DATABASE` unless `InitDB`
    is skipped, then the calls of `Update`) does not succeed; before that it took effect on the nodes of `sel` (of
    those it is sent to); `kill`: the process died there, otherwise the call returned an error. -/
structure CFault where
  n : Nat
  sel : List Nat
  kill : Bool
  deriving DecidableEq, Repr

def CFault.selFn (f : CFault) : Nat → Bool := fun i => f.sel.contains i

structure COutcome where
  status : Status
  cl : Cluster
  ncalls : Nat

/-- the `Update` part with at most one failure point (`f.n` counted from the first call of `Update`) -/
def cupdate (dist : Bool) (conn : Nat) (phases : List CPhase) (cl : Cluster) (f : Option CFault) (base : Nat) : COutcome :=
  let sts := csteps dist conn phases cl
  let clean : COutcome := match crun dist conn phases cl with
    | some fin => ⟨.done, fin, base + sts.length⟩
    | none => match sts.getLast? with
      | some (st, call) =>
        let e := match call with
          | .boot s | .script _ _ s | .createDb s => (firstErr st.n conn s st.cat).getD .noDatabase
          | _ => .noDatabase
        ⟨.failed e, ceffect conn allSel st call, base + sts.length⟩
      | none => ⟨.done, cl, base⟩
  match f with
  | none => clean
  | some f =>
    match sts[f.n]? with
    | some (st, call) => ⟨.died, ceffect conn f.selFn st call, base + f.n + 1⟩
    | none => clean

/-- one start of the process, connected to node `conn`, with at most one failure point -/
def cstart (P : CProg) (cl : Cluster) (conn : Nat) (f : Option CFault) : COutcome :=
  if conn < cl.n then
    if P.skipInit then cupdate P.dist conn P.phases cl f 0
    else
      -- InitDB: CREATE DATABASE (its error is overwritten), SHOW CREATE DATABASE (its error is returned → panic)
      match f with
      | some ⟨0, sel, kill⟩ =>
        let cl1 := ceffect conn (fun i => sel.contains i) cl (.createDb P.createDb)
        if kill then ⟨.died, cl1, 1⟩
        else if (cl1.cat conn).db then cupdate P.dist conn P.phases cl1 none 2
        else ⟨.failed .noDatabase, cl1, 2⟩
      | _ =>
        let cl1 := ceffect conn allSel cl (.createDb P.createDb)
        match f with
        | some ⟨1, _, _⟩ => ⟨.died, cl1, 2⟩
        | _ =>
          if (cl1.cat conn).db then
            cupdate P.dist conn P.phases cl1 (f.map fun g => { g with n := g.n - 2 }) 2
          else ⟨.failed .noDatabase, cl1, 2⟩
  else ⟨.died, cl, 0⟩   -- nothing answers at that address: no call reaches a node

/-- a sequence of starts, each with its own connection and failure point -/
def csched (P : CProg) (cl : Cluster) : List (Nat × Option CFault) → Cluster
  | [] => cl
  | (conn, f) :: r => csched P (cstart P cl conn f).cl r

/-! ## criteria on the statements a program sends -/

/-- a statement that cannot change a catalogue -/
def Stmt.neutralB : Stmt → Bool
  | .insert _ => true
  | _ => false

/-- every statement either carries `ON CLUSTER` or cannot change a catalogue (an `INSERT`) -/
def CStmt.clusterOkB (s : CStmt) : Bool := s.oc || s.stmt.neutralB

def CPhase.stmts (ph : CPhase) : List CStmt :=
  ph.boot ++ match ph.scripts with
    | none => []
    | some (_, ss) => ss

def CProg.stmts (P : CProg) : List CStmt := P.createDb :: P.phases.flatMap CPhase.stmts

def Stmt.isCreateDb : Stmt → Bool
  | .createDatabase _ => true
  | _ => false

/-- the first statement of `Update` is sent to the whole cluster (`CREATE TABLE IF NOT EXISTS ver … ON CLUSTER`) -/
def headOc : List CPhase → Bool
  | ph :: _ => match ph.boot with
    | s :: _ => s.oc
    | [] => false
  | [] => false

/-- what the cluster theorems need of a program, as one decidable check: with a configured cluster every statement
    either carries `ON CLUSTER` or cannot change a catalogue, without one no statement carries it; `CREATE DATABASE`
    is issued by `InitDBTry` only and is guarded; with a cluster the first statement of `Update` goes to every node -/
def CProg.wfB (P : CProg) : Bool :=
  P.stmts.all (fun s => if P.dist then s.clusterOkB else !s.oc) &&
  (P.phases.flatMap CPhase.stmts).all (fun s => !s.stmt.isCreateDb) &&
  (P.skipInit || (P.createDb.stmt == .createDatabase true && (!P.dist || headOc P.phases)))

/-- `N` nodes, nothing created anywhere -/
def emptyCluster (N : Nat) : Cluster := ⟨N, fun _ => ⟨false, []⟩, []⟩

/-! ## template parameters

  `updateScripts` instantiates every statement with `text/template`; the values that depend on the configuration
  (`ttlDays`, `storagePolicy`, `advancedSamplesOrdering`, `skipUnavailableShards`, the cluster and database names,
  the engine family) only change the TEXT of `CREATE` statements (`Gen.Migrations.shapeVars`: re-instantiating every
  statement with every variable varied alone changes nothing else, except `OnCluster` which is the mode). In the model
  the text of an object is an identity number; a parameter instance is a function `g` from the identity under the
  default parameters to the identity under the instance. -/

def Stmt.mapBody (g : Nat → Nat) : Stmt → Stmt
  | .create k n gd cols b needs => .create k n gd cols (g b) needs
  | s => s

def Phase.mapBody (g : Nat → Nat) (ph : Phase) : Phase :=
  ⟨ph.boot.map (Stmt.mapBody g), match ph.scripts with
    | none => none
    | some (k, ss) => some (k, ss.map (Stmt.mapBody g))⟩

def CStmt.mapBody (g : Nat → Nat) (s : CStmt) : CStmt := ⟨s.stmt.mapBody g, s.oc⟩

def CPhase.mapBody (g : Nat → Nat) (ph : CPhase) : CPhase :=
  ⟨ph.boot.map (CStmt.mapBody g), match ph.scripts with
    | none => none
    | some (k, ss) => some (k, ss.map (CStmt.mapBody g))⟩

def CProg.mapBody (g : Nat → Nat) (P : CProg) : CProg :=
  ⟨P.dist, P.skipInit, P.createDb.mapBody g, P.phases.map (CPhase.mapBody g)⟩

/-- a parameter instance given as a finite table (what the driver receives), identity elsewhere -/
def bodyTable (t : List (Nat × Nat)) (b : Nat) : Nat :=
  match t.find? (·.1 == b) with
  | some p => p.2
  | none => b

end Qryn.Ctrl.Migrate
