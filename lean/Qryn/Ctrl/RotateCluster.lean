import Qryn.Ctrl.Rotate
/-! # `Rotate` on a ClickHouse cluster of N nodes (N ≥ 1 arbitrary)

  Multi-node reading of `ctrl/qryn/maintenance/rotate.go` on top of the single-database model `Qryn.Ctrl.Rotate`.

  * Every node has its own tables, hence its own TTL expression and storage policy per table (`CSt.ttl i`, `CSt.policy i`).
    An `ALTER TABLE … ON CLUSTER …` — the text carries the clause exactly when `clusterName != ""`, i.e. when the
    statement's `cluster` field is non-empty — is executed by every node, and may be seen to fail after ANY set of nodes
    executed it; an ALTER without the clause is executed by the connected node only.
  * `settings` is a local table of every node: `putSetting` (`INSERT INTO settings`) stores the row on the connected node.
    All rows of all nodes are kept in one list in global insertion order with their home node (`CSt.rows`; assumption:
    the nodes' clocks order `inserted_at = now64(9)` like real time — `argMax(value, inserted_at)` is "the last row").
    `getSetting` reads `settings_dist` (all nodes; every node answers) when `distributed`, else the connected node's
    `settings`.
  * every run may be connected to another node.
  Core-only: the driver links this file. -/
namespace Qryn.Ctrl.Rotate
open Qryn

structure CSt where
  n : Nat
  /-- settings rows of all nodes in global insertion order: (home node, fingerprint, value) -/
  rows : List (Nat × Nat × Bytes)
  ttl : Nat → Bytes → Bytes
  policy : Nat → Bytes → Bytes

/-- `argMax(value, inserted_at)` over the rows with that fingerprint on the nodes `vis`; `""` when there is none -/
def latest (vis : Nat → Bool) (fp : Nat) (rows : List (Nat × Nat × Bytes)) : Bytes :=
  rows.foldl (fun acc r => if vis r.1 && r.2.1 == fp then r.2.2 else acc) []

/-- the nodes whose `settings` rows a read over a connection to `i` sees -/
def visNodes (dist : Bool) (i : Nat) : Nat → Bool := fun h => dist || h == i

/-- node `i` as a single database: what a process connected to it reads from the settings table, and its tables -/
def cview (dist : Bool) (cs : CSt) (i : Nat) : St :=
  ⟨fun fp => latest (visNodes dist i) fp cs.rows, cs.ttl i, cs.policy i⟩

/-- the statement text carries `ON CLUSTER` -/
def Stmt.onCluster : Stmt → Bool
  | .alterPolicy _ c _ => c ≠ []
  | .alterTune _ c => c ≠ []
  | .alterTTL _ c _ => c ≠ []
  | _ => false

/-- the nodes an ALTER sent over a connection to `conn` is executed on -/
def ctarget (n conn : Nat) (x : Stmt) (i : Nat) : Bool := decide (i < n) && (x.onCluster || i == conn)

/-- the statement takes effect on the selected nodes (of those it is sent to) -/
def capply (conn : Nat) (sel : Nat → Bool) (x : Stmt) (cs : CSt) : CSt :=
  { n := cs.n
    rows := match x with
      | .put fp _ _ v => if sel conn then cs.rows ++ [(conn, fp, v)] else cs.rows
      | _ => cs.rows
    ttl := fun i => if ctarget cs.n conn x i && sel i then
        (match x with
          | .alterTTL t _ e => fun y => if y = t then e else cs.ttl i y
          | _ => cs.ttl i)
      else cs.ttl i
    policy := fun i => if ctarget cs.n conn x i && sel i then
        (match x with
          | .alterPolicy t _ p => fun y => if y = t then p else cs.policy i y
          | _ => cs.policy i)
      else cs.policy i }

/-- statement `idx` of the run reports an error after taking effect on the nodes of `sel` -/
structure CFault where
  idx : Nat
  sel : List Nat
  deriving DecidableEq, Repr

def CFault.selFn (f : CFault) : Nat → Bool := fun i => f.sel.contains i
def allNodes : Nat → Bool := fun _ => true

structure CCtx where
  cs : CSt
  log : List Stmt

def cissue (conn : Nat) (f : Option CFault) (x : Stmt) (c : CCtx) : CCtx × Bool :=
  match f with
  | none => (⟨capply conn allNodes x c.cs, c.log ++ [x]⟩, true)
  | some ft =>
    if ft.idx = c.log.length then (⟨capply conn ft.selFn x c.cs, c.log ++ [x]⟩, false)
    else (⟨capply conn allNodes x c.cs, c.log ++ [x]⟩, true)

def cexecPlan (conn : Nat) (f : Option CFault) : List Stmt → CCtx → CCtx × Bool
  | [], c => (c, true)
  | x :: rest, c =>
    match cissue conn f x c with
    | (c', true) => cexecPlan conn f rest c'
    | (c', false) => (c', false)

/-- `storagePolicyUpdate` / `rotateTables` for one group, connected to `conn` -/
def crunGroup (conn : Nat) (f : Option CFault) (c : Cfg) (g : GroupDef) (x : CCtx) : CCtx × Bool :=
  match cissue conn f (readStmt c g) x with
  | (x', false) => (x', false)
  | (x', true) =>
    if active c g = false ∨ (cview c.dist x.cs conn).marker g.fp = desired c g then (x', true)
    else cexecPlan conn f (plan c g) x'

def crunGroups (conn : Nat) (f : Option CFault) (c : Cfg) : List GroupDef → CCtx → CCtx × Bool
  | [], x => (x, true)
  | g :: gs, x =>
    match crunGroup conn f c g x with
    | (x', true) => crunGroups conn f c gs x'
    | (x', false) => (x', false)

structure COutcome where
  cs : CSt
  log : List Stmt
  ok : Bool

/-- one call of `Rotate` over a connection to node `conn` (`conn ≥ n`: nothing answers, nothing happens) -/
def crun (defs : List GroupDef) (c : Cfg) (conn : Nat) (f : Option CFault) (cs : CSt) : COutcome :=
  if conn < cs.n then
    let r := crunGroups conn f c defs ⟨cs, []⟩
    ⟨r.1.cs, r.1.log, r.2⟩
  else ⟨cs, [], false⟩

/-- a sequence of runs: (connection, configuration, failure point) -/
def cafter (defs : List GroupDef) : List (Nat × Cfg × Option CFault) → CSt → CSt
  | [], cs => cs
  | (conn, c, f) :: r, cs => cafter defs r (crun defs c conn f cs).cs

/-- the layouts `rotateDB` can produce: `distributed` is `clusterName != ""` -/
def Cfg.layoutOk (c : Cfg) : Bool := c.dist == (c.cluster ≠ [])

/-- `n` nodes without settings rows, every table with the given TTL / policy -/
def freshCluster (n : Nat) : CSt := ⟨n, [], fun _ _ => [], fun _ _ => []⟩

end Qryn.Ctrl.Rotate
