import Qryn.Base.Bytes
/-! Model of `ctrl/qryn/maintenance/rotate.go` (`Rotate`, `rotateTables`, `storagePolicyUpdate`,
    `getSetting`/`putSetting`) and `ctrl/qryn/heputils/hash.go`. Core-only.

    The database is `St`: the latest value of every settings row (by fingerprint), the TTL expression and the
    storage policy of every table. One run of `Rotate` is `run`: it issues the statements the Go code issues,
    in the same order, one group after the other, and stops at the first statement that reports an error.
    A fault names the index of the failing statement within the run and says whether the statement took effect
    before the error was reported (connection lost after execution) or not. -/
namespace Qryn.Ctrl.Rotate
open Qryn

/-- ASCII text as bytes (only used on literals) -/
def asc (s : String) : Bytes := s.toList.map (fun c => UInt8.ofNat c.toNat)

/-- `%d` of a Go integer -/
def dec (i : Int) : Bytes :=
  if i < 0 then 45 :: (Nat.toDigits 10 i.natAbs).map (fun c => UInt8.ofNat c.toNat)
  else (Nat.toDigits 10 i.toNat).map (fun c => UInt8.ofNat c.toNat)

/-- `strings.Join` -/
def join (sep : Bytes) : List Bytes → Bytes
  | [] => []
  | [x] => x
  | x :: y :: rest => x ++ sep ++ join sep (y :: rest)

/-! ## settings fingerprint (`FingerprintLabelsDJBHashPrometheus`) -/

/-- `hash = (hash * 33) ^ int32(uint16(data[i]))` from the last byte to the first, in `int32`; the result is
    reinterpreted as `uint32`. Two's complement multiplication and xor are the same bit operations on
    `BitVec 32`. (`data == nil → 0` is not reachable from the retention code: the key is never empty.) -/
def djb (data : Bytes) : BitVec 32 :=
  data.foldr (fun b h => (h * 33#32) ^^^ BitVec.ofNat 32 b.toNat) 5381#32

/-- `strconv.Quote` on a plain name (letters, digits, `_` — checked by the extractor for every name used) -/
def quote (s : Bytes) : Bytes := [34] ++ s ++ [34]

/-- the text both `getSetting` and `putSetting` hash: `{"type":<tp>, "name":<name>` (no closing brace) -/
def settingKey (tp name : Bytes) : Bytes :=
  [123, 34, 116, 121, 112, 101, 34, 58] ++ quote tp ++ [44, 32, 34, 110, 97, 109, 101, 34, 58] ++ quote name

def fpOf (tp name : Bytes) : Nat := (djb (settingKey tp name)).toNat

/-! ## configuration and groups -/

structure Tier where
  ns : Int          -- time.Duration
  disk : Bytes      -- MoveTo
  deriving DecidableEq, Repr

/-- the arguments of `Rotate` -/
structure Cfg where
  cluster : Bytes
  dist : Bool
  policy : Bytes
  days : Int
  tiers : List Tier
  deriving DecidableEq, Repr

def rotateType : Bytes := [114, 111, 116, 97, 116, 101]   -- "rotate"

inductive Kind | policy | ttl
  deriving DecidableEq, Repr

/-- one call of `storagePolicyUpdate` / `rotateTables` in `Rotate` -/
structure GroupDef where
  kind : Kind
  setting : Bytes
  fp : Nat             -- fingerprint of the settings row (`fpOf rotateType setting`, see `ofGen`)
  tables : List Bytes
  minSec : Int
  timeExpr : Bytes
  dropCol : Bytes
  deriving DecidableEq, Repr


/-- `int64(rp.TTL / time.Second)` clamped from below: Go's `/` on `int64` truncates toward zero. No
    conversion can overflow: the quotient of an `int64` by 10⁹ is an `int64`. -/
def tierSec (minSec ns : Int) : Int :=
  let s := ns.tdiv 1000000000
  if s < minSec then minSec else s

/-- one entry of `rotateTTLArr` -/
def tierExpr (g : GroupDef) (t : Tier) : Bytes :=
  g.timeExpr ++ asc " + toIntervalSecond(" ++ dec (tierSec g.minSec t.ns) ++ [41] ++
    (if t.disk ≠ [] then asc " TO DISK '" ++ t.disk ++ [39] else [])

/-- `dropTTLExpression` -/
def dropExpr (g : GroupDef) (days : Int) : Bytes :=
  g.dropCol ++ asc " + toIntervalDay(" ++ dec days ++ [41]

/-- `rotateTTLStr` -/
def ttlWant (g : GroupDef) (c : Cfg) : Bytes :=
  join [44, 32] (c.tiers.map (tierExpr g) ++ [dropExpr g c.days])

/-- the value a group wants to see recorded -/
def desired (c : Cfg) (g : GroupDef) : Bytes :=
  match g.kind with
  | .policy => c.policy
  | .ttl => ttlWant g c

/-- `storagePolicy == ""` makes `storagePolicyUpdate` return after the read -/
def active (c : Cfg) (g : GroupDef) : Bool :=
  match g.kind with
  | .policy => c.policy ≠ []
  | .ttl => true

/-! ## state and statements -/

structure St where
  marker : Nat → Bytes     -- fingerprint ↦ what `getSetting` returns ("" when there is no row)
  ttl : Bytes → Bytes      -- table ↦ TTL expression
  policy : Bytes → Bytes   -- table ↦ storage policy

def attr : Kind → St → Bytes → Bytes
  | .policy, s => s.policy
  | .ttl, s => s.ttl

inductive Stmt
  | read (dist : Bool) (fp : Nat)                 -- SELECT argMax(value, inserted_at) FROM settings[_dist] WHERE fingerprint = fp
  | put (fp : Nat) (tp name value : Bytes)        -- INSERT INTO settings
  | alterPolicy (table cluster policy : Bytes)    -- ALTER TABLE t MODIFY SETTING storage_policy = p
  | alterTune (table cluster : Bytes)             -- ALTER TABLE t MODIFY SETTING ttl_only_drop_parts = 1, ...
  | alterTTL (table cluster expr : Bytes)         -- ALTER TABLE t MODIFY TTL e
  deriving DecidableEq, Repr

def Stmt.isAlter : Stmt → Bool
  | .alterPolicy .. | .alterTune .. | .alterTTL .. => true
  | _ => false

def apply : Stmt → St → St
  | .read _ _, s => s
  | .put fp _ _ v, s => { s with marker := fun x => if x = fp then v else s.marker x }
  | .alterPolicy t _ p, s => { s with policy := fun x => if x = t then p else s.policy x }
  | .alterTune _ _, s => s
  | .alterTTL t _ e, s => { s with ttl := fun x => if x = t then e else s.ttl x }

def applyAll (xs : List Stmt) (s : St) : St := xs.foldl (fun s x => apply x s) s

/-- the statement with index `idx` of the run fails; `applied`: after taking effect -/
structure Fault where
  idx : Nat
  applied : Bool
  deriving DecidableEq, Repr

/-- a run in progress: database, statements sent so far (the failing one included) -/
structure Ctx where
  st : St
  log : List Stmt

/-- send one statement: its index is the number of statements sent before it -/
def issue (f : Option Fault) (x : Stmt) (c : Ctx) : Ctx × Bool :=
  match f with
  | none => (⟨apply x c.st, c.log ++ [x]⟩, true)
  | some ft =>
    if ft.idx = c.log.length then (⟨if ft.applied then apply x c.st else c.st, c.log ++ [x]⟩, false)
    else (⟨apply x c.st, c.log ++ [x]⟩, true)

/-- straight-line statements, stop at the first error -/
def execPlan (f : Option Fault) : List Stmt → Ctx → Ctx × Bool
  | [], c => (c, true)
  | x :: rest, c =>
    match issue f x c with
    | (c', true) => execPlan f rest c'
    | (c', false) => (c', false)

def readStmt (c : Cfg) (g : GroupDef) : Stmt := .read c.dist g.fp
def putEmpty (g : GroupDef) : Stmt := .put g.fp rotateType g.setting []
def putWant (c : Cfg) (g : GroupDef) : Stmt := .put g.fp rotateType g.setting (desired c g)

/-- the body of the `for _, table := range tables` loop -/
def alterOne (c : Cfg) (g : GroupDef) (t : Bytes) : List Stmt :=
  match g.kind with
  | .policy => [.alterPolicy t c.cluster (desired c g)]
  | .ttl => [.alterTune t c.cluster, .alterTTL t c.cluster (desired c g)]

def alters (c : Cfg) (g : GroupDef) : List Stmt := g.tables.flatMap (alterOne c g)

/-- after the read found another value: drop the record, alter every table, record -/
def plan (c : Cfg) (g : GroupDef) : List Stmt := putEmpty g :: (alters c g ++ [putWant c g])

/-- `storagePolicyUpdate` / `rotateTables` for one group -/
def runGroup (f : Option Fault) (c : Cfg) (g : GroupDef) (x : Ctx) : Ctx × Bool :=
  match issue f (readStmt c g) x with
  | (x', false) => (x', false)
  | (x', true) =>
    if active c g = false ∨ x.st.marker g.fp = desired c g then (x', true)
    else execPlan f (plan c g) x'

/-- `Rotate`: the groups in order, `if err != nil { return err }` after each -/
def runGroups (f : Option Fault) (c : Cfg) : List GroupDef → Ctx → Ctx × Bool
  | [], x => (x, true)
  | g :: gs, x =>
    match runGroup f c g x with
    | (x', true) => runGroups f c gs x'
    | (x', false) => (x', false)

structure Outcome where
  st : St
  log : List Stmt
  ok : Bool

def run (defs : List GroupDef) (c : Cfg) (f : Option Fault) (s : St) : Outcome :=
  let r := runGroups f c defs ⟨s, []⟩
  ⟨r.1.st, r.1.log, r.2⟩

/-- groups from the extracted tuples -/
def ofGen (raw : List (Bool × Bytes × List Bytes × Int × Bytes × Bytes)) : List GroupDef :=
  raw.map (fun r => ⟨if r.1 then .ttl else .policy, r.2.1, fpOf rotateType r.2.1, r.2.2.1, r.2.2.2.1, r.2.2.2.2.1, r.2.2.2.2.2⟩)

end Qryn.Ctrl.Rotate
