import Qryn.TraceQL.Planner
/-! C14 for TraceQL: a prepared plan (`clickhouse_transpiler.Plan(script)`) is a tree of planner OBJECTS, and two of
    the planner types write to their own fields while they are processed (`Gen.PlannerSelfWrites`):

    * `AttrConditionPlanner` (attr_condition.go): `alias`, `sqlConds`, `where` (assigned by `Process` /
      `maybeCreateWhere` before they are read) and `isAliased` (read by `getCond` BEFORE it is assigned; every return
      path of `Process` that produced a statement resets it to `false`);
    * `AggregatorPlanner` (aggregator.go): `fCmpVal` (assigned by `cmpVal` before it is read).

    Here these fields are explicit state, `Process` is `State → Ctx → State × result`, with the three return paths of
    `AttrConditionPlanner.Process` (no portion filter / portion filter / portion filter + traces found so far: the
    contexts `ComplexRequestProcessor` hands to the SAME plan once per portion). `Props/C14.lean` proves that the
    result never depends on the state the plan is in. The pure planner of C11 (`TraceQL/Planner.lean`) is the
    specification. -/
namespace Qryn.TraceQL
open Qryn Qryn.Sql

/-- the unexported fields of one `AttrConditionPlanner` object -/
structure AttrState where
  sqlConds : List Expr := []
  where_ : List Expr := []
  isAliased : Bool := false
  alias : String := ""

/-- `maybeCreateWhere` (after the `fix:`): the conditions are built from `Terms` by every `Process`; on an
    error the planner is left as it was -/
def createWhere (st : AttrState) (terms : List Term) : Except String AttrState :=
  match mapOk termSql terms with
  | .error e => .error e
  | .ok xs => .ok { st with sqlConds := xs, where_ := xs }

/-- `maybeCreateWhere` BEFORE the `fix:`: a memo (`if len(a.sqlConds) > 0 { return nil }`) filled by appending
    term after term — an error in the middle left the terms converted so far in the planner -/
def createWhereOld (st : AttrState) : List Term → AttrState × Option String
  | [] => (st, none)
  | t :: ts =>
    match termSql t with
    | .error e => (st, some e)
    | .ok x => createWhereOld { st with sqlConds := st.sqlConds ++ [x], where_ := st.where_ ++ [x] } ts

def maybeCreateWhereOld (st : AttrState) (terms : List Term) : AttrState × Option String :=
  if st.sqlConds.length > 0 then (st, none) else createWhereOld st terms

/-- `getCond` with the fields it reads as arguments: `a.sqlConds`, `a.alias`, `a.isAliased` (threaded) -/
def condSqlA (terms : List Expr) (alias : String) : Bool → Cond → Expr × Bool
  | aliased, .leaf i =>
    let left : Expr := if aliased then .raw alias else .bitSet terms alias
    (neq (.callT "bitAnd" [left, .int (shl1 i)]) (.int 0), true)
  | aliased, .node op l r =>
    let (le, a1) := condSqlA terms alias aliased l
    let (re, a2) := condSqlA terms alias a1 r
    ((match op with | .and => and_ [le, re] | _ => or_ [le, re]), a2)

/-- which of the three tails of `AttrConditionPlanner.Process` a context takes -/
inductive Portion | none | filter | filterAndCached
deriving DecidableEq, Repr

def portionOf (c : Ctx) : Portion :=
  if c.rndMax ≠ 0 ∧ ¬ c.cached.isEmpty then .filterAndCached else if c.rndMax ≠ 0 then .filter else .none

def hashFilter (c : Ctx) : Expr := eq (.raw ("cityHash64(trace_id) % " ++ toString c.rndMax)) (.int c.rndI)

/-- the tail of `AttrConditionPlanner.Process`: one `AndWhere` per kind of portion, then `a.isAliased = false`.
    Each path names the state it leaves. -/
def attrTail (st : AttrState) (c : Ctx) (res : Sel) : AttrState × Sel :=
  match portionOf c with
  | .filterAndCached =>
    ({ st with isAliased := false },
     res.andWhere [or_ [hashFilter c, .isIn (.raw "trace_id") (c.cached.map (fun t => .raw ("unhex('" ++ t ++ "')")))]])
  | .filter => ({ st with isAliased := false }, res.andWhere [hashFilter c])
  | .none => ({ st with isAliased := false }, res)

/-- **`AttrConditionPlanner.Process`** as a state transformer. `whereFn` is `maybeCreateWhere`. -/
def processAttrWith (whereFn : AttrState → List Term → AttrState × Option String)
    (st : AttrState) (c : Ctx) (terms : List Term) (cond : Cond) (aggAttr : String) : AttrState × PlanM Sel :=
  -- more than 64 distinct conditions: refused when the plan is built (`analyze`), no planner object is touched
  if 64 < terms.length then (st, .error "more than 64 different conditions in one selector are not supported") else
  let st1 := { st with alias := "bsCond" }                         -- a.alias = "bsCond"
  match whereFn st1 terms with                                     -- a.maybeCreateWhere()
  | (st2, some e) => (st2, .error e)
  | (st2, none) =>
    let (having, al) := condSqlA st2.sqlConds st2.alias st2.isAliased cond   -- a.getCond(a.Conds)
    let st3 := { st2 with isAliased := al }
    let main := (initIndex c).addCols (aggCol aggAttr)               -- a.aggregator(main)
    let res := (main.andWhere [or_ (st3.where_ ++ aggWhere aggAttr)]).andHaving [having]
    let (st4, out) := attrTail st3 c res
    (st4, .ok out)

def whereNew (st : AttrState) (terms : List Term) : AttrState × Option String :=
  match createWhere st terms with
  | .error e => (st, some e)
  | .ok st' => (st', none)

def processAttr := processAttrWith whereNew
/-- the code before the `fix:` -/
def processAttrOld := processAttrWith maybeCreateWhereOld

/-- the unexported field of one `AggregatorPlanner` object: `fCmpVal`, as the `%f` text `FloatVal` prints -/
structure AggState where
  fCmpVal : String := "0.000000"
deriving Repr

/-- `AggregatorPlanner.cmpVal`: assigns `a.fCmpVal` (a `strconv.ParseFloat` error assigns 0) -/
def cmpValS (st : AggState) (a : Agg) : AggState × Option String :=
  match aggCmpText a with
  | .ok v => ({ st with fCmpVal := v }, none)
  | .error e => (if a.attr = "duration" then st else { st with fCmpVal := "0.000000" }, some e)

/-- `AggregatorPlanner.Process` over the already processed `Main` -/
def processAgg (st : AggState) (pfx : String) (a : Agg) (main : Sel) : AggState × PlanM Sel :=
  match cmpSql a.cmp with
  | none => (st, .error "not supported operator")
  | some fn =>
    match cmpValS st a with
    | (st', some e) => (st', .error e)
    | (st', none) => (st', .ok (main.andHaving [.logical fn [aggregatorSql pfx a.fn, .numLit st'.fCmpVal]]))

/-- the prepared plan: the tree `planComplex` builds, every selector's planner chain with its mutable fields -/
inductive PTree
  | simple (script : Script) (pfx : String) (attr : AttrState) (agg : AggState)
  | complex (isAnd : Bool) (pfx : Nat) (l r : PTree)

/-- the chain `simpleExpressionPlanner.planner` builds for the head selector, processed once -/
def processSimple (c : Ctx) (pfx : String) (script : Script) (ast : AttrState) (gst : AggState) :
    AttrState × AggState × PlanM Sel :=
  match check script with
  | .error e => (ast, gst, .error e)
  | .ok _ =>
    match script with
    | [] => (ast, gst, .error "nil script")
    | (s, _) :: _ =>
      let (ast', res) : AttrState × PlanM Sel := match s.attrs with
        | some e =>
          let (terms, cond) := analyzeCond [] e
          processAttr ast c terms cond (match s.agg with | some a => a.attr | none => "")
        | none => (ast, .ok (attrless c))
      match res with
      | .error e => (ast', gst, .error e)
      | .ok res =>
        let res := indexGroupBy pfx res
        match s.agg with
        | some a => let (gst', out) := processAgg gst pfx a res; (ast', gst', out)
        | none => (ast', gst, .ok res)

/-- `Process` of the expression tree: operands left to right, the first error ends it (`ComplexAndPlanner`,
    `ComplexOrPlanner`); the objects keep whatever the processed part wrote -/
def processTree (c : Ctx) : PTree → PTree × PlanM Sel
  | .simple script pfx ast gst =>
    let (a, g, r) := processSimple c pfx script ast gst
    (.simple script pfx a g, r)
  | .complex isAnd k l r =>
    match processTree c l with
    | (l', .error e) => (.complex isAnd k l' r, .error e)
    | (l', .ok ls) =>
      match processTree c r with
      | (r', .error e) => (.complex isAnd k l' r', .error e)
      | (r', .ok rs) => (.complex isAnd k l' r', .ok (complexSel isAnd (pfxText k) [ls, rs]))

/-- the pure reading of a prepared tree (fields ignored): what C11's planner model renders -/
def pureTree (c : Ctx) : PTree → PlanM Sel
  | .simple script pfx _ _ => simpleSel c pfx script
  | .complex isAnd k l r => do
    let ls ← pureTree c l
    let rs ← pureTree c r
    pure (complexSel isAnd (pfxText k) [ls, rs])

/-- a freshly planned tree: every field as Go zero-initialises it -/
def PTree.ofX : XTree → PTree
  | .simple script k => .simple script (pfxText k) {} {}
  | .complex isAnd k l r => .complex isAnd k (ofX l) (ofX r)

/-- `planner.plan()`: the root expression planner of a script -/
def prepare (script : Script) : PlanM PTree :=
  match script with
  | [] => throw "nil script"
  | [_] => pure (.simple script "" {} {})
  | _ => do pure (.ofX (← planTree script))

/-- what the planner objects ARE apart from their mutable fields -/
def PTree.shape : PTree → PTree
  | .simple script pfx _ _ => .simple script pfx {} {}
  | .complex isAnd k l r => .complex isAnd k l.shape r.shape

/-- the invariant between two `Process` calls: no `AttrConditionPlanner` is left with `isAliased` set -/
def PTree.clean : PTree → Prop
  | .simple _ _ ast _ => ast.isAliased = false
  | .complex _ _ l r => l.clean ∧ r.clean

/-- `IndexLimitPlanner{TracesDataPlanner{IndexLimitPlanner{root}}}.Process` -/
def finishPlan (c : Ctx) (r : PlanM Sel) : PlanM Sel := do
  pure (indexLimit c (tracesData c (indexLimit c (← r))))

/-- one `Process(ctx)` of the prepared plan -/
def processPlan (p : PTree) (c : Ctx) : PTree × PlanM Sel :=
  let (p', r) := processTree c p
  (p', finishPlan c r)

/-- successive executions of ONE prepared plan (`ComplexRequestProcessor`: one per portion) -/
def runsT (p : PTree) : List Ctx → List (PlanM Sel)
  | [] => []
  | c :: cs => let r := processPlan p c; r.2 :: runsT r.1 cs

/-- the same with the pre-fix `maybeCreateWhere`, for a single attribute selector -/
def runsAttrOld (st : AttrState) (terms : List Term) (cond : Cond) (aggAttr : String) : List Ctx → List (PlanM Sel)
  | [] => []
  | c :: cs => let r := processAttrOld st c terms cond aggAttr; r.2 :: runsAttrOld r.1 terms cond aggAttr cs

end Qryn.TraceQL
