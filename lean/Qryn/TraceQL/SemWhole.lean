import Qryn.Sql.SemJ
import Qryn.TraceQL.Sem
/-! The direct reading of a whole TraceQL search (no SQL): which traces are returned, with which spans, in
    which order — the specification of `clickhouse_transpiler.Plan(script).Process(ctx)` as a whole statement,
    of the portion loop of `ComplexRequestProcessor` and of the tag-name / tag-value statements.

    Recency (the key of `ORDER BY … DESC LIMIT` in `index_grouped`): the start time of the newest span of the
    trace that a selector of a matching `&&`-group matches inside the window. Traces with equal recency are
    interchangeable: the specification is the relation `IsTopN`. -/
namespace Qryn.TraceQL
open Qryn Qryn.Sql

/-! ### recency and span sets -/
/-- start time of a span: of its first index row inside the window -/
def spanTs (c : Ctx) (d : TraceDb) (k : SpanKey) : Int :=
  ((d.attrs.find? (fun a => a.span == k && admissible c a)).map (·.ts)).getD 0

/-- the index rows of a span agree on its start time (they are written from one span) -/
def TsConsistent (d : TraceDb) : Prop :=
  ∀ a ∈ d.attrs, ∀ b ∈ d.attrs, a.span = b.span → a.ts = b.ts

def listMax : List Int → Int
  | [] => 0
  | x :: xs => xs.foldl max x

/-- start times of the spans of `tr` the selector's conditions select -/
def selTs (o : Oracles) (c : Ctx) (d : TraceDb) (s : Selector) (tr : Bytes) : List Int :=
  match s.attrs with
  | some e => (matchedSpans o c d e tr).map (spanTs c d)
  | none => []

/-- ids of the spans of `tr` the selector's conditions select -/
def selSpans (o : Oracles) (c : Ctx) (d : TraceDb) (s : Selector) (tr : Bytes) : List Bytes :=
  match s.attrs with
  | some e => (matchedSpans o c d e tr).map (·.2)
  | none => []

/-- the selectors of the `&&`-groups all of whose selectors hold -/
def matchedSels (f : Selector → Bool) (script : Script) : List Selector :=
  ((groups script).filter (fun g => g.all f)).flatten

/-- **recency** of a trace the script describes: the start of the newest span selected by a selector of a matching group -/
def traceRec (o : Oracles) (ao : AggOracles) (c : Ctx) (d : TraceDb) (script : Script) (tr : Bytes) : Int :=
  listMax ((matchedSels (fun s => selMatches o ao c d s tr) script).flatMap (fun s => selTs o c d s tr))

/-- **the spans** returned with a trace: those selected by the selectors of its matching groups -/
def traceSpans (o : Oracles) (ao : AggOracles) (c : Ctx) (d : TraceDb) (script : Script) (tr : Bytes) : List Bytes :=
  (matchedSels (fun s => selMatches o ao c d s tr) script).flatMap (fun s => selSpans o c d s tr)

/-! ### the `limit` most recent -/
/-- `K` is a choice of the `n` most recent among the elements satisfying `isM`: no element twice, all of them
    satisfy `isM`, at most `n`; an element left out means that `K` is full and nothing in it is older; newest
    first. Elements of equal recency are interchangeable — every choice is allowed. -/
structure IsTopN (rec : Bytes → Int) (isM : Bytes → Prop) (n : Nat) (K : List Bytes) : Prop where
  nodup : K.Nodup
  sound : ∀ k ∈ K, isM k
  atMost : K.length ≤ n
  most : ∀ m, isM m → m ∉ K → K.length = n ∧ ∀ k ∈ K, rec m ≤ rec k
  sorted : K.Pairwise (fun a b => rec b ≤ rec a)

/-- what the span array of a returned trace may be, given the ids `U` of the spans the script selects:
    at most 100 of them, none twice, at least one; all of them when the script selects at most 100 per selector
    and overall (`groupArray(100)` / `groupUniqArray(100)`) -/
structure SpanSetOk (U : List Bytes) (perSel : List (List Bytes)) (vs : List Bytes) : Prop where
  nonempty : vs ≠ []
  nodup : vs.Nodup
  sound : ∀ v ∈ vs, v ∈ U
  atMost : vs.length ≤ 100
  complete : (∀ l ∈ perSel, l.length ≤ 100) → (dedup U).length ≤ 100 → ∀ u ∈ U, u ∈ vs

/-! ### the span-table join (`TracesDataPlanner`) -/
structure TraceOut where
  traceId : Bytes
  spanIds : List Bytes
  durs : List Int
  tss : List Int
  start : Int
deriving Repr, DecidableEq

def TraceOut.row (t : TraceOut) : Row :=
  [("trace_id", .str t.traceId), ("span_id", .strs t.spanIds),
   ("duration", .tuples (t.durs.map (fun i => [Atom.int i]))), ("timestamp_ns", .tuples (t.tss.map (fun i => [Atom.int i]))),
   ("start_time_unix_nano", .int t.start)]

def listMin : List Int → Int
  | [] => 0
  | x :: xs => xs.foldl min x

/-- the traces `K` (id, selected span ids) as returned: every span-table row of a selected span, grouped per
    trace in table order, with the start of the whole trace; newest trace start first; at most `n`.
    A trace none of whose selected spans is in the span table is not returned. -/
def assemble (K : List (Bytes × List Bytes)) (S : List SpanRow) (n : Option Nat) : List TraceOut :=
  let tids := K.map (·.1)
  let pairs := K.flatMap (fun k => k.2.map (fun v => (k.1, v)))
  let rows := S.filter (fun s => tids.contains s.traceId && pairs.contains (s.traceId, s.spanId))
  let outs := (dedup (rows.map (·.traceId))).map (fun t =>
    let g := rows.filter (fun s => s.traceId == t)
    (⟨t, g.map (·.spanId), g.map (·.dur), g.map (·.ts), listMin ((S.filter (fun s => s.traceId == t)).map (·.ts))⟩ : TraceOut))
  let sorted := sortBy (fun a b => decide (b.start ≤ a.start)) outs
  match n with
  | some n => sorted.take n
  | none => sorted

/-! ### `{}`: every trace with a span inside the window (read from the span table) -/
def spanInWindow (c : Ctx) (s : SpanRow) : Bool := decide (c.fromNs ≤ s.ts) && decide (s.ts < c.toNs)

def allTraceRec (c : Ctx) (d : TraceDb) (tr : Bytes) : Int :=
  listMax (((d.spansT.filter (fun s => s.traceId == tr && spanInWindow c s))).map (·.ts))

def allTraceSpans (c : Ctx) (d : TraceDb) (tr : Bytes) : List Bytes :=
  ((d.spansT.filter (fun s => s.traceId == tr && spanInWindow c s))).map (·.spanId)

/-! ### portions -/
/-- the database as one portion statement sees it: the traces of portion `i` of `n` and the cached ones -/
def TraceDb.portion (d : TraceDb) (hash : Bytes → Nat) (n i : Nat) (cached : List Bytes) : TraceDb :=
  { d with attrs := d.attrs.filter (fun a => hash a.traceId % n == i || cached.contains a.traceId) }

/-! ### tag names / tag values -/
/-- keys of the index rows inside the window that belong to a span (id) the selector's conditions select -/
def tagKeys (o : Oracles) (c : Ctx) (d : TraceDb) (e : AttrExp) : List Bytes :=
  let sids := ((spans c d).filter (spanHolds o c d e)).map (·.2)
  dedup ((d.attrs.filter (fun a => admissible c a && sids.contains a.spanId)).map (·.key))

def tagValues (o : Oracles) (c : Ctx) (d : TraceDb) (e : AttrExp) (key : Bytes) : List Bytes :=
  let sids := ((spans c d).filter (spanHolds o c d e)).map (·.2)
  dedup ((d.attrs.filter (fun a => admissible c a && sids.contains a.spanId && a.key == key)).map (·.val))

def bytesLeB (a b : Bytes) : Bool := decide (a ≤ b)

/-- the strings of one column of a result -/
def colStrs (t : Table) (col : String) : List Bytes := t.filterMap (fun r => match r.get col with | .str s => some s | _ => none)

/-- with a positive limit: ascending, the first `limit`; otherwise any order -/
def tagsResult (c : Ctx) (l : List Bytes) : List Bytes :=
  if c.limit > 0 then (sortBy bytesLeB l).take c.limit.toNat else l

end Qryn.TraceQL
