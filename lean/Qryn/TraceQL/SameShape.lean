import Qryn.TraceQL.Planner
/-! `sameShapeT` — two TraceQL scripts are equal up to the contents of their string leaves, as equality of SKELETONS.

    The skeleton of a selector keeps exactly what the planner (`Planner.lean`) looks at:
    * of the attribute expression: the condition tree over term indices that `analyzeCond` builds (the `&&`/`||`/paren
      structure AND which terms are the same term: `internTerm` de-duplicates terms by their text, so the pattern of
      equal terms is part of the shape) and, for every interned term in order, its CLASS:
        - of the label: is it an attribute (`span.`/`resource.`/`.` prefix: the rest is a string leaf), the intrinsic
          `duration`, the intrinsic `name`, or something else (refused),
        - the operator,
        - of the value: the duration literal with its unit / the number literal as written (numbers are bare words of
          the statement, they are part of the token structure), or "a string" together with whether `Unquote` worked
          (the planner refuses the request otherwise); the string itself is free;
    * of the aggregator: function, comparison, number, unit, and whether the attribute is absent / `duration` /
      anything else (the name is a string leaf then);
    * whether the attribute expression / the aggregator is present, and the `&&` / `||` written after the selector. -/
namespace Qryn.TraceQL
open Qryn

/-- what `termSql` looks at in a label -/
inductive LabelClass | attr | duration | name | other
deriving DecidableEq, Repr

def labelClass (l : String) : LabelClass :=
  match attrKey l with
  | some _ => .attr
  | none => if l = "duration" then .duration else if l = "name" then .name else .other

/-- what `termSql` looks at in a value: literals as written; of a string only whether it could be unquoted -/
inductive ValClass
  | dur (n : Num) (u : TUnit)
  | num (n : Num)
  | str (unquoted : Bool)
deriving DecidableEq, Repr

def valClass : Value → ValClass
  | .dur n u => .dur n u
  | .num n => .num n
  | .str _ u => .str u.isSome

structure TermClass where
  label : LabelClass
  op : Op
  val : ValClass
deriving DecidableEq, Repr

def termClass (t : Term) : TermClass := ⟨labelClass t.label, t.op, valClass t.val⟩

/-- what `aggCol` / `aggWhere` / `aggCmpText` / `check` look at in the aggregated attribute -/
inductive AggAttrClass | absent | duration | attr
deriving DecidableEq, Repr

def aggAttrClass (a : String) : AggAttrClass :=
  if a = "" then .absent else if a = "duration" then .duration else .attr

structure AggClass where
  fn : AggFn
  attr : AggAttrClass
  cmp : Op
  num : Num
  unit : Option TUnit
deriving DecidableEq, Repr

def aggClass (a : Agg) : AggClass := ⟨a.fn, aggAttrClass a.attr, a.cmp, a.num, a.unit⟩

/-- the skeleton of an attribute expression: the classes of its distinct terms (in the order `analyzeCond` interns
    them) and the condition tree over their indices -/
def attrsSkel (e : AttrExp) : List TermClass × Cond :=
  ((analyzeCond [] e).1.map termClass, (analyzeCond [] e).2)

structure SelSkel where
  attrs : Option (List TermClass × Cond)
  agg : Option AggClass
deriving DecidableEq, Repr

def Selector.skel (s : Selector) : SelSkel := ⟨s.attrs.map attrsSkel, s.agg.map aggClass⟩

def skelT (s : Script) : List (SelSkel × ScriptOp) := s.map (fun p => (p.1.skel, p.2))

/-- **sameShapeT**: equal skeletons -/
def sameShapeT (s1 s2 : Script) : Prop := skelT s1 = skelT s2

instance (s1 s2 : Script) : Decidable (sameShapeT s1 s2) := inferInstanceAs (Decidable (skelT s1 = skelT s2))

/-- the executable form (the driver answers with it) -/
def sameShapeTB (s1 s2 : Script) : Bool := decide (sameShapeT s1 s2)

/-! ### a syntactic sufficient condition: the same tree, position by position

    `sameSyntaxT`: the two scripts have the same tree structure (constructors of `AttrExp`, `&&`/`||`, presence of
    attributes and aggregator, script operators), at every term position the same class, and the same pattern of equal
    term texts (positions i, j hold the same text in the one script iff they do in the other). It is what "equal up to
    the contents of string leaves" means on the syntax tree; `sameShapeT` is weaker (it follows from it, see
    `Proofs/SameShapeTraceQL.lean`, and also ignores e.g. redundant parentheses). -/

/-- the terms of an attribute expression in the order `analyzeChain` visits them -/
def flatTerms : AttrExp → List Term
  | .leaf t => [t]
  | .paren e => flatTerms e
  | .leafOp t _ tail => t :: flatTerms tail
  | .parenOp e _ tail => flatTerms e ++ flatTerms tail

def sameStruct : AttrExp → AttrExp → Bool
  | .leaf _, .leaf _ => true
  | .paren e, .paren e' => sameStruct e e'
  | .leafOp _ op tail, .leafOp _ op' tail' => op == op' && sameStruct tail tail'
  | .parenOp e op tail, .parenOp e' op' tail' => sameStruct e e' && (op == op' && sameStruct tail tail')
  | _, _ => false

/-- for all positions i, j: `ts1[i]`, `ts1[j]` have the same text iff `ts2[i]`, `ts2[j]` have -/
def samePattern : List Term → List Term → Bool
  | [], [] => true
  | t :: ts, u :: us =>
    (List.zipWith (fun t' u' => (t.key == t'.key) == (u.key == u'.key)) ts us).all id && samePattern ts us
  | _, _ => false

def sameAttrs (e1 e2 : AttrExp) : Bool :=
  sameStruct e1 e2 && decide ((flatTerms e1).map termClass = (flatTerms e2).map termClass) &&
    samePattern (flatTerms e1) (flatTerms e2)

def sameSelector (s1 s2 : Selector) : Bool :=
  (match s1.attrs, s2.attrs with
    | some e1, some e2 => sameAttrs e1 e2
    | none, none => true
    | _, _ => false) && decide (s1.agg.map aggClass = s2.agg.map aggClass)

def sameSyntaxTB : Script → Script → Bool
  | [], [] => true
  | (s1, o1) :: r1, (s2, o2) :: r2 => sameSelector s1 s2 && decide (o1 = o2) && sameSyntaxTB r1 r2
  | _, _ => false

def sameSyntaxT (s1 s2 : Script) : Prop := sameSyntaxTB s1 s2 = true

instance (s1 s2 : Script) : Decidable (sameSyntaxT s1 s2) := inferInstanceAs (Decidable (_ = true))

/-! ### non-vacuity: concrete scripts -/
namespace SameShapeEx

def n5 : Num := ⟨false, [5], false, []⟩
def n100 : Num := ⟨false, [1, 0, 0], false, []⟩

/-- `{.a = "x" && span.b =~ "y.*" || (duration > 100ms && .a = "x") && name != "op" && .c > 5} | avg(.lat) > 5 && {.z = "q"}` -/
def scriptA : Script :=
  [ (⟨some (.leafOp ⟨".a", .eq, .str [34, 120, 34] (some [120])⟩ .and
        (.leafOp ⟨"span.b", .re, .str [34, 121, 46, 42, 34] (some [121, 46, 42])⟩ .or
          (.parenOp (.leafOp ⟨"duration", .gt, .dur n100 .ms⟩ .and (.leaf ⟨".a", .eq, .str [34, 120, 34] (some [120])⟩)) .and
            (.leafOp ⟨"name", .neq, .str [34, 111, 112, 34] (some [111, 112])⟩ .and (.leaf ⟨".c", .gt, .num n5⟩))))),
      some ⟨.avg, ".lat", .gt, n5, none⟩⟩, .and),
    (⟨some (.leaf ⟨".z", .eq, .str [34, 113, 34] (some [113])⟩), none⟩, .none) ]

/-- the same request with every string leaf replaced (attribute names, values, the regular expression, the aggregated
    attribute), hostile bytes included: 39 = quote, 92 = backslash; the repeated term is repeated here too -/
def scriptB : Script :=
  [ (⟨some (.leafOp ⟨"resource.it's", .eq, .str [34, 39, 32, 79, 82, 32, 49, 61, 49, 34] (some [39, 32, 79, 82, 32, 49, 61, 49])⟩ .and
        (.leafOp ⟨".b\\", .re, .str [34, 92, 92, 39, 34] (some [92, 39])⟩ .or
          (.parenOp (.leafOp ⟨"duration", .gt, .dur n100 .ms⟩ .and
              (.leaf ⟨"resource.it's", .eq, .str [34, 39, 32, 79, 82, 32, 49, 61, 49, 34] (some [39, 32, 79, 82, 32, 49, 61, 49])⟩)) .and
            (.leafOp ⟨"name", .neq, .str [34, 39, 41, 59, 45, 45, 34] (some [39, 41, 59, 45, 45])⟩ .and (.leaf ⟨"span.'", .gt, .num n5⟩))))),
      some ⟨.avg, "resource.la't\\", .gt, n5, none⟩⟩, .and),
    (⟨some (.leaf ⟨".\\'", .eq, .str [34, 92, 34] (some [92])⟩), none⟩, .none) ]

/-- `scriptB` with the repeated term NOT repeated (its second occurrence names another attribute): one condition bit
    more, another statement -/
def scriptC : Script :=
  [ (⟨some (.leafOp ⟨"resource.it's", .eq, .str [34, 39, 32, 79, 82, 32, 49, 61, 49, 34] (some [39, 32, 79, 82, 32, 49, 61, 49])⟩ .and
        (.leafOp ⟨".b\\", .re, .str [34, 92, 92, 39, 34] (some [92, 39])⟩ .or
          (.parenOp (.leafOp ⟨"duration", .gt, .dur n100 .ms⟩ .and
              (.leaf ⟨"resource.other", .eq, .str [34, 39, 32, 79, 82, 32, 49, 61, 49, 34] (some [39, 32, 79, 82, 32, 49, 61, 49])⟩)) .and
            (.leafOp ⟨"name", .neq, .str [34, 39, 41, 59, 45, 45, 34] (some [39, 41, 59, 45, 45])⟩ .and (.leaf ⟨"span.'", .gt, .num n5⟩))))),
      some ⟨.avg, "resource.la't\\", .gt, n5, none⟩⟩, .and),
    (⟨some (.leaf ⟨".\\'", .eq, .str [34, 92, 34] (some [92])⟩), none⟩, .none) ]

/-- `scriptA` with `||` in place of the first `&&` -/
def scriptD : Script :=
  [ (⟨some (.leafOp ⟨".a", .eq, .str [34, 120, 34] (some [120])⟩ .or
        (.leafOp ⟨"span.b", .re, .str [34, 121, 46, 42, 34] (some [121, 46, 42])⟩ .or
          (.parenOp (.leafOp ⟨"duration", .gt, .dur n100 .ms⟩ .and (.leaf ⟨".a", .eq, .str [34, 120, 34] (some [120])⟩)) .and
            (.leafOp ⟨"name", .neq, .str [34, 111, 112, 34] (some [111, 112])⟩ .and (.leaf ⟨".c", .gt, .num n5⟩))))),
      some ⟨.avg, ".lat", .gt, n5, none⟩⟩, .and),
    (⟨some (.leaf ⟨".z", .eq, .str [34, 113, 34] (some [113])⟩), none⟩, .none) ]

/-- `scriptA` with another number literal (`.c > 100`): numbers are part of the token structure -/
def scriptE : Script :=
  [ (⟨some (.leafOp ⟨".a", .eq, .str [34, 120, 34] (some [120])⟩ .and
        (.leafOp ⟨"span.b", .re, .str [34, 121, 46, 42, 34] (some [121, 46, 42])⟩ .or
          (.parenOp (.leafOp ⟨"duration", .gt, .dur n100 .ms⟩ .and (.leaf ⟨".a", .eq, .str [34, 120, 34] (some [120])⟩)) .and
            (.leafOp ⟨"name", .neq, .str [34, 111, 112, 34] (some [111, 112])⟩ .and (.leaf ⟨".c", .gt, .num n100⟩))))),
      some ⟨.avg, ".lat", .gt, n5, none⟩⟩, .and),
    (⟨some (.leaf ⟨".z", .eq, .str [34, 113, 34] (some [113])⟩), none⟩, .none) ]

/-- `{}` and `{} | count() > 5`-like requests: the empty selector -/
def scriptEmpty : Script := [(⟨none, none⟩, .none)]

end SameShapeEx

end Qryn.TraceQL
