import Qryn.Sql.Build
import Qryn.Base.Time
import Qryn.TraceQL.Ast
import Qryn.TraceQL.Units
/-! Model of reader/traceql/transpiler/clickhouse_transpiler for `Plan`:
    planner.go (plan, planComplex), expression_planner_simple.go (check, analyze, analyzeCond, analyzeAgg,
    planner), expression_planner_complex.go, init.go, attr_condition.go (getTerm*, getCond, aggregator,
    maybeCreateWhere, the random filter of complex request portions), attrless.go, index_groupby.go,
    aggregator.go, index_limit.go, traces_data.go, complex_and.go, complex_or.go, shared.go.
    Raw SQL text the Go code writes as one string is given structure here where the semantics need it
    (`any(duration)` is `.call "any" [.raw "duration"]`); the rendering is byte-equal (text tie of C11). -/
namespace Qryn.TraceQL
open Qryn Qryn.Sql

structure Ctx where
  fromNs : Int
  toNs : Int
  zoneOff : Int               -- process zone of ctx.From / ctx.To: unused since the date bounds are rendered with .UTC() (C13 fix); kept so that the harness keeps varying it
  limit : Int
  isCluster : Bool
  attrsTable : String
  attrsDistTable : String
  tracesTable : String
  tracesDistTable : String
  rndMax : Int := 0           -- ctx.RandomFilter.Max, .I and ctx.CachedTraceIds (complex request portions)
  rndI : Int := 0
  cached : List String := []
deriving Repr

abbrev PlanM := Except String

/-! ### literals -/
def natOfDigits (ds : List Nat) : Nat := ds.foldl (fun acc d => acc * 10 + d) 0

/-- `fmt.Sprintf("%f", strconv.ParseFloat(text))` for literals with at most 6 fractional digits and an
    integer part below 10⁹ (the only ones the harness sends: there `%f` is exact) -/
def numText (n : Num) : String :=
  (if n.neg then "-" else "") ++ toString (natOfDigits n.int) ++ "." ++
    digitsText ((n.frac ++ List.replicate 6 0).take 6)

def TUnit.nanos : TUnit → Option Nat
  | .ns => some 1 | .us => some 1000 | .ms => some 1000000 | .s => some 1000000000
  | .m => some 60000000000 | .h => some 3600000000000 | .d => none

/-- `time.ParseDuration(num ++ unit).Nanoseconds()` for one number and at most one unit: `Units.goParseDuration` (the function
    of package time step by step, overflow checks included; `Units.goParseDuration_unit`: the exact value of the literal in
    whole nanoseconds, refused when it does not fit an int64) -/
def parseDuration (n : Num) (u : Option TUnit) : PlanM Int :=
  match Units.goParseDuration n u with
  | .ok ns => pure ns
  | .error .invalid => throw "time: invalid duration"
  | .error .missingUnit => throw "time: missing unit in duration"
  | .error .unknownUnit => throw "time: unknown unit in duration"

/-! ### attr_condition.go -/
def stripPrefix (p s : String) : Option String :=
  if p.isPrefixOf s then some (s.drop p.length).toString else none

/-- `getComparisonFn` (shared.go) and the switch of `getTermNum`: the SQL operator of a TraceQL comparison -/
def cmpSql : Op → Option String
  | .eq => some "==" | .neq => some "!=" | .gt => some ">" | .lt => some "<" | .ge => some ">=" | .le => some "<="
  | .re => none | .nre => none

def keyIs (key : String) : Expr := eq (.raw "key") (.str key.toUTF8.toList)

/-- `getString` -/
def getString (v : Value) : PlanM Bytes :=
  match v with
  | .str _ (some u) => pure u
  | .str _ none => throw "unquote"
  | .num n => pure n.text.toUTF8.toList
  | .dur _ _ => pure []

/-- `getTermStr` -/
def termStr (t : Term) (key : String) : PlanM Expr := do
  let s ← getString t.val
  match t.op with
  | .eq => pure (and_ [keyIs key, eq (.raw "val") (.str s)])
  | .neq => pure (and_ [keyIs key, neq (.raw "val") (.str s)])
  | .re => pure (and_ [keyIs key, eq (.callT "match" [.raw "val", .str s]) (.int 1)])
  | .nre => pure (and_ [keyIs key, eq (.callT "match" [.raw "val", .str s]) (.int 0)])
  | _ => throw "not supported operator"

/-- `getTermNum` -/
def termNum (t : Term) (key : String) (n : Num) : PlanM Expr :=
  match cmpSql t.op with
  | none => throw "not supported operator"
  | some fn =>
    pure (and_ [keyIs key,
      eq (.callT "isNotNull" [.callT "toFloat64OrNull" [.raw "val"]]) (.int 1),
      .logical fn [.callT "toFloat64OrZero" [.raw "val"], .numLit (numText n)]])

/-- `getTermDuration` -/
def termDuration (t : Term) : PlanM Expr :=
  match t.val with
  | .dur n u => do
    let ns ← parseDuration n (some u)
    match cmpSql t.op with
    | none => throw "not supported operator"
    | some fn => pure (.logical fn [.raw "traces_idx.duration", .int ns])
  | _ => throw "not a time duration value"

/-- the attribute key of a label: `span.`, `resource.` or `.` stripped -/
def attrKey (label : String) : Option String :=
  match stripPrefix "span." label with
  | some k => some k
  | none => match stripPrefix "resource." label with
    | some k => some k
    | none => stripPrefix "." label

/-- `getTerm` -/
def termSql (t : Term) : PlanM Expr :=
  let withKey (key : String) : PlanM Expr :=
    match t.val with
    | .str _ _ => termStr t key
    | .num n => termNum t key n
    | .dur _ _ => throw "unsupported statement"
  match attrKey t.label with
  | some k => withKey k
  | none =>
    if t.label = "duration" then termDuration t
    else if t.label = "name" then withKey "name"
    else throw "unsupported attribute"

/-- `condition`: the boolean tree over term indices -/
inductive Cond
  | leaf (idx : Nat)
  | node (op : BoolOp) (l r : Cond)
deriving DecidableEq, Repr

/-- `AttrSelector.String()`: the de-duplication key of `analyzeCond` -/
def Value.text : Value → Bytes
  | .dur n u => (n.text ++ u.text).toUTF8.toList
  | .num n => n.text.toUTF8.toList
  | .str raw _ => raw

def Term.key (t : Term) : Bytes := (t.label ++ " " ++ t.op.text ++ " ").toUTF8.toList ++ t.val.text

/-- `p.terms[term]` / `p.termIdx`: look the term up by its text, append it when new -/
def internTerm (terms : List Term) (t : Term) : List Term × Nat :=
  match terms.findIdx? (fun u => u.key == t.key) with
  | some i => (terms, i)
  | none => (terms ++ [t], terms.length)

/-- `joinConds`: c₁ op (c₂ op (… cₙ)) -/
def joinConds (op : BoolOp) : List Cond → Cond
  | [] => .leaf 0
  | [c] => c
  | c :: cs => .node op c (joinConds op cs)

/-- the step of the loop of `analyzeCond`: a head followed by `&&` joins the group of what follows it, any
    other operator (also the empty one) closes the group -/
def consHead {α} (h : α) (op : BoolOp) (gs : List (List α)) : List (List α) :=
  match op, gs with
  | .and, g :: gs' => (h :: g) :: gs'
  | _, _ => [h] :: gs

/-- the disjunction of the conjunctions of the groups -/
def joinGroups (gs : List (List Cond)) : Cond := joinConds .or (gs.map (joinConds .and))

/-- the loop of `analyzeCond` (after fix 99a4847) over the chain `h₁ op₁ h₂ op₂ …` the grammar nests to the right:
    the heads (`analyzeHead`: a condition, interned by its text, or a parenthesised expression) in groups of
    `&&`-joined neighbours -/
def analyzeChain (terms : List Term) : AttrExp → List Term × List (List Cond)
  | .leaf t => let (ts, i) := internTerm terms t; (ts, [[.leaf i]])
  | .paren e => let (ts, gs) := analyzeChain terms e; (ts, [[joinGroups gs]])
  | .leafOp t op tail =>
    let (ts, i) := internTerm terms t
    let (ts', gs) := analyzeChain ts tail
    (ts', consHead (.leaf i) op gs)
  | .parenOp e op tail =>
    let (ts, hs) := analyzeChain terms e
    let (ts', gs) := analyzeChain ts tail
    (ts', consHead (joinGroups hs) op gs)

/-- `analyzeCond`: `&&` binds tighter than `||` -/
def analyzeCond (terms : List Term) (e : AttrExp) : List Term × Cond :=
  let (ts, gs) := analyzeChain terms e
  (ts, joinGroups gs)

/-- Go's `int64(1) << idx` -/
def shl1 (idx : Nat) : Int :=
  if idx < 63 then (2 : Int) ^ idx else if idx = 63 then -(2 : Int) ^ 63 else 0

/-- `getCond`: the first leaf reached defines the alias `bsCond`, the others refer to it.
    The flag is `isAliased`. -/
def condSql (terms : List Expr) : Bool → Cond → Expr × Bool
  | aliased, .leaf i =>
    let left : Expr := if aliased then .raw "bsCond" else .bitSet terms "bsCond"
    (neq (.callT "bitAnd" [left, .int (shl1 i)]) (.int 0), true)
  | aliased, .node op l r =>
    let (le, a1) := condSql terms aliased l
    let (re, a2) := condSql terms a1 r
    ((match op with | .and => and_ [le, re] | _ => or_ [le, re]), a2)

/-- the key of the aggregated attribute (`aggregator`): one scope prefix is dropped, like `getTerm` does -/
def aggKey (attr : String) : String := (attrKey attr).getD attr

/-- `InitIndexPlanner.Process` -/
def initIndex (c : Ctx) : Sel :=
  .mk [] false
    [simpleCol "trace_id" "trace_id", simpleCol "span_id" "span_id",
     .col (.call "any" [.raw "duration"]) "duration", .col (.call "any" [.raw "timestamp_ns"]) "timestamp_ns"]
    (some (.col (.raw c.attrsTable) "traces_idx")) [] none
    (some (and_ [and_ [
      ge (.raw "date") (.str (Time.formatDate (Int.fdiv c.fromNs 1000000000))),
      le (.raw "date") (.str (Time.formatDate (Int.fdiv c.toNs 1000000000))),
      ge (.raw "traces_idx.timestamp_ns") (.int c.fromNs),
      lt (.raw "traces_idx.timestamp_ns") (.int c.toNs)]]))
    [.raw "trace_id", .raw "span_id"] none [.orderBy (.raw "timestamp_ns") .desc] none

/-- the loop of `maybeCreateWhere`: the first error ends it -/
def mapOk {α β} (f : α → PlanM β) : List α → PlanM (List β)
  | [] => .ok []
  | x :: xs =>
    match f x with
    | .error e => .error e
    | .ok y => (match mapOk f xs with | .error e => .error e | .ok ys => .ok (y :: ys))

/-- the random filter of complex request portions -/
def randomFilter (c : Ctx) : List Expr :=
  let hash := eq (.raw ("cityHash64(trace_id) % " ++ toString c.rndMax)) (.int c.rndI)
  if c.rndMax ≠ 0 ∧ ¬ c.cached.isEmpty then
    [or_ [hash, .isIn (.raw "trace_id") (c.cached.map (fun t => .raw ("unhex('" ++ t ++ "')")))]]
  else if c.rndMax ≠ 0 then [hash] else []

/-- `aggregator`: the column of the aggregated value … -/
def aggCol (aggAttr : String) : List Expr :=
  if aggAttr = "" then []
  else if aggAttr = "duration" then [.col (.call "toFloat64" [.raw "duration"]) "agg_val"]
  else [.col (.anyIfNum (aggKey aggAttr).toUTF8.toList) "agg_val"]

/-- … and, for an attribute, one more disjunct of WHERE: the rows holding that attribute -/
def aggWhere (aggAttr : String) : List Expr :=
  if aggAttr = "" then [] else if aggAttr = "duration" then [] else [keyIs (aggKey aggAttr)]

/-- `AttrConditionPlanner.Process`: every condition is a disjunct of WHERE (`maybeCreateWhere`), the key of
    an aggregated attribute is one more; the planner object is not changed by `Process` -/
def attrConditionCore (c : Ctx) (terms : List Term) (cond : Cond) (aggAttr : String) : PlanM Sel := do
  let sqlTerms ← mapOk termSql terms
  let res := ((((initIndex c).addCols (aggCol aggAttr)).andWhere [or_ (sqlTerms ++ aggWhere aggAttr)]).andHaving
    [(condSql sqlTerms false cond).1])
  pure (match randomFilter c with | [] => res | f => res.andWhere f)

/-- the guard of `analyze` (fix 4c45e66): the bit set has 64 bits, a selector with more distinct conditions is
    refused (the Go code refuses it when the plan is built; the model reports planning and processing errors alike) -/
def attrCondition (c : Ctx) (terms : List Term) (cond : Cond) (aggAttr : String) : PlanM Sel :=
  if 64 < terms.length then throw "more than 64 different conditions in one selector are not supported"
  else attrConditionCore c terms cond aggAttr

theorem attrCondition_core {c : Ctx} {terms : List Term} {cond : Cond} {aggAttr : String} {S : Sel}
    (h : attrCondition c terms cond aggAttr = .ok S) : terms.length ≤ 64 ∧ attrConditionCore c terms cond aggAttr = .ok S := by
  unfold attrCondition at h
  split at h
  · simp [throw, throwThe, MonadExceptOf.throw] at h
  · exact ⟨by omega, h⟩

/-- `AttrlessConditionPlanner.Process` -/
def attrless (c : Ctx) : Sel :=
  let tbl : Expr := .col (.raw c.tracesTable) "traces"
  let traceIds : Sel := .mk [] false [simpleCol "trace_id" "trace_id"] (some tbl) [] none
    (some (and_ [and_ [ge (.raw "timestamp_ns") (.int c.fromNs), lt (.raw "timestamp_ns") (.int c.toNs)]]))
    [.raw "trace_id"] none [.orderBy (.call "max" [.raw "timestamp_ns"]) .desc] (some (.int c.limit))
  let traceAndSpanIds : Sel := .mk [] false
    [simpleCol "trace_id" "trace_id", .col (.call "groupArray(100)" [.raw "span_id"]) "span_id"] (some tbl) [] none
    (some (and_ [and_ [ge (.raw "timestamp_ns") (.int c.fromNs), lt (.raw "timestamp_ns") (.int c.toNs),
      .isIn (.raw "trace_id") [.withRef (.named "trace_ids")]]]))
    [.raw "trace_id"] none [] none
  let unnested : Sel := .mk [] false [simpleCol "trace_id" "trace_id", simpleCol "_span_id" "span_id"]
    (some (.arrayJoin (.withRef (.named "trace_and_span_ids")) (simpleCol "trace_and_span_ids.span_id" "_span_id")))
    [] none none [] none [] none
  let body : Sel := .mk [] false
    [simpleCol "trace_id" "trace_id", simpleCol "span_id" "span_id", simpleCol "duration_ns" "duration",
     simpleCol "timestamp_ns" "timestamp_ns"] (some tbl) [] none
    (some (and_ [and_ [ge (.raw "timestamp_ns") (.int c.fromNs), lt (.raw "timestamp_ns") (.int c.toNs),
      .isIn (.call "" [.raw "traces.trace_id", .raw "traces.span_id"]) [.withRef (.named "trace_and_span_ids_unnested")]]]))
    [] none [.orderBy (.raw "timestamp_ns") .desc] none
  body.with_ [(.named "trace_ids", traceIds), (.named "trace_and_span_ids", traceAndSpanIds),
              (.named "trace_and_span_ids_unnested", unnested)]

/-- `IndexGroupByPlanner.Process` -/
def indexGroupBy (pfx : String) (main : Sel) : Sel :=
  let a : Alias := .named (pfx ++ "index_search")
  (Sel.mk [] false
    [simpleCol "trace_id" "trace_id", .col (.call "groupArray(100)" [.raw "span_id"]) "span_id"]
    (some (.withRef a)) [] none none [.raw "trace_id"] none
    [.orderBy (.call "max" [.raw (pfx ++ "index_search.timestamp_ns")]) .desc] none).with_ [(a, main)]

def AggFn.text : AggFn → String
  | .count => "count" | .sum => "sum" | .min => "min" | .max => "max" | .avg => "avg"

/-- `AggregatorPlanner.getAggregator` -/
def aggregatorSql (pfx : String) : AggFn → Expr
  | .count => .call "toFloat64" [.call "count" [.distinct (.raw (pfx ++ "index_search.span_id"))]]
  | fn => .call (fn.text ++ "If") [.raw "agg_val", .call "isNotNull" [.raw "agg_val"]]

/-- `AggregatorPlanner.cmpVal` rendered by `FloatVal` -/
def aggCmpText (a : Agg) : PlanM String :=
  if a.attr = "duration" then do
    let ns ← parseDuration a.num a.unit
    pure (Units.f64Text ns)
  else match a.unit with
    | some _ => throw "strconv.ParseFloat: invalid syntax"
    | none => pure (numText a.num)

/-- `AggregatorPlanner.Process` -/
def aggregator (pfx : String) (a : Agg) (main : Sel) : PlanM Sel := do
  let fn ← match cmpSql a.cmp with | some f => pure f | none => throw "not supported operator"
  let v ← aggCmpText a
  pure (main.andHaving [.logical fn [aggregatorSql pfx a.fn, .numLit v]])

/-- `simpleExpressionPlanner.check` on the script starting at this selector -/
def check : Script → PlanM Unit
  | [] => pure ()
  | (s, _) :: tail => do
    match s.agg with
    | some a => if a.fn ≠ .count ∧ a.attr = "" then throw "the aggregator needs the attribute to aggregate"
    | none => pure ()
    if s.attrs.isNone then
      if s.agg.isSome then throw "requests like `{} | ....` are not supported"
      if ¬ tail.isEmpty then throw "requests like `{} || .....` are not supported"
    if tail.any (fun p => p.1.attrs.isNone) then throw "requests like `... || {}` are not supported"

/-- `simpleExpressionPlanner.planner` + Process of what it builds -/
def simpleSel (c : Ctx) (pfx : String) (script : Script) : PlanM Sel := do
  check script
  match script with
  | [] => throw "nil script"
  | (s, _) :: _ =>
    let res ← match s.attrs with
      | some e =>
        let (terms, cond) := analyzeCond [] e
        attrCondition c terms cond (match s.agg with | some a => a.attr | none => "")
      | none => pure (attrless c)
    let res := indexGroupBy pfx res
    match s.agg with
    | some a => aggregator pfx a res
    | none => pure res

/-- the per-operand wrapping of `ComplexAndPlanner` / `ComplexOrPlanner`: the operand, with its newest
    timestamp, becomes `_<i>_pre_`; its span array is unnested; `&&` tags the rows with the operand number -/
def operandSel (isAnd : Bool) (i : Nat) (s : Sel) : Sel :=
  let a : Alias := .named ("_" ++ toString i ++ "_pre_")
  (Sel.mk [] false
    ([simpleCol "trace_id" "trace_id", simpleCol "_span_id" "span_id", simpleCol "max_timestamp_ns" "timestamp_ns"] ++
      (if isAnd then [.col (.int i) "_op"] else []))
    (some (.arrayJoin (.withRef a) (simpleCol (a.text ++ ".span_id") "_span_id"))) [] none none [] none [] none).with_
    [(a, s.addCols [.col (.call "max" [.raw "timestamp_ns"]) "max_timestamp_ns"])]

def operandSels (isAnd : Bool) (i : Nat) : List Sel → List Sel
  | [] => []
  | s :: ss => operandSel isAnd i s :: operandSels isAnd (i + 1) ss

/-- `ComplexAndPlanner.Process` / `ComplexOrPlanner.Process` over already processed operands: the rows of
    all operands, grouped by trace; `&&` keeps the traces that have rows of every operand -/
def complexSel (isAnd : Bool) (pfx : String) (ops : List Sel) : Sel :=
  .mk [] false
    [simpleCol "trace_id" "trace_id", .col (.call "groupUniqArray(100)" [.raw "span_id"]) "span_id"]
    (some (.col (.setOp "UNION ALL" (operandSels isAnd 0 ops)) (pfx ++ "a")))
    [] none none [.raw "trace_id"]
    (if isAnd then some (and_ [eq (.call "uniqExact" [.raw "_op"]) (.int ops.length)]) else none)
    [.orderBy (.call "max" [.raw "timestamp_ns"]) .desc] none

/-- the tree `planComplex` builds (every complex node ends up with two operands) -/
inductive XTree
  | simple (script : Script) (pfx : Nat)     -- simpleExpressionPlanner{script, prefix}: plans `script.Head`
  | complex (isAnd : Bool) (pfx : Nat) (l r : XTree)
deriving Repr

def pfxText (k : Nat) : String := "_" ++ toString k

/-- `planComplex` reads the script as groups `s₁ && s₂ && … sₘ` separated by `||`; each selector is handed
    to its `simpleExpressionPlanner` together with the rest of the script (`check` looks at the tail).
    An empty `AndOr` ends the script whatever follows; an operator without a following selector is the
    nil dereference of the Go code. -/
def groupsS : Script → PlanM (List (List Script))
  | [] => throw "nil pointer dereference (operator without a following selector)"
  | (s, .none) :: rest => pure [[(s, .none) :: rest]]
  | (s, .or) :: rest => do
    let gs ← groupsS rest
    pure ([(s, .or) :: rest] :: gs)
  | (s, .and) :: rest => do
    let gs ← groupsS rest
    match gs with
    | g :: gs' => pure ((((s, .and) :: rest) :: g) :: gs')
    | [] => throw "unreachable"

/-- one group: `&&` adds a complex node holding the selector and continues inside that node;
    prefixes are handed out in call order of `getPrefix` (complex node first, then its selector) -/
def andNest (k : Nat) : List Script → XTree × Nat
  | [] => (.simple [] 0, k)
  | [sc] => (.simple sc (k + 1), k + 1)
  | sc :: more =>
    let (g, k') := andNest (k + 2) more
    (.complex true (k + 1) (.simple sc (k + 2)) g, k')

/-- every `||` wraps what was built so far into a new `||` node (prefix taken after the group's last
    selector) which then receives the next group -/
def orFold (k : Nat) (left : Option (Nat × XTree)) : List (List Script) → XTree
  | [] => .simple [] 0
  | g :: gs =>
    let (t, k') := andNest k g
    let cur := match left with | none => t | some (p, l) => .complex false p l t
    match gs with
    | [] => cur
    | _ => orFold (k' + 1) (some (k' + 1, cur)) gs

def planTree (script : Script) : PlanM XTree := do pure (orFold 0 none (← groupsS script))

def treeSel (c : Ctx) : XTree → PlanM Sel
  | .simple script k => simpleSel c (pfxText k) script
  | .complex isAnd k l r => do
    let ls ← treeSel c l
    let rs ← treeSel c r
    pure (complexSel isAnd (pfxText k) [ls, rs])

/-- the root planner of `plan`: a single selector is planned without a prefix -/
def rootSel (c : Ctx) (script : Script) : PlanM Sel :=
  match script with
  | [] => throw "nil script"
  | [_] => simpleSel c "" script
  | _ => do treeSel c (← planTree script)

/-- `IndexLimitPlanner.Process` -/
def indexLimit (c : Ctx) (s : Sel) : Sel := if c.limit = 0 then s else s.setLimit (some (.int c.limit))

/-- what decides which traces are returned: the limited root select (`index_grouped` of the statement) -/
def indexGrouped (c : Ctx) (script : Script) : PlanM Sel := do pure (indexLimit c (← rootSel c script))

/-- `TracesDataPlanner.Process` -/
def tracesData (c : Ctx) (main : Sel) : Sel :=
  let table := if c.isCluster then c.tracesDistTable else c.tracesTable
  let ig : Alias := .named "index_grouped"
  let traceIds : Sel := .mk [] false [.raw "trace_id"] (some (.withRef ig)) [] none none [] none [] none
  let traceSpanIds : Sel := .mk [] false [.raw "trace_id", .raw "span_id"]
    (some (.arrayJoin (.withRef ig) (.raw "span_id"))) [] none none [] none [] none
  let tracesInfo : Sel := .mk [] false
    [simpleCol "traces.trace_id" "trace_id", .col (.call "min" [.raw "traces.timestamp_ns"]) "_start_time_unix_nano",
     simpleCol "toFloat64(max(traces.timestamp_ns + traces.duration_ns) - min(traces.timestamp_ns)) / 1000000" "_duration_ms",
     simpleCol "argMin(traces.service_name, traces.timestamp_ns)" "_root_service_name",
     simpleCol "argMin(traces.name, traces.timestamp_ns)" "_root_trace_name"]
    (some (.col (.raw c.tracesTable) "traces")) [] none
    (some (and_ [.isIn (.raw "traces.trace_id") [.withRef (.named "trace_ids")]]))
    [.raw "traces.trace_id"] none [] none
  (Sel.mk [] false
    [.col (.call "lower" [.call "hex" [.raw "traces.trace_id"]]) "trace_id",
     .col (.call "arrayMap" [.raw "x -> lower(hex(x))", .call "groupArray" [.raw "traces.span_id"]]) "span_id",
     .col (.call "groupArray" [.raw "traces.duration_ns"]) "duration",
     .col (.call "groupArray" [.raw "traces.timestamp_ns"]) "timestamp_ns",
     .col (.call "min" [.raw "_start_time_unix_nano"]) "start_time_unix_nano",
     simpleCol "min(_duration_ms)" "duration_ms",
     simpleCol "min(_root_service_name)" "root_service_name",
     simpleCol "min(_root_trace_name)" "root_trace_name"]
    (some (.col (.raw table) "traces"))
    [("any left", .named "traces_info", eq (.raw "traces.trace_id") (.raw "traces_info.trace_id"))]
    none
    (some (and_ [.isIn (.raw "traces.trace_id") [.withRef (.named "trace_ids")],
                 .isIn (.call "" [.raw "traces.trace_id", .raw "traces.span_id"]) [.withRef (.named "trace_span_ids")]]))
    [.raw "traces.trace_id"] none [.orderBy (.raw "start_time_unix_nano") .desc] none).with_
    [(ig, main), (.named "trace_ids", traceIds), (.named "trace_span_ids", traceSpanIds), (.named "traces_info", tracesInfo)]

/-- `clickhouse_transpiler.Plan(script).Process(ctx)` -/
def plan (c : Ctx) (script : Script) : PlanM Sel := do
  pure (indexLimit c (tracesData c (← indexGrouped c script)))

/-! ### `PlanTagsV2` / `PlanValuesV2` (select_tags_planner.go, select_values_planner.go, all_values_request_planner.go) -/

/-- `SelectTagsPlanner.Process` over the index scan of the selector -/
def selectTags (c : Ctx) (col : String) (main : Sel) : Sel :=
  let pre : Sel := .mk [] false [.raw "span_id"] (some (.withRef (.named "select_spans"))) [] none none [] none [] none
  let res : Sel := (Sel.mk [] false [simpleCol col col] (some (.col (.raw c.attrsDistTable) "traces_idx")) [] none
    (some (and_ [and_ [
      ge (.raw "date") (.str (Time.formatDate (Int.fdiv c.fromNs 1000000000))),
      le (.raw "date") (.str (Time.formatDate (Int.fdiv c.toNs 1000000000))),
      ge (.raw "traces_idx.timestamp_ns") (.int c.fromNs),
      lt (.raw "traces_idx.timestamp_ns") (.int c.toNs),
      .isIn (.raw "span_id") [.withRef (.named "pre_select_tags")]]]))
    [.raw col] none [] none).with_ [(.named "select_spans", main), (.named "pre_select_tags", pre)]
  res

def tagsOrder (c : Ctx) (col : String) (s : Sel) : Sel :=
  if c.limit > 0 then (s.setOrderBy [.orderBy (.raw col) .asc]).setLimit (some (.int c.limit)) else s

/-- the index scan of `tagsV2Planner` / `valuesV2Planner`: the head selector only, chains are refused -/
def tagsMain (c : Ctx) (script : Script) : PlanM (Option Sel) := do
  match script with
  | [] => throw "nil script"
  | _ :: _ :: _ => throw "complex requests `{} || {} ...` are not supported"
  | [(s, _)] =>
    check script
    match s.attrs with
    | none => pure none
    | some e =>
      let (terms, cond) := analyzeCond [] e
      let m ← attrCondition c terms cond (match s.agg with | some a => a.attr | none => "")
      pure (some m)

/-- `AllTagsRequestPlanner.Process` -/
def allTags (c : Ctx) (kvTable : String) : Sel :=
  .mk [] true [simpleCol "key" "key"] (some (.raw kvTable)) [] none
    (some (and_ [ge (.raw "date") (.str (Time.formatFromDate c.fromNs)), le (.raw "date") (.str (Time.formatDate (Int.fdiv c.toNs 1000000000)))]))
    [] none [] none

/-- `AllValuesRequestPlanner.Process`: the lower date bound is `FormatFromDate(ctx.From)` (UTC, − 30 min), the upper one the UTC day of ctx.To -/
def allValues (c : Ctx) (kvTable : String) (key : Bytes) : Sel :=
  .mk [] true [simpleCol "val" "val"] (some (.raw kvTable)) [] none
    (some (and_ [ge (.raw "date") (.str (Time.formatFromDate c.fromNs)), le (.raw "date") (.str (Time.formatDate (Int.fdiv c.toNs 1000000000))),
      eq (.raw "key") (.str key)])) [] none [] none

def _root_.Qryn.Sql.Sel.setGroupBy : Sel → List Expr → Sel
  | .mk ws d c f j p w _ h o l, g => .mk ws d c f j p w g h o l

/-- `PlanTagsV2(script).Process(ctx)`; `{}` asks for all tag names of the time range (fix 47f5e31) -/
def planTags (c : Ctx) (kvTable : String) (script : Script) : PlanM Sel := do
  match ← tagsMain c script with
  | none => pure (allTags c kvTable)
  | some m => pure (tagsOrder c "key" (selectTags c "key" m))

/-- `PlanValuesV2(script, key).Process(ctx)`: the tag statement with `val` selected and grouped (fix 9468fce) -/
def planValues (c : Ctx) (kvTable : String) (key : Bytes) (script : Script) : PlanM Sel := do
  match ← tagsMain c script with
  | none => pure (allValues c kvTable key)
  | some m =>
    let t := tagsOrder c "key" (selectTags c "key" m)
    let t := ((t.setCols [simpleCol "val" "val"]).andWhere [eq (.raw "key") (.str key)]).setGroupBy [.raw "val"]
    pure (tagsOrder c "val" t)

end Qryn.TraceQL
