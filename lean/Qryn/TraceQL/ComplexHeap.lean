import Qryn.TraceQL.Planner
/-! `planner.planComplex` (planner.go) as it is written: a recursive walk over the script that MUTATES a tree of planner
    objects through two pointers, `root` and `current` (`addOp`, `setOps`, `operands`), handing out prefixes with `getPrefix`.
    The heap is a list of nodes, a pointer is an index; `TraceQL.planTree` (`groupsS` / `andNest` / `orFold`) is the closed form
    the theorems of C11 are proved about. `planShape = closedShape` says the pointer algorithm builds exactly that tree. -/
namespace Qryn.TraceQL.ComplexHeap
open Qryn.TraceQL

inductive Node
  | simple (script : Script) (pfx : Nat)                 -- &simpleExpressionPlanner{script, prefix}
  | complex (isAnd : Bool) (pfx : Nat) (ops : List Nat)   -- &complexExpressionPlanner{prefix, _fn, _operands}

structure St where
  nodes : List Node       -- the heap
  root : Option Nat       -- rootExpressionPlanner.operand
  k : Nat                 -- planner.prefix

/-- `current.addOp(child)`: the root stores it as its operand, a complex node appends it, a simple planner ignores it -/
def addOp (st : St) (cur : Option Nat) (child : Nat) : St :=
  match cur with
  | none => { st with root := some child }
  | some i => { st with nodes := st.nodes.modify i (fun n => match n with | .complex a p ops => .complex a p (ops ++ [child]) | n => n) }

/-- `planComplex(root, current, script)`; `cur = none` is the root planner -/
def planComplexH (st : St) (cur : Option Nat) : Script → Except String St
  | [] => .error "nil pointer dereference (operator without a following selector)"
  | (s, .none) :: rest =>
    let sid := st.nodes.length
    let st1 : St := { st with nodes := st.nodes ++ [.simple ((s, .none) :: rest) (st.k + 1)], k := st.k + 1 }
    .ok (addOp st1 cur sid)
  | (s, .and) :: rest =>
    -- the literal of the `&&` node takes its prefix first, then the one of the selector inside it
    let sid := st.nodes.length
    let aid := sid + 1
    let st1 : St := { st with nodes := st.nodes ++ [.simple ((s, .and) :: rest) (st.k + 2), .complex true (st.k + 1) [sid]], k := st.k + 2 }
    planComplexH (addOp st1 cur aid) (some aid) rest
  | (s, .or) :: rest =>
    let sid := st.nodes.length
    let st1 : St := { st with nodes := st.nodes ++ [.simple ((s, .or) :: rest) (st.k + 1)], k := st.k + 1 }
    let st2 := addOp st1 cur sid
    -- root.setOps([]{&complex{prefix, "||", root.operands()}}); continue in root.operands()[0]
    match st2.root with
    | none => .error "nil operand"
    | some r =>
      let oid := st2.nodes.length
      planComplexH { nodes := st2.nodes ++ [.complex false (st2.k + 1) [r]], root := some oid, k := st2.k + 1 } (some oid) rest

deriving instance DecidableEq for XTree

/-- the tree below a pointer (every complex node must have got exactly two operands) -/
def readTree (nodes : List Node) : Nat → Nat → Option XTree
  | 0, _ => none
  | fuel + 1, id =>
    match nodes[id]? with
    | some (.simple sc p) => some (.simple sc p)
    | some (.complex a p [l, r]) => do some (.complex a p (← readTree nodes fuel l) (← readTree nodes fuel r))
    | _ => none

/-- what `root.planner()` walks after `p.planComplex(root, root, p.script)` -/
def planShape (script : Script) : Option XTree :=
  match planComplexH ⟨[], none, 0⟩ none script with
  | .ok st => st.root.bind (readTree st.nodes (st.nodes.length + 1))
  | .error _ => none

def closedShape (script : Script) : Option XTree :=
  match planTree script with
  | .ok t => some t
  | .error _ => none

def treeText : XTree → String
  | .simple sc p => "S" ++ toString sc.length ++ ":" ++ toString p
  | .complex a p l r => "(" ++ (if a then "A" else "O") ++ toString p ++ " " ++ treeText l ++ " " ++ treeText r ++ ")"

def shapeText : Option XTree → String
  | some t => treeText t
  | none => "ERR"

/-- the script whose selectors are followed by these operators (selectors are opaque to `planComplex`) -/
def scriptOf (ops : List ScriptOp) : Script := ops.map (fun o => (⟨none, none⟩, o))

/-- all operator sequences of length ≤ n (also the ones that end early on an empty `AndOr` or end with a dangling operator) -/
def opSeqs : Nat → List (List ScriptOp)
  | 0 => [[]]
  | n + 1 => [] :: (opSeqs n).flatMap (fun l => [ScriptOp.and :: l, ScriptOp.or :: l, ScriptOp.none :: l])

end Qryn.TraceQL.ComplexHeap
