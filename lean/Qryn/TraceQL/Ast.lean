import Qryn.Base.Bytes
/-! The TraceQL AST of reader/traceql/parser/model_v2.go as the participle parser fills it.
    Number and duration literals keep their digits as written (the planner de-duplicates terms by their
    text); quoted strings keep the raw token and the result of `QuotedString.Unquote` (encoding/json,
    not modelled: supplied by the harness from the real call). -/
namespace Qryn.TraceQL

/-- `AttrSelector.Op` -/
inductive Op | eq | neq | lt | le | gt | ge | re | nre
deriving DecidableEq, Repr

def Op.text : Op → String
  | .eq => "=" | .neq => "!=" | .lt => "<" | .le => "<=" | .gt => ">" | .ge => ">=" | .re => "=~" | .nre => "!~"

/-- the unit suffixes the grammar accepts -/
inductive TUnit | ns | us | ms | s | m | h | d
deriving DecidableEq, Repr

def TUnit.text : TUnit → String
  | .ns => "ns" | .us => "us" | .ms => "ms" | .s => "s" | .m => "m" | .h => "h" | .d => "d"

/-- `@Minus? @Integer @Dot? @Integer?` as written: decimal digits, most significant first -/
structure Num where
  neg : Bool
  int : List Nat
  dot : Bool
  frac : List Nat
deriving DecidableEq, Repr

def digitsText (ds : List Nat) : String := String.join (ds.map toString)

def Num.text (n : Num) : String :=
  (if n.neg then "-" else "") ++ digitsText n.int ++ (if n.dot then "." else "") ++ digitsText n.frac

/-- `Value`: exactly one alternative is filled by the parser -/
inductive Value
  | dur (n : Num) (u : TUnit)                 -- TimeVal (never negative: the grammar has no Minus here)
  | num (n : Num)                             -- FVal
  | str (raw : Bytes) (unq : Option Bytes)    -- StrVal: the token text and `Unquote()` (none = error)
deriving DecidableEq, Repr

/-- `AttrSelector` -/
structure Term where
  label : String
  op : Op
  val : Value
deriving DecidableEq, Repr

/-- `AndOr` of an `AttrSelectorExp`: participle leaves it empty when two expressions follow each other
    without an operator; the planner then treats it like `||` -/
inductive BoolOp | and | or | none
deriving DecidableEq, Repr

/-- `AttrSelectorExp` (Head | "(" ComplexHead ")") (AndOr Tail)? -/
inductive AttrExp
  | leaf (t : Term)
  | paren (e : AttrExp)
  | leafOp (t : Term) (op : BoolOp) (tail : AttrExp)
  | parenOp (e : AttrExp) (op : BoolOp) (tail : AttrExp)
deriving DecidableEq, Repr

inductive AggFn | count | sum | min | max | avg
deriving DecidableEq, Repr

/-- `Aggregator` -/
structure Agg where
  fn : AggFn
  attr : String
  cmp : Op                       -- only = != < <= > >= can be parsed here
  num : Num
  unit : Option TUnit
deriving DecidableEq, Repr

/-- `Selector` -/
structure Selector where
  attrs : Option AttrExp
  agg : Option Agg
deriving DecidableEq, Repr

/-- `TraceQLScript.AndOr` -/
inductive ScriptOp | and | or | none
deriving DecidableEq, Repr

/-- `TraceQLScript` as the list of its selectors, each with the `AndOr` written after it
    (the last element's `Tail` is nil) -/
abbrev Script := List (Selector × ScriptOp)

end Qryn.TraceQL
