import Qryn.TraceQL.Ast
/-! The participle grammar of `reader/traceql/parser/model_v2.go` for the conditions of a selector and for
    the chain of selectors, as the recursive descent participle performs on it:

    ```
    AttrSelectorExp := ( Head | "(" AttrSelectorExp ")" ) (And|Or)? AttrSelectorExp?
    TraceQLScript   := Selector (And|Or)? TraceQLScript?
    ```
    A condition (`Label_name op Value`) and a selector's aggregator are single tokens here (their lexing is tied
    by the `text` stream). There is no precedence in the grammar: the chain `h₁ op₁ h₂ op₂ …` is nested to the
    right whatever the operators are, an operator that nothing follows stays in the node with an empty tail, and
    two heads without an operator are accepted (empty `AndOr`). -/
namespace Qryn.TraceQL

inductive Tok
  | term (t : Term)
  | lp | rp
  | and | or
deriving DecidableEq, Repr

/-- `@(And|Or)?` -/
def andOr? : List Tok → BoolOp × List Tok
  | .and :: r => (.and, r)
  | .or :: r => (.or, r)
  | r => (.none, r)

/-- the node participle builds from a head, the operator it captured and the optional tail -/
def mkLeaf (t : Term) (op : BoolOp) (tail : Option AttrExp) : Option AttrExp :=
  match op, tail with
  | .none, none => some (.leaf t)
  | op, some tl => some (.leafOp t op tl)
  | _, none => none            -- `a &&` with nothing after it: AndOr set, Tail nil (the planner dereferences it: not an expression)

def mkParen (e : AttrExp) (op : BoolOp) (tail : Option AttrExp) : Option AttrExp :=
  match op, tail with
  | .none, none => some (.paren e)
  | op, some tl => some (.parenOp e op tl)
  | _, none => none

/-- recursive descent for `AttrSelectorExp`; `none` = no expression starts here (the optional tail is then absent) -/
def parseExp : Nat → List Tok → Option (AttrExp × List Tok)
  | 0, _ => none
  | fuel + 1, toks =>
    match toks with
    | .term t :: r =>
      let (op, r1) := andOr? r
      (match parseExp fuel r1 with
       | some (tl, r2) => (mkLeaf t op (some tl)).map (fun e => (e, r2))
       | none => (mkLeaf t op none).map (fun e => (e, r1)))
    | .lp :: r =>
      (match parseExp fuel r with
       | some (e, .rp :: r0) =>
         let (op, r1) := andOr? r0
         (match parseExp fuel r1 with
          | some (tl, r2) => (mkParen e op (some tl)).map (fun x => (x, r2))
          | none => (mkParen e op none).map (fun x => (x, r1)))
       | _ => none)
    | _ => none

/-- the text of an expression: heads and operators in the order written, parentheses where the tree has them -/
def opToks : BoolOp → List Tok
  | .and => [.and] | .or => [.or] | .none => []

def toks : AttrExp → List Tok
  | .leaf t => [.term t]
  | .paren e => [.lp] ++ toks e ++ [.rp]
  | .leafOp t op tail => [.term t] ++ opToks op ++ toks tail
  | .parenOp e op tail => [.lp] ++ toks e ++ [.rp] ++ opToks op ++ toks tail

def AttrExp.size : AttrExp → Nat
  | .leaf _ => 1
  | .paren e => e.size + 1
  | .leafOp _ _ tail => tail.size + 1
  | .parenOp e _ tail => e.size + tail.size + 1

/-- what may follow a complete expression: nothing, or a closing parenthesis -/
def endsExp : List Tok → Prop
  | [] => True
  | .rp :: _ => True
  | _ => False

/-! ### the chain of selectors -/
inductive STok
  | sel (s : Selector)
  | and | or
deriving DecidableEq, Repr

def scriptOp? : List STok → ScriptOp × List STok
  | .and :: r => (.and, r)
  | .or :: r => (.or, r)
  | r => (.none, r)

/-- `TraceQLScript := Selector (And|Or)? TraceQLScript?` as the list of selectors with the operator after each -/
def parseScriptToks : Nat → List STok → Option (Script × List STok)
  | 0, _ => none
  | fuel + 1, toks =>
    match toks with
    | .sel s :: r =>
      let (op, r1) := scriptOp? r
      (match parseScriptToks fuel r1 with
       | some (tl, r2) => some ((s, op) :: tl, r2)
       | none => some ([(s, op)], r1))
    | _ => none

end Qryn.TraceQL
