import Qryn.TraceQL.SemWhole
/-! Model of `reader/traceql/transpiler`: `TraceQLRequestProcessor.Process` (the statement is sent, every row
    becomes a `TraceInfo`), `TraceQLComplexityEvaluator.Process` (complexity below the threshold: one statement)
    and `ComplexRequestProcessor.Process` (after fix 9b2912c): `portions = ⌈complexity / 10⁷⌉` statements, the
    i-th with the portion filter `cityHash64(trace_id) % portions == i OR trace_id IN (ids found so far)`, the
    result of the last one is the result. -/
namespace Qryn.TraceQL
open Qryn Qryn.Sql

/-- `rows.Scan(&traceId, &spanIds, &durationsNs, &timestampsNs, &startTimeUnixNano, …)` -/
def rowOut (r : Row) : Option TraceOut :=
  match r.get "trace_id", r.get "span_id", r.get "duration", r.get "timestamp_ns", r.get "start_time_unix_nano" with
  | .str t, .strs vs, .tuples ds, .tuples ts, .int st =>
    some ⟨t, vs, ds.filterMap (fun x => match x with | [Atom.int i] => some i | _ => none),
      ts.filterMap (fun x => match x with | [Atom.int i] => some i | _ => none), st⟩
  | _, _, _, _, _ => none

/-- the database answers a statement: the semantics of the whole statement -/
def stmtRows (o : Oracles) (ao : AggOracles) (d : TraceDb) (script : Script) (c : Ctx) : PlanM (List TraceOut) := do
  let s ← plan c script
  pure ((evalStmtJ o ao (d.toDb c) s).filterMap rowOut)

def COMPLEXITY_THRESHOLD : Nat := 10000000

/-- `(complexity + COMPLEXITY_THRESHOLD - 1) / COMPLEXITY_THRESHOLD` -/
def portionsOf (complexity : Nat) : Nat := (complexity + COMPLEXITY_THRESHOLD - 1) / COMPLEXITY_THRESHOLD

/-- the context of portion `i` of `n` with the trace ids found so far -/
def portionCtx (c : Ctx) (n i : Nat) (cached : List String) : Ctx :=
  { c with rndMax := n, rndI := i, cached := cached }

/-- the loop of `ComplexRequestProcessor.Process`: `k` portions are still to run; `run` sends the statement
    of a context; the ids of the traces an iteration returns are handed to the next one, its result replaces
    the result so far; the first error ends the request -/
def portionLoop (run : Ctx → PlanM (List TraceOut)) (idText : Bytes → String) (c : Ctx) (n : Nat) :
    Nat → List String → List TraceOut → PlanM (List TraceOut)
  | 0, _, res => pure res
  | k + 1, cached, _ => do
    let res ← run (portionCtx c n (n - (k + 1)) cached)
    portionLoop run idText c n k (res.map (fun t => idText t.traceId)) res

/-- `TraceQLComplexityEvaluator.Process` given the complexity the evaluation statement returned -/
def searchProcess (run : Ctx → PlanM (List TraceOut)) (idText : Bytes → String) (c : Ctx) (complexity : Nat) :
    PlanM (List TraceOut) :=
  if complexity < COMPLEXITY_THRESHOLD then run c
  else portionLoop run idText c (portionsOf complexity) (portionsOf complexity) [] []

/-! ### the computed columns the portion filter names -/
/-- trace ids of the index, first occurrence first -/
def TraceDb.traceIds (d : TraceDb) : List Bytes := dedup (d.attrs.map (·.traceId))

/-- the index with the two kinds of raw-text expressions of the portion filter as computed columns:
    `cityHash64(trace_id) % n` (for the hash function `hash`) and `unhex('<id>')` for the rendering `idText` of every
    trace id of the index -/
def hashName (n : Nat) : String := "cityHash64(trace_id) % " ++ toString (n : Int)
def unhexName (t : String) : String := "unhex('" ++ t ++ "')"

def portionCols (hash : Bytes → Nat) (idText : Bytes → String) (n : Nat) (ids : List Bytes) (tr : Bytes) : List (String × Val) :=
  (hashName n, Val.int ((hash tr % n : Nat) : Int)) :: ids.map (fun t => (unhexName (idText t), Val.str t))

def TraceDb.withPortionCols (d : TraceDb) (hash : Bytes → Nat) (idText : Bytes → String) (n : Nat) : TraceDb :=
  { d with attrs := d.attrs.map (fun a => { a with extra := portionCols hash idText n d.traceIds a.traceId }) }

end Qryn.TraceQL
