import Qryn.Sql.SemG
import Qryn.TraceQL.Planner
/-! Direct semantics of TraceQL search over the attribute index of qryn, written without SQL: the
    *specification* the generated statement is proved against.

    The attribute index (`tempo_traces_attrs_gin`) holds one row per (span, attribute): the span's trace
    and span id, the attribute key and value (the span name under the key `name`), and the span's start
    time and duration. RE2, number parsing and Float64 aggregation are the oracles of `Sql.Sem`/`Sql.SemG`.
    The boolean structure of a selector is the TraceQL reading of the chain of conditions as written
    (`a && b || c` is `(a && b) || c` although the parser nests it to the right; two conditions without an
    operator are a disjunction). -/
namespace Qryn.TraceQL
open Qryn Qryn.Sql

structure AttrRow where
  date : Bytes      -- 'YYYY-MM-DD'
  key : Bytes
  val : Bytes
  traceId : Bytes
  spanId : Bytes
  ts : Int          -- timestamp_ns of the span
  dur : Int         -- duration of the span, ns
  /-- computed columns a statement may name as raw text — the portion filter of complex requests names
      `cityHash64(trace_id) % N` and `unhex('<id>')` (`TraceDb.withPortionCols`); no condition of a query reads them -/
  extra : List (String × Val) := []
deriving Repr, DecidableEq

/-- one row of the span table (`tempo_traces`): the columns the search statement reads -/
structure SpanRow where
  traceId : Bytes
  spanId : Bytes
  ts : Int          -- timestamp_ns
  dur : Int         -- duration_ns
deriving Repr, DecidableEq

structure TraceDb where
  attrs : List AttrRow
  spansT : List SpanRow := []
deriving Repr

def AttrRow.row (a : AttrRow) : Row :=
  [("date", .str a.date), ("key", .str a.key), ("val", .str a.val), ("trace_id", .str a.traceId),
   ("span_id", .str a.spanId), ("timestamp_ns", .int a.ts), ("duration", .int a.dur)] ++ a.extra

def SpanRow.row (s : SpanRow) : Row :=
  [("trace_id", .str s.traceId), ("span_id", .str s.spanId), ("timestamp_ns", .int s.ts), ("duration_ns", .int s.dur)]

/-- the SQL view of the database under the table names of the planner context (a distributed table shows the
    same rows as the local one) -/
def TraceDb.toDb (d : TraceDb) (c : Ctx) : Db := fun n =>
  if n = c.attrsTable ∨ n = c.attrsDistTable then d.attrs.map AttrRow.row
  else if n = c.tracesTable ∨ n = c.tracesDistTable then d.spansT.map SpanRow.row
  else []

abbrev SpanKey := Bytes × Bytes      -- (trace id, span id)

def AttrRow.span (a : AttrRow) : SpanKey := (a.traceId, a.spanId)

/-! ### the time window -/
/-- the UTC days of start and end -/
def dateFrom (c : Ctx) : Bytes := Time.formatDate (Int.fdiv c.fromNs 1000000000)
def dateTo (c : Ctx) : Bytes := Time.formatDate (Int.fdiv c.toNs 1000000000)

/-- index rows that count: of a span that started inside [start, end), stored under a day of the window -/
def admissible (c : Ctx) (a : AttrRow) : Bool :=
  decide (dateFrom c ≤ a.date) && decide (a.date ≤ dateTo c) && decide (c.fromNs ≤ a.ts) && decide (a.ts < c.toNs)

/-! ### conditions -/
/-- the attribute a label names: `span.x`, `resource.x`, `.x` → `x`; `name` → the span name -/
def labelKey (label : String) : Option String :=
  match attrKey label with
  | some k => some k
  | none => if label = "name" then some "name" else none

def cmpInt : Op → Int → Int → Bool
  | .eq, a, b => a == b | .neq, a, b => a != b
  | .lt, a, b => decide (a < b) | .le, a, b => decide (a ≤ b)
  | .gt, a, b => decide (a > b) | .ge, a, b => decide (a ≥ b)
  | _, _, _ => false

/-- name of a comparison for the number oracle -/
def cmpName : Op → Option String
  | .eq => some "==" | .neq => some "!=" | .lt => some "<" | .le => some "<=" | .gt => some ">" | .ge => some ">="
  | _ => none

/-- the value of an index row against the literal of a condition on an attribute -/
def valHolds (o : Oracles) (t : Term) (a : AttrRow) : Bool :=
  match t.val with
  | .str _ (some s) =>
    (match t.op with
     | .eq => a.val == s
     | .neq => a.val != s
     | .re => o.reMatch s a.val
     | .nre => !o.reMatch s a.val
     | _ => false)
  | .num n =>
    (match cmpName t.op with
     | some f => o.isNum a.val && o.numCmp f a.val (numText n)
     | none => false)
  | _ => false

/-- the span duration against the literal of a condition on `duration` -/
def durHolds (t : Term) (a : AttrRow) : Bool :=
  match t.val with
  | .dur n u => (match parseDuration n (some u) with | .ok ns => cmpInt t.op a.dur ns | .error _ => false)
  | _ => false

/-- does one index row witness the condition? -/
def termHolds (o : Oracles) (t : Term) (a : AttrRow) : Bool :=
  match labelKey t.label with
  | some k => a.key == k.toUTF8.toList && valHolds o t a
  | none => if t.label = "duration" then durHolds t a else false

def bop : BoolOp → Bool → Bool → Bool
  | .and, a, b => a && b
  | _, a, b => a || b

/-- a disjunction of conjunctions -/
def holdsG (gs : List (List Bool)) : Bool := gs.any (fun g => g.all id)

/-- the chain `h₁ op₁ h₂ op₂ …` (the grammar nests it to the right) as TraceQL reads it: `&&` binds tighter than
    `||` — the truth values of the heads, in groups of `&&`-joined neighbours (an empty operator between two
    conditions separates like `||`) -/
def expGroups (f : Term → Bool) : AttrExp → List (List Bool)
  | .leaf t => [[f t]]
  | .paren e => [[holdsG (expGroups f e)]]
  | .leafOp t op tail => consHead (f t) op (expGroups f tail)
  | .parenOp e op tail => consHead (holdsG (expGroups f e)) op (expGroups f tail)

/-- the boolean combination a selector denotes: some group of the chain has all its heads true -/
def expHolds (f : Term → Bool) (e : AttrExp) : Bool := holdsG (expGroups f e)

/-- the conditions written in a selector, left to right -/
def termsOf : AttrExp → List Term
  | .leaf t => [t]
  | .paren e => termsOf e
  | .leafOp t _ tail => t :: termsOf tail
  | .parenOp e _ tail => termsOf e ++ termsOf tail

/-- conditions with the same text are the same condition (true of parser output: the text determines
    label, operator and literal, and `Unquote` is a function of the token) -/
def KeyInj (u : List Term) : Prop := ∀ t ∈ u, ∀ t' ∈ u, t.key = t'.key → t = t'

/-- the planner's tree over term indices, read over an assignment of the indices -/
def Cond.eval (f : Nat → Bool) : Cond → Bool
  | .leaf i => f i
  | .node op l r => bop op (l.eval f) (r.eval f)

/-- every index of the tree is below `n` -/
def Cond.bounded (n : Nat) : Cond → Prop
  | .leaf i => i < n
  | .node _ l r => l.bounded n ∧ r.bounded n

/-- a condition holds of a span iff one of the span's index rows inside the window witnesses it -/
def spanTerm (o : Oracles) (c : Ctx) (d : TraceDb) (k : SpanKey) (t : Term) : Bool :=
  d.attrs.any (fun a => a.span == k && admissible c a && termHolds o t a)

def spanHolds (o : Oracles) (c : Ctx) (d : TraceDb) (e : AttrExp) (k : SpanKey) : Bool :=
  expHolds (spanTerm o c d k) e

/-- the spans seen inside the window -/
def spans (c : Ctx) (d : TraceDb) : List SpanKey := dedup ((d.attrs.filter (admissible c)).map AttrRow.span)

/-- the spans of trace `tr` a selector's conditions select -/
def matchedSpans (o : Oracles) (c : Ctx) (d : TraceDb) (e : AttrExp) (tr : Bytes) : List SpanKey :=
  (spans c d).filter (fun k => k.1 == tr && spanHolds o c d e k)

/-! ### aggregates -/
/-- the index rows of a span agree on the span's duration (they are written from one span) -/
def DurConsistent (d : TraceDb) : Prop :=
  ∀ a ∈ d.attrs, ∀ b ∈ d.attrs, a.span = b.span → a.dur = b.dur

def aggName : AggFn → String
  | .count => "count" | .sum => "sumIf" | .min => "minIf" | .max => "maxIf" | .avg => "avgIf"

/-- the attribute an aggregate ranges over -/
def aggAttrKey (attr : String) : String := (attrKey attr).getD attr

/-- the number a span contributes to `fn(attr)`: its duration, or the first numeric value of the attribute -/
def aggValue (o : Oracles) (c : Ctx) (d : TraceDb) (attr : String) (k : SpanKey) : Option Bytes :=
  if attr = "duration" then
    (d.attrs.find? (fun a => a.span == k && admissible c a)).map (fun a => intText a.dur)
  else
    (d.attrs.find? (fun a => a.span == k && admissible c a && a.key == (aggAttrKey attr).toUTF8.toList && o.isNum a.val)).map (·.val)

def aggHolds (o : Oracles) (ao : AggOracles) (c : Ctx) (d : TraceDb) (a : Agg) (lit : String) (sps : List SpanKey) : Bool :=
  match cmpName a.cmp with
  | none => false
  | some f =>
    match a.fn with
    | .count => o.numCmp f (natDigits sps.length) lit
    | fn => ao.aggCmp (aggName fn) (sps.filterMap (aggValue o c d a.attr)) f lit

/-- a trace is matched by a selector iff some span of it satisfies the conditions and the matched spans
    pass the aggregate comparison -/
def selMatches (o : Oracles) (ao : AggOracles) (c : Ctx) (d : TraceDb) (s : Selector) (tr : Bytes) : Bool :=
  match s.attrs with
  | none => false
  | some e =>
    let sps := matchedSpans o c d e tr
    !sps.isEmpty &&
    (match s.agg with
     | none => true
     | some a => (match aggCmpText a with | .ok lit => aggHolds o ao c d a lit sps | .error _ => false))

/-- the fragment of selectors the correctness theorem covers: conditions present, distinct conditions have
    distinct texts (that there are at most 64 distinct ones follows from the planner accepting the selector) -/
structure SelOk (s : Selector) : Prop where
  attrs : ∃ e, s.attrs = some e ∧ KeyInj (termsOf e)

/-! ### scripts: `&&` binds tighter than `||` -/
def groups : Script → List (List Selector)
  | [] => []
  | (s, .none) :: _ => [[s]]
  | (s, .or) :: rest => [s] :: groups rest
  | (s, .and) :: rest => (match groups rest with | g :: gs => (s :: g) :: gs | [] => [[s]])

def scriptHolds (f : Selector → Bool) (script : Script) : Bool := (groups script).any (fun g => g.all f)

/-- **the specification**: the traces a script describes -/
def traceMatches (o : Oracles) (ao : AggOracles) (c : Ctx) (d : TraceDb) (script : Script) (tr : Bytes) : Bool :=
  scriptHolds (fun s => selMatches o ao c d s tr) script

/-- trace ids met inside the window, in first-occurrence order -/
def traces (c : Ctx) (d : TraceDb) : List Bytes := dedup ((spans c d).map (·.1))

def matchingTraces (o : Oracles) (ao : AggOracles) (c : Ctx) (d : TraceDb) (script : Script) : List Bytes :=
  (traces c d).filter (traceMatches o ao c d script)

end Qryn.TraceQL
