import Qryn.TraceQL.Ast
/-! Duration literals of TraceQL (`5ms`, `1.5h`, `-2s` in an aggregate comparison) as the Go code reads them:
    `time.ParseDuration(Num ++ Measurement).Nanoseconds()` (`AggregatorPlanner.cmpVal`, `getTermDuration`), then — for an
    aggregate — `float64(·)` rendered by `%f`.

    `goParseDuration` follows `time.ParseDuration` for ONE number and at most one unit (what the grammar can produce) step by
    step: `leadingInt` with its overflow checks, `leadingFraction` (stops accumulating on overflow), the `"0"` special case,
    the unit table, the three overflow checks, the sign. One deviation, documented: Go adds the fraction as
    `uint64(float64(f) * (float64(unit) / scale))`; the model adds `⌊f·unit / scale⌋`. They agree whenever the fraction has at
    most 13 digits (sampled: 3·10⁶ literals, first difference — 1 ns — at 14 digits, e.g. `8.41003470480000m`); the `units`
    stream ties the model to the real function on ≤ 12 fractional digits.

    `exactNs` is the TraceQL reading: the literal times its unit (ns = 1, us = 10³, ms = 10⁶, s = 10⁹, m = 60·10⁹, h = 3600·10⁹),
    whole nanoseconds (fractions of a nanosecond are cut, as Tempo does). -/
namespace Qryn.TraceQL.Units
open Qryn.TraceQL

def natOfDigits (ds : List Nat) : Nat := ds.foldl (fun acc d => acc * 10 + d) 0

/-- the unit table of TraceQL (and of Go's `unitMap` restricted to what the grammar accepts); `d` has no meaning -/
def unitNs : TUnit → Option Nat
  | .ns => some 1 | .us => some 1000 | .ms => some 1000000 | .s => some 1000000000
  | .m => some 60000000000 | .h => some 3600000000000 | .d => none

/-- 2⁶³ -/
def two63 : Nat := 9223372036854775808

/-- `leadingInt` of package time: `none` = errLeadingInt -/
def leadingInt : Nat → List Nat → Option Nat
  | x, [] => some x
  | x, d :: ds =>
    if x > two63 / 10 then none
    else if x * 10 + d > two63 then none
    else leadingInt (x * 10 + d) ds

/-- `leadingFraction`: value and number of digits accumulated (`scale = 10^k`); stops on overflow -/
def leadingFraction : Nat → Nat → List Nat → Nat × Nat
  | x, k, [] => (x, k)
  | x, k, d :: ds =>
    if x > (two63 - 1) / 10 then (x, k)
    else if x * 10 + d > two63 then (x, k)
    else leadingFraction (x * 10 + d) (k + 1) ds

inductive DurErr | invalid | missingUnit | unknownUnit
deriving DecidableEq, Repr

/-- `time.ParseDuration(n.text ++ unit).Nanoseconds()` -/
def goParseDuration (n : Num) (u : Option TUnit) : Except DurErr Int :=
  if u.isNone ∧ n.int = [0] ∧ n.dot = false ∧ n.frac = [] then .ok 0        -- `s == "0"` after the sign
  else
    match leadingInt 0 n.int with
    | none => .error .invalid
    | some v =>
      let fr := if n.dot then leadingFraction 0 0 n.frac else (0, 0)
      match u with
      | none => .error .missingUnit
      | some u =>
        match unitNs u with
        | none => .error .unknownUnit
        | some unit =>
          if v > two63 / unit then .error .invalid
          else
            let v1 := v * unit + (fr.1 * unit) / 10 ^ fr.2
            if v1 > two63 then .error .invalid
            else if n.neg then .ok (-(v1 : Int))
            else if v1 > two63 - 1 then .error .invalid
            else .ok (v1 : Int)

/-! ### the TraceQL reading -/
/-- the literal `int.frac unit` in whole nanoseconds: `⌊(int·10^L + frac) · unit / 10^L⌋` -/
def exactNs (n : Num) (unit : Nat) : Nat :=
  ((natOfDigits n.int * 10 ^ n.frac.length + natOfDigits n.frac) * unit) / 10 ^ n.frac.length

/-- decimal digits; the grammar writes a fraction only after a dot -/
structure Num.Wf (n : Num) : Prop where
  int : ∀ d ∈ n.int, d ≤ 9
  frac : ∀ d ∈ n.frac, d ≤ 9
  dot : n.dot = false → n.frac = []

theorem foldl_ge (ds : List Nat) (x : Nat) : x ≤ ds.foldl (fun acc d => acc * 10 + d) x := by
  induction ds generalizing x with
  | nil => exact Nat.le_refl _
  | cons d ds ih => exact Nat.le_trans (by omega) (ih (x * 10 + d))

theorem leadingInt_spec (ds : List Nat) (x : Nat) (hx : x ≤ two63) :
    leadingInt x ds =
      if ds.foldl (fun acc d => acc * 10 + d) x ≤ two63 then some (ds.foldl (fun acc d => acc * 10 + d) x) else none := by
  induction ds generalizing x with
  | nil => simp [leadingInt, hx]
  | cons d ds ih =>
    simp only [leadingInt, List.foldl_cons]
    have hge := foldl_ge ds (x * 10 + d)
    by_cases h1 : x > two63 / 10
    · rw [if_pos h1]
      have : ¬ ds.foldl (fun acc d => acc * 10 + d) (x * 10 + d) ≤ two63 := by
        unfold two63 at h1 ⊢; omega
      simp [this]
    · rw [if_neg h1]
      by_cases h2 : x * 10 + d > two63
      · rw [if_pos h2]
        have : ¬ ds.foldl (fun acc d => acc * 10 + d) (x * 10 + d) ≤ two63 := by omega
        simp [this]
      · rw [if_neg h2]
        exact ih _ (by omega)

theorem foldl_lt_pow (ds : List Nat) (hd : ∀ d ∈ ds, d ≤ 9) (x k : Nat) (hx : x < 10 ^ k) :
    ds.foldl (fun acc d => acc * 10 + d) x < 10 ^ (k + ds.length) := by
  induction ds generalizing x k with
  | nil => simpa using hx
  | cons d ds ih =>
    simp only [List.foldl_cons, List.length_cons]
    have h9 := hd d (by simp)
    have : x * 10 + d < 10 ^ (k + 1) := by rw [Nat.pow_succ]; omega
    have := ih (fun d hd' => hd d (List.mem_cons_of_mem _ hd')) (x * 10 + d) (k + 1) this
    rwa [show k + 1 + ds.length = k + (ds.length + 1) by omega] at this

/-- up to 18 fractional digits nothing is lost -/
theorem leadingFraction_spec (ds : List Nat) (hd : ∀ d ∈ ds, d ≤ 9) (x k : Nat) (hx : x < 10 ^ k) (hk : k + ds.length ≤ 18) :
    leadingFraction x k ds = (ds.foldl (fun acc d => acc * 10 + d) x, k + ds.length) := by
  induction ds generalizing x k with
  | nil => simp [leadingFraction]
  | cons d ds ih =>
    simp only [leadingFraction, List.foldl_cons, List.length_cons]
    have h9 := hd d (by simp)
    simp only [List.length_cons] at hk
    have hp : 10 ^ k ≤ 10 ^ 17 := Nat.pow_le_pow_right (by omega) (by omega)
    have h17 : (10:Nat) ^ 17 = 100000000000000000 := by decide
    have hx' : x < 100000000000000000 := by omega
    have h1 : ¬ x > (two63 - 1) / 10 := by unfold two63; omega
    have h2 : ¬ x * 10 + d > two63 := by unfold two63; omega
    rw [if_neg h1, if_neg h2]
    have hx2 : x * 10 + d < 10 ^ (k + 1) := by rw [Nat.pow_succ]; omega
    rw [ih (fun d hd' => hd d (List.mem_cons_of_mem _ hd')) (x * 10 + d) (k + 1) hx2 (by omega)]
    congr 1; omega

/-- **what `time.ParseDuration` returns for a TraceQL literal with a unit**: for EVERY unit of TraceQL and every literal
    (any number of integer digits, up to 18 fractional digits) — the exact value of the literal in nanoseconds, cut to a whole
    number, with its sign; an error exactly when that value does not fit an int64 (`2⁶³` only with a minus sign). -/
theorem goParseDuration_unit (n : Num) (hw : Num.Wf n) (u : TUnit) (unit : Nat) (hu : unitNs u = some unit)
    (hL : n.frac.length ≤ 18) :
    goParseDuration n (some u) =
      if exactNs n unit ≤ (if n.neg then two63 else two63 - 1) then .ok (if n.neg then -(exactNs n unit : Int) else (exactNs n unit : Int))
      else .error .invalid := by
  have hpos : 0 < unit := by cases u <;> simp [unitNs] at hu <;> omega
  have hex : exactNs n unit = natOfDigits n.int * unit + (natOfDigits n.frac * unit) / 10 ^ n.frac.length := by
    unfold exactNs
    rw [Nat.add_mul, Nat.mul_right_comm, Nat.add_comm, Nat.add_mul_div_right _ _ (Nat.pow_pos (by omega)), Nat.add_comm]
  have hfr : (if n.dot then leadingFraction 0 0 n.frac else (0, 0)) = (natOfDigits n.frac, n.frac.length) ∨
      ((if n.dot then leadingFraction 0 0 n.frac else ((0:Nat), (0:Nat))) = (0, 0) ∧ n.frac = []) := by
    cases hdot : n.dot with
    | true =>
      left
      simp only [if_true]
      rw [leadingFraction_spec n.frac hw.frac 0 0 (by simp) (by omega)]
      simp [natOfDigits]
    | false =>
      right
      exact ⟨by simp, hw.dot hdot⟩
  have hfrac : ((if n.dot then leadingFraction 0 0 n.frac else ((0:Nat), (0:Nat))).1 * unit) /
      10 ^ (if n.dot then leadingFraction 0 0 n.frac else ((0:Nat), (0:Nat))).2 = (natOfDigits n.frac * unit) / 10 ^ n.frac.length := by
    rcases hfr with h | ⟨h, h0⟩
    · rw [h]
    · rw [h, h0]; simp [natOfDigits]
  unfold goParseDuration
  rw [if_neg (by simp)]
  rw [leadingInt_spec n.int 0 (by unfold two63; omega)]
  have hI : n.int.foldl (fun acc d => acc * 10 + d) 0 = natOfDigits n.int := rfl
  rw [hI]
  by_cases hi : natOfDigits n.int ≤ two63
  · rw [if_pos hi]
    simp only [hu]
    rw [hfrac, ← hex]
    clear hfrac hfr
    generalize natOfDigits n.frac * unit / 10 ^ n.frac.length = fr at hex
    by_cases hm : natOfDigits n.int > two63 / unit
    · rw [if_pos hm]
      have hbig : ¬ natOfDigits n.int * unit ≤ two63 := by
        intro hle
        exact absurd ((Nat.le_div_iff_mul_le hpos).mpr hle) (by omega)
      have : ¬ exactNs n unit ≤ (if n.neg then two63 else two63 - 1) := by
        rw [hex]; split <;> omega
      rw [if_neg this]
    · rw [if_neg hm]
      by_cases h1 : exactNs n unit > two63
      · rw [if_pos h1]
        have : ¬ exactNs n unit ≤ (if n.neg then two63 else two63 - 1) := by split <;> omega
        rw [if_neg this]
      · rw [if_neg h1]
        cases hneg : n.neg with
        | true => simp; omega
        | false =>
          simp
          by_cases h2 : exactNs n unit > two63 - 1
          · rw [if_pos h2, if_neg (by omega)]
          · rw [if_neg h2, if_pos (by omega)]
  · rw [if_neg hi]
    have hbig : natOfDigits n.int ≤ natOfDigits n.int * unit := Nat.le_mul_of_pos_right _ hpos
    clear hfrac hfr
    generalize natOfDigits n.frac * unit / 10 ^ n.frac.length = fr at hex
    have : ¬ exactNs n unit ≤ (if n.neg then two63 else two63 - 1) := by
      rw [hex]; split <;> omega
    rw [if_neg this]

/-- `d` is written by the grammar but is no unit: refused, never read as something else -/
theorem goParseDuration_day (n : Num) (hi : leadingInt 0 n.int ≠ none) : goParseDuration n (some .d) = .error .unknownUnit := by
  unfold goParseDuration
  rw [if_neg (by simp)]
  cases h : leadingInt 0 n.int with
  | none => exact absurd h hi
  | some v => simp [unitNs]

/-- without a unit only the literal `0` is a duration -/
theorem goParseDuration_noUnit (n : Num) :
    goParseDuration n none = if n.int = [0] ∧ n.dot = false ∧ n.frac = [] then .ok 0
      else if leadingInt 0 n.int = none then .error .invalid else .error .missingUnit := by
  unfold goParseDuration
  by_cases h : n.int = [0] ∧ n.dot = false ∧ n.frac = []
  · rw [if_pos (by simpa using h), if_pos h]
  · rw [if_neg (by simpa using h), if_neg h]
    cases leadingInt 0 n.int <;> simp

/-! ### `float64(ns)` rendered by `%f` (the literal of an aggregate comparison) -/
/-- round to nearest, ties to even, 53 bits: `float64(n)` of a non-negative integer, as an integer -/
def f64OfNat (n : Nat) : Nat :=
  if n < 9007199254740992 then n
  else
    let e := Nat.log2 n - 52
    let q := n / 2 ^ e
    let r := n % 2 ^ e
    let half := 2 ^ (e - 1)
    (if half < r ∨ (r = half ∧ q % 2 = 1) then q + 1 else q) * 2 ^ e

def f64OfInt (i : Int) : Int := if i < 0 then -(f64OfNat i.natAbs : Int) else (f64OfNat i.natAbs : Int)

/-- below 2⁵³ ns (≈ 104 days) the conversion is exact -/
theorem f64OfInt_exact (i : Int) (h : i.natAbs < 9007199254740992) : f64OfInt i = i := by
  unfold f64OfInt f64OfNat
  rw [if_pos h]
  split <;> omega

/-- `fmt.Sprintf("%f", float64(ns))` -/
def f64Text (i : Int) : String := toString (f64OfInt i) ++ ".000000"

end Qryn.TraceQL.Units
