import Qryn.Ingest.Batcher
/-! The chunking loop of `promMetricsProtoDec.Decode` (writer/utils/unmarshal/metricsProtobuf.go) and what
    `parserDoer.onEntries` (builder.go) makes of each callback, as far as array *lengths* go. Core-only. -/
namespace Qryn.Ingest.PromDecoder
open Qryn.Ingest.Batcher

/-- one `onEntries(labels, tsns, msg, value, types)` call: the samples handed over (tsns, value and msg
    have one entry per sample) and the length of the `types` array built by `fastFillArray` -/
structure Call where
  rows : List Cell
  types : Nat
deriving DecidableEq, Repr

/-- the inner `for _, spl := range ts.GetSamples()` loop. `total = len(ts.GetSamples())`.
    `byBuffer = true`: the type array is sized `len(tsns)` (the code after the fix);
    `byBuffer = false`: `len(ts.GetSamples())` (the pinned code). Returns calls, `points`, leftover buffer. -/
def seriesLoop (limit total : Nat) (byBuffer : Bool) : List Cell → Nat → List Cell → List Call × Nat × List Cell
  | [], points, buf => ([], points, buf)
  | x :: xs, points, buf =>
    if points + 1 ≥ limit then
      let r := seriesLoop limit total byBuffer xs 0 []
      (⟨buf ++ [x], if byBuffer then (buf ++ [x]).length else total⟩ :: r.1, r.2)
    else seriesLoop limit total byBuffer xs (points + 1) (buf ++ [x])

/-- one series: the loop, then the flush of the remaining samples (sized `len(tsns)` in both versions) -/
def decodeSeries (limit : Nat) (byBuffer : Bool) (samples : List Cell) (points : Nat) : List Call × Nat :=
  let r := seriesLoop limit samples.length byBuffer samples points []
  (if r.2.2.length > 0 then r.1 ++ [⟨r.2.2, r.2.2.length⟩] else r.1, r.2.1)

/-- `for _, ts := range req.GetTimeseries()`; `points` carries over from series to series -/
def decode (limit : Nat) (byBuffer : Bool) : List (List Cell) → Nat → List Call
  | [], _ => []
  | s :: rest, points =>
    let r := decodeSeries limit byBuffer s points
    r.1 ++ decode limit byBuffer rest r.2

/-- the samples request `onEntries` accumulates from a sequence of calls (all of one response):
    `MMessage/MValue/MTimestampNS += one per sample`, `MFingerprint += fastFillArray(len(tsns), fp)`,
    `MType += types` -/
def reqOfCalls (id : ReqId) (fp ty : Cell) (calls : List Call) : Req :=
  { id := id, ptype := .timeSamplesData
    arrays := [("MTimestampNS", calls.flatMap (·.rows)), ("MFingerprint", calls.flatMap (fun c => List.replicate c.rows.length fp)),
               ("MType", calls.flatMap (fun c => List.replicate c.types ty)),
               ("MValue", calls.flatMap (·.rows)), ("MMessage", calls.flatMap (·.rows))]
    size := (calls.flatMap (·.rows)).length * 26 }

end Qryn.Ingest.PromDecoder
