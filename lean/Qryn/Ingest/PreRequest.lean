import Qryn.Gen.PreRequest
/-! # The ingest pre-request chain (writer/controller/middleware.go) — model for C05

What happens to a request between the socket and the parser: `WithOverallContextMiddleware` (Content-Encoding
→ gzip / snappy-framing stream readers over `r.Body`, anything else → 400), `withUnsnappyRequest` (buffer the
body, snappy *block* decoding guarded by a size limit, "not snappy" → pass the bytes through),
the `io.ReadAll` pre-request of the OTLP traces route, and the parser's view (`getBodyStream`).

The third-party calls are **parameters** (`Lib β`): the model never looks inside a byte buffer, it only passes
buffers to the library and asks for their length, so it is stated for an arbitrary buffer type `β`
(`List UInt8` for the reference instance, a summary record in the driver):

* `decodedLen` = `snappy.DecodedLen`, `decode` = `snappy.Decode(nil, ·)` with the documented contract
  (`Lib.Lawful`): a successful decode yields exactly the declared number of bytes; **and `Decode` allocates the
  declared length before it reads any data** — that is the accounting rule of `Step.decode` below
  (golang/snappy decode.go: `dLen, s, err := decodedLen(src)` … `dst = make([]byte, dLen)` … `decode(dst, src[s:])`);
* `gzipHeaderOk` = `gzip.NewReader(r.Body)` returned no error; `gunzip`, `unframe` = the byte stream the gzip /
  snappy-framing reader yields (uninterpreted expansions), each with the way it ends (`eof` or an error).

Besides the outcome the model **accounts for the bytes the middleware makes the runtime allocate** on top of
what arrives: the buffer of `io.ReadAll` (its final length — the amortised growth is a constant factor) and
the output buffer of `snappy.Decode`.

The order of the calls in `withUnsnappyRequest`, its limit, the Content-Encoding cases and the default status
come from `Gen.PreRequest` (regenerated from middleware.go on every run). -/
namespace Qryn.PreRequest
open Qryn.Gen

/-- errors of the snappy block API (`ErrCorrupt`, `ErrTooLarge`, …) and the middleware's own "body is too long" -/
inductive Err | corrupt | tooLarge | unsupported | bodyTooLong
  deriving DecidableEq, Repr

/-- what an `io.Reader` over the request yields: `data`, then `io.EOF` (`eof = true`) or another error -/
structure Stream (β : Type) where
  data : β
  eof : Bool
  deriving Repr

/-- the third-party calls of the pre-request chain, as parameters -/
structure Lib (β : Type) where
  /-- `len(buf)` -/
  len : β → Nat
  /-- `snappy.DecodedLen(buf)`: the length declared in the block header -/
  decodedLen : β → Except Err Nat
  /-- `snappy.Decode(nil, buf)` -/
  decode : β → Except Err β
  /-- `gzip.NewReader(body)` succeeds (the gzip header is read eagerly) -/
  gzipHeaderOk : β → Bool
  /-- what the gzip reader yields over the body -/
  gunzip : β → Stream β
  /-- what `snappy.NewReader` (framing format) yields over the body; construction cannot fail -/
  unframe : β → Stream β

/-- documented contract of golang/snappy `Decode(nil, src)` relative to `DecodedLen(src)` -/
structure Lib.Lawful {β : Type} (L : Lib β) : Prop where
  /-- a successful decode returns exactly the declared number of bytes (`dst = make([]byte, dLen)`; `return dst`) -/
  decode_len : ∀ b u, L.decode b = .ok u → L.decodedLen b = .ok (L.len u)
  /-- `Decode` starts with `decodedLen(src)` and returns its error -/
  decode_needs_header : ∀ b e, L.decodedLen b = .error e → L.decode b = .error e

/-! ## `withUnsnappyRequest` -/

/-- the statements of `withUnsnappyRequest` after `compressed, err := io.ReadAll(r.Body)` that matter:
    `decodedLen`: `n, err := snappy.DecodedLen(compressed); if err != nil { return nil, err }`
    `limitDeclared l`: `if n > l { return nil, New400Error("body is too long") }`
    `decode`: `u, err := snappy.Decode(nil, compressed); if err != nil { return nil, err }`
    `limitDecoded l`: `if len(u) > l { return … }` (not in the code: the guard-after-decode variant)
    `limitCompressed l`: `if len(compressed) > l { return … }` (not in the code: a guard on the wrong quantity) -/
inductive Step
  | decodedLen
  | limitDeclared (limit : Nat)
  | decode
  | limitDecoded (limit : Nat)
  | limitCompressed (limit : Nat)
  deriving DecidableEq, Repr

/-- the names `Gen.PreRequest.unsnappyOrder` uses -/
def Step.ofName (limit : Nat) : String → Option Step
  | "DecodedLen" => some .decodedLen
  | "declared>limit" => some (.limitDeclared limit)
  | "Decode" => some .decode
  | "decoded>limit" => some (.limitDecoded limit)
  | "compressed>limit" => some (.limitCompressed limit)
  | _ => none

/-- the step list of a generated order: `ReadAll` first, then the closure's steps; `none` when a name is unknown -/
def stepsOf (limit : Nat) : List String → Option (List Step)
  | "ReadAll" :: rest => rest.mapM (Step.ofName limit)
  | _ => none

/-- state of the closure: results so far, the first error, bytes allocated for output buffers -/
structure CState (β : Type) where
  declared : Option Nat := none
  out : Option β := none
  failed : Option Err := none
  alloc : Nat := 0

/-- bytes `snappy.Decode(nil, c)` allocates: the declared length, as soon as the header parses — before any
    data byte is looked at, hence whether or not decoding then succeeds -/
def decodeAlloc {β : Type} (L : Lib β) (c : β) : Nat :=
  match L.decodedLen c with
  | .ok n => n
  | .error _ => 0

def step {β : Type} (L : Lib β) (c : β) (s : Step) (st : CState β) : CState β :=
  match st.failed with
  | some _ => st   -- the closure has returned
  | none =>
    match s with
    | .decodedLen =>
      match L.decodedLen c with
      | .ok n => { st with declared := some n }
      | .error e => { st with failed := some e }
    | .limitDeclared l =>
      match st.declared with
      | some n => if n > l then { st with failed := some .bodyTooLong } else st
      | none => st
    | .decode =>
      match L.decode c with
      | .ok u => { st with out := some u, alloc := st.alloc + decodeAlloc L c }
      | .error e => { st with failed := some e, alloc := st.alloc + decodeAlloc L c }
    | .limitDecoded l =>
      match st.out with
      | some u => if L.len u > l then { st with failed := some .bodyTooLong } else st
      | none => st
    | .limitCompressed l =>
      if L.len c > l then { st with failed := some .bodyTooLong } else st

def runClosure {β : Type} (L : Lib β) (c : β) (steps : List Step) (st : CState β) : CState β :=
  steps.foldl (fun st s => step L c s st) st

/-- what `withUnsnappyRequest` stores as "bodyStream" -/
structure Unsnapped (β : Type) where
  body : β
  /-- `true`: the snappy decoding of the bytes read; `false`: the bytes as read ("sending the compressed body back") -/
  decoded : Bool
  /-- bytes allocated for `snappy.Decode`'s output buffer -/
  alloc : Nat

/-- `if err != nil { bodyStream = compressed } else { bodyStream = uncompressed }`; every error of the closure —
    corrupt header, corrupt data, **and "body is too long"** — ends in the pass-through branch -/
def unsnappyWith {β : Type} (L : Lib β) (steps : List Step) (c : β) : Unsnapped β :=
  let st := runClosure L c steps {}
  match st.failed, st.out with
  | none, some u => ⟨u, true, st.alloc⟩
  | _, _ => ⟨c, false, st.alloc⟩

/-- the closure's steps as generated from middleware.go (`[]` if the generated names were not understood; the
    theorem `C05.unsnappy_order_recognised` excludes that) -/
def genSteps : List Step := (stepsOf PreRequest.unsnappyLimit PreRequest.unsnappyOrder).getD []

def unsnappy {β : Type} (L : Lib β) (c : β) : Unsnapped β := unsnappyWith L genSteps c

/-- syntactic guard discipline of a step list: every `decode` comes after a `decodedLen` whose result has been
    compared with a limit `≤ limit` (a later `decodedLen` would re-assign the variable: the check is void again) -/
def guardedBy (limit : Nat) : List Step → (haveLen checked : Bool) → Bool
  | [], _, _ => true
  | .decodedLen :: r, _, _ => guardedBy limit r true false
  | .limitDeclared l :: r, h, c => guardedBy limit r h (c || (h && decide (l ≤ limit)))
  | .decode :: r, h, c => c && guardedBy limit r h c
  | .limitDecoded _ :: r, h, c => guardedBy limit r h c
  | .limitCompressed _ :: r, h, c => guardedBy limit r h c

def countDecode : List Step → Nat
  | [] => 0
  | .decode :: r => countDecode r + 1
  | _ :: r => countDecode r

/-! ## `WithOverallContextMiddleware`: Content-Encoding -/

/-- `r.Body` after the Content-Encoding switch, or the status of the error it returns.
    `gzip.NewReader` failing is a plain error → `ErrorHandler` → 500. -/
def contentEncoding {β : Type} (L : Lib β) (ce : String) (body : β) : Except Nat (Stream β) :=
  match PreRequest.contentEncodingCases.lookup ce with
  | none => .error PreRequest.contentEncodingDefault
  | some "identity" => .ok ⟨body, true⟩
  | some "gzip.NewReader" => if L.gzipHeaderOk body then .ok (L.gunzip body) else .error 500
  | some "snappy.NewReader" => .ok (L.unframe body)
  | some _ => .error 0   -- an action the model does not know; excluded by `C05.encoding_actions_known`

/-- fixed buffers `snappy.NewReader` allocates per request (`maxBlockSize` and `maxEncodedLenOfMaxBlockSize +
    checksumSize` of golang/snappy) -/
def snappyReaderBufs : Nat := 65536 + 76490 + 4

def encodingAlloc (ce : String) : Nat :=
  match PreRequest.contentEncodingCases.lookup ce with
  | some "snappy.NewReader" => snappyReaderBufs
  | _ => 0

/-! ## the chain per kind of route -/

/-- how a route takes its body:
    `unsnappy` — `withUnsnappyRequest` (Prometheus remote write; Loki push under `application/x-protobuf`);
    `buffered` — `io.ReadAll(r.Body)` as a pre-request (OTLP traces);
    `streamed` — the parser reads `r.Body` itself (every other route) -/
inductive Kind | unsnappy | buffered | streamed
  deriving DecidableEq, Repr

/-- where the parser's bytes come from -/
inductive Source | asSent | decoded
  deriving DecidableEq, Repr

inductive Outcome (β : Type)
  /-- the chain returned an error: `ErrorHandler` answers with this status -/
  | reject (status : Nat)
  /-- the parser is started on these bytes (`eof = false`: the stream breaks after them) -/
  | parser (body : Stream β) (src : Source)

structure Result (β : Type) where
  outcome : Outcome β
  /-- bytes the middleware made the runtime allocate for buffers of its own (ReadAll result, Decode output,
      framing buffers) -/
  alloc : Nat

/-- `io.ReadAll(stream)`: the bytes are buffered whatever the end; an error end is returned → 500 -/
def readAll {β : Type} (s : Stream β) : Except Nat β := if s.eof then .ok s.data else .error 500

def preRequestWith {β : Type} (L : Lib β) (steps : List Step) (k : Kind) (ce : String) (body : β) : Result β :=
  match contentEncoding L ce body with
  | .error st => ⟨.reject st, 0⟩
  | .ok s =>
    let a0 := encodingAlloc ce
    match k with
    | .streamed => ⟨.parser s .asSent, a0⟩
    | .buffered =>
      match readAll s with
      | .error st => ⟨.reject st, a0 + L.len s.data⟩
      | .ok b => ⟨.parser ⟨b, true⟩ .asSent, a0 + L.len b⟩
    | .unsnappy =>
      match readAll s with
      | .error st => ⟨.reject st, a0 + L.len s.data⟩
      | .ok c =>
        let u := unsnappyWith L steps c
        ⟨.parser ⟨u.body, true⟩ (if u.decoded then .decoded else .asSent), a0 + L.len c + u.alloc⟩

def preRequest {β : Type} (L : Lib β) (k : Kind) (ce : String) (body : β) : Result β :=
  preRequestWith L genSteps k ce body

/-! ## reference instance of the block header (`binary.Uvarint` + `snappy.decodedLen`) -/

abbrev Bytes := List UInt8

/-- `binary.Uvarint`: value and number of bytes read; `none` = `n ≤ 0` (buffer too small, or overflow of 64 bits) -/
def uvarintAux : Bytes → (i : Nat) → (x : Nat) → (shift : Nat) → Option (Nat × Nat)
  | [], _, _, _ => none
  | b :: rest, i, x, s =>
    if i = 10 then none
    else if b < 0x80 then
      if i = 9 ∧ b > 1 then none else some (x ||| (b.toNat <<< s), i + 1)
    else uvarintAux rest (i + 1) (x ||| ((b &&& 0x7f).toNat <<< s)) (s + 7)

def uvarint (b : Bytes) : Option (Nat × Nat) := uvarintAux b 0 0 0

/-- `snappy.DecodedLen` on a 64-bit platform: `ErrCorrupt` when the varint does not parse or exceeds 2³² − 1 -/
def refDecodedLen (b : Bytes) : Except Err Nat :=
  match uvarint b with
  | none => .error .corrupt
  | some (v, _) => if v > 0xffffffff then .error .corrupt else .ok v

/-- a library that reads real block headers and fails on every block body: lawful, and enough to show what the
    header alone makes `Decode` allocate -/
def headerOnlyLib : Lib Bytes where
  len := List.length
  decodedLen := refDecodedLen
  decode := fun b => match refDecodedLen b with | .error e => .error e | .ok _ => .error .corrupt
  gzipHeaderOk := fun _ => false
  gunzip := fun b => ⟨b, false⟩
  unframe := fun b => ⟨b, false⟩

end Qryn.PreRequest
