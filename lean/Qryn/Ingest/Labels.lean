import Qryn.Base.JsonStr
import Qryn.Ingest.Fingerprint
/-! `encodeLabels` of writer/utils/unmarshal/unmarshal.go: the label document stored in
    `time_series.labels`, written with `jx.Encoder` (`ObjStart`, per label `FieldStart(name)` and
    `Str(value)`, `ObjEnd`) in the order of the (sanitized) label list. Core-only. -/
namespace Qryn.Fp
open Qryn

def encodeLabels (ls : List Label) : Bytes := JsonStr.encodeObject ls

end Qryn.Fp
