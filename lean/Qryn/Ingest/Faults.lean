import Qryn.Gen.BodyHashes
import Qryn.Ingest.FaultPlacement
/-! # Ingest pipeline with faults as values (C05)

`ingest : Route → Doc → Outcome`. Every Go expression of the anchored files that can raise a run-time
panic is placed here as an `Except Fault` primitive (`idx`, `sliceBounds`, `fastFillArray`,
`fixedStrAppend`, `deref`, `assertString`), inside the model of the function that contains it, and the
goroutine that executes that function decides what the fault becomes:

* parser goroutine (`parserDoer.doParseLogs/Spans/Profile`, all decoders, `onEntries/onSpan/onProfile`):
  `defer p.tamePanic()` → one error message on the response channel, one `close` → the handler answers 500;
* HTTP handler goroutine (`Build`, middlewares, `doParse`): net/http recovers, the connection is aborted;
* detached goroutine started by `doPush` (runs `svc.Request` → `ProcessRequest` → column appends):
  nothing recovered it on the pinned tree → the process dies (`Outcome.crash`).

A `Doc` is what the third-party parsers (jx, protobuf, snappy, gzip, influx line protocol, pprof, mime)
hand to qryn's own code, including the ill-shaped cases (absent messages, wrong kinds, missing ids, empty
arrays, wrong id lengths, truncated input = `bad` markers at the place where the parser reports an error).
`Fixes` selects, per defect, the pinned code or the code after the `fix:` commit; `ingest` is the fixed
code, `ingestWith pinned` the code as it was. Core-only. -/
namespace Qryn.IngestFaults

inductive Fault | indexOutOfRange | nilDeref | badSize | typeAssert | divByZero
  deriving DecidableEq, Repr

/-- the goroutine that executes a piece of code -/
inductive Goroutine | parser | handler | detached
  deriving DecidableEq, Repr

inductive Outcome | status (n : Nat) | crash | hang
  deriving DecidableEq, Repr

/-- which `fix:` commits are applied -/
structure Fixes where
  idCheck      : Bool  -- onSpan rejects ids that are not 16/8 bytes; tempo ProcessRequest checks before appending
  pushRecover  : Bool  -- the doPush goroutine recovers
  emptyFill    : Bool  -- fastFillArray(0) is an empty slice
  otlpGetters  : Bool  -- OTLP decoders read Resource/Scope/Value through nil-safe getters
  profileFlush : Bool  -- onProfile flushes the profile (not the span fields); an empty profile is not sent
  nameGuard    : Bool  -- `name[i+1:length-1]` is guarded
  nsGuard      : Bool  -- ns(0) terminates; the multipart decoder returns the `until` parse error
  influxNewline : Bool -- the influx decoder terminates the last line (telegraf's parser spins on a trailing escape)
  influxMsg    : Bool  -- getMessage reads `fields["message"]` with the comma-ok form (C03 fix): no assertion that can fail
  deriving DecidableEq, Repr

def fixed : Fixes := ⟨true, true, true, true, true, true, true, true, true⟩
def pinned : Fixes := ⟨false, false, false, false, false, false, false, false, false⟩

/-! ## Fault-capable primitives -/

/-- `xs[i]` -/
def idx {α} (xs : List α) (i : Nat) : Except Fault α :=
  match xs[i]? with
  | some x => .ok x
  | none => .error .indexOutOfRange

/-- `s[lo:hi]` on a string/slice of length `len` -/
def sliceBounds (len lo hi : Nat) : Except Fault Unit :=
  if lo ≤ hi ∧ hi ≤ len then .ok () else .error .indexOutOfRange

/-- `fastFillArray(n, v)` (unmarshal/shared.go): `res := make([]T, n); res[0] = val; …` -/
def fastFillArray (fx : Fixes) (n : Nat) : Except Fault Nat :=
  if n = 0 then (if fx.emptyFill then .ok 0 else .error .indexOutOfRange) else .ok n

/-- `ColFixedStr.Append(v)`: `if len(v) != c.Size { panic("invalid size") }` -/
def fixedStrAppend (size rows len : Nat) : Except Fault Nat :=
  if len = size then .ok (rows + 1) else .error .badSize

/-- a field read through a pointer that may be nil (`x.Resource.Attributes`) -/
def deref (present : Bool) : Except Fault Unit :=
  if present then .ok () else .error .nilDeref

/-- `v.(string)` -/
def assertString (isString : Bool) : Except Fault Unit :=
  if isString then .ok () else .error .typeAssert

/-! ## Result of a decoding step in the parser goroutine -/

/-- `ok`, a returned `error` (with the HTTP code `ErrorHandler` maps it to: typed errors carry their code,
    any other error is 500), a run-time panic, or a loop that never ends -/
inductive Res (α : Type) | ok (a : α) | err (code : Nat) | fault (f : Fault) | spin
  deriving Repr

def Res.bind {α β} : Res α → (α → Res β) → Res β
  | .ok a, f => f a
  | .err c, _ => .err c
  | .fault f, _ => .fault f
  | .spin, _ => .spin

instance : Monad Res where
  pure := .ok
  bind := Res.bind

def liftE {α} : Except Fault α → Res α
  | .ok a => .ok a
  | .error f => .fault f

/-- how a decode ended -/
inductive Ending | done | err (code : Nat) | fault (f : Fault) | spin
  deriving DecidableEq, Repr

/-- run the decoder's items in order over the builder state; the state reached before a failing item is
    kept (portions already sent on the channel stay sent) -/
def runSteps {σ ι} (step : σ → ι → Res σ) : List ι → σ → σ × Ending
  | [], s => (s, .done)
  | i :: is, s =>
    match step s i with
    | .ok s' => runSteps step is s'
    | .err c => (s, .err c)
    | .fault f => (s, .fault f)
    | .spin => (s, .spin)

/-! ## What travels on the response channel -/

/-- rows per column of a samples request (`TimeSamplesData`): MTimestampNS, MFingerprint, MType, MValue, MMessage -/
structure SplCounts where
  ts : Nat
  fp : Nat
  tp : Nat
  val : Nat
  msg : Nat
  deriving DecidableEq, Repr

def SplCounts.zero : SplCounts := ⟨0, 0, 0, 0, 0⟩
def SplCounts.rect (c : SplCounts) : Bool := c.fp == c.ts && c.tp == c.ts && c.val == c.ts && c.msg == c.ts

/-- one `ParserResponse` without error -/
inductive Portion
  | logs (spl : SplCounts) (series : Nat)                  -- TimeSeriesRequest + SamplesRequest
  | spans (ids : List (Nat × Nat)) (attrIds : List (Nat × Nat)) -- SpansRequest + SpansAttrsRequest: (len traceId, len spanId) per row
  | profile (rows : Nat)                                    -- ProfileRequest with `rows` profiles (array columns always get one row)
  | nilSpanFields                                           -- A37: `SpansRequest: p.spans` of the profile parser (typed nil), no service for it
  deriving DecidableEq, Repr

inductive Msg | portion (p : Portion) | error (code : Nat)
  deriving DecidableEq, Repr

/-- the history of the response channel `p.res` of one request -/
structure Trace where
  msgs : List Msg
  closes : Nat
  deriving DecidableEq, Repr

def Msg.isError : Msg → Bool | .error _ => true | _ => false

/-- `tamePanic`: `recover()`, one error message, one close -/
def tamePanic (sent : List Portion) : Trace :=
  ⟨sent.map .portion ++ [.error 500], 1⟩

/-- the goroutine body of `doParseLogs/Spans/Profile`: `defer p.tamePanic(); err := parser.Decode();
    if err != nil { p.res <- error; close; return }; <final sends>; close` -/
def parserGoroutine (sent : List Portion) (final : List Portion) : Ending → Trace
  | .done => ⟨(sent ++ final).map .portion, 1⟩
  | .err c => ⟨sent.map .portion ++ [.error c], 1⟩
  | .fault _ => tamePanic sent
  | .spin => ⟨sent.map .portion, 0⟩

/-- one parser goroutine: what it sent before its decode ended, what it sends after a successful decode, how
    the decode ended -/
structure Run where
  sent : List Portion
  final : List Portion
  ending : Ending
  deriving DecidableEq, Repr

def Run.trace (r : Run) : Trace := parserGoroutine r.sent r.final r.ending

/-! ## Log family: `onEntries` -/

/-- the arguments of `onEntries(labels, timestampsNS, message, value, types)` as far as faults and row
    counts depend on them: strings by their byte length -/
structure EntriesCall where
  labels : List (List Nat)
  ts : Nat
  msgs : List Nat
  vals : Nat
  types : List Nat
  deriving DecidableEq, Repr

structure LogSt where
  spl : SplCounts
  series : Nat
  size : Nat
  sent : List Portion
  deriving DecidableEq, Repr

def LogSt.init : LogSt := ⟨.zero, 0, 0, []⟩

/-- `lbl[0]`, `lbl[1]` in the `__ttl_days__` scan, `validUTF8Labels` (`l[0]`, `l[1]`), `fingerprintLabels`,
    `encodeLabels` (jx encoder: `e.FieldStart(l[0]); e.Str(l[1])`) and, before the callback, `sanitizeLabels`
    (`lbls[i][0]`, `lbls[i][1]`) — placed site `labelPairs` of the census (`Ingest/FaultCensus.lean`: `modelSites`). The series rows are decided by
    `parserDoer.maybeAddFp` per (day, fingerprint, type); it writes `p.seenFpKeys`, a map that `doParseLogs`
    allocates before the parser goroutine starts (a nil map would fault on the first write); the cache keys
    travel with the portion (`TimeSeriesFpKeys`) and `doParse` sets them after every promise resolved without
    error — no fault site, no further wait. -/
def labelPairs : List (List Nat) → Except Fault Unit
  | [] => .ok ()
  | l :: ls => do
    let _ ← idx l 0
    let _ ← idx l 1
    labelPairs ls

/-- `for _, t := range types { tps[t] = true }` with `var tps [3]bool` -/
def markTypes : List Nat → Except Fault Unit
  | [] => .ok ()
  | t :: ts => if t < 3 then markTypes ts else .error .indexOutOfRange

def presentTypes (types : List Nat) : Nat :=
  ([0, 1, 2].filter (fun t => types.contains t)).length

/-- `for i := range timestampsNS { … len(message[i]) + 26 }` -/
def messageSizes (msgs : List Nat) : Nat → Nat → Except Fault Nat
  | 0, acc => .ok acc
  | n + 1, acc => do
    let rest ← messageSizes msgs n acc
    let m ← idx msgs n
    pure (rest + m + 26)

/-- the expressions of `parserDoer.onEntries` (unmarshal/builder.go) that can fault, in program order;
    yields the length of the fingerprint fill and the size added by the messages -/
def onEntriesChecks (fx : Fixes) (c : EntriesCall) : Except Fault (Nat × Nat) :=
  match labelPairs c.labels with
  | .error f => .error f
  | .ok () =>
    match fastFillArray fx c.ts with          -- MFingerprint
    | .error f => .error f
    | .ok nfp =>
      match fastFillArray fx c.ts with        -- MTTLDays
      | .error f => .error f
      | .ok _ =>
        match markTypes c.types with
        | .error f => .error f
        | .ok () =>
          match messageSizes c.msgs c.ts 0 with
          | .error f => .error f
          | .ok sz => .ok (nfp, sz)

/-- the appends and the flush decision of `onEntries`; `thr` is the flush threshold -/
def onEntriesApply (thr : Nat) (st : LogSt) (c : EntriesCall) (nfp sz : Nat) : LogSt :=
  let spl : SplCounts := ⟨st.spl.ts + c.ts, st.spl.fp + nfp, st.spl.tp + c.types.length,
                          st.spl.val + c.vals, st.spl.msg + c.msgs.length⟩
  let newSeries := if c.ts = 0 then 0 else presentTypes c.types
  let series := st.series + newSeries
  let size := st.size + sz + 14 * newSeries
  if size > thr then
    { spl := .zero, series := 0, size := 0, sent := st.sent ++ [.logs spl series] }
  else
    { st with spl := spl, series := series, size := size }

def onEntries (fx : Fixes) (thr : Nat) (st : LogSt) (c : EntriesCall) : Except Fault LogSt :=
  match onEntriesChecks fx c with
  | .error f => .error f
  | .ok (nfp, sz) => .ok (onEntriesApply thr st c nfp sz)

inductive LogItem
  | entries (c : EntriesCall)                    -- `p.onEntries(...)`
  | fillThenEntries (n : Nat) (c : EntriesCall)  -- `onEntries(…, fastFillArray[uint8](n, tp))`: the fill is evaluated first
  | error (code : Nat)                           -- the decoder returns an error here
  | assertStr (isString : Bool)                  -- `fields["message"].(string)`
  | derefGetter (present : Bool)                 -- pointer field that the fixed code reads through a getter
  | danglingEscape                               -- influx body ending inside a measurement escape: telegraf's
                                                 -- `StreamParser.Next` never returns (third-party loop, observed)
  deriving DecidableEq, Repr

def logStep (fx : Fixes) (thr : Nat) (st : LogSt) : LogItem → Res LogSt
  | .entries c => liftE (onEntries fx thr st c)
  | .fillThenEntries n c => liftE (do let _ ← fastFillArray fx n; onEntries fx thr st c)
  | .error code => .err code
  | .assertStr b => if fx.influxMsg then .ok st else liftE (do assertString b; pure st)
  | .derefGetter p => if fx.otlpGetters then .ok st else liftE (do deref p; pure st)
  | .danglingEscape => if fx.influxNewline then .err 400 else .spin

/-- `doParseLogs`: after a successful decode `p.tsSpl.flush()` is unconditional -/
def logsRun (fx : Fixes) (thr : Nat) (items : List LogItem) : Run :=
  let r := runSteps (logStep fx thr) items .init
  ⟨r.1.sent, [.logs r.1.spl r.1.series], r.2⟩

/-! ## Span family: `onSpan` -/

structure SpanCall where
  tid : Nat      -- len(traceId)
  sid : Nat      -- len(spanId)
  keys : Nat
  vals : Nat
  size : Nat
  deriving DecidableEq, Repr

structure SpanSt where
  ids : List (Nat × Nat)
  attrIds : List (Nat × Nat)
  size : Nat
  sent : List Portion
  deriving DecidableEq, Repr

def SpanSt.init : SpanSt := ⟨[], [], 0, []⟩

/-- `parserDoer.onSpan`: `val[i]` for every key -/
def onSpan (fx : Fixes) (thr : Nat) (st : SpanSt) (c : SpanCall) : Res SpanSt :=
  if fx.idCheck && (c.tid != 16 || c.sid != 8) then .err 400
  else
    match (if c.keys ≤ c.vals then Except.ok () else Except.error Fault.indexOutOfRange) with
    | .error f => .fault f
    | .ok () =>
      let ids := st.ids ++ [(c.tid, c.sid)]
      let attrIds := st.attrIds ++ List.replicate c.keys (c.tid, c.sid)
      let size := st.size + c.size + 49 + 40 * c.keys
      if size > thr then .ok { ids := [], attrIds := [], size := 0, sent := st.sent ++ [.spans ids attrIds] }
      else .ok { st with ids := ids, attrIds := attrIds, size := size }

inductive SpanItem
  | span (c : SpanCall)
  | error (code : Nat)
  | derefGetter (present : Bool)   -- `res.Resource.Attributes`, `kv.Value.Value` (getters after the fix)
  | derefRaw (present : Bool)      -- `val.Value.Value` in otlpGetServiceNames (not changed)
  deriving DecidableEq, Repr

def spanStep (fx : Fixes) (thr : Nat) (st : SpanSt) : SpanItem → Res SpanSt
  | .span c => onSpan fx thr st c
  | .error code => .err code
  | .derefGetter p => if fx.otlpGetters then .ok st else liftE (do deref p; pure st)
  | .derefRaw p => liftE (do deref p; pure st)

def spansRun (fx : Fixes) (thr : Nat) (items : List SpanItem) : Run :=
  let r := runSteps (spanStep fx thr) items .init
  ⟨r.1.sent, [.spans r.1.ids r.1.attrIds], r.2⟩

/-! ## Profile family -/

structure ProfSt where
  rows : Nat
  sent : List Portion
  deriving DecidableEq, Repr

inductive ProfItem
  | error (code : Nat)
  | slice (len lo hi : Nat)          -- `name[i+1 : length-1]`
  | ns (t : Nat)                     -- `ns(t)`: `for t < 1e18 { t *= 10 }`
  | idxCheck (len i : Nat)           -- `sample.Value[j]`, `SampleUnit[i]`, `loc.Line[0]`, `words[j+1]`
  | derefRaw (present : Bool)        -- `PeriodType.Type`, `Line[0].Function.Name`
  | onProfile (size : Nat)           -- `p.onProfile(...)`, `size` = calculateProfileSize after the append
  deriving DecidableEq, Repr

def profStep (fx : Fixes) (thr : Nat) (st : ProfSt) : ProfItem → Res ProfSt
  | .error code => .err code
  | .slice len lo hi =>
    if fx.nameGuard then (if hi < lo then .err 500 else liftE (do sliceBounds len lo hi; pure st))
    else liftE (do sliceBounds len lo hi; pure st)
  | .ns t => if t = 0 && !fx.nsGuard then .spin else .ok st
  | .idxCheck len i => if i < len then .ok st else .fault .indexOutOfRange
  | .derefRaw p => liftE (do deref p; pure st)
  | .onProfile size =>
    let rows := st.rows + 1
    if size > thr then
      .ok { rows := 0, sent := st.sent ++ [if fx.profileFlush then .profile rows else .nilSpanFields] }
    else .ok { st with rows := rows }

/-- `doParseProfile`: the final send (pinned: always; fixed: only a profile with rows) -/
def profileRun (fx : Fixes) (thr : Nat) (items : List ProfItem) : Run :=
  let r := runSteps (profStep fx thr) items ⟨0, []⟩
  ⟨r.1.sent, if fx.profileFlush && r.1.rows = 0 then [] else [.profile r.1.rows], r.2⟩

/-! ## Insert services below `doPush` (detached goroutine) -/

/-- trace_id, span_id, and the other columns of a tempo table (appended together) -/
structure TempoCols where
  tid : Nat
  sid : Nat
  rest : Nat
  deriving DecidableEq, Repr

/-- scalar columns (one row per profile of a request) and array columns (one row per request) of profiles_input -/
structure ProfCols where
  scalar : Nat
  arrays : Nat
  deriving DecidableEq, Repr

/-- row counts of the shared column sets (`svc.columns`) -/
structure Cols where
  samples : SplCounts
  traces : TempoCols
  tags : TempoCols
  profiles : ProfCols
  deriving DecidableEq, Repr

def TempoCols.rect (c : TempoCols) : Bool := c.sid == c.tid && c.rest == c.tid
def ProfCols.rect (c : ProfCols) : Bool := c.arrays == c.scalar
def Cols.rect (c : Cols) : Bool := c.samples.rect && c.traces.rect && c.tags.rect && c.profiles.rect
def Cols.empty : Cols := ⟨.zero, ⟨0, 0, 0⟩, ⟨0, 0, 0⟩, ⟨0, 0⟩⟩

/-- `FixedStrAdaptor.AppendArr`: appends one by one; the rows appended before a bad one stay -/
def appendIds (size : Nat) : List Nat → Nat → Nat × Option Fault
  | [], rows => (rows, none)
  | l :: ls, rows =>
    match fixedStrAppend size rows l with
    | .ok rows' => appendIds size ls rows'
    | .error f => (rows, some f)

/-- result of `svc.Request` as the doPush goroutine sees it: queued for the next flush, resolved at once
    without error (zero rows), resolved at once with an error, or a panic under `svc.mtx` -/
inductive ReqRes | queued | empty | refused | panicked (f : Fault)
  deriving DecidableEq, Repr

def idsOk (ids : List (Nat × Nat)) : Bool := ids.all (fun p => p.1 == 16 && p.2 == 8)

/-- tempo `ProcessRequest` (both tables have the shape ids ++ rest): `ids` = (len traceId, len spanId) per row -/
def tempoProcess (fx : Fixes) (cols : TempoCols) (ids : List (Nat × Nat)) : TempoCols × ReqRes :=
  if fx.idCheck && !idsOk ids then (cols, .refused)
  else
    match appendIds 16 (ids.map (·.1)) cols.tid with
    | (t, some f) => ({ cols with tid := t }, .panicked f)
    | (t, none) =>
      match appendIds 8 (ids.map (·.2)) cols.sid with
      | (s, some f) => ({ cols with tid := t, sid := s }, .panicked f)
      | (s, none) => (⟨t, s, cols.rest + ids.length⟩, if ids.isEmpty then .empty else .queued)

def samplesProcess (cols : SplCounts) (c : SplCounts) : SplCounts × ReqRes :=
  (⟨cols.ts + c.ts, cols.fp + c.fp, cols.tp + c.tp, cols.val + c.val, cols.msg + c.msg⟩,
   if c.fp = 0 then .empty else .queued)

/-- profile `ProcessRequest`: the scalar columns get one row per profile of the request, the array columns
    (sample_types_units, tags, values_agg, tree, functions) exactly one -/
def profileProcess (cols : ProfCols) (rows : Nat) : ProfCols × ReqRes :=
  (⟨cols.scalar + rows, cols.arrays + 1⟩, if rows = 0 then .empty else .queued)

/-- what one `doPush` goroutine ends as -/
inductive Push | acked | failed | crashed | pending
  deriving DecidableEq, Repr

/-- environment: does the database accept the flush of a queued request? (`releaseWaiting(err)`) -/
structure Env where
  dbOk : Bool
  deriving DecidableEq, Repr

/-- what a fault becomes, by goroutine -/
def faultOutcome (fx : Fixes) : Goroutine → Fault → Outcome
  | .parser, _ => .status 500        -- tamePanic
  | .handler, _ => .status 500       -- net/http's per-connection recover (the connection is aborted)
  | .detached, _ => if fx.pushRecover then .status 500 else .crash

/-- the goroutine of `doPush`: `retry.Do(svc.Request → Get)`, then `p.Done`. Every path resolves the promise
    (the insert loop resolves a queued request at its next flush, whether `Do` succeeded or not), except a
    panic that nothing recovers. -/
def pushOutcome (fx : Fixes) (env : Env) : ReqRes → Push
  | .queued => if env.dbOk then .acked else .failed
  | .empty => .acked
  | .refused => .failed
  | .panicked f => match faultOutcome fx .detached f with
    | .crash => .crashed
    | _ => .failed

/-- all `doPush` calls of one portion, on the route's services -/
def pushPortion (fx : Fixes) (env : Env) (cols : Cols) : Portion → Cols × List Push
  | .logs spl series =>
    let (s, r) := samplesProcess cols.samples spl
    -- the time-series request appends its columns together; it cannot go out of shape
    ({ cols with samples := s },
     [pushOutcome fx env r, pushOutcome fx env (if series = 0 then .empty else .queued)])
  | .spans ids attrIds =>
    let (t, r1) := tempoProcess fx cols.traces ids
    let (g, r2) := tempoProcess fx cols.tags attrIds
    ({ cols with traces := t, tags := g }, [pushOutcome fx env r1, pushOutcome fx env r2])
  | .profile rows =>
    let (p, r) := profileProcess cols.profiles rows
    ({ cols with profiles := p }, [pushOutcome fx env r])
  | .nilSpanFields => (cols, [.acked, .acked])     -- `svc == nil` → `promise.Fulfilled`

/-! ## The handler: `doParse` -/

/-- `for response := range res { if response.Error != nil { go drain; return err }; promises = append(…doPush…) }`
    then `for p in promises { p.Get() }`. Returns the outcome and the shared columns afterwards. -/
def doParse (fx : Fixes) (env : Env) (okStatus : Nat) : List Msg → Nat → Cols → List Push → Outcome × Cols
  | .error c :: _, _, cols, pushes =>
    (if pushes.contains .crashed then .crash else .status c, cols)
  | .portion p :: rest, closes, cols, pushes =>
    let (cols', ps) := pushPortion fx env cols p
    doParse fx env okStatus rest closes cols' (pushes ++ ps)
  | [], closes, cols, pushes =>
    if pushes.contains .crashed then (.crash, cols)
    else if closes = 0 then (.hang, cols)                    -- `range res` never ends
    else if pushes.contains .pending then (.hang, cols)      -- `p.Get()` never returns
    else if pushes.contains .failed then (.status 500, cols)
    else (.status okStatus, cols)

/-! ## Documents -/

/-- an OTLP `AnyValue` reached through a pointer: absent pointer, scalar (or unset oneof), array, kvlist -/
inductive AnyV | absent | scalar | arr (xs : List AnyV) | kvl (xs : List AnyV)
  deriving Repr

mutual
  /-- the `value.Value` / `kv.Value.Value` reads of SanitizeValue / writeAttrValue, in traversal order -/
  def AnyV.derefs : AnyV → List Bool
    | .absent => [false]
    | .scalar => [true]
    | .arr xs => true :: AnyV.derefsList xs
    | .kvl xs => true :: AnyV.derefsList xs
  def AnyV.derefsList : List AnyV → List Bool
    | [] => []
    | x :: xs => AnyV.derefs x ++ AnyV.derefsList xs
end

mutual
  /-- the OTLP trace decoder: `initAttributesMap` reads `kv.Value.Value` of every KeyValue (top level and
      inside kvlists); `writeAttrValue` reads the items of an array through `_val.GetValue()` (a getter on
      every tree), so an item itself never faults, but a kvlist inside it is walked by `initAttributesMap` -/
  def AnyV.derefsT : AnyV → List Bool
    | .absent => [false]
    | .scalar => [true]
    | .arr xs => true :: AnyV.derefsTItems xs
    | .kvl xs => true :: AnyV.derefsTList xs
  def AnyV.derefsTList : List AnyV → List Bool
    | [] => []
    | x :: xs => AnyV.derefsT x ++ AnyV.derefsTList xs
  def AnyV.derefsTItem : AnyV → List Bool
    | .absent => []
    | .scalar => []
    | .arr xs => AnyV.derefsTItems xs
    | .kvl xs => AnyV.derefsTList xs
  def AnyV.derefsTItems : List AnyV → List Bool
    | [] => []
    | x :: xs => AnyV.derefsTItem x ++ AnyV.derefsTItems xs
end

inductive LabelShape | pairs (n : Nat) | unknownInput | badQuote
  deriving DecidableEq, Repr

inductive EntryShape | good (line value : Bool) (len : Nat) | bad
  deriving DecidableEq, Repr

structure LokiStream where
  labels : LabelShape
  entries : List EntryShape
  deriving DecidableEq, Repr

/-- sample type of a Loki entry: `tp |= LOG`, `tp |= METRIC`, `if tp == 3 { tp = 0 }` -/
def entryType (line value : Bool) : Nat :=
  let tp := (if line then 1 else 0) + (if value then 2 else 0)
  if tp = 3 then 0 else tp

def pairLabels (n : Nat) : List (List Nat) := List.replicate n [1, 1]

def entryLens : List EntryShape → List Nat
  | [] => []
  | .good _ _ l :: es => l :: entryLens es
  | .bad :: es => entryLens es

def entryTypes : List EntryShape → List Nat
  | [] => []
  | .good l v _ :: es => entryType l v :: entryTypes es
  | .bad :: es => entryTypes es

def hasBad : List EntryShape → Bool
  | [] => false
  | .good .. :: es => hasBad es
  | .bad :: _ => true

/-- Loki JSON push (`pushRequestDec`): every error inside a stream is wrapped into an UnmarshalError (400) -/
def lokiJsonItems (streams : List LokiStream) (tailBad : Bool) : List LogItem :=
  streams.flatMap (fun s =>
    match s.labels with
    | .pairs n =>
      if hasBad s.entries then [.error 400]
      else [.entries ⟨pairLabels n, s.entries.length, entryLens s.entries, s.entries.length, entryTypes s.entries⟩]
    | _ => [.error 400])
  ++ (if tailBad then [.error 400] else [])

/-- Loki protobuf push (`logsProtoDec`): `parseLabelsLokiFormat` errors are returned as they are -/
def lokiProtoItems (streams : List (LabelShape × Nat)) : List LogItem :=
  streams.flatMap (fun s =>
    match s.1 with
    | .pairs n => [.fillThenEntries s.2 ⟨pairLabels n, s.2, List.replicate s.2 1, s.2, List.replicate s.2 1⟩]
    | .unknownInput => [.error 500]
    | .badQuote => [.error 400])

/-- OTLP logs: resource → scopes → records; attribute values read through pointers -/
structure OtlpScopeLogs where
  scope : Option (List AnyV)
  records : List (List AnyV)
  deriving Repr

structure OtlpResourceLogs where
  resource : Option (List AnyV)
  scopes : List OtlpScopeLogs
  deriving Repr

def derefItems (bs : List Bool) : List LogItem := bs.map .derefGetter

def otlpLogsItems (rs : List OtlpResourceLogs) : List LogItem :=
  rs.flatMap (fun r =>
    [LogItem.derefGetter r.resource.isSome] ++ derefItems (AnyV.derefsList (r.resource.getD [])) ++
    r.scopes.flatMap (fun s =>
      [LogItem.derefGetter s.scope.isSome] ++ derefItems (AnyV.derefsList (s.scope.getD [])) ++
      s.records.flatMap (fun attrs =>
        derefItems (AnyV.derefsList attrs) ++
        [.entries ⟨pairLabels attrs.length, 1, [1], 1, [1]⟩])))

inductive FieldKind | str | int | float | other | uint
  deriving DecidableEq, Repr

inductive InfluxLine | bad | point (message : Option FieldKind) (others : List FieldKind) | danglingEscape
  deriving DecidableEq, Repr

def FieldKind.numeric : FieldKind → Bool | .int => true | .float => true | .uint => true | _ => false

def oneEntry (labels tp : Nat) : EntriesCall := ⟨pairLabels labels, 1, [1], 1, [tp]⟩

def influxItems (ls : List InfluxLine) : List LogItem :=
  ls.flatMap (fun l =>
    match l with
    | .bad => [.error 400]
    | .danglingEscape => [.danglingEscape]
    | .point (some k) others =>
      (if others.isEmpty then [LogItem.assertStr (k == .str)] else []) ++ [.entries (oneEntry 1 1)]
    | .point none others => (others.filter (·.numeric)).map (fun _ => .entries (oneEntry 2 2)))

/-- Prometheus remote write (`promMetricsProtoDec`): `points` runs across series, a flush every 1000 points
    passes `fastFillArray(len(tsns))` types (A1 fixed by C03: as many types as timestamps); `nSamples` is kept
    for the shape of the recursion only -/
def promSeries (nSamples : Nat) : Nat → Nat → Nat → List LogItem
  | 0, _, pending => if pending > 0 then [.fillThenEntries pending ⟨pairLabels 1, pending, List.replicate pending 0, pending, List.replicate pending 2⟩] else []
  | left + 1, points, pending =>
    if points + 1 ≥ 1000 then
      .fillThenEntries (pending + 1) ⟨pairLabels 1, pending + 1, List.replicate (pending + 1) 0, pending + 1, List.replicate (pending + 1) 2⟩
        :: promSeries nSamples left 0 0
    else promSeries nSamples left (points + 1) (pending + 1)

def promItems : List Nat → Nat → List LogItem
  | [], _ => []
  | n :: ns, points => promSeries n n points 0 ++ promItems ns ((points + n) % 1000)

inductive BulkLine | bad | empty | create (n : Nat) | del | plain
  deriving DecidableEq, Repr

/-- Elastic bulk (`elasticBulkDec`): `e.labels` persists from the action line to the document line -/
def bulkItems : List BulkLine → Nat → List LogItem
  | [], _ => []
  | .bad :: _, _ => [.error 400]
  | .empty :: ls, labels => bulkItems ls labels
  | .create n :: ls, _ => bulkItems ls (n + 1)
  | .del :: ls, _ => bulkItems ls 0
  | .plain :: ls, labels =>
    (if labels = 0 then [] else [LogItem.entries (oneEntry labels 1)]) ++ bulkItems ls labels

/-- Zipkin: the hex ids as the decoder meets them -/
inductive IdShape | missing | zero | badHex | ok
  deriving DecidableEq, Repr

inductive ZSpan | notObject | bad | span (tid sid : IdShape) (tags : Nat) (size : Nat)
  deriving DecidableEq, Repr

def IdShape.rejected : IdShape → Bool | .zero => true | .badHex => true | _ => false
def IdShape.len (full : Nat) : IdShape → Nat | .ok => full | _ => 0

/-- `zipkinDecoderV2.decodeSpan`: key and val are appended together, `service.name` last -/
def zspanItems : ZSpan → List SpanItem
  | .notObject => [.error 400]
  | .bad => [.error 400]
  | .span t s tags size =>
    if t.rejected || s.rejected then [.error 400]
    else [.span ⟨t.len 16, s.len 8, tags + 1, tags + 1, size⟩]

/-- a syntax error of the enclosing array (truncated body) is jx's own error, not an UnmarshalError: 500 -/
def zipkinItems (spans : List ZSpan) (tailBad : Bool) : List SpanItem :=
  spans.flatMap zspanItems ++ (if tailBad then [.error 500] else [])

structure OKV where
  key : Nat        -- 0..4 = peer.service, service.name, faas.name, k8s.deployment.name, process.executable.name; other keys ≥ 5
  v : AnyV
  str : Bool       -- the value is a non-empty string (looked at for scalars only)
  deriving Repr

structure OSpan where
  tid : Nat
  sid : Nat
  attrs : List OKV
  deriving Repr

structure OtlpResourceSpans where
  resource : Option (List OKV)
  scopes : List (List OSpan)
  deriving Repr

/-- `getOtlpAttr(attrs, key)` = the LAST attribute stored under the key (`otlpAttrIdx`) -/
def lastAttr (attrs : List OKV) (k : Nat) : Option OKV := attrs.reverse.find? (fun a => a.key == k)

def OKV.present (a : OKV) : Bool := match a.v with | .absent => false | _ => true
def OKV.nonEmptyString (a : OKV) : Bool := match a.v with | .scalar => a.str | _ => false

/-- second loop of `otlpGetServiceNames` (remote name): every listed key, `val.Value.Value` of the attribute found -/
def serviceNameDerefs (attrs : List OKV) (keys : List Nat) : List SpanItem :=
  keys.filterMap (fun k => (lastAttr attrs k).map (fun a => .derefRaw a.present))

/-- first loop (local name): the keys in order, `val.Value.Value` of the attribute found, `break` at the first
    non-empty string -/
def localNameDerefs (attrs : List OKV) : List Nat → List SpanItem
  | [] => []
  | k :: ks =>
    match lastAttr attrs k with
    | none => localNameDerefs attrs ks
    | some a => .derefRaw a.present :: (if a.nonEmptyString then [] else localNameDerefs attrs ks)

def otlpSpanItems (resAttrs : List OKV) (s : OSpan) : List SpanItem :=
  let attrs := s.attrs ++ resAttrs
  localNameDerefs attrs [1, 0, 2, 3, 4] ++ serviceNameDerefs attrs [1, 2, 3, 4] ++
  (AnyV.derefsTList (attrs.map (·.v))).map .derefGetter ++
  [.span ⟨s.tid, s.sid, attrs.length + 3, attrs.length + 3, 1⟩]

def otlpTracesItems (rs : List OtlpResourceSpans) : List SpanItem :=
  rs.flatMap (fun r =>
    r.scopes.flatMap (fun sc =>
      sc.flatMap (fun s => SpanItem.derefGetter r.resource.isSome :: otlpSpanItems (r.resource.getD []) s)))

/-- pprof profile as `pprof.ParseData` returns it (after postDecode and CheckValid) or fails -/
structure PSample where
  values : Nat                 -- len(sample.Value)
  locs : List (List Bool)      -- per location: per line, is `Function` non-nil
  deriving DecidableEq, Repr

structure RawProfile where
  types : Nat                  -- len(SampleType)
  periodType : Bool            -- present on the wire
  samples : List PSample
  typeBytes : Nat              -- total length of the sample type/unit strings (enters calculateProfileSize)
  deriving DecidableEq, Repr

/-- third-party semantics: `postDecode` allocates a missing PeriodType; `CheckValid` rejects a sample whose
    value count differs from the type count and a line without function -/
def pprofParse (p : RawProfile) : Option RawProfile :=
  if (p.types == 0 && !p.samples.isEmpty) then none   -- "missing sample type information"
  else if p.samples.all (fun s => s.values == p.types && s.locs.all (fun l => l.all id)) then
    some { p with periodType := true }
  else none

/-- the `name` query parameter: bytes before the first `{` (none = no brace), then what follows the brace -/
structure ProfName where
  pre : Nat
  brace : Option (List Nat)    -- characters after `{`, as 0 = other, 1 = '=' or ',' (separator of FieldsFunc)
  deriving DecidableEq, Repr

/-- number of fields `strings.FieldsFunc(s, sep)` yields -/
def fieldsCount : List Nat → Bool → Nat
  | [], _ => 0
  | c :: cs, inField =>
    if c = 1 then fieldsCount cs false
    else (if inField then 0 else 1) + fieldsCount cs true

structure ProfileDoc where
  fromV : Option (Option Nat)    -- none: parameter missing; some none: not a number
  untilV : Option (Option Nat)
  name : Option ProfName
  multipart : Bool
  bodyOk : Bool                  -- mime / gzip / size limit / pprof wire format all fine
  profile : RawProfile
  deriving DecidableEq, Repr

def profileSites (p : RawProfile) : List ProfItem :=
  [ProfItem.derefRaw p.periodType] ++
  p.samples.flatMap (fun s =>
    s.locs.flatMap (fun l => match l with
      | [] => []
      | f :: _ => [ProfItem.idxCheck l.length 0, .derefRaw f]) ++
    -- a sample without a stack is walked as one frame "n/a": `sample.Value[j]` is read for every sample
    (List.range p.types).map (fun j => ProfItem.idxCheck s.values j)) ++
  (List.range p.types).map (fun i => ProfItem.idxCheck p.types i)

/-- `pProfProtoDec.Decode` / `binaryStreamPProfProtoDec.Decode` up to reading the body: the query parameters -/
def profileHead (fx : Fixes) (d : ProfileDoc) (from_ until_ : Option Nat) (n : ProfName) : List ProfItem :=
  (match from_ with | none => [ProfItem.error 500] | some _ => []) ++
  (match until_ with
   | none => if d.multipart && !fx.nsGuard then [] else [ProfItem.error 500]
   | some _ => []) ++
  (match n.brace with
   | none => []
   | some inner =>
     let len := n.pre + 1 + inner.length
     [ProfItem.slice len (n.pre + 1) (len - 1)] ++
     (let body := inner.take (inner.length - 1)
      if body.isEmpty then []
      else
        let sz := fieldsCount body false
        if sz = 0 || sz % 2 ≠ 0 then [ProfItem.error 500] else [])) ++
  [ProfItem.ns (from_.getD 0), .ns (until_.getD 0)]

/-- … and from the body on: mime/gzip/size limit/pprof parse, the sites of Parse and postProcessProf, onProfile -/
def profileBody (d : ProfileDoc) : List ProfItem :=
  if !d.bodyOk then [ProfItem.error 500]
  else match pprofParse d.profile with
    | none => [ProfItem.error 500]
    | some p => profileSites p ++ [.onProfile (8 + 1 + 1 + 1 + 1 + 8 + 1 + 1 + p.typeBytes)]

/-- the decoder after the handler checked that the three parameters are present -/
def profileItems (fx : Fixes) (d : ProfileDoc) (from_ until_ : Option Nat) (n : ProfName) : List ProfItem :=
  profileHead fx d from_ until_ n ++ profileBody d

/-! ## Routes and requests -/

inductive Route
  | lokiJson | lokiProto | influx | otlpLogs | promWrite | elasticDoc | elasticBulk
  | zipkinJson | zipkinNd | otlpTraces | profile
  deriving DecidableEq, Repr

/-- request-level shape common to all routes (`WithOverallContextMiddleware`) -/
inductive Encoding | plain | gzipOk | gzipBadHeader | unsupported
  deriving DecidableEq, Repr

inductive Body
  | lokiJson (streams : List LokiStream) (tailBad : Bool)
  | lokiProto (unmarshalOk : Bool) (streams : List (LabelShape × Nat))
  | influx (precisionOk : Bool) (lines : List InfluxLine)
  | otlpLogs (unmarshalOk : Bool) (rs : List OtlpResourceLogs)
  | promWrite (unmarshalOk : Bool) (series : List Nat)
  | elasticDoc (hasId : Bool)
  | elasticBulk (lines : List BulkLine)
  | zipkin (spans : List ZSpan) (tailBad : Bool)
  | otlpTraces (unmarshalOk : Bool) (rs : List OtlpResourceSpans)
  | profile (contentTypeOk : Bool) (d : ProfileDoc)
  | garbage                              -- bytes of no shape the route's parser accepts
  deriving Repr

structure Doc where
  enc : Encoding
  body : Body
  deriving Repr

/-- flush threshold of the builders (1 MiB in the code; the theorems hold for every value) -/
def flushThreshold : Nat := 1024 * 1024

/-- status written by the route's post-request step -/
def Route.okStatus : Route → Nat
  | .lokiJson => 204 | .lokiProto => 204 | .influx => 204 | .otlpLogs => 204 | .promWrite => 204
  | .elasticDoc => 200 | .elasticBulk => 200
  | .zipkinJson => 202 | .zipkinNd => 202 | .otlpTraces => 200 | .profile => 200

/-- what the handler does with a request before it waits on the response channel -/
inductive Plan
  | reject (code : Nat)      -- a pre-request step returns an error: no parser is started
  | preParse (code : Nat)    -- a PreParse step fails: `go func() { p.res <- error; close(p.res) }()`
  | run (r : Run)            -- the parser goroutine runs the decoder
  deriving DecidableEq, Repr

/-- the decoder's work list for a request -/
inductive Items
  | reject (code : Nat)
  | preParse (code : Nat)
  | logs (is : List LogItem)
  | spans (is : List SpanItem)
  | prof (is : List ProfItem)
  deriving DecidableEq, Repr

def routeItems (fx : Fixes) (r : Route) (b : Body) : Items :=
  match r, b with
  | .lokiJson, .lokiJson ss t => .logs (lokiJsonItems ss t)
  | .lokiJson, _ => .logs [.error 400]
  | .lokiProto, .lokiProto true ss => .logs (lokiProtoItems ss)
  | .lokiProto, _ => .preParse 500                            -- proto.Unmarshal error from withParsedBody
  | .influx, .influx false _ => .reject 400                   -- "Invalid precision"
  | .influx, .influx true ls => .logs (influxItems ls)
  | .influx, _ => .logs [.error 400]
  | .otlpLogs, .otlpLogs true rs => .logs (otlpLogsItems rs)
  | .otlpLogs, _ => .preParse 500
  | .promWrite, .promWrite true ns => .logs (promItems ns 0)
  | .promWrite, _ => .preParse 500
  | .elasticDoc, .elasticDoc hasId => .logs [.entries (oneEntry (if hasId then 3 else 2) 1)]
  | .elasticDoc, _ => .logs [.entries (oneEntry 2 1)]         -- any bytes are the log line
  | .elasticBulk, .elasticBulk ls => .logs (bulkItems ls 0)
  | .elasticBulk, _ => .logs [.error 400]
  | .zipkinJson, .zipkin ss t => .spans (zipkinItems ss t)
  | .zipkinJson, _ => .spans [.error 400]
  | .zipkinNd, .zipkin ss _ => .spans (zipkinItems ss false)
  | .zipkinNd, _ => .spans [.error 400]
  | .otlpTraces, .otlpTraces true rs => .spans (otlpTracesItems rs)
  | .otlpTraces, _ => .preParse 500
  | .profile, .profile ctOk d =>
    match d.fromV, d.name, d.untilV with
    | some f, some n, some u => if ctOk then .prof (profileItems fx d f u n) else .reject 400
    | _, _, _ => .reject 500                                  -- "please provide from/name/until value"
  | .profile, _ => .reject 500

def Items.plan (fx : Fixes) (thr : Nat) : Items → Plan
  | .reject c => .reject c
  | .preParse c => .preParse c
  | .logs is => .run (logsRun fx thr is)
  | .spans is => .run (spansRun fx thr is)
  | .prof is => .run (profileRun fx thr is)

def routePlan (fx : Fixes) (thr : Nat) (r : Route) (b : Body) : Plan := (routeItems fx r b).plan fx thr

/-- the whole request with explicit flush threshold, environment and shared columns -/
def ingestFull (fx : Fixes) (thr : Nat) (env : Env) (r : Route) (d : Doc) (cols : Cols) : Outcome × Cols :=
  match d.enc with
  | .unsupported => (.status 400, cols)
  | .gzipBadHeader => (.status 500, cols)
  | _ =>
    match routePlan fx thr r d.body with
    | .reject code => (.status code, cols)
    | .preParse code => doParse fx env r.okStatus [.error code] 1 cols []
    | .run run => doParse fx env r.okStatus run.trace.msgs run.trace.closes cols []

def ingestWith (fx : Fixes) (r : Route) (d : Doc) : Outcome :=
  (ingestFull fx flushThreshold ⟨true⟩ r d .empty).1

/-- the ingest side as it is after the `fix:` commits -/
def ingest (r : Route) (d : Doc) : Outcome := ingestWith fixed r d

/-! ## Staleness of the hand-made placement (`Gen.BodyHashes` against `placedHashes`) -/

/-- functions whose body is not the one the fault sites were placed for, with their decoder group -/
def stalePlacements : List (String × String) :=
  Qryn.Gen.bodyHashes.filterMap (fun (k, g, hsh) =>
    match placedHashes.find? (fun p => p.1 == k) with
    | some p => if p.2 == hsh then none else some (k, g)
    | none => some (k, g))

end Qryn.IngestFaults
