/-! # Ingest.Batcher — the insert-service state machine with concrete rows (C01, C02). Core-only.

Mirrors, in /repo:
* `writer/service/genericInsertService.go` — `InsertServiceV2` (`Request`, `PlanFlush`, `swapBuffers`,
  `fetchLoopIteration`, `ping`, `Run`'s stop branch), `InsertServiceV2RoundRobin.Request`,
  `InsertServiceV2Multimodal.Request`;
* `writer/service/impl/*.go` — the six `ProcessRequest` closures, as *plans* executed column by column;
* `writer/utils/promise/promise.go` — `Done` is a compare-and-swap;
* `writer/controller/builder.go` — `doPush` (retry-go v3 `Do`), `doParse`, the status decision.

Conventions (DESIGN §4): code under one mutex hold is one atomic step; timers, the database and the
scheduler are the environment (`Op`); a Go panic in a goroutine without `recover` is `crashed`. -/
namespace Qryn.Ingest.Batcher

abbrev ReqId := Nat
/-- a column value. Values are opaque tokens: the model moves them, never inspects them. -/
abbrev Cell := Nat
abbrev Col := String × List Cell
/-- `[]IColPoolRes`: named append-only buffers, in acquirer (`serialize()/toIFace()`) order -/
abbrev Columns := List Col

inductive Outcome | ok | err
deriving DecidableEq, Repr

/-- the Go type of a request payload (the type asserted by each `ProcessRequest`) -/
inductive PType | timeSamplesData | timeSeriesData | tempoSamples | tempoTag | profileData
deriving DecidableEq, Repr

inductive Kind | samples | timeSeries | metrics | tempoSamples | tempoTags | profile
deriving DecidableEq, Repr

/-- one statement of a `ProcessRequest` body, in source order -/
inductive PStep
  /-- `for _, x := range req.F { col.Append(x) }` or `col.AppendArr(req.F)` -/
  | arr (col field : String)
  /-- inside `for i := range req.Lead`: `col.Append(req.F[i])` (index fault when `F` is shorter) -/
  | zip (col field lead : String)
  /-- `col.Append(req.F)` where `F` is one array value: exactly one row, whatever the other arrays hold -/
  | one (col field : String)
deriving DecidableEq, Repr

def PStep.col : PStep → String
  | .arr c _ => c | .zip c _ _ => c | .one c _ => c

structure Plan where
  /-- column list of the `INSERT INTO … (…)` statement -/
  insertCols : List String
  /-- names given to `Acquire(...)`, in `serialize()/toIFace()` order -/
  acquired : List String
  ptype : PType
  steps : List PStep
  /-- the column whose growth is returned as `inserted` -/
  countCol : String
deriving DecidableEq, Repr

def samplesPlan : Plan :=
  { insertCols := ["type", "fingerprint", "timestamp_ns", "string", "value"]
    acquired := ["type", "fingerprint", "timestamp_ns", "string", "value"]
    ptype := .timeSamplesData
    steps := [.arr "timestamp_ns" "MTimestampNS", .arr "fingerprint" "MFingerprint", .arr "type" "MType",
              .arr "value" "MValue", .arr "string" "MMessage"]
    countCol := "fingerprint" }

def timeSeriesPlan : Plan :=
  { insertCols := ["type", "date", "fingerprint", "labels"]
    acquired := ["type", "date", "fingerprint", "labels"]
    ptype := .timeSeriesData
    steps := [.arr "date" "MDate", .zip "labels" "MLabels" "MDate", .arr "fingerprint" "MFingerprint",
              .arr "type" "MType"]
    countCol := "date" }

def metricsPlan : Plan :=
  { insertCols := ["type", "fingerprint", "timestamp_ns", "value"]
    acquired := ["type", "fingerprint", "timestamp_ns", "value"]
    ptype := .timeSamplesData
    steps := [.arr "type" "MType", .arr "timestamp_ns" "MTimestampNS", .arr "fingerprint" "MFingerprint",
              .arr "value" "MValue"]
    countCol := "fingerprint" }

def tempoSamplesPlan : Plan :=
  { insertCols := ["trace_id", "span_id", "parent_id", "name", "timestamp_ns", "duration_ns", "service_name",
                   "payload_type", "payload"]
    acquired := ["trace_id", "span_id", "parent_id", "name", "timestamp_ns", "duration_ns", "service_name",
                 "payload_type", "payload"]
    ptype := .tempoSamples
    steps := [.arr "trace_id" "MTraceId", .arr "span_id" "MSpanId", .arr "timestamp_ns" "MTimestampNs",
              .arr "duration_ns" "MDurationNs", .arr "name" "MName", .arr "parent_id" "MParentId",
              .arr "payload" "MPayload", .arr "payload_type" "MPayloadType", .arr "service_name" "MServiceName"]
    countCol := "trace_id" }

def tempoTagsPlan : Plan :=
  { insertCols := ["date", "key", "val", "trace_id", "span_id", "timestamp_ns", "duration"]
    acquired := ["date", "key", "val", "trace_id", "span_id", "timestamp_ns", "duration"]
    ptype := .tempoTag
    steps := [.arr "trace_id" "MTraceId", .arr "span_id" "MSpanId", .arr "timestamp_ns" "MTimestampNs",
              .arr "duration" "MDurationNs", .arr "key" "MKey", .arr "val" "MVal", .arr "date" "MDate"]
    countCol := "date" }

def profilePlan : Plan :=
  { insertCols := ["timestamp_ns", "type", "service_name", "sample_types_units", "period_type", "period_unit",
                   "tags", "duration_ns", "payload_type", "payload", "values_agg", "tree", "functions"]
    acquired := ["timestamp_ns", "type", "service_name", "sample_types_units", "period_type", "period_unit",
                 "tags", "duration_ns", "payload_type", "payload", "values_agg", "tree", "functions"]
    ptype := .profileData
    steps := [.arr "timestamp_ns" "TimestampNs", .arr "duration_ns" "DurationNs", .arr "service_name" "ServiceName",
              .arr "type" "Ptype", .arr "payload_type" "PayloadType", .arr "period_unit" "PeriodUnit",
              .arr "period_type" "PeriodType", .arr "payload" "Payload",
              .one "sample_types_units" "SamplesTypesUnits", .one "tags" "Tags", .one "values_agg" "ValuesAgg",
              .one "functions" "Function", .one "tree" "Tree"]
    countCol := "timestamp_ns" }

def planOf : Kind → Plan
  | .samples => samplesPlan | .timeSeries => timeSeriesPlan | .metrics => metricsPlan
  | .tempoSamples => tempoSamplesPlan | .tempoTags => tempoTagsPlan | .profile => profilePlan

/-- a request as handed to `Request`: the payload's arrays by Go field name, its array-valued
    fields (profile) as single cells, and the `Size` the parser accounted for it -/
structure Req where
  id : ReqId
  ptype : PType
  arrays : List (String × List Cell) := []
  scalars : List (String × Cell) := []
  size : Nat := 0
deriving DecidableEq, Repr

def lookupD {β} (d : β) : List (String × β) → String → β
  | [], _ => d
  | (k, v) :: t, f => if k = f then v else lookupD d t f

def Req.arr (r : Req) (f : String) : List Cell := lookupD [] r.arrays f
def Req.sc (r : Req) (f : String) : Cell := lookupD 0 r.scalars f

/-- what one statement appends to its column -/
def cellsOf (r : Req) : PStep → List Cell
  | .arr _ f => r.arr f
  | .zip _ f lead => (r.arr f).take (r.arr lead).length
  | .one _ f => [r.sc f]

/-- `req.F[i]` with `i` ranging over a longer array: index out of range -/
def stepFaults (r : Req) : PStep → Bool
  | .zip _ f lead => (r.arr f).length < (r.arr lead).length
  | _ => false

def colData : Columns → String → List Cell
  | [], _ => []
  | (n, d) :: t, name => if n = name then d else colData t name

def appendCol : Columns → String → List Cell → Columns
  | [], _, _ => []
  | (n, d) :: t, name, xs => if n = name then (n, d ++ xs) :: t else (n, d) :: appendCol t name xs

def names (cs : Columns) : List String := cs.map (·.1)

def applySteps (r : Req) (steps : List PStep) (cs : Columns) : Columns :=
  steps.foldl (fun cs st => appendCol cs st.col (cellsOf r st)) cs

/-- `acquireColumns()`: fresh empty buffers -/
def acquire (p : Plan) : Columns := p.acquired.map (fun n => (n, []))

inductive Fault | indexOutOfRange
deriving DecidableEq, Repr

/-- result of `processRequest(req, columns)`: `(inserted, columns', err)`; `cols = none` is Go `nil` -/
structure PRes where
  inserted : Nat
  cols : Option Columns
  err : Bool
deriving DecidableEq, Repr

/-- a `ProcessRequest` closure. Wrong payload type: `return 0, nil, err` (the caller then stores the nil
    columns). Nil columns with the right type: `deserialize(res)` indexes `res[0]`. A fault is a panic in a
    goroutine nobody recovers; partial appends before it are unobservable. -/
def processRequest (p : Plan) (r : Req) (cols : Option Columns) : Except Fault PRes :=
  if r.ptype ≠ p.ptype then .ok ⟨0, none, true⟩
  else match cols with
    | none => .error .indexOutOfRange
    | some cs =>
      if p.steps.any (stepFaults r) then .error .indexOutOfRange
      else
        let cs' := applySteps r p.steps cs
        .ok ⟨(colData cs' p.countCol).length - (colData cs p.countCol).length, some cs', false⟩

def processRequest_samples := processRequest samplesPlan
def processRequest_timeSeries := processRequest timeSeriesPlan
def processRequest_metrics := processRequest metricsPlan
def processRequest_tempoSamples := processRequest tempoSamplesPlan
def processRequest_tempoTags := processRequest tempoTagsPlan
def processRequest_profile := processRequest profilePlan

/-! ## `promise.Promise` -/

/-- `pending = 1` is `none` -/
abbrev Promise := Option Outcome
/-- `Done`: `CompareAndSwap(&pending, 1, 0)` guards the assignment -/
def Promise.done (p : Promise) (o : Outcome) : Promise :=
  match p with
  | none => some o
  | some x => some x

/-! ## One `InsertServiceV2` -/

inductive Event
  | resolved (id : ReqId) (o : Outcome)
  /-- `client.Do` returned `o` for this block; `waiting` are the promises released with `o` right after -/
  | insert (block : Columns) (waiting : List ReqId) (o : Outcome)
  | crash
deriving DecidableEq, Repr

structure Portion where
  cols : Columns
  waiting : List ReqId
  size : Nat
deriving DecidableEq, Repr

structure Svc where
  plan : Plan
  maxQueue : Nat := 0
  cols : Option Columns                 -- svc.columns
  size : Nat := 0                       -- svc.size
  pending : List ReqId := []            -- svc.results
  flushPlanned : Bool := false          -- svc.insertCtx is done
  client : Bool := false                -- svc.client != nil
  inflight : Option Portion := none     -- between swapBuffers and the release of the waiting promises
  running : Bool := true                -- svc.running (Init sets it; Run's ctx.Done branch clears it)
  crashed : Bool := false               -- an un-recovered panic killed the process
deriving DecidableEq, Repr

/-- after `Init()` -/
def Svc.init (p : Plan) (maxQueue : Nat) : Svc :=
  { plan := p, maxQueue := maxQueue, cols := some (acquire p) }

inductive Trigger | timer | forced
deriving DecidableEq, Repr

inductive Op
  /-- `Request(req)`: one lock hold -/
  | request (r : Req)
  /-- the push interval elapsed / `PlanFlush()`; the size trigger is internal to `request` -/
  | trigger (k : Trigger)
  /-- `V3Session()` result, first thing of an iteration when there is no client -/
  | connect (ok : Bool)
  /-- `swapBuffers()` of an iteration -/
  | swap
  /-- `client.Do` returns; the waiting promises are released; the client is dropped on error -/
  | doResult (o : Outcome)
  /-- watchdog `ping()`; a failed ping drops the client -/
  | ping (ok : Bool)
  /-- `Run` sees `ctx.Done()` (after `Stop()`), clears `running` and returns -/
  | stop
deriving DecidableEq, Repr

def stepRequest (s : Svc) (r : Req) : Svc × List Event :=
  if !s.running then (s, [.resolved r.id .err])
  else match processRequest s.plan r s.cols with
    | .error _ => ({ s with crashed := true }, [.crash])
    | .ok res =>
      if res.err || res.inserted == 0 then
        ({ s with cols := res.cols }, [.resolved r.id (if res.err then .err else .ok)])
      else
        ({ s with cols := res.cols, size := s.size + r.size, pending := s.pending ++ [r.id],
                  flushPlanned := s.flushPlanned ||
                    (decide (s.maxQueue > 0) && decide (s.size + r.size > s.maxQueue)) }, [])

def stepConnect (s : Svc) (ok : Bool) : Svc × List Event :=
  if s.running && s.flushPlanned && !s.client && s.inflight.isNone then ({ s with client := ok }, []) else (s, [])

def stepSwap (s : Svc) : Svc × List Event :=
  if s.running && s.flushPlanned && s.client && s.inflight.isNone then
    if s.size = 0 then ({ s with flushPlanned := false }, [])
    else match s.cols with
      | none => ({ s with crashed := true }, [.crash])        -- `input[0]` of an empty Input
      | some cs =>
        ({ s with flushPlanned := false, cols := some (acquire s.plan), size := 0, pending := [],
                  inflight := some ⟨cs, s.pending, s.size⟩ }, [])
  else (s, [])

def stepDoResult (s : Svc) (o : Outcome) : Svc × List Event :=
  match s.inflight with
  | none => (s, [])
  | some p => ({ s with inflight := none, client := (o == .ok) },
               Event.insert p.cols p.waiting o :: p.waiting.map (fun id => Event.resolved id o))

def stepPing (s : Svc) (ok : Bool) : Svc × List Event :=
  if s.running && s.client && s.inflight.isNone && !ok then ({ s with client := false }, []) else (s, [])

def stepStop (s : Svc) : Svc × List Event :=
  if s.inflight.isNone then ({ s with running := false }, []) else (s, [])

/-- one atomic step of a sub-service. Nothing happens after a crash. -/
def step (s : Svc) (op : Op) : Svc × List Event :=
  if s.crashed then (s, []) else
  match op with
  | .request r => stepRequest s r
  | .trigger _ => ({ s with flushPlanned := true }, [])
  | .connect ok => stepConnect s ok
  | .swap => stepSwap s
  | .doResult o => stepDoResult s o
  | .ping ok => stepPing s ok
  | .stop => stepStop s

def run (s : Svc) : List Op → Svc × List Event
  | [] => (s, [])
  | op :: ops =>
    let r1 := step s op
    let r2 := run r1.1 ops
    (r2.1, r1.2 ++ r2.2)

/-! ## `InsertServiceV2RoundRobin` / `InsertServiceV2Multimodal` -/

inductive Mode | default | sync | async
deriving DecidableEq, Repr

structure Multi where
  /-- `SyncService.services` followed by `AsyncService.services` -/
  subs : List Svc
  nSync : Nat
deriving Repr

def Multi.init (p : Plan) (maxQueue svcNum : Nat) : Multi :=
  { subs := List.replicate (2 * svcNum) (Svc.init p maxQueue), nSync := svcNum }

/-- indices of the sub-services `RoundRobin.Request` draws from: those in state INSERTING if there is
    one, else the idle ones (a sub-service is INSERTING exactly while a portion is in flight) -/
def candidates (subs : List Svc) (lo hi : Nat) : List Nat :=
  let idx := (List.range hi).filter (fun i => lo ≤ i)
  let ins := idx.filter (fun i => match subs[i]? with | some s => s.inflight.isSome | none => false)
  if ins.isEmpty then idx else ins

inductive SysOp
  /-- `Multimodal.Request(req, mode)`; `pick` is the index `int(rand.Float64()*len)` into the candidates -/
  | request (mode : Mode) (pick : Nat) (r : Req)
  /-- something happens inside sub-service `i` (its own iteration, timer, watchdog, stop) -/
  | sub (i : Nat) (op : Op)
  /-- `Multimodal.PlanFlush()` -/
  | planFlush
deriving Repr

def stepAt (subs : List Svc) (i : Nat) (op : Op) : List Svc × List Event :=
  match subs[i]? with
  | none => (subs, [])
  | some s => let r := step s op; (subs.set i r.1, r.2)

/-- `INSERT_MODE_ASYNC` goes to the async group; every other mode (also the default one, on both
    branches of `if svc.AsyncInsert`) to the sync group -/
def Multi.range (m : Multi) (mode : Mode) : Nat × Nat :=
  if mode = .async then (m.nSync, m.subs.length) else (0, m.nSync)

def Multi.step (m : Multi) : SysOp → Multi × List Event
  | .request mode pick r =>
    match (candidates m.subs (m.range mode).1 (m.range mode).2)[pick]? with
    | none => (m, [])
    | some i => let r := stepAt m.subs i (.request r); ({ m with subs := r.1 }, r.2)
  | .sub i op =>
    match op with
    | .request _ => (m, [])      -- requests enter through `.request` only
    | _ => let r := stepAt m.subs i op; ({ m with subs := r.1 }, r.2)
  | .planFlush => ({ m with subs := m.subs.map (fun s => (Batcher.step s (.trigger .forced)).1) }, [])

def Multi.run (m : Multi) : List SysOp → Multi × List Event
  | [] => (m, [])
  | op :: ops =>
    let r1 := m.step op
    let r2 := Multi.run r1.1 ops
    (r2.1, r1.2 ++ r2.2)

/-! ## Handler level: `doPush`, `doParse`, the status -/

/-- retry-go v3 `Do(f, Attempts(n), FixedDelay)`, every error retryable: `out k` is the outcome of the
    promise of attempt `k`. Returns the result and the number of attempts made. `n = 0`: the loop body
    never runs and the (non-nil, empty) error log is returned. -/
def retryFrom (out : Nat → Outcome) : Nat → Nat → Outcome × Nat
  | 0, k => (.err, k)
  | n + 1, k => if out k = .ok then (.ok, k + 1) else retryFrom out n (k + 1)

/-- one `doPush(req, mode, svc)` -/
structure Push where
  hasReq : Bool            -- `req != nil`
  hasSvc : Bool            -- `svc != nil`
  out : Nat → Outcome      -- outcomes of the successive `svc.Request(req)` promises

def doPush (attempts : Nat) (p : Push) : Outcome × Nat :=
  if !p.hasReq || !p.hasSvc then (.ok, 0) else retryFrom p.out attempts 0

inductive Chunk
  | error                          -- `response.Error != nil`
  | response (pushes : List Push)  -- the five `doPush` calls

/-- `doParse`: a parser error returns at once; otherwise all promises are awaited in order and the first
    error is returned -/
def doParse (attempts : Nat) : List Chunk → List Outcome → Outcome
  | [], acc => if acc.all (· == .ok) then .ok else .err
  | .error :: _, _ => .err
  | .response ps :: rest, acc => doParse attempts rest (acc ++ ps.map (fun p => (doPush attempts p).1))

inductive Status | success | failure
deriving DecidableEq, Repr

/-- what `Build(...)`'s handler writes: `ErrorHandler` on error, the configured ok status otherwise.
    `pre = false`: a pre-request step (auth, body limits, service lookup) failed before parsing. -/
def handler (attempts : Nat) (pre : Bool) (chunks : List Chunk) : List Status :=
  if !pre then [.failure]
  else match doParse attempts chunks [] with
    | .ok => [.success]
    | .err => [.failure]

end Qryn.Ingest.Batcher
