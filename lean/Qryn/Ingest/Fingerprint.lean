import Qryn.Base.Bytes
import Qryn.Gen.Fingerprint
/-! Model of `fingerprintLabels` (writer/utils/unmarshal/unmarshal.go) over `BitVec 64`.

    ```go
    determs := []uint64{0, 0, 1}
    for _, lbl := range lbls {
        hash := cityhash102.Hash128to64(cityhash102.Uint128{city.CH64(name), city.CH64(value)})
        determs[0] = determs[0] + hash
        determs[1] = determs[1] ^ hash
        determs[2] = determs[2] * (1779033703 + 2*hash)
    }
    fingerByte := unsafe.Slice((*byte)(unsafe.Pointer(&determs[0])), 24)   // little endian
    fingerPrint = city.CH64(fingerByte)        // or the Bernstein hash, by configuration
    ```
    `city.CH64` is an uninterpreted parameter `ch : Bytes → W`; the outer hash is a second parameter
    `outer` (CH64 or DJB by configuration). `Hash128to64` is modelled exactly. Seeds, multiplier
    constants and `kMul` come from `Gen.Fingerprint` (regenerated from the source). Core-only. -/
namespace Qryn.Fp
open Qryn

abbrev W := BitVec 64

/-- `cityhash102.Hash128to64(Uint128{lo, hi})` -/
def hash128to64 (lo hi : W) : W :=
  let k := Gen.Fingerprint.kMul
  let a := (lo ^^^ hi) * k
  let a := a ^^^ (a >>> Gen.Fingerprint.shift)
  let b := (hi ^^^ a) * k
  let b := b ^^^ (b >>> Gen.Fingerprint.shift)
  b * k

/-- the three running values `determs[0..2]` -/
structure Acc where
  sum : W
  xor : W
  prod : W
deriving DecidableEq, Repr

def seed : Acc := ⟨Gen.Fingerprint.seedSum, Gen.Fingerprint.seedXor, Gen.Fingerprint.seedProd⟩

/-- one iteration of the loop for a label whose hash is `h` -/
def stepAcc (a : Acc) (h : W) : Acc :=
  ⟨a.sum + h, a.xor ^^^ h, a.prod * (Gen.Fingerprint.mulAdd + Gen.Fingerprint.mulScale * h)⟩

def determs (hs : List W) : Acc := hs.foldl stepAcc seed

/-- the 8 little-endian bytes of a word -/
def le64 (w : W) : Bytes := (List.range 8).map (fun i => UInt8.ofNat ((w.toNat >>> (8 * i)) % 256))

/-- `unsafe.Slice(&determs[0], 24)` on a little-endian machine -/
def accBytes (a : Acc) : Bytes := le64 a.sum ++ le64 a.xor ++ le64 a.prod

abbrev Label := Bytes × Bytes

/-- per-label hash: `Hash128to64(Uint128{CH64(name), CH64(value)})` -/
def labelHash (ch : Bytes → W) (l : Label) : W := hash128to64 (ch l.1) (ch l.2)

/-- `fingerprintLabels` with the inner hash `ch` (= city.CH64) and the configured outer hash -/
def fingerprintWith (ch outer : Bytes → W) (ls : List Label) : W :=
  outer (accBytes (determs (ls.map (labelHash ch))))

/-- the default configuration (`FINGERPRINT_CityHash`): outer hash = CH64 -/
def fingerprintLabels (ch : Bytes → W) (ls : List Label) : W := fingerprintWith ch ch ls

end Qryn.Fp
