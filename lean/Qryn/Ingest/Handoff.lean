import Qryn.Ingest.Batcher
/-! # Ingest.Handoff — from the parser's chunk buffers to `svc.Request(obj)` (C02). Core-only.

`Batcher` starts at `Request(req)` with the payload as a value. In Go the payload is a *pointer* to a
request object whose per-row fields are slices into backing arrays; the parser goroutine keeps filling
"the current chunk" while the chunks it has already sent wait in `doPush` goroutines, which submit them
later and re-submit the very same object after a failed INSERT. Whether the rows a submission appends are
the rows of that chunk as parsed depends on who may still write to those arrays. This module makes the
heap explicit. Mirrors, in /repo:

* `writer/utils/unmarshal/shared.go` — `timeSeriesAndSamples.flush` (send on the response channel),
  `reset` (how the next chunk's object and arrays are produced — a parameter `Cfg`, regenerated from the
  source as `Gen.ChunkReset`);
* `writer/utils/unmarshal/builder.go` — `onEntries` / `onSpan` / `onProfile`: `obj.F = append(obj.F, xs...)`
  statements on the *current* object (`append`), `obj.F = xs` (`assign`, profiles), the size test followed by
  `flush(); reset()` / `p.res <- …; p.resetSpans()` / `…; p.resetProfile()`;
* `writer/controller/builder.go` — `doParse` (one `doPush` per request object of a response), `doPush`
  (goroutine; `retry.Do` calling `svc.Request(req)` — the same pointer — until a promise succeeds or the
  attempts are used up).

Conventions: the response channel is unbuffered, so `flush` is the rendezvous of the parser's send and
`doParse`'s receive, which spawns the `doPush` goroutine (`Push`) at once; the goroutine's steps (`submit`,
`result`) are scheduled freely against the parser's. Go's `append` writes in place when the capacity
suffices and moves to a new array otherwise: which of the two happens is the environment's choice (`grow`),
a superset of what the runtime does. `submit` reads the whole object in one step; `Props.C02.handoff_frozen`
shows that under the discipline every handed-off object reads the same in *every* later state, so a read
spread over several steps sees the same rows. -/
namespace Qryn.Ingest.Handoff
open Qryn.Ingest.Batcher (Cell)

/-! Backing arrays and request objects are named by natural numbers (allocation order). -/

/-- a Go slice header: backing array and length -/
structure Slice where
  arr : Nat
  len : Nat
deriving DecidableEq, Repr

/-- a request object (`*model.TimeSamplesData`, …): its per-row array fields, in declaration order. The
    slice headers live in the object. -/
abbrev Obj := List (String × Slice)
/-- cells per field -/
abbrev Rows := List (String × List Cell)

/-- how `reset*()` produces one per-row array field of the next chunk's object -/
inductive FieldReset
  /-- `make(…)`, `nil`, a field left out of the composite literal: a backing array nobody else holds -/
  | fresh
  /-- `old.F[:0]` or any other expression built from the previous object's field: the same backing array -/
  | reslice
deriving DecidableEq, Repr

/-- where the next chunk's fields are stored -/
inductive ObjReset
  /-- `p.x = &T{…}`: a new object; the one handed off keeps its slice headers -/
  | newObj
  /-- fields of the object that was handed off are assigned in place -/
  | sameObj
deriving DecidableEq, Repr

structure Cfg where
  obj : ObjReset
  fields : List (String × FieldReset)
deriving DecidableEq, Repr

/-- **the discipline**: every reset makes a new object all of whose per-row arrays are fresh -/
def Cfg.disciplined (c : Cfg) : Bool :=
  c.obj == .newObj && c.fields.all (fun p => p.2 == .fresh)

def upd {β : Type} (m : Nat → β) (k : Nat) (v : β) : Nat → β := fun i => if i = k then v else m i

def getField {β : Type} : List (String × β) → String → Option β
  | [], _ => none
  | (k, x) :: t, f => if k = f then some x else getField t f

/-- first entry named `f` replaced -/
def setField {β : Type} : List (String × β) → String → β → List (String × β)
  | [], _, _ => []
  | (k, x) :: t, f, v => if k = f then (k, v) :: t else (k, x) :: setField t f v

def readSlice (h : Nat → List Cell) (s : Slice) : List Cell := (h s.arr).take s.len

/-- what a reader of the object sees now -/
def readRows (h : Nat → List Cell) (o : Obj) : Rows := o.map (fun p => (p.1, readSlice h p.2))

/-- elements `off …` of a backing array overwritten by `xs` (in-place `append` within the capacity) -/
def writeAt (a : List Cell) (off : Nat) (xs : List Cell) : List Cell :=
  a.take off ++ xs ++ a.drop (off + xs.length)

/-- one parser response's request object, with the rows it held when it was sent (ghost: the chunk *as parsed*) -/
structure Chunk where
  obj : Nat
  rows : Rows
deriving DecidableEq, Repr

/-- a `doPush` goroutine: the object it was given, attempts left, whether a promise is outstanding -/
structure Push where
  chunk : Nat
  obj : Nat
  left : Nat
  waiting : Bool := false
  done : Bool := false
deriving DecidableEq, Repr

/-- one `svc.Request(obj)` call: `id` = its promise (a retry is a new one), `read` = the rows it appended -/
structure Sub where
  id : Nat
  chunk : Nat
  read : Rows
deriving DecidableEq, Repr

structure St where
  heap : Nat → List Cell
  objs : Nat → Obj
  nextArr : Nat
  nextObj : Nat
  /-- the object the parser's pointer (`p.tsSpl.spl`, `p.spans`, …) refers to -/
  cur : Nat
  /-- false between a flush and the reset that follows it -/
  filling : Bool
  /-- ghost: what the parser appended since the last reset -/
  curRows : Rows
  chunks : List Chunk
  pushes : List Push
  subs : List Sub

inductive HOp
  /-- `cur.F = append(cur.F, xs...)`; `grow`: the runtime moves the slice to a new array -/
  | append (f : String) (xs : List Cell) (grow : Bool)
  /-- `cur.F = xs` (profile: `p.profile.Tags = tags`) -/
  | assign (f : String) (xs : List Cell)
  /-- the response is sent and received; `doParse` starts `doPush(obj)` -/
  | flush
  /-- `reset()` / `resetSpans()` / `resetProfile()` -/
  | reset
  /-- goroutine `j` calls `svc.Request(obj)` -/
  | submit (j : Nat)
  /-- its promise completes -/
  | result (j : Nat) (ok : Bool)
deriving DecidableEq, Repr

/-- the fields of the next chunk's object -/
def resetFields (old : Obj) : List (String × FieldReset) → Nat → Obj × Nat
  | [], n => ([], n)
  | (f, .fresh) :: t, n => let r := resetFields old t (n + 1); ((f, ⟨n, 0⟩) :: r.1, r.2)
  | (f, .reslice) :: t, n =>
    let r := resetFields old t n
    ((f, ⟨((getField old f).getD ⟨n, 0⟩).arr, 0⟩) :: r.1, r.2)

def emptyRows (fs : List (String × FieldReset)) : Rows := fs.map (fun p => (p.1, []))

def doReset (cfg : Cfg) (s : St) : St :=
  let r := resetFields (s.objs s.cur) cfg.fields s.nextArr
  match cfg.obj with
  | .newObj => { s with objs := upd s.objs s.nextObj r.1, cur := s.nextObj, nextObj := s.nextObj + 1,
                        nextArr := r.2, filling := true, curRows := emptyRows cfg.fields }
  | .sameObj => { s with objs := upd s.objs s.cur r.1, nextArr := r.2, filling := true,
                         curRows := emptyRows cfg.fields }

/-- after `newTimeSeriesAndSamples` / `resetSpans()` / `resetProfile()` at the start of `doParse*` -/
def init (cfg : Cfg) : St :=
  doReset { obj := .newObj, fields := cfg.fields.map (fun p => (p.1, .fresh)) }
    { heap := fun _ => [], objs := fun _ => [], nextArr := 0, nextObj := 0, cur := 0, filling := false,
      curRows := [], chunks := [], pushes := [], subs := [] }

/-- ghost: the cells of field `f` after `xs` were appended -/
def appendCells (rows : Rows) (f : String) (xs : List Cell) : List Cell := (getField rows f).getD [] ++ xs

/-- field `f` of the current object now is the slice `⟨b, n⟩`, array `b` holds `c`; the chunk as parsed
    holds `v` for `f`; `nb` is the next unused array id -/
def writeField (s : St) (f : String) (b : Nat) (c : List Cell) (n : Nat) (v : List Cell) (nb : Nat) : St :=
  { s with heap := upd s.heap b c, objs := upd s.objs s.cur (setField (s.objs s.cur) f ⟨b, n⟩), nextArr := nb,
           curRows := setField s.curRows f v }

def stepAppend (s : St) (f : String) (xs : List Cell) (grow : Bool) : St :=
  if !s.filling then s else
  match getField (s.objs s.cur) f with
  | none => s
  | some sl =>
    if grow then
      writeField s f s.nextArr (readSlice s.heap sl ++ xs) (sl.len + xs.length) (appendCells s.curRows f xs) (s.nextArr + 1)
    else
      writeField s f sl.arr (writeAt (s.heap sl.arr) sl.len xs) (sl.len + xs.length) (appendCells s.curRows f xs) s.nextArr

def stepAssign (s : St) (f : String) (xs : List Cell) : St :=
  if !s.filling then s else
  match getField (s.objs s.cur) f with
  | none => s
  | some _ => writeField s f s.nextArr xs xs.length xs (s.nextArr + 1)

def stepFlush (attempts : Nat) (s : St) : St :=
  if !s.filling then s else
  { s with filling := false, chunks := s.chunks ++ [⟨s.cur, s.curRows⟩],
           pushes := s.pushes ++ [{ chunk := s.chunks.length, obj := s.cur, left := attempts }] }

def stepSubmit (s : St) (j : Nat) : St :=
  match s.pushes[j]? with
  | none => s
  | some p =>
    if p.done || p.waiting || p.left = 0 then s else
    { s with pushes := s.pushes.set j { p with waiting := true },
             subs := s.subs ++ [⟨s.subs.length, p.chunk, readRows s.heap (s.objs p.obj)⟩] }

def stepResult (s : St) (j : Nat) (ok : Bool) : St :=
  match s.pushes[j]? with
  | none => s
  | some p =>
    if !p.waiting then s else
    { s with pushes := s.pushes.set j (if ok then { p with waiting := false, done := true }
                                       else { p with waiting := false, left := p.left - 1 }) }

/-- `attempts`: `SYSTEM_SETTINGS.RetryAttempts` -/
def step (cfg : Cfg) (attempts : Nat) (s : St) : HOp → St
  | .append f xs g => stepAppend s f xs g
  | .assign f xs => stepAssign s f xs
  | .flush => stepFlush attempts s
  | .reset => if s.filling then s else doReset cfg s
  | .submit j => stepSubmit s j
  | .result j ok => stepResult s j ok

def run (cfg : Cfg) (attempts : Nat) (ops : List HOp) : St := ops.foldl (step cfg attempts) (init cfg)

/-- a place where a response carrying request objects is sent (regenerated: `Gen.ChunkReset.flushSites`):
    the request types sent, the call that follows (`close` = the channel is closed, nothing is parsed any
    more) and the request types whose current pointer that call re-creates -/
structure FlushSite where
  fn : String
  sent : List String
  next : String
  resets : List String
deriving DecidableEq, Repr

/-- after the send the parser either stops or resets every object it has just handed off -/
def FlushSite.ok (s : FlushSite) : Bool := s.next == "close" || s.sent.all (fun t => s.resets.contains t)

/-- the chunk a submission belongs to, as parsed -/
def St.chunkOf (s : St) (sub : Sub) : Rows := (s.chunks[sub.chunk]?.map (·.rows)).getD []

/-- the rows, as parsed, of the chunk submitted under promise `id` -/
def St.parsedOf (s : St) (id : Nat) : Rows := (s.subs[id]?.map s.chunkOf).getD []

/-- the payload `svc.Request` sees when the object reads as `rows`: per-row arrays by Go field name; the
    array-valued fields of a profile (`.one` statements of the plan) as their single cell. `Size` (an int
    inside the object, accounted by the parser: a positive amount per row) is represented by the number of
    cells — only whether it is zero matters to the batcher. -/
def reqOfRows (pt : Batcher.PType) (id : Nat) (rows : Rows) : Batcher.Req :=
  { id := id, ptype := pt, arrays := rows,
    scalars := rows.filterMap (fun p => p.2.head?.map (fun c => (p.1, c))),
    size := (rows.map (fun p => p.2.length)).sum }

/-- what submission `sub` handed to the insert service -/
def Sub.req (pt : Batcher.PType) (sub : Sub) : Batcher.Req := reqOfRows pt sub.id sub.read

end Qryn.Ingest.Handoff
