import Qryn.Ingest.BatcherSpec
/-! # Ingest.BatcherLocks — the critical sections of `InsertServiceV2`, and the batcher with `swapBuffers`
as a SEQUENCE of lock holds (C01, C02). Core-only.

`Ingest.Batcher` treats the code under one hold of `svc.mtx` as one atomic step (`stepRequest`, `stepSwap`).
This file ties that convention to the source and shows what it is worth:

* `Method`/`Seg`/`Access`: what `Gen.BatcherLocks.methods` is made of — per method of `*InsertServiceV2`, in source
  order, its holds (`Lock … Unlock`, deferred unlock included) and free stretches with the fields read/written;
* `Move`/`ReqSeg`/`IterEv`: `swapBuffers`, `Request` and `fetchLoopIteration` statement by statement
  (`Gen.BatcherLocks.swapProgram`, `requestProgram`, `iterationProgram`);
* `atomicSwap`: the decidable predicate on these facts that the atomic-step convention needs;
* `MSvc`/`mstep`/`mrun`: the sub-service where `swapBuffers` runs hold by hold (`MOp.hold`), requests and flush
  triggers of other goroutines interleaving freely between two holds. `Proofs/BatcherLocks` proves that for every
  program satisfying `atomicProg` each micro run has exactly the events of a run of the atomic machine
  (`mrun_refines`), and `Props/C02` exhibits the run of the two-hold split that does not. -/
namespace Qryn.Ingest.BatcherLocks
open Qryn.Ingest.Batcher

/-! ## the regenerated facts -/

structure Access where
  reads : List String
  writes : List String
  calls : List String
deriving DecidableEq, Repr

inductive Seg
  /-- between `svc.mtx.Lock()` and the matching unlock -/
  | hold (a : Access)
  /-- outside any hold -/
  | free (a : Access)
deriving DecidableEq, Repr

structure Method where
  name : String
  segs : List Seg
deriving DecidableEq, Repr

/-- one statement (group) of `swapBuffers` -/
inductive Move
  /-- `svc.insertCtx, svc.insertCancel = context.WithTimeout(…)` -/
  | renew
  /-- `if svc.size == 0 { return nil, nil }` -/
  | checkEmpty
  /-- `columns := svc.columns; svc.columns = <fresh buffers>` -/
  | takeCols
  /-- `size := svc.size; svc.size = 0` -/
  | takeSize
  /-- `results := svc.results; svc.results = nil` -/
  | takeResults
  /-- a statement on fields outside the model (`svc.lastSend = time.Now()`) -/
  | other
deriving DecidableEq, Repr

inductive ReqMove
  /-- `if !svc.running { p.Done(0, "service stopped"); return p }` -/
  | stoppedCheck
  /-- `inserted, svc.columns, err = svc.processRequest(req, svc.columns)` -/
  | process
  /-- `if err != nil || inserted == 0 { p.Done(0, err); return }` -/
  | earlyDone
  /-- `svc.size += size` -/
  | bookSize
  /-- `if svc.maxQueueSize > 0 && svc.size > svc.maxQueueSize { svc.insertCancel() }` -/
  | sizeTrigger
  /-- `svc.results = append(svc.results, p)` -/
  | bookPromise
deriving DecidableEq, Repr

inductive ReqSeg
  | hold (ms : List ReqMove)
  | free (ms : List ReqMove)
deriving DecidableEq, Repr

/-- the effects of `fetchLoopIteration` in source order -/
inductive IterEv
  | connectIfNil | swap | returnIfNoPortion | onBeforeInsert | copyWaiting | defRelease | buildInput
  | stateInserting | deferStateIdle | firstColumnRows | doInsert | stampLastRequest | releaseWithDoError
  | dropClientOnError
deriving DecidableEq, Repr

/-! ## what the atomic-step convention needs of them -/

/-- the batch: the three fields that `Request` fills and `swapBuffers` hands over -/
def batchFields : List String := ["columns", "results", "size"]

def Access.touches (a : Access) (f : String) : Bool := a.reads.contains f || a.writes.contains f

def Access.touchesBatch (a : Access) : Bool := batchFields.any a.touches

def Seg.access : Seg → Access
  | .hold a => a
  | .free a => a

def Seg.isHold : Seg → Bool
  | .hold _ => true
  | .free _ => false

/-- no method reads or writes a batch field outside a hold -/
def noFreeBatchAccess (ms : List Method) : Bool :=
  ms.all (fun m => m.segs.all (fun s => s.isHold || !s.access.touchesBatch))

/-- the holds of a method that touch the batch -/
def batchHolds (m : Method) : List Access :=
  (m.segs.filter (fun s => s.isHold && s.access.touchesBatch)).map Seg.access

def findMethod (ms : List Method) (name : String) : Option Method := ms.find? (·.name = name)

/-- the method touches the batch in exactly one hold, which writes all three fields -/
def oneBatchHold (ms : List Method) (name : String) : Bool :=
  match findMethod ms name with
  | none => false
  | some m =>
    match batchHolds m with
    | [a] => batchFields.all (fun f => a.writes.contains f)
    | _ => false

/-- moves with an effect on the model state -/
def Move.effective : Move → Bool
  | .other => false
  | _ => true

/-- a hold of `swapBuffers` that does the whole swap: renew the context, return early on an empty batch, then take
    columns, size and results (in any order, other statements in between) -/
def mainHold (h : List Move) : Bool :=
  match h.filter Move.effective with
  | .renew :: .checkEmpty :: rest =>
    rest.length == 3 && rest.contains .takeCols && rest.contains .takeSize && rest.contains .takeResults
  | _ => false

def inertHold (h : List Move) : Bool := h.all (fun m => !m.effective)

/-- `swapBuffers` takes and replaces results, size and columns inside ONE hold; its other holds (if any) touch
    nothing the model knows -/
def atomicProg (prog : List (List Move)) : Bool :=
  match prog.dropWhile inertHold with
  | main :: post => mainHold main && post.all inertHold
  | [] => false

/-- `Request` as `stepRequest` mirrors it: the stopped check outside the lock, then ONE hold that appends the
    rows (`processRequest` into `svc.columns`), completes at once on error / nothing inserted, books the size,
    plans the size-triggered flush and books the promise -/
def requestAsModelled : List ReqSeg :=
  [.free [.stoppedCheck], .hold [.process, .earlyDone, .bookSize, .sizeTrigger, .bookPromise]]

/-- `fetchLoopIteration` as `stepConnect`/`stepSwap`/`stepDoResult` mirror it -/
def iterationAsModelled : List IterEv :=
  [.connectIfNil, .swap, .returnIfNoPortion, .onBeforeInsert, .copyWaiting, .defRelease, .buildInput, .stateInserting,
   .deferStateIdle, .firstColumnRows, .doInsert, .stampLastRequest, .releaseWithDoError, .dropClientOnError]

/-- **atomicSwap**: everything "code under one hold of `svc.mtx` is one atomic step" rests on, as a decidable
    predicate of the regenerated facts -/
def atomicSwap (ms : List Method) (swap : List (List Move)) (req : List ReqSeg) : Bool :=
  noFreeBatchAccess ms && oneBatchHold ms "swapBuffers" && oneBatchHold ms "Request" && atomicProg swap &&
  (req == requestAsModelled)

/-! ## the sub-service with `swapBuffers` hold by hold -/

/-- the locals of a `swapBuffers` call in progress -/
structure Local where
  cols : Option (Option Columns) := none
  waiting : Option (List ReqId) := none
  size : Option Nat := none
deriving DecidableEq, Repr

structure MSvc where
  s : Svc
  /-- `some k`: the flusher is inside `swapBuffers`, about to take hold `k` -/
  pc : Option Nat := none
  loc : Local := {}
deriving DecidableEq, Repr

inductive HoldRes
  | cont (s : Svc) (l : Local)
  /-- `return nil, nil` -/
  | ret (s : Svc)
  /-- the columns taken are Go `nil`: the iteration faults on `input[0]` (placed here, as in `stepSwap`) -/
  | crash (s : Svc)
deriving DecidableEq, Repr

/-- one hold of `swapBuffers`, move by move -/
def execMoves : List Move → Svc → Local → HoldRes
  | [], s, l => .cont s l
  | .other :: t, s, l => execMoves t s l
  | .renew :: t, s, l => execMoves t { s with flushPlanned := false } l
  | .checkEmpty :: t, s, l => if s.size = 0 then .ret s else execMoves t s l
  | .takeCols :: t, s, l =>
    match s.cols with
    | none => .crash { s with crashed := true }
    | some cs => execMoves t { s with cols := some (acquire s.plan) } { l with cols := some (some cs) }
  | .takeSize :: t, s, l => execMoves t { s with size := 0 } { l with size := some s.size }
  | .takeResults :: t, s, l => execMoves t { s with pending := [] } { l with waiting := some s.pending }

/-- `&requestPortion{columns, results, size}` becomes the portion in flight -/
def finish (s : Svc) (l : Local) : Svc × List Event :=
  match l.cols with
  | some (some cs) => ({ s with inflight := some ⟨cs, l.waiting.getD [], l.size.getD 0⟩ }, [])
  | _ => ({ s with crashed := true }, [.crash])

inductive MOp
  | request (r : Req)
  | trigger (k : Trigger)
  | connect (ok : Bool)
  /-- the flusher takes the next hold of `swapBuffers` (the first one: it enters `swapBuffers`) -/
  | hold
  | doResult (o : Outcome)
  | ping (ok : Bool)
  | stop
deriving DecidableEq, Repr

/-- the guard of `stepSwap`: `Run` took the `insertCtx.Done()` branch with a client and nothing in flight -/
def swapEnabled (s : Svc) : Bool := s.running && s.flushPlanned && s.client && s.inflight.isNone

/-- what happens after hold `k` has run -/
def afterHold (prog : List (List Move)) (k : Nat) : HoldRes → MSvc × List Event
  | .ret s => ({ s := s, pc := none, loc := {} }, [])
  | .crash s => ({ s := s, pc := none, loc := {} }, [.crash])
  | .cont s l =>
    if k + 1 < prog.length then ({ s := s, pc := some (k + 1), loc := l }, [])
    else let r := finish s l; ({ s := r.1, pc := none, loc := {} }, r.2)

def mstepHold (prog : List (List Move)) (m : MSvc) : MSvc × List Event :=
  if m.pc.isNone && !swapEnabled m.s then (m, [])
  else match prog[m.pc.getD 0]? with
    | none => ({ m with pc := none, loc := {} }, [])          -- past the end of the program: nothing happens
    | some h => afterHold prog (m.pc.getD 0) (execMoves h m.s m.loc)

/-- one step. Requests and triggers come from other goroutines and are always possible; connect, the `Do` result,
    the watchdog ping and the stop branch are the flusher's own (`Run` is sequential): not while it is inside
    `swapBuffers`. Nothing happens after a crash. -/
def mstep (prog : List (List Move)) (m : MSvc) (op : MOp) : MSvc × List Event :=
  if m.s.crashed then (m, []) else
  match op with
  | .request r => let x := stepRequest m.s r; ({ m with s := x.1 }, x.2)
  | .trigger _ => ({ m with s := { m.s with flushPlanned := true } }, [])
  | .hold => mstepHold prog m
  | .connect ok => if m.pc.isNone then let x := stepConnect m.s ok; ({ m with s := x.1 }, x.2) else (m, [])
  | .doResult o => if m.pc.isNone then let x := stepDoResult m.s o; ({ m with s := x.1 }, x.2) else (m, [])
  | .ping ok => if m.pc.isNone then let x := stepPing m.s ok; ({ m with s := x.1 }, x.2) else (m, [])
  | .stop => if m.pc.isNone then let x := stepStop m.s; ({ m with s := x.1 }, x.2) else (m, [])

def mrun (prog : List (List Move)) (m : MSvc) : List MOp → MSvc × List Event
  | [] => (m, [])
  | op :: ops =>
    let r1 := mstep prog m op
    let r2 := mrun prog r1.1 ops
    (r2.1, r1.2 ++ r2.2)

/-- index of the hold that does the swap -/
def mainIdx (prog : List (List Move)) : Nat := (prog.takeWhile inertHold).length

/-- the atomic ops a micro step stands for -/
def absStep (prog : List (List Move)) (m : MSvc) (op : MOp) : List Op :=
  if m.s.crashed then [] else
  match op with
  | .request r => [.request r]
  | .trigger k => [.trigger k]
  | .hold =>
    if m.pc.isNone && !swapEnabled m.s then []
    else if m.pc.getD 0 = mainIdx prog then [.swap] else []
  | .connect ok => if m.pc.isNone then [.connect ok] else []
  | .doResult o => if m.pc.isNone then [.doResult o] else []
  | .ping ok => if m.pc.isNone then [.ping ok] else []
  | .stop => if m.pc.isNone then [.stop] else []

/-- the atomic run a micro run stands for -/
def absRun (prog : List (List Move)) (m : MSvc) : List MOp → List Op
  | [] => []
  | op :: ops => absStep prog m op ++ absRun prog (mstep prog m op).1 ops

def MSvc.init (p : Plan) (maxQueue : Nat) : MSvc := { s := Svc.init p maxQueue }

def mrequestIds : List MOp → List ReqId
  | [] => []
  | .request r :: t => r.id :: mrequestIds t
  | _ :: t => mrequestIds t

def MWellFormed (R : ReqId → Req) : MOp → Prop
  | .request r => r = R r.id
  | _ => True


/-! ## `Request` with its unlocked check of `svc.running`

`Request` reads `svc.running` BEFORE it takes the lock (`requestProgram`: `.free [.stoppedCheck]`). A call that passed
the check just before `Run`'s stop branch cleared the flag runs its hold on a stopped service: `LOp.late`. -/

/-- the hold of `Request` on a service whose `running` the caller saw `true` earlier -/
def stepRequestLate (s : Svc) (r : Req) : Svc × List Event :=
  let x := stepRequest { s with running := true } r
  ({ x.1 with running := s.running }, x.2)

inductive LOp
  | op (o : Op)
  /-- the hold of a `Request` whose stopped check ran (and passed) before the service stopped -/
  | late (r : Req)
deriving DecidableEq, Repr

def lstep (s : Svc) : LOp → Svc × List Event
  | .op o => step s o
  | .late r => if s.crashed then (s, []) else stepRequestLate s r

def lrun (s : Svc) : List LOp → Svc × List Event
  | [] => (s, [])
  | op :: ops =>
    let r1 := lstep s op
    let r2 := lrun r1.1 ops
    (r2.1, r1.2 ++ r2.2)

def LWellFormed (R : ReqId → Req) : LOp → Prop
  | .op o => WellFormed R o
  | .late r => r = R r.id

/-- the promise a step hands out, if any -/
def LOp.reqId : LOp → Option ReqId
  | .op (.request r) => some r.id
  | .late r => some r.id
  | _ => none

end Qryn.Ingest.BatcherLocks
