import Qryn.Ingest.Builder
/-! The seven log/metric decoders of writer/utils/unmarshal as the sequence of `onEntries` calls they make,
    starting from the DECODED DOCUMENT of each protocol (jx / protobuf / snappy / the telegraf line-protocol
    parser / text/scanner / regexp are third-party and stand behind the document; the harness always goes through
    the real bytes). Core-only.

    unmarshal.go (`pushRequestDec`), logsProtobuf.go, metricsProtobuf.go, influxUnmarshal.go,
    datadogJsonUnmarshal.go, datadogMetricsJsonUnmarshal.go, otlplogs.go. -/
namespace Qryn.Ingest

/-- `int64(x)` wrap-around of an integer computed in int64 arithmetic -/
def wrap64 (x : Int) : Int := (x + 9223372036854775808) % 18446744073709551616 - 9223372036854775808

/-! ### Loki JSON push (`pushRequestDec`) -/

/-- one element of `values` (`["<ns>", "<line>", <number>?]`) or of `entries` (`{"ts"|"timestamp", "line", "value"}`):
    the timestamp (integer string or RFC 3339, already an instant), the line if present, the number if present
    (a third element that is not a JSON number — Loki's structured metadata — is skipped by the decoder). -/
structure LokiEntry where
  ts : Int
  line : Option Bytes
  val : Option UInt64
  deriving Repr

structure LokiStream where
  labels : Labels            -- members of `stream`, or the pairs of the `labels` text, in document order
  entries : List LokiEntry
  deriving Repr

abbrev LokiDoc := List LokiStream

/-- `tp |= SAMPLE_TYPE_LOG` when a line was read, `tp |= SAMPLE_TYPE_METRIC` when a number was read,
    `if tp == 3 { tp = 0 }` -/
def lokiTypeB (hasLine hasVal : Bool) : Nat :=
  let tp := (if hasLine then Gen.sampleTypeLog else 0) ||| (if hasVal then Gen.sampleTypeMetric else 0)
  if tp = Gen.typeCollapseFrom then Gen.typeCollapseTo else tp

def lokiType (line : Option Bytes) (val : Option UInt64) : Nat := lokiTypeB line.isSome val.isSome

def LokiEntry.entry (e : LokiEntry) : Entry := ⟨e.ts, e.line.getD [], e.val.getD 0, lokiType e.line e.val⟩

def LokiStream.ident (s : LokiStream) : Labels := sanitizeLabels s.labels
def LokiStream.sub (s : LokiStream) : List Entry := s.entries.map LokiEntry.entry

def decodeLoki (d : LokiDoc) : List Call := d.map (fun s => Call.ofEntries s.ident s.sub)

/-! ### Loki protobuf push (`logsProtoDec`) -/

structure ProtoEntry where
  sec : Int
  nanos : Int
  line : Bytes
  deriving Repr

structure ProtoStream where
  labels : Labels            -- pairs of the `labels` text (`parseLabelsLokiFormat`)
  entries : List ProtoEntry
  deriving Repr

abbrev LokiProto := List ProtoStream

def ProtoEntry.entry (e : ProtoEntry) : Entry :=
  ⟨wrap64 (wrap64 (e.sec * 1000000000) + e.nanos), e.line, 0, Gen.sampleTypeLog⟩

def ProtoStream.ident (s : ProtoStream) : Labels := sanitizeLabels s.labels
def ProtoStream.sub (s : ProtoStream) : List Entry := s.entries.map ProtoEntry.entry

/-- per stream: `tsns`, `msgs` filled by index, `make([]float64, n)`, `fastFillArray(n, SAMPLE_TYPE_LOG)` -/
def decodeProto (d : LokiProto) : List Call :=
  d.map (fun s =>
    ⟨s.ident, s.sub.map (·.ts), s.sub.map (·.line), fastFill s.entries.length 0, fastFill s.entries.length Gen.sampleTypeLog⟩)

/-! ### Prometheus remote write (`promMetricsProtoDec`) -/

structure PromSample where
  tsMs : Int
  val : UInt64
  deriving Repr

structure PromSeries where
  labels : Labels
  samples : List PromSample
  deriving Repr

abbrev PromWrite := List PromSeries

def PromSample.entry (s : PromSample) : Entry := ⟨wrap64 (s.tsMs * 1000000), [], s.val, Gen.sampleTypeMetric⟩

def PromSeries.ident (s : PromSeries) : Labels := sanitizeLabels s.labels
def PromSeries.sub (s : PromSeries) : List Entry := s.samples.map PromSample.entry

/-- the call both flush sites make (after the fix the type array has the length of the samples flushed) -/
def promCall (labels : Labels) (buf : List PromSample) : Call :=
  ⟨labels, buf.map (fun s => (PromSample.entry s).ts), buf.map (fun _ => []), buf.map (·.val),
   fastFill buf.length Gen.sampleTypeMetric⟩

/-- the sample loop of one series: `points` is the counter that survives from series to series,
    `buf` the samples appended since the last flush of this series -/
def promSamples (hit : Nat → Bool) (labels : Labels) : Nat → List PromSample → List PromSample → List Call × Nat
  | points, buf, [] => (if buf.isEmpty then [] else [promCall labels buf], points)
  | points, buf, s :: rest =>
    if hit (points + 1) then                       -- points++; if points >= flushLimit
      let r := promSamples hit labels 0 [] rest
      (promCall labels (buf ++ [s]) :: r.1, r.2)
    else promSamples hit labels (points + 1) (buf ++ [s]) rest

def promSeriesList (hit : Nat → Bool) : Nat → List PromSeries → List Call
  | _, [] => []
  | points, s :: rest =>
    let r := promSamples hit s.ident points [] s.samples
    r.1 ++ promSeriesList hit r.2 rest

/-- `hit` = the test on the point counter that flushes the open series (today `points >= 1000`) -/
def decodeProm (hit : Nat → Bool) (d : PromWrite) : List Call := promSeriesList hit 0 d

/-! ### Influx line protocol (`influxDec`) -/

def measurementName : Bytes := [109, 101, 97, 115, 117, 114, 101, 109, 101, 110, 116]   -- "measurement"
def nameLabel : Bytes := [95, 95, 110, 97, 109, 101, 95, 95]                              -- "__name__"

inductive InfluxKind
  /-- the point has a `message` field: one log entry whose line is `getMessage(fields)` -/
  | log (line : Bytes)
  /-- otherwise one metric entry per int/uint/float field (`none` = a string or boolean field, skipped),
      in the order the Go map iteration happened to take -/
  | metric (fields : List (Bytes × Option UInt64))
  deriving Repr

structure InfluxPoint where
  name : Bytes
  tags : Labels
  ts : Int
  kind : InfluxKind
  deriving Repr

abbrev InfluxPoints := List InfluxPoint

def InfluxPoint.base (p : InfluxPoint) : Labels := sanitizeLabels ((measurementName, p.name) :: p.tags)

/-- the (stream identity, entries) pairs a point submits -/
def InfluxPoint.streams (p : InfluxPoint) : List (Labels × List Entry) :=
  match p.kind with
  | .log line => [(p.base, [⟨p.ts, line, 0, Gen.sampleTypeLog⟩])]
  | .metric fields =>
    fields.filterMap (fun f => f.2.map (fun v =>
      (p.base ++ [(nameLabel, sanitizeName f.1)], [⟨p.ts, [], v, Gen.sampleTypeMetric⟩])))

def decodeInflux (d : InfluxPoints) : List Call :=
  d.flatMap (fun p => p.streams.map (fun s => Call.ofEntries s.1 s.2))

/-! ### Datadog logs (`datadogRequestDec`) -/

structure DDLog where
  tags : Labels              -- matches of `tagPattern` in `ddtags`
  source : Bytes
  service : Bytes
  hostname : Bytes
  sourceType : Bytes
  message : Bytes
  tsMs : Int
  deriving Repr

abbrev DatadogLogs := List DDLog

def ddFixed (e : DDLog) : Labels :=
  [([100, 100, 115, 111, 117, 114, 99, 101] /-ddsource-/, e.source), ([115, 101, 114, 118, 105, 99, 101] /-service-/, e.service), ([104, 111, 115, 116, 110, 97, 109, 101] /-hostname-/, e.hostname),
   ([115, 111, 117, 114, 99, 101, 95, 116, 121, 112, 101] /-source_type-/, e.sourceType), ([116, 121, 112, 101] /-type-/, [100, 97, 116, 97, 100, 111, 103] /-datadog-/)]

/-- no `sanitizeLabels` on this path -/
def DDLog.ident (e : DDLog) : Labels := e.tags ++ (ddFixed e).filter (fun l => l.2 ≠ [])

/-- `t := time.Now(); if TsMs != 0 { t = time.Unix(TsMs/1000, TsMs%1000*1000000) }; t.UnixNano()` -/
def ddTs (now : Int) (tsMs : Int) : Int :=
  if tsMs = 0 then now else wrap64 (Int.tdiv tsMs 1000 * 1000000000 + Int.tmod tsMs 1000 * 1000000)

def DDLog.sub (now : Int) (e : DDLog) : List Entry := [⟨ddTs now e.tsMs, e.message, 0, Gen.sampleTypeLog⟩]

def decodeDDLogs (now : Int) (d : DatadogLogs) : List Call := d.map (fun e => Call.ofEntries e.ident (e.sub now))

/-! ### Datadog series (`datadogMetricsRequestDec`) -/

structure DDPoint where
  tsSec : Int
  val : UInt64
  deriving Repr

structure DDSeriesItem where
  metric : Option Bytes
  resources : List Labels    -- one object per resource; values that are not strings read as ""
  points : List DDPoint
  deriving Repr

abbrev DatadogSeries := List DDSeriesItem

def natBytes (n : Nat) : Bytes := (toString n).toUTF8.toList

def enumFrom1 {α} : Nat → List α → List (Nat × α)
  | _, [] => []
  | i, x :: xs => (i, x) :: enumFrom1 (i + 1) xs

/-- `fmt.Sprintf("resource%d_%s", i+1, key)` -/
def resourceLabels (rs : List Labels) : Labels :=
  (enumFrom1 1 rs).flatMap (fun ir => ir.2.map (fun kv =>
    ([114, 101, 115, 111, 117, 114, 99, 101] /-resource-/ ++ natBytes ir.1 ++ [95] ++ kv.1, kv.2)))

/-- no `sanitizeLabels` on this path -/
def DDSeriesItem.ident (s : DDSeriesItem) : Labels :=
  (match s.metric with | some m => [(nameLabel, m)] | none => []) ++ resourceLabels s.resources

def DDPoint.entry (p : DDPoint) : Entry := ⟨wrap64 (p.tsSec * 1000000000), [], p.val, Gen.sampleTypeMetric⟩

def DDSeriesItem.sub (s : DDSeriesItem) : List Entry := s.points.map DDPoint.entry

/-- `make([]string, len(values))`, `fastFillArray(len(values), SAMPLE_TYPE_METRIC)` -/
def decodeDDSeries (d : DatadogSeries) : List Call :=
  d.map (fun s => ⟨s.ident, s.sub.map (·.ts), fastFill s.points.length [], s.sub.map (·.val),
                   fastFill s.points.length Gen.sampleTypeMetric⟩)

/-! ### OTLP logs (`otlpLogDec`) -/

structure OtlpRecord where
  attrs : Labels             -- (key, SanitizeValue(value)) in message order
  severity : Bytes
  body : Bytes               -- Body.GetStringValue()
  ts : Nat                   -- TimeUnixNano (uint64)
  deriving Repr

structure OtlpScope where
  attrs : Labels             -- empty when the ScopeLogs carries no scope
  records : List OtlpRecord
  deriving Repr

structure OtlpResource where
  attrs : Labels             -- empty when the ResourceLogs carries no resource
  scopes : List OtlpScope
  deriving Repr

abbrev OtlpLogs := List OtlpResource

/-- `SanitizeKey`: every rune outside `[a-zA-Z0-9_]` becomes `_`; an empty result or a leading digit gets a `_` prefix -/
def sanitizeKey (k : Bytes) : Bytes :=
  let s := replaceRunes (fun _ c => isAlnum c) k.length false k
  match s with
  | [] => [95]
  | c :: _ => if 48 ≤ c && c ≤ 57 then 95 :: s else s

/-- `m[k] = v` on a Go map kept as an association list (position of a key = its first insertion) -/
def mapSet (m : Labels) (k v : Bytes) : Labels :=
  match m with
  | [] => [(k, v)]
  | (k', v') :: rest => if k' = k then (k, v) :: rest else (k', v') :: mapSet rest k v

def levelLabel : Bytes := [108, 101, 118, 101, 108]   -- "level"

/-- `initAttributesMap` -/
def attrsInto (m : Labels) (attrs : Labels) : Labels := attrs.foldl (fun m kv => mapSet m (sanitizeKey kv.1) kv.2) m

/-- labels of one record: resource attributes, overridden by scope attributes, overridden by record attributes,
    plus `level` = severity text when not empty; emitted by ranging over the map (order unspecified). No `sanitizeLabels`. -/
def otlpIdent (res sc : Labels) (r : OtlpRecord) : Labels :=
  let m := (attrsInto [] sc).foldl (fun m kv => mapSet m kv.1 kv.2) (attrsInto [] res)
  let m := attrsInto m r.attrs
  if r.severity ≠ [] then mapSet m levelLabel r.severity else m

def OtlpRecord.entry (r : OtlpRecord) : Entry := ⟨wrap64 r.ts, r.body, 0, Gen.sampleTypeLog⟩

/-- the (stream identity, entries) pairs of the export request, in order -/
def otlpStreams (d : OtlpLogs) : List (Labels × List Entry) :=
  d.flatMap (fun res => res.scopes.flatMap (fun sc => sc.records.map (fun r =>
    (otlpIdent res.attrs sc.attrs r, [r.entry]))))

def decodeOtlp (d : OtlpLogs) : List Call := (otlpStreams d).map (fun s => Call.ofEntries s.1 s.2)

/-! ### every body -/

inductive Body
  | loki (d : LokiDoc)
  | lokiProto (d : LokiProto)
  | prom (d : PromWrite)
  | influx (d : InfluxPoints)
  | ddLogs (d : DatadogLogs)
  | ddSeries (d : DatadogSeries)
  | otlp (d : OtlpLogs)

/-- the callback sequence of `Decode`; `hit` is the remote-write point-limit test, `now` the wall clock
    a Datadog log entry without timestamp would get -/
def Body.calls (hit : Nat → Bool) (now : Int) : Body → List Call
  | .loki d => decodeLoki d
  | .lokiProto d => decodeProto d
  | .prom d => decodeProm hit d
  | .influx d => decodeInflux d
  | .ddLogs d => decodeDDLogs now d
  | .ddSeries d => decodeDDSeries d
  | .otlp d => decodeOtlp d

/-- the streams of a body: identity (label list handed to the builder) and submitted entries -/
def Body.streams (now : Int) : Body → List (Labels × List Entry)
  | .loki d => d.map (fun s => (s.ident, s.sub))
  | .lokiProto d => d.map (fun s => (s.ident, s.sub))
  | .prom d => d.map (fun s => (s.ident, s.sub))
  | .influx d => d.flatMap InfluxPoint.streams
  | .ddLogs d => d.map (fun e => (e.ident, e.sub now))
  | .ddSeries d => d.map (fun s => (s.ident, s.sub))
  | .otlp d => otlpStreams d

/-- the whole parser: decoder driving the builder -/
def Body.run (env : Env) (hit : Nat → Bool) (now : Int) (b : Body) : Except Fault (List Chunk) :=
  parse env (b.calls hit now)

end Qryn.Ingest
