import Qryn.Ingest.Builder
import Qryn.Ingest.Labels
import Qryn.Gen.LabelPipeline
/-! The label pipeline of the writer, from the label list a decoder hands to `parserDoer.onEntries`
    (writer/utils/unmarshal/builder.go) to the two things stored for a series: the fingerprint (samples and
    `time_series` rows) and the label document (`time_series.labels`). Core-only.

    The pieces are the functions of `Ingest/Builder.lean` (`sanitizeLabels` = name rule + truncation at 100 bytes,
    `effective` = the `__ttl_days__` block, `validLabels` = `validUTF8Labels` with Go's `strings.ToValidUTF8`) and of
    `Ingest/Fingerprint.lean`/`Labels.lean` (`fingerprintWith`, `encodeLabels`). What this module adds is the ORDER:
    it is not written down here but regenerated from the source as `Gen.LabelPipeline.onEntriesSteps` (every event on
    the variable `labels` of `onEntries`, in source order, with the call chain that wraps the variable at each use) and
    INTERPRETED by `run`. A step the interpreter does not know makes `genSteps = none`, and every theorem about the
    code's pipeline then fails to check (fails closed).

    In-place semantics: `validUTF8Labels` and `sanitizeLabels` write into the slice they are given
    (`lbls[i] = …`, `lbls[i][0] = …`) and return it, so a call that merely wraps the variable at a use site,
    `encodeLabels(validUTF8Labels(labels))`, also changes what later statements see. `stepRun` models that. -/
namespace Qryn.Pipeline
open Qryn Qryn.Ingest

/-- the transformations of the label list the interpreter knows -/
inductive Xf
  | ttlStrip      -- the `if ttlDays == 0 { … }` block: labels named `__ttl_days__` are removed
  | validUTF8     -- validUTF8Labels
  | sanitize      -- sanitizeLabels
  deriving DecidableEq, Repr

inductive Step
  /-- `labels = f(w…(labels))` -/
  | assign (x : Xf) (wrap : List Xf)
  /-- `fp := fingerprintLabels(w…(labels))` -/
  | fingerprint (wrap : List Xf)
  /-- `_labels := encodeLabels(w…(labels))` -/
  | document (wrap : List Xf)
  deriving DecidableEq, Repr

def Xf.ofName : String → Option Xf
  | "ttlStrip" => some .ttlStrip
  | "validUTF8Labels" => some .validUTF8
  | "sanitizeLabels" => some .sanitize
  | _ => none

/-- one entry of `Gen.LabelPipeline.onEntriesSteps`; anything else (an "other" mention, an unknown function) is not understood -/
def Step.ofGen : String × String × List String → Option Step
  | ("assign", f, w) =>
    match Xf.ofName f, w.mapM Xf.ofName with
    | some x, some ws => some (.assign x ws)
    | _, _ => none
  | ("use", "fingerprintLabels", w) => (w.mapM Xf.ofName).map .fingerprint
  | ("use", "encodeLabels", w) => (w.mapM Xf.ofName).map .document
  | _ => none

def stepsOf (l : List (String × String × List String)) : Option (List Step) := l.mapM Step.ofGen

/-- the order of the code as it is today -/
def genSteps : Option (List Step) := stepsOf Gen.LabelPipeline.onEntriesSteps

def applyXf (ctxTtl : Nat) : Xf → Labels → Labels
  | .ttlStrip, ls => (effective ctxTtl ls).1
  | .validUTF8, ls => validLabels ls
  | .sanitize, ls => sanitizeLabels ls

/-- a chain of wrappers, innermost first -/
def applyXfs (ctxTtl : Nat) (xs : List Xf) (ls : Labels) : Labels := xs.foldl (fun acc x => applyXf ctxTtl x acc) ls

/-- interpreter state: the variable `labels`, every list handed to `fingerprintLabels` so far, every list handed to `encodeLabels` -/
structure St where
  labels : Labels
  fpIn : List Labels := []
  docIn : List Labels := []
  deriving Repr

def stepRun (ctxTtl : Nat) (st : St) : Step → St
  | .assign x w => { st with labels := applyXf ctxTtl x (applyXfs ctxTtl w st.labels) }
  | .fingerprint w =>
    let v := applyXfs ctxTtl w st.labels
    { st with labels := v, fpIn := st.fpIn ++ [v] }
  | .document w =>
    let v := applyXfs ctxTtl w st.labels
    { st with labels := v, docIn := st.docIn ++ [v] }

def run (ctxTtl : Nat) (steps : List Step) (raw : Labels) : St := steps.foldl (stepRun ctxTtl) { labels := raw }

/-- what a pipeline stores for a label list: the list the (one) fingerprint is computed from and the list the
    document is written from; `none` when the order has no or several fingerprint calls, or no document call, or
    document calls that see different lists (in `onEntries` the document call sits in the loop over days and types) -/
def outOf (ctxTtl : Nat) (steps : List Step) (raw : Labels) : Option (Labels × Labels) :=
  match (run ctxTtl steps raw).fpIn, (run ctxTtl steps raw).docIn with
  | [a], b :: rest => if rest.all (fun d => d == b) then some (a, b) else none
  | _, _ => none

/-- `onEntries` of the code as it is: (list fingerprinted, list documented) -/
def onEntriesLabels (ctxTtl : Nat) (raw : Labels) : Option (Labels × Labels) :=
  match genSteps with
  | some steps => outOf ctxTtl steps raw
  | none => none

/-- `MFingerprint` of the samples and of the series rows -/
def storedFp (ch outer : Bytes → Fp.W) (ctxTtl : Nat) (raw : Labels) : Option Fp.W :=
  (onEntriesLabels ctxTtl raw).map (fun p => Fp.fingerprintWith ch outer p.1)

/-- `MLabels` of the series rows -/
def storedDoc (ctxTtl : Nat) (raw : Labels) : Option Bytes :=
  (onEntriesLabels ctxTtl raw).map (fun p => Fp.encodeLabels p.2)

/-- the same for an arbitrary order (used for the orders the code must not have) -/
def storedFpOf (steps : List Step) (ch outer : Bytes → Fp.W) (ctxTtl : Nat) (raw : Labels) : Option Fp.W :=
  (outOf ctxTtl steps raw).map (fun p => Fp.fingerprintWith ch outer p.1)

def storedDocOf (steps : List Step) (ctxTtl : Nat) (raw : Labels) : Option Bytes :=
  (outOf ctxTtl steps raw).map (fun p => Fp.encodeLabels p.2)

/-! ### the syntactic discipline an order has to obey

`disciplined` walks the step list with two flags: `valid` — `validUTF8Labels` was applied and nothing that can break
UTF-8 validity (the truncation of `sanitizeLabels`) came after it; `fpd` — the list was fingerprinted and has not been
changed since. Exactly one fingerprint call, made on a valid list; every document call on the unchanged list; at
least one document call. -/

/-- effect of one transformation on the flags -/
def xfFlags (f : Bool × Bool) : Xf → Bool × Bool
  | .validUTF8 => if f.1 then f else (true, false)       -- on a valid list it changes nothing (idempotent)
  | .sanitize => (false, false)
  | .ttlStrip => (f.1, false)                            -- removes labels: validity is kept, the list may change

def xfsFlags (f : Bool × Bool) (xs : List Xf) : Bool × Bool := xs.foldl xfFlags f

/-- flags `(valid, fpd)`, number of fingerprint calls so far, number of document calls so far -/
def disciplinedFrom : List Step → Bool × Bool → Nat → Nat → Bool
  | [], _, nfp, ndoc => nfp == 1 && ndoc ≥ 1
  | .assign x w :: rest, f, nfp, ndoc => disciplinedFrom rest (xfFlags (xfsFlags f w) x) nfp ndoc
  | .fingerprint w :: rest, f, nfp, ndoc =>
    let f' := xfsFlags f w
    f'.1 && nfp == 0 && disciplinedFrom rest (true, true) (nfp + 1) ndoc
  | .document w :: rest, f, nfp, ndoc =>
    let f' := xfsFlags f w
    f'.1 && f'.2 && disciplinedFrom rest f' nfp (ndoc + 1)

def disciplined (steps : List Step) : Bool := disciplinedFrom steps (false, false) 0 0

/-! ### the decoders in front of `onEntries` -/

/-- does the decoder type apply `sanitizeLabels` to the list it hands over (`Gen.LabelPipeline.decoders`)? -/
def decoderSanitises (typ : String) : Option Bool :=
  (Gen.LabelPipeline.decoders.find? (fun d => d.1 == typ)).map (fun d => d.2.2.1)

/-- the list a decoder hands to `onEntries`: the labels it collected (`pre`), sanitised when the decoder does that,
    followed by labels appended afterwards whose VALUE goes through the name rule (Influx: `__name__` = `sanitizeMetricName(field key)`,
    same regular expression — `Gen.metricNameRe`) -/
def decoderLabels (sanitises : Bool) (pre post : Labels) : Labels :=
  (if sanitises then sanitizeLabels pre else pre) ++ post.map (fun l => (l.1, sanitizeName l.2))

/-! ### a JSON reader that treats invalid UTF-8 the way encoding/json does

`JsonStr.parseObject` hands bytes ≥ 0x80 through unchanged. Go's encoding/json (and ClickHouse's JSON functions in
their own way) do not: `unquote` replaces every byte that does not start a well-formed encoding by U+FFFD — one
replacement PER BYTE, unlike `strings.ToValidUTF8`. `coerceGo` is that walk. -/

def coerceGo : Nat → Bytes → Bytes
  | 0, _ => []
  | _ + 1, [] => []
  | fuel + 1, b :: rest =>
    if b < 0x80 then b :: coerceGo fuel rest
    else
      let n := runeLen (b :: rest)
      if n = 1 then replacementChar ++ coerceGo fuel rest
      else (b :: rest).take n ++ coerceGo fuel (rest.drop (n - 1))

def coerceUTF8 (s : Bytes) : Bytes := coerceGo s.length s

def parseObjectGo (doc : Bytes) : Option Labels :=
  (JsonStr.parseObject doc).map (fun ls => ls.map (fun l => (coerceUTF8 l.1, coerceUTF8 l.2)))

/-! ### the series cache key (`maybeAddFp`) -/

/-- the 17 bytes `maybeAddFp` hashes: day (`date.Unix()`, int64) and fingerprint little endian, then the type -/
def keyBytes (day fp : BitVec 64) (tp : UInt8) : Bytes := Fp.le64 day ++ Fp.le64 fp ++ [tp]

end Qryn.Pipeline
