import Qryn.Ingest.Batcher
/-! # Ingest.ErrorHandler — what a push answers when the handler chain returns an error (C01). Core-only.

Mirrors, in /repo:
* `writer/controller/builder.go` `ErrorHandler` — an ordered list of guards on the error VALUE
  (`customErrors.Unwrap[T]`, i.e. `errors.As`) and on the error TEXT (`strings.HasPrefix/Contains(err.Error(), …)`),
  each with what it does: `writeErrorResponse(w, code, …)` or *return without writing anything* (then net/http
  answers `200 OK`); `writeErrorResponse` (`w.WriteHeader(code)` first); `Build`'s handler
  (`err := pusherCtx.Do(w, r); if err != nil { ErrorHandler(w, r, err) }`);
* `doPush` — what the retry loop hands back: retry-go v3.0.0 `Error.Error()` =
  `"All attempts fail:\n" ++ join "\n" ["#1: " ++ t₁, "#2: " ++ t₂, …]`, or `fmt.Errorf("panic: %v", rec)` from the
  `recover` of the push goroutine;
* `doParse` — the first error in promise order, or the parser's error.

The rule table, the retry-go text format and the status codes of the typed errors are regenerated from source
(`Gen.ErrorHandler`); `Props/C01` proves the hand-written copies below equal to them. Texts are Go strings: bytes. -/
namespace Qryn.Ingest.ErrorHandler
open Qryn.Ingest.Batcher (Outcome)

abbrev Text := List UInt8

/-- `strings.Contains(s, p)` -/
def contains : Text → Text → Bool
  | [], p => p.isEmpty
  | c :: t, p => p.isPrefixOf (c :: t) || contains t p

/-- `strings.HasSuffix(s, p)` -/
def hasSuffix (s p : Text) : Bool := p.reverse.isPrefixOf s.reverse

inductive TextPred | hasPrefix | contains | hasSuffix
deriving DecidableEq, Repr

def TextPred.holds : TextPred → Text → Text → Bool
  | .hasPrefix, s, p => p.isPrefixOf s
  | .contains, s, p => ErrorHandler.contains s p
  | .hasSuffix, s, p => ErrorHandler.hasSuffix s p

inductive Action
  /-- `writeErrorResponse(w, code, …)` -/
  | write (code : Nat)
  /-- `return` without touching the ResponseWriter -/
  | silent
deriving DecidableEq, Repr

/-- one `if … { …; return }` of `ErrorHandler`, in source order; `otherwise` is the tail after the last `if` -/
inductive Rule
  /-- `if e, ok := customErrors.Unwrap[ty](err); ok { writeErrorResponse(w, e.GetCode(), e.Error()); return }` -/
  | typed (ty : String)
  /-- `if strings.<pred>(err.Error(), p) { <action>; return }` -/
  | text (pred : TextPred) (p : Text) (a : Action)
  | otherwise (a : Action)
deriving DecidableEq, Repr

/-- an `error` value as `ErrorHandler` can see it -/
structure ErrVal where
  /-- the type arguments `T` for which `errors.As(err, &target T)` succeeds, each with the `GetCode()` of the
      value found. A `*UnMarshalError` answers to both `*customErrors.UnMarshalError` and `customErrors.IQrynError`,
      a `*QrynError` to the second only; `retry.Error` (a `[]error` without `Unwrap`/`As`) and `fmt.Errorf`
      values without `%w` answer to none. -/
  as : List (String × Nat) := []
  /-- `err.Error()` -/
  text : Text
deriving DecidableEq, Repr

inductive Answer
  /-- nothing was written: net/http sends `200 OK` with an empty body when the handler returns -/
  | silent
  | status (code : Nat)
  /-- `WriteHeader` with a code outside 100..999 panics (`invalid WriteHeader code`); net/http recovers in the
      connection goroutine and aborts the connection: the client gets no status at all -/
  | fault
deriving DecidableEq, Repr

/-- `w.WriteHeader(code)` (net/http `checkWriteHeaderCode`) -/
def answerOf (code : Nat) : Answer := if 100 ≤ code ∧ code ≤ 999 then .status code else .fault

def act : Action → Answer
  | .write c => answerOf c
  | .silent => .silent

/-- `ErrorHandler(w, r, err)` -/
def classify : List Rule → ErrVal → Answer
  | [], _ => .silent
  | .typed ty :: rest, e =>
    match e.as.lookup ty with
    | some c => answerOf c
    | none => classify rest e
  | .text pred p a :: rest, e => if pred.holds e.text p then act a else classify rest e
  | .otherwise a :: _, _ => act a

/-- the status line the client reads -/
def observed : Answer → Option Nat
  | .silent => some 200
  | .status c => some c
  | .fault => none

/-- the client is told success (any status below 400; a handler that writes nothing counts as 200) -/
def isSuccess (a : Answer) : Bool :=
  match observed a with
  | some c => decide (c < 400)
  | none => false

/-! ## the rule table of the pinned source (equal to `Gen.ErrorHandler.rules`, `Props/C01.error_rules_eq_gen`) -/

/-- "connection reset by peer" -/
def resetText : Text :=
  [99, 111, 110, 110, 101, 99, 116, 105, 111, 110, 32, 114, 101, 115, 101, 116, 32, 98, 121, 32, 112, 101, 101, 114]

def rules : List Rule :=
  [ .typed "*customErrors.UnMarshalError",
    .typed "customErrors.IQrynError",
    .text .hasPrefix resetText .silent,
    .otherwise (.write 500) ]

/-! ## texts the push path hands to `ErrorHandler` -/

/-- retry-go `Error.Error()`: `fmt.Sprintf(header ++ "%s", strings.Join(lines, join))`,
    line i = `fmt.Sprintf(linePrefix ++ "%d" ++ lineSep ++ "%s", i+1, errᵢ.Error())` -/
structure RetryFmt where
  header : Text
  linePrefix : Text
  lineSep : Text
  join : Text
deriving DecidableEq, Repr

/-- retry-go v3.0.0: `"All attempts fail:\n%s"`, `"#%d: %s"`, joined by `"\n"` -/
def retryFmt : RetryFmt :=
  { header := [65, 108, 108, 32, 97, 116, 116, 101, 109, 112, 116, 115, 32, 102, 97, 105, 108, 58, 10]
    linePrefix := [35]
    lineSep := [58, 32]
    join := [10] }

/-- `%d` -/
def decimal (n : Nat) : Text := (Nat.toDigits 10 n).map (fun c => c.toNat.toUInt8)

def retryLines (f : RetryFmt) : Nat → List Text → List Text
  | _, [] => []
  | i, t :: ts => (f.linePrefix ++ decimal (i + 1) ++ f.lineSep ++ t) :: retryLines f (i + 1) ts

def joinWith (sep : Text) : List Text → Text
  | [] => []
  | [x] => x
  | x :: y :: t => x ++ sep ++ joinWith sep (y :: t)

def retryText (f : RetryFmt) (errs : List Text) : Text := f.header ++ joinWith f.join (retryLines f 0 errs)

/-- what `retry.Do` returns after exhausted attempts: a `retry.Error` holding the error of every attempt
    (`attempts = 0`: the empty log). Not an `IQrynError` whatever the attempts' errors are: `errors.As` does not
    look inside a `[]error`. -/
def retryErr (f : RetryFmt) (errs : List Text) : ErrVal := { as := [], text := retryText f errs }

/-- "panic: " -/
def panicHeader : Text := [112, 97, 110, 105, 99, 58, 32]

/-- `fmt.Errorf("panic: %v", rec)` of the `recover` in `doPush`'s goroutine -/
def panicErr (t : Text) : ErrVal := { as := [], text := panicHeader ++ t }

/-! ## `doPush` / `doParse` / the handler, with error values -/

/-- how the promise of one `svc.Request` ends as seen from the retried function -/
inductive Attempt
  | ok
  /-- completed with an error of this text (failed INSERT, "service stopped", …) -/
  | fail (t : Text)
  /-- `svc.Request` panicked: the `recover` of the push goroutine ends the push at once -/
  | panic (t : Text)
deriving DecidableEq, Repr

structure PushT where
  hasReq : Bool
  hasSvc : Bool
  out : Nat → Attempt

/-- the retry loop; `acc` = texts of the failed attempts so far, newest first. `none` = nil error. -/
def retryFromT (f : RetryFmt) (out : Nat → Attempt) : Nat → Nat → List Text → Option ErrVal
  | 0, _, acc => some (retryErr f acc.reverse)
  | n + 1, k, acc =>
    match out k with
    | .ok => none
    | .fail t => retryFromT f out n (k + 1) (t :: acc)
    | .panic t => some (panicErr t)

/-- the error `doPush`'s promise is completed with (`none` = nil) -/
def doPushT (f : RetryFmt) (attempts : Nat) (p : PushT) : Option ErrVal :=
  if !p.hasReq || !p.hasSvc then none else retryFromT f p.out attempts 0 []

inductive ChunkT
  /-- `response.Error != nil` -/
  | error (e : ErrVal)
  | response (pushes : List PushT)

/-- `doParse`: a parser error is returned at once; else the first error in promise order -/
def doParseT (f : RetryFmt) (attempts : Nat) : List ChunkT → List (Option ErrVal) → Option ErrVal
  | [], acc => acc.findSome? id
  | .error e :: _, _ => some e
  | .response ps :: rest, acc => doParseT f attempts rest (acc ++ ps.map (doPushT f attempts))

/-- `Build(...)`'s handler: `pre` = the error of the first failing pre-request step (`none`: all passed);
    `okStatus` = what the post-request step writes (`withOkStatusAndBody(204, nil)` for the Loki push) -/
def handlerT (rs : List Rule) (f : RetryFmt) (attempts : Nat) (pre : Option ErrVal) (okStatus : Nat)
    (chunks : List ChunkT) : Answer :=
  match pre with
  | some e => classify rs e
  | none =>
    match doParseT f attempts chunks [] with
    | some e => classify rs e
    | none => answerOf okStatus

/-! ## erasure to the outcome-only model of `Ingest.Batcher` -/

def Attempt.outcome : Attempt → Outcome
  | .ok => .ok
  | _ => .err

def PushT.erase (p : PushT) : Batcher.Push := ⟨p.hasReq, p.hasSvc, fun k => (p.out k).outcome⟩

def ChunkT.erase : ChunkT → Batcher.Chunk
  | .error _ => .error
  | .response ps => .response (ps.map PushT.erase)

/-- no attempt panics -/
def PushT.panicFree (p : PushT) : Prop := ∀ k t, p.out k ≠ .panic t

/-! ## what makes a rule table safe for errors whose text starts with a known header -/

/-- one of the two is a prefix of the other: `p` may be a prefix of some text that starts with `h` -/
def compatible (p h : Text) : Bool := p.isPrefixOf h || h.isPrefixOf p

def actErr : Action → Bool
  | .write c => decide (400 ≤ c) && decide (c ≤ 599)
  | .silent => false

/-- the rule cannot turn an untyped error whose text starts with `h` (and continues arbitrarily) into anything
    but an error status -/
def ruleSafe (h : Text) : Rule → Bool
  | .typed _ => true
  | .text .hasPrefix p a => !compatible p h || actErr a
  | .text _ _ a => actErr a
  | .otherwise a => actErr a

def Rule.isOtherwise : Rule → Bool
  | .otherwise _ => true
  | _ => false

def tableSafe (h : Text) (rs : List Rule) : Bool := rs.all (ruleSafe h) && rs.any Rule.isOtherwise

end Qryn.Ingest.ErrorHandler
