import Qryn.Ingest.Span
import Qryn.Gen.ServiceNames
import Qryn.Gen.SpanConsts
/-! The configuration of the span model as read from /repo on this run (Gen facts). -/
namespace Qryn.Span

/-- every constant the model takes from the source text -/
def cfg : Cfg where
  writerNames := Gen.ServiceNames.writerAttrs
  writerFirst := Gen.ServiceNames.writerFirst
  writerDefault := Gen.ServiceNames.writerDefault
  readerNames := Gen.ServiceNames.readerAttrs
  readerFirst := Gen.ServiceNames.readerFirst
  readerDefault := Gen.ServiceNames.readerDefault
  zipkinType := Gen.SpanConsts.zipkinType
  zipkinNDType := Gen.SpanConsts.zipkinNDType
  otlpType := Gen.SpanConsts.otlpType
  readZipkinType := Gen.SpanConsts.readZipkinType
  readOtlpType := Gen.SpanConsts.readOtlpType
  traceHex := Gen.SpanConsts.traceHex
  spanHex := Gen.SpanConsts.spanHex
  parentHex := Gen.SpanConsts.parentHex
  spanRowSize := Gen.SpanConsts.spanRowSize
  tagRowSize := Gen.SpanConsts.tagRowSize
  flushAt := Gen.SpanConsts.flushAt

end Qryn.Span
