import Qryn.Base.Bytes
import Qryn.Base.Base64
/-! # Trace ingestion and read-back (C06). Core-only.

Model of
* `writer/utils/unmarshal/zipkinJsonUnmarshal.go` — `zipkinDecoderV2.decodeSpan`, `decodeHexStr`, `stringOrInt64`,
  `parseEndpoint`, `parseTags`, the two framings (`zipkinDecoderV2.Decode`, `zipkinNDDecoderV2.Decode`);
* `writer/utils/unmarshal/otlpUnmarshal.go` — `OTLPDecoder.Decode`, `otlpGetServiceNames`, `populateServiceNames`,
  `writeAttrValue`/`initAttributesMap`;
* `writer/utils/unmarshal/builder.go` — `parserDoer.onSpan` (row construction, size accounting, 1 MiB flush);
* `reader/service/tempoService.go` — `OutputQuery` (payload-type dispatch, stop at the first error),
  `parseZipkinJSON`, `decodeParentId`, `parseOTLP`.

Third-party codecs (jx, fastjson, protobuf) are not modelled: a document *is* its decoded form, and the stored
payload is carried as the document itself (`Payload.zipkin doc` = the span text kept verbatim,
`Payload.otlp span` = `proto.Marshal span`, read back by `proto.Unmarshal`).
Go strings are byte strings (`Str`). -/
namespace Qryn.Span

abbrev Str := Bytes

/-! ## constants of the code (regenerated into `Qryn.Gen.SpanConsts` / `Qryn.Gen.ServiceNames` and compared there) -/

/-- everything the model takes from the source text; `Gen.spanCfg` is the instance read from /repo -/
structure Cfg where
  /-- `otlpGetServiceNames`: attribute names tried for the local service name, in source order -/
  writerNames : List Str
  /-- the writer's loop stops at the first hit (`break`) -/
  writerFirst : Bool
  writerDefault : Str
  /-- `parseOTLP`: attribute names tried for the service name, in source order -/
  readerNames : List Str
  readerFirst : Bool
  readerDefault : Str
  /-- `withPayloadType(..)` of the two Zipkin parsers and of the OTLP parser -/
  zipkinType : Int
  zipkinNDType : Int
  otlpType : Int
  /-- `case 1:` / `case 2:` in `OutputQuery` -/
  readZipkinType : Int
  readOtlpType : Int
  /-- `decodeHexStr(.., 32)` / `(.., 16)` / `(.., 16)` -/
  traceHex : Nat
  spanHex : Nat
  parentHex : Nat
  /-- `49 + ..` and `40 + ..` in `onSpan`, and the flush threshold -/
  spanRowSize : Nat
  tagRowSize : Nat
  flushAt : Nat
  deriving Repr

/-! ## byte-string helpers -/

def ascii (s : String) : Str := s.toList.map (fun c => UInt8.ofNat c.toNat)

/-- `strconv.FormatInt(n, 10)` / `%d` for a natural number -/
def natDigits (n : Nat) : Str := ascii (toString n)

def intDigits (i : Int) : Str :=
  if i < 0 then 45 :: natDigits i.natAbs else natDigits i.toNat

def hexNib (c : UInt8) : Option Nat :=
  if 48 ≤ c ∧ c ≤ 57 then some (c.toNat - 48)
  else if 97 ≤ c ∧ c ≤ 102 then some (c.toNat - 87)
  else if 65 ≤ c ∧ c ≤ 70 then some (c.toNat - 55) else none

/-- Go `hex.Decode` on an even-length input: `none` = `InvalidByteError` -/
def hexDecode : Bytes → Option Bytes
  | [] => some []
  | [_] => none
  | a :: b :: rest =>
    match hexNib a, hexNib b, hexDecode rest with
    | some x, some y, some r => some (UInt8.ofNat (x * 16 + y) :: r)
    | _, _, _ => none

/-- the outcome of a request that does not produce rows: the parser returned an error
    (`NewUnmarshalError`, `New400Error`, or the tamed panic of the parser goroutine) -/
inductive Reject where
  | reject
  deriving DecidableEq, Repr

/-- `zipkinDecoderV2.decodeHexStr`: empty → 400; shorter than `leng` → left-padded with `'0'`;
    longer → the first `leng` digits; then `hex.Decode` -/
def decodeHexStr (hexStr : Bytes) (leng : Nat) : Except Reject Bytes :=
  if hexStr.length = 0 then .error .reject
  else
    let h := if hexStr.length < leng then List.replicate (leng - hexStr.length) 48 ++ hexStr else hexStr
    match hexDecode (h.take leng) with
    | some r => .ok r
    | none => .error .reject

def int64Min : Int := -9223372036854775808
def int64Max : Int := 9223372036854775807

def digitsVal : Bytes → Option Nat
  | [] => none
  | cs => cs.foldlM (fun acc c => if 48 ≤ c ∧ c ≤ 57 then some (acc * 10 + (c.toNat - 48)) else none) 0

/-- `strconv.ParseInt(s, 10, 64)`: optional sign, one or more decimal digits, range check -/
def parseInt64 (s : Bytes) : Option Int :=
  let (neg, ds) := match s with
    | 43 :: r => (false, r)
    | 45 :: r => (true, r)
    | r => (false, r)
  match digitsVal ds with
  | none => none
  | some n =>
    let v : Int := if neg then -(n : Int) else n
    if int64Min ≤ v ∧ v ≤ int64Max then some v else none

/-- two's-complement wrap of an integer into the int64 range (Go `int64` arithmetic) -/
def wrap64 (i : Int) : Int :=
  let m := i % 18446744073709551616
  if m ≥ 9223372036854775808 then m - 18446744073709551616 else m

/-- `uint64(x)` of an int64 -/
def toU64 (i : Int) : Nat := (i % 18446744073709551616).toNat

/-- Go `/` on int64: truncation toward zero -/
def dateSecOf (ts : Int) : Int := ts.tdiv 1000000000

/-! ## OTLP documents -/

/-- `common.v1.AnyValue` (oneof): `unset` = no member set; `nilp` = there is no `AnyValue` at all (a `KeyValue` decoded
    without its `value` field has a nil pointer). The double is carried by its IEEE bits. -/
inductive AnyValue where
  | str (s : Str)
  | bool (b : Bool)
  | int (i : Int)
  | dbl (bits : Nat)
  | arr (vs : List AnyValue)
  | kvl (kvs : List (Str × AnyValue))
  | bytes (b : Bytes)
  | unset
  | nilp
  deriving Repr, Inhabited

abbrev KV := Str × AnyValue

/-- `fmt.Sprintf("%f", x)`: six fractional digits, correctly rounded (ties to even) from the exact binary value -/
def fmtF (bits : Nat) : Str :=
  let sign : Nat := bits / 2^63 % 2
  let e : Nat := bits / 2^52 % 2048
  let m : Nat := bits % 2^52
  if e = 2047 then
    if m ≠ 0 then ascii "NaN" else if sign = 1 then ascii "-Inf" else ascii "+Inf"
  else
    let mant : Nat := if e = 0 then m else m + 2^52
    let ex : Int := (if e = 0 then 1 else (e : Int)) - 1075
    -- value = mant * 2^ex ; scaled = value * 10^6 = num / den
    let num : Nat := if ex ≥ 0 then mant * 2^ex.toNat * 1000000 else mant * 1000000
    let den : Nat := if ex ≥ 0 then 1 else 2^(-ex).toNat
    let q := num / den
    let r := num % den
    let n := if 2 * r > den then q + 1 else if 2 * r = den then (if q % 2 = 1 then q + 1 else q) else q
    let ip := natDigits (n / 1000000)
    let fp := natDigits (n % 1000000)
    (if sign = 1 then [45] else []) ++ ip ++ [46] ++ List.replicate (6 - fp.length) 48 ++ fp

mutual
/-- `OTLPDecoder.writeAttrValue` as the sequence of map writes it performs (`key` already prefixed) -/
def flattenVal (key : Str) : AnyValue → List (Str × Str)
  | .str s => [(key, s)]
  | .bool b => [(key, if b then ascii "true" else ascii "false")]
  | .int i => [(key, intDigits i)]
  | .dbl bits => [(key, fmtF bits)]
  | .arr vs => flattenArr (key ++ [46]) 0 vs
  | .kvl kvs => flattenKvs (key ++ [46]) kvs
  | .bytes _ => []
  | .unset => []
  | .nilp => []
def flattenArr (pfx : Str) (i : Nat) : List AnyValue → List (Str × Str)
  | [] => []
  | v :: vs => flattenVal (pfx ++ natDigits i) v ++ flattenArr pfx (i + 1) vs
/-- `OTLPDecoder.initAttributesMap` -/
def flattenKvs (pfx : Str) : List (Str × AnyValue) → List (Str × Str)
  | [] => []
  | (k, v) :: rest => flattenVal (pfx ++ k) v ++ flattenKvs pfx rest
end

/-- a Go map built by a sequence of writes: one entry per key, holding the last value written.
    Canonical order (Go's iteration order is random): order of first insertion. -/
def assocSet {α} (m : List (Str × α)) (k : Str) (v : α) : List (Str × α) :=
  if m.any (fun e => e.1 == k) then m.map (fun e => if e.1 == k then (k, v) else e) else m ++ [(k, v)]

def assocGet {α} (m : List (Str × α)) (k : Str) : Option α := (m.find? (fun e => e.1 == k)).map (·.2)

def assocOfWrites {α} (ws : List (Str × α)) : List (Str × α) :=
  ws.foldl (fun m w => assocSet m w.1 w.2) []

/-- `map[string]string`: the tag map of the OTLP writer -/
abbrev mapSet (m : List (Str × Str)) (k v : Str) : List (Str × Str) := assocSet m k v
abbrev mapOfWrites (ws : List (Str × Str)) : List (Str × Str) := assocOfWrites ws

/-- last attribute stored under `key` (`otlpAttrIdx`/`getOtlpAttr`, and the reader's `firstLevelMap`) -/
def lookupLast (attrs : List KV) (key : Str) : Option AnyValue :=
  (attrs.reverse.find? (fun kv => kv.1 == key)).map (·.2)

def strOf : AnyValue → Str
  | .str s => s
  | _ => []

/-- "service.name" -/
def kServiceName : Str := [115, 101, 114, 118, 105, 99, 101, 46, 110, 97, 109, 101]
/-- "remoteService.name" -/
def kRemoteServiceName : Str := [114, 101, 109, 111, 116, 101, 83, 101, 114, 118, 105, 99, 101, 46, 110, 97, 109, 101]
/-- "name" -/
def kName : Str := [110, 97, 109, 101]

/-- the value a name of the list contributes: a non-empty string attribute -/
def nameHit (attrs : List KV) (n : Str) : Option Str :=
  match lookupLast attrs n with
  | some (.str s) => if s = [] then none else some s
  | _ => none

/-- the service-name loop of `otlpGetServiceNames` (local name) and of `parseOTLP`:
    `first = true` → the first hit of the list wins (`break`), `false` → the last one -/
def resolveService (names : List Str) (first : Bool) (dflt : Str) (attrs : List KV) : Str :=
  let hits := names.filterMap (nameHit attrs)
  match (if first then hits.head? else hits.getLast?) with
  | some s => s
  | none => dflt

/-- the `remote` loop of `otlpGetServiceNames` (unchanged by the fixes: no break, empty strings count) -/
def resolveRemote (attrs : List KV) : Str :=
  let names := [ascii "service.name", ascii "faas.name", ascii "k8s.deployment.name", ascii "process.executable.name"]
  let hits := names.filterMap (fun n => match lookupLast attrs n with | some (.str s) => some s | _ => none)
  hits.getLast?.getD []

/-- replace the first attribute stored under `key` -/
def replaceFirst (key : Str) (v : AnyValue) : List KV → List KV
  | [] => []
  | kv :: rest => if kv.1 == key then (key, v) :: rest else kv :: replaceFirst key v rest

/-- replace the last attribute stored under `key`, or append (`populateServiceNames`) -/
def setLast (attrs : List KV) (key : Str) (v : AnyValue) : List KV :=
  if attrs.any (fun kv => kv.1 == key) then (replaceFirst key v attrs.reverse).reverse
  else attrs ++ [(key, v)]

structure OSpan where
  traceId : Bytes
  spanId : Bytes
  parentSpanId : Bytes
  name : Str
  kind : Nat
  startNs : Nat
  endNs : Nat
  attrs : List KV
  /-- `none` = no status message; `some (code, message)` -/
  status : Option (Nat × Str)
  /-- `Events`: time and name (all the JSON view of a trace shows of them; the rest of an event, links, trace state,
      flags, dropped counts and unknown fields ride along inside the protobuf payload, which is third-party) -/
  events : List (Nat × Str) := []
  deriving Repr, Inhabited

structure ResourceSpans where
  resourceAttrs : List KV
  /-- scope groups, each a list of spans -/
  scopes : List (List OSpan)
  deriving Repr

abbrev TracesData := List ResourceSpans

/-! ## Zipkin documents -/

/-- a timestamp/duration value: an integer JSON number, a JSON string, or anything else
    (non-integer number, bool, null, object, array) -/
inductive ZTime where
  | num (v : Int)
  | str (s : Str)
  | bad
  deriving Repr, DecidableEq

/-- a value that must be a JSON string: `none` = some other JSON value -/
abbrev JStr := Option Str

/-- an endpoint object as the two sides look at it: every `serviceName` member in document order (`none` = its
    value is not a JSON string; the writer walks them all, the reader looks the first one up), the first `ipv4` /
    `ipv6` member when it is a string (absent or non-string = `none`), `GetInt64` of the first `port` member
    (0 = absent, not a number, not an int64 literal, or zero). Other members are skipped by both sides. -/
structure Endpoint where
  svcs : List (Option Str)
  ipv4 : Option Str
  ipv6 : Option Str
  port : Int
  deriving Repr, DecidableEq

/-- one member of the span's JSON object, in document order -/
inductive ZField where
  | traceId (v : JStr)
  | id (v : JStr)
  | parentId (v : JStr)
  | timestamp (v : ZTime)
  | duration (v : ZTime)
  | name (v : JStr)
  /-- `none` = the value is not an object -/
  | localEndpoint (e : Option Endpoint)
  | remoteEndpoint (e : Option Endpoint)
  /-- `none` = not an object; a tag value `none` = not a string (skipped by both sides) -/
  | tags (t : Option (List (Str × Option Str)))
  | kind (v : JStr)
  /-- `none` = not an array; an element = (`GetUint64("timestamp")`, `GetStringBytes("value")`), i.e. (0, "") for
      anything that is not an object with such members. Skipped by the writer, events for the reader. -/
  | annotations (a : Option (List (Nat × Str)))
  /-- any other member (skipped) -/
  | other
  deriving Repr, DecidableEq

/-- the member name as a slot number; `other` members have none -/
def ZField.slot : ZField → Option Nat
  | .traceId _ => some 0 | .id _ => some 1 | .parentId _ => some 2 | .timestamp _ => some 3
  | .duration _ => some 4 | .name _ => some 5 | .localEndpoint _ => some 6 | .remoteEndpoint _ => some 7
  | .tags _ => some 8 | .kind _ => some 9 | .annotations _ => some 10 | .other => none

/-- a span text as the libraries present it: the members of the object in document order as the writer's parser
    (jx) yields them, the length of the text, what follows the object in the text (`tail`; empty in the array
    framing, where jx hands over exactly the element; the rest of the line in the newline-delimited framing), and
    the members as the reader's parser (fastjson) yields them for the same text — `none` when it refuses the text. -/
structure ZSpan where
  fields : List ZField
  rawLen : Nat
  tail : Bytes := []
  rfields : Option (List ZField) := some fields
  deriving Repr, DecidableEq

/-- JSON white space (jx `spaceSet`) -/
def isWs (c : UInt8) : Bool := c == 32 || c == 10 || c == 9 || c == 13

/-- the two parsers read the same members out of the text -/
def ZSpan.Agree (s : ZSpan) : Prop := s.rfields = some s.fields
instance (s : ZSpan) : Decidable s.Agree := by unfold ZSpan.Agree; infer_instance

/-- member names are unique (RFC 8259 "SHOULD"; jx keeps the last, fastjson finds the first) -/
def ZSpan.UniqueKeys (s : ZSpan) : Prop := (s.fields.filterMap ZField.slot).Nodup

instance (s : ZSpan) : Decidable s.UniqueKeys := by unfold ZSpan.UniqueKeys; infer_instance

/-! ## rows -/

/-- a JSON value as a parser hands it over: object members in document order, duplicates kept; a number by its
    text and, for `encoding/json`, the float64 it becomes (IEEE bits); strings decoded -/
inductive JVal where
  | null
  | bool (b : Bool)
  | num (raw : Bytes) (f64 : Nat)
  | str (s : Str)
  | arr (vs : List JVal)
  | obj (ms : List (Str × JVal))
  deriving Repr, Inhabited

/-- a stored text beginning with `{` under the OTLP payload type (rows of the older JSON writer), as
    `parseOTLPJson` gets it from its two `json.Unmarshal` calls: the generic document (`map[string]any`: one entry
    per member name) and what the same text leaves in a `v1.Span` struct — attribute keys with "has a value
    object", name, kind, events (time, name), status. `none` = `json.Unmarshal` refuses the text. -/
structure OJsonDoc where
  raw : Option (List (Str × JVal))
  sAttrs : List (Str × Bool) := []
  sName : Str := []
  sKind : Nat := 0
  sEvents : List (Nat × Str) := []
  sStatus : Option (Nat × Str) := none
  deriving Repr, Inhabited

inductive Payload where
  /-- the span text kept verbatim -/
  | zipkin (doc : ZSpan)
  /-- `proto.Marshal span`, with the first byte of the marshalled text -/
  | otlp (lead : UInt8) (span : OSpan)
  /-- a text beginning with `{` (not produced by this writer under the OTLP type) -/
  | otlpJson (doc : OJsonDoc)
  /-- a zero-length payload -/
  | empty
  deriving Repr, Inhabited

/-- the first byte of `proto.Marshal` of a span with a non-empty trace id: protobuf-go writes the known fields in
    field-number order; `trace_id` is field 1 with wire type 2, tag byte `0x0A`. Every accepted span has a 16-byte
    trace id. (Compared with the stored bytes on every row of the correspondence.) -/
def pbLead : UInt8 := 10

/-- the arguments of `onSpan` -/
structure Args where
  traceId : Bytes
  spanId : Bytes
  ts : Int
  dur : Int
  parentId : Str
  name : Str
  svc : Str
  payload : Payload
  payloadLen : Nat
  kv : List (Str × Str)
  deriving Repr

/-- a row of `tempo_traces` (columns of `TempoSamples`) -/
structure TraceRow where
  traceId : Bytes
  spanId : Bytes
  parentId : Str
  name : Str
  ts : Int
  dur : Int
  svc : Str
  ptype : Int
  payload : Payload
  deriving Repr

/-- a row of `tempo_traces_attrs_gin` (columns of `TempoTag`); `dateSec` = `time.Unix(ts/1e9, 0)` -/
structure TagRow where
  traceId : Bytes
  spanId : Bytes
  ts : Int
  dur : Int
  dateSec : Int
  key : Str
  val : Str
  deriving Repr, DecidableEq

/-- one `ParserResponse`: `p.spans`, `p.attrs` with their `Size` -/
structure Chunk where
  traces : List TraceRow := []
  tags : List TagRow := []
  spansSize : Nat := 0
  tagsSize : Nat := 0
  deriving Repr

/-- `parserDoer` while spans are being decoded: responses already sent, and the open one -/
structure Builder where
  sent : List Chunk := []
  cur : Chunk := {}
  deriving Repr

def traceRowOf (ptype : Int) (a : Args) : TraceRow :=
  ⟨a.traceId, a.spanId, a.parentId, a.name, a.ts, a.dur, a.svc, ptype, a.payload⟩

def tagRowsOf (a : Args) : List TagRow :=
  a.kv.map (fun e => ⟨a.traceId, a.spanId, a.ts, a.dur, dateSecOf a.ts, e.1, e.2⟩)

/-- the ids `onSpan` accepts: a span whose ids are not 16 and 8 bytes cannot be appended to the
    `FixedString(16)`/`FixedString(8)` columns (A6, property C05: rejected at the top of `onSpan`) -/
def Args.accepted (a : Args) : Bool := a.traceId.length == 16 && a.spanId.length == 8

/-- `parserDoer.onSpan` -/
def onSpan (c : Cfg) (ptype : Int) (b : Builder) (a : Args) : Except Reject Builder :=
  if !a.accepted then .error .reject
  else
    let cur : Chunk :=
      { traces := b.cur.traces ++ [traceRowOf ptype a]
        tags := b.cur.tags ++ tagRowsOf a
        spansSize := b.cur.spansSize + (c.spanRowSize + a.parentId.length + a.name.length + a.svc.length + a.payloadLen)
        tagsSize := b.cur.tagsSize + (a.kv.map (fun e => c.tagRowSize + e.1.length + e.2.length)).sum }
    if cur.tagsSize + cur.spansSize > c.flushAt then .ok { sent := b.sent ++ [cur], cur := {} }
    else .ok { b with cur := cur }

/-- the outcome of a parse: the responses sent on the channel, then success (the last response is the open
    chunk, sent even when empty) or the error -/
structure Outcome where
  chunks : List Chunk
  ok : Bool
  deriving Repr

def Outcome.traces (o : Outcome) : List TraceRow := o.chunks.flatMap (·.traces)
def Outcome.tags (o : Outcome) : List TagRow := o.chunks.flatMap (·.tags)

/-- decode the spans one after the other, feeding `onSpan`; stop at the first error.
    `σ` is whatever the decoder object keeps between spans. -/
def runSpans {σ ρ} (c : Cfg) (ptype : Int) (dec : σ → ρ → Except Reject (σ × Args)) :
    σ → Builder → List ρ → Outcome
  | _, b, [] => ⟨b.sent ++ [b.cur], true⟩
  | s, b, r :: rs =>
    match dec s r with
    | .error _ => ⟨b.sent, false⟩
    | .ok (s', a) =>
      match onSpan c ptype b a with
      | .error _ => ⟨b.sent, false⟩
      | .ok b' => runSpans c ptype dec s' b' rs

/-! ## Zipkin writer -/

/-- the per-span fields of `zipkinDecoderV2` (they live in the decoder object between spans) -/
structure ZDec where
  traceId : Option Bytes := none
  spanId : Option Bytes := none
  ts : Int := 0
  dur : Int := 0
  parentId : Str := []
  name : Str := []
  svc : Str := []
  payload : Payload := .empty
  payloadLen : Nat := 0
  kv : List (Str × Str) := []
  deriving Repr

/-- `stringOrInt64` followed by `* 1000` (int64, wrapping) -/
def zTime : ZTime → Except Reject Int
  | .num v => if int64Min ≤ v ∧ v ≤ int64Max then .ok (wrap64 (v * 1000)) else .error .reject
  | .str s => match parseInt64 s with
    | some v => .ok (wrap64 (v * 1000))
    | none => .error .reject
  | .bad => .error .reject

def epKey (pfx : String) : Str := ascii pfx ++ ascii "service_name"

/-- one `serviceName` member of an endpoint: `d.Str()` fails on anything but a string; the name is appended as a tag
    and becomes the endpoint's service name -/
def epStep (pfx : String) (st : Str × List (Str × Str)) : Option Str → Except Reject (Str × List (Str × Str))
  | none => .error .reject
  | some s => .ok (s, st.2 ++ [(epKey pfx, s)])

/-- `parseEndpoint`: the service name ("" when there is none; the last one when there are several) and the tags it
    appends (one per `serviceName` member) -/
def parseEndpoint (pfx : String) : Option Endpoint → Except Reject (Str × List (Str × Str))
  | none => .error .reject
  | some e => e.svcs.foldlM (epStep pfx) ([], [])

/-- `parseTags`: string-valued tags in document order -/
def parseTags : Option (List (Str × Option Str)) → Except Reject (List (Str × Str))
  | none => .error .reject
  | some ts => .ok (ts.filterMap (fun t => t.2.map (fun v => (t.1, v))))

/-- the loop state of `decodeSpan`: the decoder fields plus the two local service names -/
structure ZLoop where
  d : ZDec
  localSvc : Str := []
  remoteSvc : Str := []

/-- one iteration of the `dec.Obj` callback in `decodeSpan` -/
def zStep (c : Cfg) (l : ZLoop) : ZField → Except Reject ZLoop
  | .traceId none | .id none | .parentId none | .name none => .error .reject
  | .traceId (some h) => do let r ← decodeHexStr h c.traceHex; pure { l with d := { l.d with traceId := some r } }
  | .id (some h) => do let r ← decodeHexStr h c.spanHex; pure { l with d := { l.d with spanId := some r } }
  | .parentId (some h) => do let r ← decodeHexStr h c.parentHex; pure { l with d := { l.d with parentId := r } }
  | .timestamp v => do let t ← zTime v; pure { l with d := { l.d with ts := t } }
  | .duration v => do let t ← zTime v; pure { l with d := { l.d with dur := t } }
  | .name (some s) => pure { l with d := { l.d with name := s, kv := l.d.kv ++ [(kName, s)] } }
  | .localEndpoint e => do
    let (s, kv) ← parseEndpoint "local_endpoint_" e
    pure { l with localSvc := s, d := { l.d with kv := l.d.kv ++ kv } }
  | .remoteEndpoint e => do
    let (s, kv) ← parseEndpoint "remote_endpoint_" e
    pure { l with remoteSvc := s, d := { l.d with kv := l.d.kv ++ kv } }
  | .tags t => do let kv ← parseTags t; pure { l with d := { l.d with kv := l.d.kv ++ kv } }
  | .kind _ => pure l
  | .annotations _ => pure l
  | .other => pure l

/-- `zipkinDecoderV2.decodeSpan`: reset the per-span state, keep the text, walk the members, resolve the
    check that nothing follows the object, resolve the service name, call `onSpan`. Returns the decoder state
    left behind and the `onSpan` arguments. An id member that never occurred leaves `nil` (zero bytes). -/
def decodeSpan (c : Cfg) (_old : ZDec) (raw : ZSpan) : Except Reject (ZDec × Args) := do
  let fresh : ZDec := { payload := .zipkin raw, payloadLen := raw.rawLen }
  let l ← raw.fields.foldlM (zStep c) { d := fresh }
  -- `dec.Skip() != io.EOF`: only white space may follow the object (the text is the stored payload)
  if !raw.tail.all isWs then throw .reject
  let svc := if l.localSvc = [] then l.remoteSvc else l.localSvc
  let d := { l.d with svc := svc, kv := l.d.kv ++ [(kServiceName, svc)] }
  pure (d, ⟨d.traceId.getD [], d.spanId.getD [], d.ts, d.dur, d.parentId, d.name, d.svc, d.payload, d.payloadLen, d.kv⟩)

inductive Framing where
  | array
  | ndjson
  deriving DecidableEq, Repr

/-- `UnmarshalZipkinJSONV2` / `UnmarshalZipkinNDJSONV2` on a body holding these spans.
    Both `Decode` methods hand every span to `decodeSpan` of one decoder object. -/
def writeZipkin (c : Cfg) (f : Framing) (spans : List ZSpan) : Outcome :=
  match f with
  | .array => runSpans c c.zipkinType (decodeSpan c) {} {} spans
  | .ndjson => runSpans c c.zipkinNDType (decodeSpan c) {} {} spans

/-! ## OTLP writer -/

/-- `populateServiceNames` on the merged attributes: the resolved name and the attributes stored -/
def populate (c : Cfg) (attrs : List KV) : Str × List KV :=
  let svc := resolveService c.writerNames c.writerFirst c.writerDefault attrs
  let remote := resolveRemote attrs
  let a1 := setLast attrs kServiceName (.str svc)
  let a2 := if a1.any (fun kv => kv.1 == kRemoteServiceName) then a1 else a1 ++ [(kRemoteServiceName, .str remote)]
  (svc, a2)

/-- the body of the innermost loop of `OTLPDecoder.Decode` for one span of a resource.
    `plen` = `len(proto.Marshal(span))`, a function of the stored span. -/
def otlpArgs (c : Cfg) (plen : OSpan → Nat) (resAttrs : List KV) (span : OSpan) : Args :=
  let (svc, attrs) := populate c (span.attrs ++ resAttrs)
  let stored : OSpan := { span with attrs := attrs }
  let m0 := mapOfWrites (flattenKvs [] attrs)
  let m1 := mapSet m0 kName span.name
  let m2 := mapSet m1 kServiceName svc
  ⟨span.traceId, span.spanId, wrap64 span.startNs, wrap64 ((span.endNs + 18446744073709551616 - span.startNs) % 18446744073709551616),
   span.parentSpanId, span.name, svc, .otlp pbLead stored, plen stored, m2⟩

/-- the first loop of `otlpGetServiceNames` reads `val.Value.Value` of the last attribute under each name it reaches
    (it leaves at its first hit when it has a `break`): an attribute without a `Value` faults there — a nil-pointer
    panic in the parser goroutine, tamed into an error response: the request is refused -/
def localFault (first : Bool) (attrs : List KV) : List Str → Bool
  | [] => false
  | n :: rest =>
    match lookupLast attrs n with
    | some .nilp => true
    | some (.str s) => if s ≠ [] ∧ first = true then false else localFault first attrs rest
    | _ => localFault first attrs rest

/-- the `remote` loop has no `break`: it reaches all four names -/
def remoteFault (attrs : List KV) : Bool :=
  [ascii "service.name", ascii "faas.name", ascii "k8s.deployment.name", ascii "process.executable.name"].any
    (fun n => match lookupLast attrs n with | some .nilp => true | _ => false)

def otlpFault (c : Cfg) (attrs : List KV) : Bool := localFault c.writerFirst attrs c.writerNames || remoteFault attrs

/-- the body of the innermost loop of `Decode` with its fault -/
def otlpDec (c : Cfg) (plen : OSpan → Nat) (_ : Unit) (r : List KV × OSpan) : Except Reject (Unit × Args) :=
  if otlpFault c (r.2.attrs ++ r.1) then .error .reject else .ok ((), otlpArgs c plen r.1 r.2)

/-- all spans of a request with their resource attributes, in the order of the three nested loops -/
def otlpSpans (td : TracesData) : List (List KV × OSpan) :=
  td.flatMap (fun rs => rs.scopes.flatMap (fun sc => sc.map (fun s => (rs.resourceAttrs, s))))

/-- `UnmarshalOTLPV2` on a decoded `TracesData` -/
def writeOTLP (c : Cfg) (plen : OSpan → Nat) (td : TracesData) : Outcome :=
  runSpans c c.otlpType (otlpDec c plen) () {} (otlpSpans td)

/-! ## reader -/

/-- the `v1.Span` and service name of a `SpanResponse` -/
structure RSpan where
  traceId : Bytes
  spanId : Bytes
  parentSpanId : Bytes
  name : Str
  kind : Nat
  startNs : Nat
  endNs : Nat
  /-- canonical order: Zipkin — order of construction; OTLP (Go map order) — first insertion -/
  attrs : List KV
  status : Nat × Str
  serviceName : Str
  /-- `Events` (time, name) -/
  events : List (Nat × Str) := []
  deriving Repr

inductive ReadOne where
  | span (s : RSpan)
  /-- payload type neither Zipkin nor OTLP: a response with a nil span -/
  | nilSpan
  /-- decode error: `OutputQuery` prints it and ends the stream -/
  | error
  /-- a run-time panic in the goroutine of `OutputQuery`; its deferred `recover` prints it and ends the stream
      (before that fix the process died) -/
  | crash
  deriving Repr

/-- `decodeParentId` -/
def decodeParentId (h : Bytes) : Option Bytes :=
  if h.length = 0 then none
  else
    let p := if h.length < 16 then List.replicate (16 - h.length) 48 ++ h else h
    hexDecode (p.take 16)

def zFind {α} (fs : List ZField) (f : ZField → Option α) : Option α := fs.findSome? f

/-! member look-up by name (fastjson `Get`: the first member of that name) -/
def fTraceId : ZField → Option JStr | .traceId v => some v | _ => none
def fId : ZField → Option JStr | .id v => some v | _ => none
def fParentId : ZField → Option JStr | .parentId v => some v | _ => none
def fTimestamp : ZField → Option ZTime | .timestamp v => some v | _ => none
def fDuration : ZField → Option ZTime | .duration v => some v | _ => none
def fName : ZField → Option JStr | .name v => some v | _ => none
def fLocal : ZField → Option (Option Endpoint) | .localEndpoint v => some v | _ => none
def fRemote : ZField → Option (Option Endpoint) | .remoteEndpoint v => some v | _ => none
def fTags : ZField → Option (Option (List (Str × Option Str))) | .tags v => some v | _ => none
def fKind : ZField → Option JStr | .kind v => some v | _ => none
def fAnnotations : ZField → Option (Option (List (Nat × Str))) | .annotations v => some v | _ => none

def kindOf (k : Str) : Nat :=
  if k = ascii "CLIENT" then 3 else if k = ascii "SERVER" then 2
  else if k = ascii "PRODUCER" then 4 else if k = ascii "CONSUMER" then 5 else 0

/-- the attributes `parseZipkinJSON` makes of one endpoint, and its service name if it is a string
    (`ep.Get("serviceName")`: the first such member) -/
def epAttrs (name : String) (e : Option Endpoint) : List KV × Option Str :=
  match e with
  | none => ([], none)
  | some e =>
    let sn := match e.svcs.head? with | some (some s) => some s | _ => none
    let a1 := match sn with | some s => [(ascii name ++ ascii ".serviceName", AnyValue.str s)] | none => []
    let a2 := match e.ipv4 with | some s => [(ascii name ++ ascii ".ipv4", AnyValue.str s)] | none => []
    let a3 := match e.ipv6 with | some s => [(ascii name ++ ascii ".ipv6", AnyValue.str s)] | none => []
    let a4 := if e.port ≠ 0 then [(ascii name ++ ascii ".port", AnyValue.int e.port)] else []
    (a1 ++ a2 ++ a3 ++ a4, sn)

/-- the events `parseZipkinJSON` makes of the annotations: `GetUint64("timestamp") * 1000` in uint64, skipped when 0 -/
def annoEvents (a : Option (List (Nat × Str))) : List (Nat × Str) :=
  match a with
  | none => []
  | some as => as.filterMap (fun x =>
      let ts := (x.1 * 1000) % 18446744073709551616
      if ts = 0 then none else some (ts, x.2))

/-- `parseZipkinJSON` on a stored row (ids and times from the row, the rest from the payload as fastjson parses it;
    fastjson looks members up by name and takes the first) -/
def parseZipkinJSON (row : TraceRow) : ReadOne :=
  match row.payload with
  | .zipkin doc =>
    match doc.rfields with
    | none => .error
    | some fs =>
    if row.traceId.length < 16 ∨ row.spanId.length < 8 then .crash
    else
      let name := ((zFind fs fName).getD none).getD []
      let kind := kindOf (((zFind fs fKind).getD none).getD [])
      let parent := match (zFind fs fParentId).getD none with
        | some h => (decodeParentId h).getD []
        | none => []
      let tags := match (zFind fs fTags).getD none with
        | some ts => ts.filterMap (fun t => t.2.map (fun v => (t.1, AnyValue.str v)))
        | none => []
      let (la, ls) := epAttrs "localEndpoint" ((zFind fs fLocal).getD none)
      let (ra, rs) := epAttrs "remoteEndpoint" ((zFind fs fRemote).getD none)
      let svc := match ls with
        | some s => if s = [] then (rs.getD []) else s
        | none => rs.getD []
      .span ⟨row.traceId.take 16, row.spanId.take 8, parent, name, kind, toU64 row.ts, toU64 (wrap64 (row.ts + row.dur)),
             tags ++ la ++ ra ++ [(kServiceName, .str svc)], (0, []), svc,
             annoEvents ((zFind fs fAnnotations).getD none)⟩
  | _ => .error

/-- the reader's `firstLevelMap`: one attribute per key, the last one; canonical order = first insertion -/
abbrev firstLevel (attrs : List KV) : List KV := assocOfWrites attrs

/-! ### `parseOTLPJson` (reader/service/parseOTLPJson.go): rows of the older JSON writer -/

/-- `rawSpan[key]` of a Go map filled by `encoding/json`: the last member of that name; JSON `null` is a nil `any` -/
def jGet (ms : List (Str × JVal)) (key : Str) : Option JVal :=
  match ((ms.reverse.find? (fun e => e.1 == key)).map (·.2) : Option JVal) with
  | some JVal.null => none
  | x => x

/-- `strconv.ParseInt(s, 10, 64)` with the error dropped: 0 on a syntax error, the nearest bound on a range error -/
def parseIntClamp (s : Bytes) : Int :=
  let (neg, ds) := match s with
    | 43 :: r => (false, r)
    | 45 :: r => (true, r)
    | r => (false, r)
  match digitsVal ds with
  | none => 0
  | some n =>
    let v : Int := if neg then -(n : Int) else n
    if v < int64Min then int64Min else if v > int64Max then int64Max else v

/-- `setInt64`: a string is parsed, anything else (a JSON number too) gives 0 -/
def setInt64 (v : Option JVal) : Int :=
  match v with
  | some (.str s) => if s = [] then 0 else parseIntClamp s
  | _ => 0

/-- `base64DEcode` of `setOTLPIds`: absent → nil; not a string → error; else `StdEncoding.DecodeString` -/
def jId (v : Option JVal) : Except Reject Bytes :=
  match v with
  | none => .ok []
  | some (.str s) => match B64.decodeOk s with | some b => .ok b | none => .error .reject
  | some _ => .error .reject

/-- the outcome of a step of `parseOTLPJson`: a value, a returned error, or a run-time panic (unchecked type assertion) -/
inductive JRes (α : Type) where
  | ok (a : α)
  | err
  | panic
  deriving Repr

def JRes.bind {α β} (x : JRes α) (f : α → JRes β) : JRes β :=
  match x with | .ok a => f a | .err => .err | .panic => .panic
instance : Monad JRes where
  pure := JRes.ok
  bind := JRes.bind

/-- `attr.(map[string]any)` -/
def asObj : JVal → JRes (List (Str × JVal))
  | .obj ms => .ok ms
  | _ => .panic

/-- `getRawAttr`: the first element whose `"key"` is the string `key`; every element passed on the way must be an object -/
def getRawAttr : List JVal → Str → JRes (Option (List (Str × JVal)))
  | [], _ => .ok none
  | a :: rest, key => do
    let ms ← asObj a
    match jGet ms (ascii "key") with
    | some (.str k) => if k = key then pure (some ms) else getRawAttr rest key
    | _ => getRawAttr rest key

/-- `getRawVal`: `attr["value"].(map[string]any)` -/
def getRawVal (attrs : List JVal) (key : Str) : JRes (Option (List (Str × JVal))) := do
  match ← getRawAttr attrs key with
  | none => pure none
  | some ms => match jGet ms (ascii "value") with
    | some (.obj v) => pure (some v)
    | _ => .panic

/-- one name of a loop of the JSON `otlpGetServiceNames`: `val["stringValue"]` present (a JSON `null` counts as
    present and then fails the `.(string)` assertion) -/
def jsonNameStep (attrs : List JVal) (cur : Str) (name : Str) : JRes Str := do
  match ← getRawVal attrs name with
  | none => pure cur
  | some v => match ((v.reverse.find? (fun e => e.1 == ascii "stringValue")).map (·.2) : Option JVal) with
    | none => pure cur
    | some (JVal.str s) => pure s
    | some _ => .panic

/-- the JSON `otlpGetServiceNames`: no `break` — the LAST name of each list that is present wins, empty strings count -/
def jsonServiceNames (attrs : List JVal) : JRes (Str × Str) := do
  let l ← [ascii "peer.service", ascii "service.name", ascii "faas.name", ascii "k8s.deployment.name",
           ascii "process.executable.name"].foldlM (jsonNameStep attrs) []
  let r ← [ascii "service.name", ascii "faas.name", ascii "k8s.deployment.name",
           ascii "process.executable.name"].foldlM (jsonNameStep attrs) []
  pure (if l = [] then ascii "OTLPResourceNoServiceName" else l, r)

/-- `toInt64` of a decoded JSON value: a string is parsed (0 on a syntax error, clamped), a number gives 0
    (`encoding/json` yields float64, never int64) -/
def jToInt64 : JVal → Int
  | .str s => parseIntClamp s
  | _ => 0

/-- `setRawValue`: four independent `if`s, a later kind overrides an earlier one. `fbits s` = the float64
    `strconv.ParseFloat(s, 64)` yields, 0 on error (a parameter: the library call). -/
def setRawValue (fbits : Bytes → Nat) (rv : List (Str × JVal)) (cur : AnyValue) : JRes AnyValue := do
  let g := jGet rv
  let v1 ← match g (ascii "stringValue") with
    | none => pure cur
    | some (.str s) => pure (AnyValue.str s)
    | some _ => JRes.panic
  let v2 := match g (ascii "intValue") with
    | none => v1
    | some x => AnyValue.int (jToInt64 x)
  let v3 ← match g (ascii "boolValue") with
    | none => pure v2
    | some (.bool b) => pure (AnyValue.bool b)
    | some _ => JRes.panic
  let v4 := match g (ascii "doubleValue") with
    | none => v3
    | some (.num _ f) => AnyValue.dbl f
    | some (.str s) => AnyValue.dbl (fbits s)
    | some _ => AnyValue.dbl 0
  pure v4

/-- set the value of the FIRST attribute stored under `key` (`getAttr` + assignment through the pointer) -/
def setFirst (key : Str) (f : AnyValue → JRes AnyValue) : List KV → JRes (Option (List KV))
  | [] => .ok none
  | kv :: rest =>
    if kv.1 == key then do let v ← f kv.2; pure (some ((key, v) :: rest))
    else do
      match ← setFirst key f rest with
      | none => pure none
      | some r => pure (some (kv :: r))

/-- the last loop of `parseOTLPJson` over the raw attributes -/
def jsonAttrLoop (fbits : Bytes → Nat) : List JVal → List KV → JRes (List KV)
  | [], acc => .ok acc
  | a :: rest, acc =>
    match a with
    | .obj ms =>
      match jGet ms (ascii "key") with
      | some (.str k) =>
        if k = kServiceName ∨ k = kRemoteServiceName then jsonAttrLoop fbits rest acc
        else do
          let rv := match jGet ms (ascii "value") with | some (.obj v) => JRes.ok v | _ => JRes.panic
          -- `getAttr` first; the assertion on `_a["value"]` is evaluated only when the attribute exists
          if acc.any (fun kv => kv.1 == k) then do
            let v ← rv
            match ← setFirst k (setRawValue fbits v) acc with
            | some acc' => jsonAttrLoop fbits rest acc'
            | none => jsonAttrLoop fbits rest acc
          else jsonAttrLoop fbits rest acc
      | _ => .panic   -- `_a["key"].(string)`
    | _ => jsonAttrLoop fbits rest acc

/-- the event loop of `setTimestamps`: `span.Events[i].TimeUnixNano = …` for every element of the raw `events` that is
    an object (an index past the struct's events faults) -/
def jsonEvents : List JVal → List (Nat × Str) → JRes (List (Nat × Str))
  | [], se => .ok se
  | e :: es, se =>
    match e, se with
    | .obj _, [] => .panic
    | .obj em, (_, n) :: rest => do
      let r ← jsonEvents es rest
      pure ((toU64 (setInt64 (jGet em (ascii "timeUnixNano"))), n) :: r)
    | _, [] => jsonEvents es []
    | _, x :: rest => do let r ← jsonEvents es rest; pure (x :: r)

/-- `parseOTLPJson`. The span's attributes start as `encoding/json` left them in the struct: one per element of
    `attributes`, the value an empty `AnyValue` (`unset`) when the element has a `value` object; an element without
    one has a nil `Value` (`nilp`) and faults when it is assigned through. -/
def parseOTLPJson (fbits : Bytes → Nat) (d : OJsonDoc) : JRes OSpan :=
  match d.raw with
  | none => .err
  | some ms => do
    let tid ← match jId (jGet ms (ascii "traceId")) with | .ok b => JRes.ok b | .error _ => JRes.err
    let sid ← match jId (jGet ms (ascii "spanId")) with | .ok b => JRes.ok b | .error _ => JRes.err
    let pid ← match jId (jGet ms (ascii "parentSpanId")) with | .ok b => JRes.ok b | .error _ => JRes.err
    let st := toU64 (setInt64 (jGet ms (ascii "startTimeUnixNano")))
    let en := toU64 (setInt64 (jGet ms (ascii "endTimeUnixNano")))
    let rawEvents := match jGet ms (ascii "events") with | some (.arr es) => es | _ => []
    let events ← jsonEvents rawEvents d.sEvents
    let attributes := match jGet ms (ascii "attributes") with | some (.arr as) => as | _ => []
    let (localN, remoteN) ← jsonServiceNames attributes
    let attrs0 : List KV := d.sAttrs.map (fun a => (a.1, if a.2 then AnyValue.unset else AnyValue.nilp))
    -- service.name / remoteService.name: first attribute of that key, value assigned through `attr.Value`
    let hasVal (k : Str) : Bool := match d.sAttrs.find? (fun a => a.1 == k) with | some a => a.2 | none => true
    if !hasVal kServiceName then JRes.panic else
    let attrs1 := if attrs0.any (fun kv => kv.1 == kServiceName) then replaceFirst kServiceName (.str localN) attrs0
                  else attrs0 ++ [(kServiceName, .str localN)]
    if !hasVal kRemoteServiceName then JRes.panic else
    let attrs2 := if attrs1.any (fun kv => kv.1 == kRemoteServiceName) then replaceFirst kRemoteServiceName (.str remoteN) attrs1
                  else attrs1 ++ [(kRemoteServiceName, .str remoteN)]
    let attrs3 ← jsonAttrLoop fbits attributes attrs2
    pure { traceId := tid, spanId := sid, parentSpanId := pid, name := d.sName, kind := d.sKind, startNs := st, endNs := en,
           attrs := attrs3, status := d.sStatus, events := events }

/-- `parseOTLP`: an empty payload is an error; a payload beginning with `{` goes to `parseOTLPJson`, anything else to
    `proto.Unmarshal`; then the first-level map, the service name, `service.name` set, status defaulted -/
def parseOTLP (c : Cfg) (fbits : Bytes → Nat) (row : TraceRow) : ReadOne :=
  let fin (span : OSpan) : ReadOne :=
    let m := firstLevel span.attrs
    let svc := resolveService c.readerNames c.readerFirst c.readerDefault m
    let m' := assocSet m kServiceName (AnyValue.str svc)
    .span ⟨span.traceId, span.spanId, span.parentSpanId, span.name, span.kind, span.startNs, span.endNs, m',
           span.status.getD (0, []), svc, span.events⟩
  match row.payload with
  | .empty => .error
  | .otlp lead span =>
    -- protobuf bytes beginning with `{` (0x7B: field 15 with wire type 3) would be handed to `json.Unmarshal`, which fails
    if lead = 123 then .error else fin span
  | .otlpJson d =>
    match parseOTLPJson fbits d with
    | .ok span => fin span
    | .err => .error
    | .panic => .crash
  | .zipkin _ => .error

/-- the switch of `OutputQuery` -/
def readRow (c : Cfg) (fbits : Bytes → Nat) (row : TraceRow) : ReadOne :=
  if row.ptype = c.readZipkinType then parseZipkinJSON row
  else if row.ptype = c.readOtlpType then parseOTLP c fbits row
  else .nilSpan

inductive ReadEnd where
  | done
  | stopped
  | crashed
  deriving DecidableEq, Repr

/-- `OutputQuery` over the rows of a trace: responses sent until the first error -/
def readRows (c : Cfg) (fbits : Bytes → Nat) : List TraceRow → List (Option RSpan) × ReadEnd
  | [] => ([], .done)
  | r :: rs =>
    match readRow c fbits r with
    | .span s => let (o, e) := readRows c fbits rs; (some s :: o, e)
    | .nilSpan => let (o, e) := readRows c fbits rs; (none :: o, e)
    | .error => ([], .stopped)
    | .crash => ([], .crashed)

end Qryn.Span
