/-! # Ingest.PromiseModel — `writer/utils/promise/promise.go` statement by statement (C01). Core-only.

```go
func (p *Promise[T]) Done(res T, err error) {
	if !atomic.CompareAndSwapInt32(&p.pending, 1, 0) { return }   -- cas
	p.res = res                                                    -- setRes
	p.err = err                                                    -- setErr
	close(p.lock)                                                  -- close
}
func (p *Promise[T]) Get() (T, error) { <-p.lock; return p.res, p.err }   -- wait, readRes, readErr
```
Any number of goroutines call `Done` (the flush iteration, `Request` itself for the immediate completion, `doPush`'s
recover) and `Get`/`GetCtx` (`doPush`'s retried function, `doParse`); a *schedule* picks which goroutine takes its next
statement. The interleaving is sequentially consistent, which Go's memory model grants for exactly these accesses:
the writes of `res`/`err` happen before `close(p.lock)`, which happens before the receive of every `Get` completes.
`close` of a closed channel is a Go panic: `fault`. `winner` is a ghost field (the arguments of the `Done` whose
compare-and-swap succeeded). -/
namespace Qryn.Ingest.PromiseModel

inductive DPc | cas | setRes | setErr | close | fin
deriving DecidableEq, Repr

inductive GPc | wait | readRes | readErr | ret
deriving DecidableEq, Repr

/-- the statements of `Done` in source order (compared with `Gen.Promise.doneProgram`) -/
def doneProgram : List DPc := [.cas, .setRes, .setErr, .close]
/-- the statements of `Get` -/
def getProgram : List GPc := [.wait, .readRes, .readErr]

structure Cell where
  pending : Bool := true       -- `pending == 1`
  res : Nat := 0
  err : Nat := 0               -- 0 = nil
  closed : Bool := false       -- `p.lock` is closed
  fault : Bool := false        -- close of a closed channel
  winner : Option (Nat × Nat) := none   -- ghost
deriving DecidableEq, Repr

inductive Th
  /-- a goroutine inside `Done(res, err)` about to execute statement `pc` -/
  | done (res err : Nat) (pc : DPc)
  /-- a goroutine inside `Get()`; `r`, `e` are the values read so far -/
  | get (pc : GPc) (r e : Nat)
deriving DecidableEq, Repr

def stepTh (c : Cell) : Th → Cell × Th
  | .done r e .cas =>
    if c.pending then ({ c with pending := false, winner := some (r, e) }, .done r e .setRes) else (c, .done r e .fin)
  | .done r e .setRes => ({ c with res := r }, .done r e .setErr)
  | .done r e .setErr => ({ c with err := e }, .done r e .close)
  | .done r e .close => (if c.closed then { c with fault := true } else { c with closed := true }, .done r e .fin)
  | .done r e .fin => (c, .done r e .fin)
  | .get .wait r e => if c.closed then (c, .get .readRes r e) else (c, .get .wait r e)
  | .get .readRes _ e => (c, .get .readErr c.res e)
  | .get .readErr r _ => (c, .get .ret r c.err)
  | .get .ret r e => (c, .get .ret r e)

structure Sys where
  c : Cell
  ths : List Th
deriving DecidableEq, Repr

/-- goroutine `i` executes its next statement (nothing if there is no such goroutine) -/
def step (s : Sys) (i : Nat) : Sys :=
  match s.ths[i]? with
  | none => s
  | some t => let r := stepTh s.c t; { c := r.1, ths := s.ths.set i r.2 }

def run (s : Sys) : List Nat → Sys
  | [] => s
  | i :: is => run (step s i) is

/-- `promise.New()` and goroutines that have not started their call yet -/
def init (ths : List Th) : Sys := { c := {}, ths := ths }

def Fresh : Th → Prop
  | .done _ _ pc => pc = .cas
  | .get pc r e => pc = .wait ∧ r = 0 ∧ e = 0

/-- past the compare-and-swap, before the close -/
def mid : Th → Bool
  | .done _ _ .setRes => true
  | .done _ _ .setErr => true
  | .done _ _ .close => true
  | _ => false

/-- the invariant, over the lookup function of the goroutine list -/
structure Inv (c : Cell) (g : Nat → Option Th) : Prop where
  nofault : c.fault = false
  pend : c.pending = true → c.winner = none ∧ c.closed = false ∧ ∀ i r e pc, g i = some (Th.done r e pc) → pc = DPc.cas
  won : c.pending = false → ∃ w : Nat × Nat, c.winner = some w ∧
    (c.closed = false → ∃ j pc, g j = some (Th.done w.1 w.2 pc) ∧ mid (Th.done w.1 w.2 pc) = true ∧
        (∀ k t, g k = some t → mid t = true → k = j) ∧ (pc ≠ DPc.setRes → c.res = w.1) ∧ (pc = DPc.close → c.err = w.2)) ∧
    (c.closed = true → (∀ k t, g k = some t → mid t = false) ∧ c.res = w.1 ∧ c.err = w.2)
  gets : ∀ i pc r e, g i = some (Th.get pc r e) →
    (c.closed = false → pc = GPc.wait) ∧
    ∀ w : Nat × Nat, c.winner = some w → ((pc = GPc.readErr ∨ pc = GPc.ret) → r = w.1) ∧ (pc = GPc.ret → e = w.2)
  origin : ∀ w : Nat × Nat, c.winner = some w → ∃ j pc, g j = some (Th.done w.1 w.2 pc)

end Qryn.Ingest.PromiseModel
