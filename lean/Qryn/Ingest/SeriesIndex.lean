import Qryn.Gen.Fingerprint
/-! The series index: which `time_series` rows a push request emits, when the (day, fingerprint, type)
    cache is read and set, and under which date a row is stored / searched. Core-only.

    Code modelled (writer): `parserDoer.onEntries` + `maybeAddFp` (utils/unmarshal/builder.go),
    `timeSeriesAndSamples.flush` (shared.go), `doParse` (controller/builder.go), `numbercache.Cache`
    (`Has`, `CheckAndSet`, the periodic `Reset`), ch-go `proto.ToDate` used by `ColDate.Append`.
    Code modelled (reader): `FormatFromDate` and the `date <= To.Format("2006-01-02")` bounds of the
    time_series / time_series_gin reads.

    What is *not* in the model: the insert services and ClickHouse (each INSERT of a flushed chunk has
    a final outcome chosen by the environment — `Chunk.seriesOk`, `Chunk.samplesOk`, i.e. after the
    retries of `doPush`), sizes (where a request is cut into chunks is chosen by the environment),
    and the hash that maps (day, fingerprint, type) to the cache key (a parameter `key`). -/
namespace Qryn.SeriesIndex
open Qryn.Gen

/-! ### time, dates -/

/-- a Go `time.Time` as far as `Unix()`, `Zone()` see it: seconds since the epoch and the offset (seconds
    east of UTC) of its Location at that instant -/
structure GoTime where
  unix : Int
  zone : Int
deriving DecidableEq, Repr

/-- `time.Unix(sec, 0)`: the instant in the process-local zone, whose offset is `loc` -/
def timeUnix (loc sec : Int) : GoTime := ⟨sec, loc⟩
/-- `t.UTC()` -/
def GoTime.utc (t : GoTime) : GoTime := ⟨t.unix, 0⟩
/-- `t.Truncate(24 * time.Hour)`: Truncate works on the absolute time since year 1, which is a whole
    number of days before the Unix epoch, so it rounds the Unix time down to a multiple of 86400 -/
def GoTime.truncate24h (t : GoTime) : GoTime := ⟨t.unix / 86400 * 86400, t.zone⟩

/-- ch-go `proto.ToDate(t)` as stored by `ColDate.Append`: `Date((t.Unix() + offset) / secInDay)` with
    Go's truncating division and the conversion to `uint16` (the zero `time.Time` of year 1, which maps
    to 0, cannot be produced from an `int64` nanosecond timestamp) -/
def toDate (t : GoTime) : Nat := (((t.unix + t.zone).tdiv 86400) % 65536).toNat

/-- the key of the `dates` map in `onEntries` for a sample at `tsNs`:
    `time.Unix(tsns/1000000000, 0)[.UTC()].Truncate(time.Hour*24)` -/
def sampleDay (loc tsNs : Int) : GoTime :=
  let t := timeUnix loc (tsNs.tdiv 1000000000)
  (if Fingerprint.seriesDateUTC then t.utc else t).truncate24h

/-- the `date` column of the series row emitted for a sample at `tsNs` by a writer whose local zone
    offset is `loc` -/
def seriesDate (loc tsNs : Int) : Nat := toDate (sampleDay loc tsNs)

/-- day number of the civil date `Format("2006-01-02")` prints for an instant in a zone -/
def civilDay (unixSec zone : Int) : Int := (unixSec + zone) / 86400

/-- reader lower bound `date >= FormatFromDate(from)`: (from − 30 min) formatted in UTC -/
def readerLower (fromNs : Int) : Int := civilDay (fromNs / 1000000000 - Fingerprint.fromDateMarginSec) 0

/-- reader upper bound `date <= To[.UTC()].Format("2006-01-02")`; `loc` is the reader's zone offset -/
def readerUpper (loc toNs : Int) : Int :=
  civilDay (toNs / 1000000000) (if Fingerprint.upperBoundUTC then 0 else loc)

/-! ### requests -/

/-- what the cache and the per-request set are keyed by (before hashing): the Unix time of the day
    start, the fingerprint, the sample type -/
structure Cand where
  day : Int
  fp : Nat
  tp : Nat
deriving DecidableEq, Repr

/-- a `time_series` row as far as the index is concerned (labels and TTL are functions of the call) -/
structure Row where
  date : Nat
  fp : Nat
  tp : Nat
deriving DecidableEq, Repr

structure Sample where
  fp : Nat
  ts : Int
  tp : Nat
deriving DecidableEq, Repr

/-- one `onEntries` call: a label set (its fingerprint) with entries (timestamp ns, type) -/
structure Call where
  fp : Nat
  entries : List (Int × Nat)
deriving DecidableEq, Repr

/-- what was accumulated between two flushes, with the final outcome of its two INSERTs -/
structure Chunk where
  calls : List Call
  seriesOk : Bool
  samplesOk : Bool
deriving DecidableEq, Repr

/-- a push request as the parser sees it: the flushed chunks in order and, when the body fails to
    decode, the calls made after the last flush (they are never flushed) -/
structure Req where
  chunks : List Chunk
  dropped : Option (List Call)
deriving DecidableEq, Repr

inductive Op
  | push (r : Req)
  | cacheReset
deriving DecidableEq, Repr

def dedup {α : Type} [DecidableEq α] : List α → List α
  | [] => []
  | a :: t => if a ∈ t then dedup t else a :: dedup t

/-- the candidates `onEntries` asks about: every day of the call × every type of the call -/
def callCands (loc : Int) (c : Call) : List Cand :=
  (dedup (c.entries.map (fun e => (sampleDay loc e.1).unix))).flatMap (fun d =>
    ([0, 1, 2].filter (fun t => c.entries.any (fun e => e.2 = t))).map (fun t => ⟨d, c.fp, t⟩))

def callSamples (c : Call) : List Sample := c.entries.map (fun e => ⟨c.fp, e.1, e.2⟩)

def chunkCands (loc : Int) (c : Chunk) : List Cand := c.calls.flatMap (callCands loc)
def chunkSamples (c : Chunk) : List Sample := c.calls.flatMap callSamples

/-- the row stored for a candidate: `MDate = d` (a time in the zone `sampleDay` left it in) through `ToDate` -/
def rowOf (loc : Int) (x : Cand) : Row :=
  ⟨toDate ⟨x.day, if Fingerprint.seriesDateUTC then 0 else loc⟩, x.fp, x.tp⟩

/-- the row an acknowledged sample needs -/
def rowFor (loc : Int) (s : Sample) : Row := ⟨seriesDate loc s.ts, s.fp, s.tp⟩

variable {K : Type} [DecidableEq K]

/-! ### emission — the code as it is now: the parser only reads the cache -/

/-- `maybeAddFp` + the body of the `if`: `seen` is `seenFpKeys` (= the keys handed out in
    `TimeSeriesFpKeys` so far), `rows` what was appended to the pending chunk -/
def emitOne (key : Cand → K) (loc : Int) (cache : List K) (acc : List K × List Row) (x : Cand) :
    List K × List Row :=
  if key x ∈ acc.1 ∨ key x ∈ cache then acc else (key x :: acc.1, rowOf loc x :: acc.2)

def emitCands (key : Cand → K) (loc : Int) (cache : List K) (seen : List K) (xs : List Cand) :
    List K × List Row :=
  xs.foldl (emitOne key loc cache) (seen, [])

/-- all chunks of a request: the final `seen` and the rows of each chunk -/
def emitChunks (key : Cand → K) (loc : Int) (cache : List K) : List K → List Chunk → List K × List (List Row)
  | seen, [] => (seen, [])
  | seen, c :: cs =>
    let r := emitCands key loc cache seen (chunkCands loc c)
    let r' := emitChunks key loc cache r.1 cs
    (r'.1, r.2 :: r'.2)

/-! ### emission — the previous code: `CheckAndSet` while parsing -/

def emitOneOld (key : Cand → K) (loc : Int) (acc : List K × List Row) (x : Cand) : List K × List Row :=
  if key x ∈ acc.1 then acc else (key x :: acc.1, rowOf loc x :: acc.2)

/-- the cache is threaded through and set at once -/
def emitChunksOld (key : Cand → K) (loc : Int) : List K → List Chunk → List K × List (List Row)
  | cache, [] => (cache, [])
  | cache, c :: cs =>
    let r := (chunkCands loc c).foldl (emitOneOld key loc) (cache, [])
    let r' := emitChunksOld key loc r.1 cs
    (r'.1, r.2 :: r'.2)

/-! ### the machine -/

structure St (K : Type) where
  cache : List K
  series : List Row
  samples : List Sample
  acked : List Sample
deriving Repr

def St.init : St K := ⟨[], [], [], []⟩

/-- rows / samples of the chunks whose INSERT succeeded -/
def insertedRows : List Chunk → List (List Row) → List Row
  | c :: cs, r :: rs => (if c.seriesOk then r else []) ++ insertedRows cs rs
  | _, _ => []

def insertedSamples (cs : List Chunk) : List Sample :=
  cs.flatMap (fun c => if c.samplesOk then chunkSamples c else [])

/-- `doParse` returns nil: the body decoded and every promise resolved without error -/
def reqAcked (r : Req) : Bool := r.dropped.isNone && r.chunks.all (fun c => c.seriesOk && c.samplesOk)

/-- one push request. `setAtEmit`: the parser sets the cache itself (previous code);
    `setAfterAck`: `doParse` sets the collected keys after a fully successful request. -/
def pushWith (setAtEmit setAfterAck : Bool) (key : Cand → K) (loc : Int) (st : St K) (r : Req) : St K :=
  let acked := reqAcked r
  if setAtEmit then
    let e := emitChunksOld key loc st.cache r.chunks
    let cache' := match r.dropped with
      | none => e.1
      | some calls => ((calls.flatMap (callCands loc)).foldl (emitOneOld key loc) (e.1, [])).1
    { cache := cache'
      series := st.series ++ insertedRows r.chunks e.2
      samples := st.samples ++ insertedSamples r.chunks
      acked := if acked then st.acked ++ r.chunks.flatMap chunkSamples else st.acked }
  else
    let e := emitChunks key loc st.cache [] r.chunks
    { cache := if acked && setAfterAck then e.1 ++ st.cache else st.cache
      series := st.series ++ insertedRows r.chunks e.2
      samples := st.samples ++ insertedSamples r.chunks
      acked := if acked then st.acked ++ r.chunks.flatMap chunkSamples else st.acked }

def stepWith (setAtEmit setAfterAck : Bool) (key : Cand → K) (loc : Int) (st : St K) : Op → St K
  | .push r => pushWith setAtEmit setAfterAck key loc st r
  | .cacheReset => { st with cache := [] }

/-- the code as it is (flags regenerated from the source) -/
def step (key : Cand → K) (loc : Int) (st : St K) (op : Op) : St K :=
  stepWith Fingerprint.cacheSetAtEmit Fingerprint.cacheSetAfterAck key loc st op

def run (key : Cand → K) (loc : Int) (ops : List Op) : St K := ops.foldl (step key loc) St.init

def runWith (setAtEmit setAfterAck : Bool) (key : Cand → K) (loc : Int) (ops : List Op) : St K :=
  ops.foldl (stepWith setAtEmit setAfterAck key loc) St.init

/-- every candidate an operation asks the cache about -/
def opCands (loc : Int) : Op → List Cand
  | .push r => r.chunks.flatMap (chunkCands loc) ++
      (match r.dropped with | none => [] | some cs => cs.flatMap (callCands loc))
  | .cacheReset => []

end Qryn.SeriesIndex
