import Qryn.Ingest.WireDecode
/-! # What the parser goroutines SEND: every request object, whole decodes and decodes cut short (C05, premise of C02)

C03's models say what a decoder issues when `Decode` SUCCEEDS (`…Decode : … → Option (List Call)`). The batch shared
with other clients, however, also receives what was flushed BEFORE a decode failed: `onEntries` / `onSpan` /
`onProfile` put a request on the response channel whenever the size threshold is crossed, and `doParse` hands every
response it has read to the insert services before it sees the error. This module therefore gives

* `issueAll` — the shape every decoder loop has (`for x in xs { calls, err := step x; if err != nil { return err } }`):
  the calls issued so far are kept, also when a step fails, also when the failing step is itself a loop that had issued
  something; and, built from the very same per-item functions as C03's decoders, the `…Issued` form of each log / metric
  decoder (`Proofs/ParserRect.lean` proves `…Issued = (calls, true) ↔ …Decode = some calls`);
* `sent` — what then travels on the channel: the chunks the builder (C03's `runCalls`) flushed, plus the final flush
  only after a decode without error; nothing more after a fault (`tamePanic` sends the error and closes);
* a COLUMN-level model of `onSpan` and `onProfile` (C06's span builder is row-level: rectangular by construction; here
  every column is a list of its own, `key` and `val` are separate arrays, and the loop `for i, k := range key` stops at
  `val[i]` with the columns of that row half appended — exactly the state Go would leave behind).

Core-only. -/
namespace Qryn.ParserRect
open Qryn Qryn.Ingest Qryn.Ingest.Wire

/-! ## decoder loops that keep what they issued -/

/-- `for x in xs { cs, ok := f x; issue cs; if !ok { return err } }` — the calls in order, and whether the loop ended
    without an error -/
def issueAll {α} (f : α → List Call × Bool) : List α → List Call × Bool
  | [] => ([], true)
  | x :: xs =>
    match f x with
    | (cs, true) => let r := issueAll f xs; (cs ++ r.1, r.2)
    | (cs, false) => (cs, false)

/-- a step that either issues its calls or fails without having issued any -/
def ofOpt (o : Option (List Call)) : List Call × Bool :=
  match o with
  | some cs => (cs, true)
  | none => ([], false)

/-- one element of a `streams` array: decoded (C03's `streamMember`) and, when that succeeds, issued at once -/
def lokiStreamStep (scan : Bytes → List Tok) (s : Json) : List Call × Bool :=
  ofOpt ((jxObj (streamMember scan) {} s).map (fun p => [p.call]))

def lokiStreamsIssued (scan : Bytes → List Tok) : Json → List Call × Bool
  | .arr ss => issueAll (lokiStreamStep scan) ss
  | _ => ([], false)

def lokiMemberIssued (scan : Bytes → List Tok) (kv : Bytes × Json) : List Call × Bool :=
  if kv.1 = k_streams then lokiStreamsIssued scan kv.2 else ([], true)

/-- Loki JSON push: the members of the top-level object in document order -/
def lokiJsonIssued (scan : Bytes → List Tok) : Json → List Call × Bool
  | .obj ms => issueAll (lokiMemberIssued scan) ms
  | _ => ([], false)

def ddLogStep (tagsOf : Bytes → Labels) (now : Int) (x : Json) : List Call × Bool :=
  ofOpt ((jxObj (ddMember tagsOf) {} x).map (fun d => [ddEntryCall now d]))

/-- Datadog logs -/
def ddLogsIssued (tagsOf : Bytes → Labels) (now : Int) : Json → List Call × Bool
  | .arr xs => issueAll (ddLogStep tagsOf now) xs
  | _ => ([], false)

def dsItemStep (now : Int) (it : Json) : List Call × Bool :=
  ofOpt ((jxObj (dsItemMember now) {} it).map (fun st => [dsCall st]))

def dsItemsIssued (now : Int) : Json → List Call × Bool
  | .arr xs => issueAll (dsItemStep now) xs
  | _ => ([], false)

def dsMemberIssued (now : Int) (kv : Bytes × Json) : List Call × Bool :=
  if kv.1 = k_series then dsItemsIssued now kv.2 else ([], true)

/-- Datadog series -/
def ddSeriesIssued (now : Int) : Json → List Call × Bool
  | .obj ms => issueAll (dsMemberIssued now) ms
  | _ => ([], false)

/-- the call `logsProtoDec.Decode` makes for a stream whose label text parsed -/
def lokiProtoCall (ls : Labels) (s : PbStream) : Call :=
  ⟨sanitizeLabels ls, s.entries.map pbEntryTs, s.entries.map (·.line),
   fastFill s.entries.length 0, fastFill s.entries.length Gen.sampleTypeLog⟩

/-- Loki protobuf push: a stream whose label text does not parse ends the loop; the streams before it were issued -/
def lokiProtoStep (scan : Bytes → List Tok) (s : PbStream) : List Call × Bool :=
  ofOpt ((labelPairs (scan s.labels)).map (fun ls => [lokiProtoCall ls s]))

def lokiProtoIssued (scan : Bytes → List Tok) (d : List PbStream) : List Call × Bool :=
  issueAll (lokiProtoStep scan) d

/-- Influx: one `parser.Next()` iteration per metric -/
def influxIssued (ms : List Metric) : List Call × Bool := issueAll (fun m => ofOpt (influxMetricCalls m)) ms

/-- decoders whose every call is a one-entry log call built from literals (`[]int64{t}, []string{line}, []float64{0},
    []uint8{SAMPLE_TYPE_LOG}`): Elastic `_doc` (one item), Elastic `_bulk` and Datadog/Cloudflare (one item per line).
    An item is what decoding the line gave: an error, nothing to issue, or (labels, time, line). -/
def singleCall (l : Labels) (t : Int) (line : Bytes) : Call := ⟨l, [t], [line], [0], [Gen.sampleTypeLog]⟩

def lineStep : Option (Option (Labels × Int × Bytes)) → List Call × Bool
  | none => ([], false)
  | some none => ([], true)
  | some (some (l, t, line)) => ([singleCall l t line], true)

def linesIssued (items : List (Option (Option (Labels × Int × Bytes)))) : List Call × Bool := issueAll lineStep items

/-! ## what travels on the response channel -/

/-- the responses a log / metric parser goroutine has sent when it ends: every chunk `onEntries` flushed while the
    decoder ran and — only after a decode without error — the final `flush()` of `doParseLogs`. `none`: `onEntries`
    panicked (`tamePanic` then sends the error; the chunks sent before it are those of the calls before the bad one). -/
def sent (env : Env) (r : List Call × Bool) : Option (List Chunk) :=
  match runCalls env {} r.1 with
  | .error _ => none
  | .ok (st, out) => some (if r.2 then out ++ [⟨st.spl, st.ts⟩] else out)

/-! ## spans, column by column -/

/-- the arguments of `onSpan` (ids and strings as bytes) -/
structure SpanArgs where
  traceId : Bytes
  spanId : Bytes
  ts : Int
  dur : Int
  parentId : Bytes
  name : Bytes
  svc : Bytes
  payload : Bytes
  keys : List Bytes
  vals : List Bytes

/-- `model.TempoSamples`: nine columns -/
structure SpanCols where
  tid : List Bytes := []
  sid : List Bytes := []
  ts : List Int := []
  dur : List Int := []
  parent : List Bytes := []
  name : List Bytes := []
  svc : List Bytes := []
  ptype : List Int := []
  payload : List Bytes := []
  size : Nat := 0

/-- `model.TempoTag`: seven columns -/
structure AttrCols where
  tid : List Bytes := []
  sid : List Bytes := []
  ts : List Int := []
  dur : List Int := []
  key : List Bytes := []
  val : List Bytes := []
  date : List Int := []
  size : Nat := 0

def SpanCols.Rect (s : SpanCols) : Prop :=
  s.sid.length = s.tid.length ∧ s.ts.length = s.tid.length ∧ s.dur.length = s.tid.length ∧
  s.parent.length = s.tid.length ∧ s.name.length = s.tid.length ∧ s.svc.length = s.tid.length ∧
  s.ptype.length = s.tid.length ∧ s.payload.length = s.tid.length

def AttrCols.Rect (a : AttrCols) : Prop :=
  a.sid.length = a.tid.length ∧ a.ts.length = a.tid.length ∧ a.dur.length = a.tid.length ∧
  a.key.length = a.tid.length ∧ a.val.length = a.tid.length ∧ a.date.length = a.tid.length

/-- the nine appends at the top of `onSpan` -/
def SpanCols.push (s : SpanCols) (ptype : Int) (a : SpanArgs) : SpanCols :=
  { tid := s.tid ++ [a.traceId], sid := s.sid ++ [a.spanId], ts := s.ts ++ [a.ts], dur := s.dur ++ [a.dur],
    parent := s.parent ++ [a.parentId], name := s.name ++ [a.name], svc := s.svc ++ [a.svc],
    ptype := s.ptype ++ [ptype], payload := s.payload ++ [a.payload],
    size := s.size + 49 + a.parentId.length + a.name.length + a.svc.length + a.payload.length }

/-- `for i, k := range key { …five appends…; MVal = append(MVal, val[i]); MDate = append(…); Size += … }`.
    `.error st` = `val[i]` is out of range: the panic leaves `st` behind, with trace id, span id, time, duration and key
    of that row appended and value and date not. -/
def attrLoop (a : SpanArgs) : AttrCols → List Bytes → List Bytes → Except AttrCols AttrCols
  | st, [], _ => .ok st
  | st, k :: ks, vs =>
    let st1 : AttrCols := { st with tid := st.tid ++ [a.traceId], sid := st.sid ++ [a.spanId], ts := st.ts ++ [a.ts],
                                     dur := st.dur ++ [a.dur], key := st.key ++ [k] }
    match vs with
    | [] => .error st1
    | v :: vs' =>
      attrLoop a { st1 with val := st1.val ++ [v], date := st1.date ++ [Int.tdiv a.ts 1000000000],
                            size := st1.size + 40 + k.length + v.length } ks vs'

structure SpanSt where
  spans : SpanCols := {}
  attrs : AttrCols := {}

inductive SpanRes
  /-- the new state and what was put on the channel -/
  | ok (st : SpanSt) (out : List (SpanCols × AttrCols))
  /-- ids of the wrong length: 400, nothing appended -/
  | reject
  /-- `val[i]` out of range: the state the panic leaves behind (never sent) -/
  | fault (st : SpanSt)

/-- `parserDoer.onSpan` with an arbitrary flush test -/
def onSpanCols (flush : Nat → Bool) (ptype : Int) (st : SpanSt) (a : SpanArgs) : SpanRes :=
  if a.traceId.length ≠ 16 ∨ a.spanId.length ≠ 8 then .reject
  else
    let spans := st.spans.push ptype a
    match attrLoop a st.attrs a.keys a.vals with
    | .error attrs => .fault ⟨spans, attrs⟩
    | .ok attrs =>
      if flush (attrs.size + spans.size) then .ok {} [(spans, attrs)] else .ok ⟨spans, attrs⟩ []

/-- the responses of a span parser goroutine: `calls` = the `onSpan` calls the decoder makes, `decodeOk` = it returned
    without error after the last one. A rejected span (400) or a fault ends everything: only what was flushed before
    stays sent. -/
def spansSent (flush : Nat → Bool) (ptype : Int) : SpanSt → List SpanArgs → Bool → List (SpanCols × AttrCols)
  | st, [], decodeOk => if decodeOk then [(st.spans, st.attrs)] else []
  | st, a :: as, decodeOk =>
    match onSpanCols flush ptype st a with
    | .ok st' out => out ++ spansSent flush ptype st' as decodeOk
    | .reject => []
    | .fault _ => []

/-! ## profiles, column by column -/

/-- the eight per-row columns of `model.ProfileData` (the five array-valued fields — sample types, tags, values,
    tree, functions — are assigned whole: one value per REQUEST, which is what the insert service appends once) -/
structure ProfCols where
  ts : List Nat := []
  ptype : List Bytes := []
  svc : List Bytes := []
  periodType : List Bytes := []
  periodUnit : List Bytes := []
  dur : List Nat := []
  payloadType : List Bytes := []
  payload : List Bytes := []

def ProfCols.Rect (p : ProfCols) : Prop :=
  p.ptype.length = p.ts.length ∧ p.svc.length = p.ts.length ∧ p.periodType.length = p.ts.length ∧
  p.periodUnit.length = p.ts.length ∧ p.dur.length = p.ts.length ∧ p.payloadType.length = p.ts.length ∧
  p.payload.length = p.ts.length

structure ProfArgs where
  ts : Nat
  ptype : Bytes
  svc : Bytes
  periodType : Bytes
  periodUnit : Bytes
  dur : Nat
  payloadType : Bytes
  payload : Bytes

def ProfCols.push (p : ProfCols) (a : ProfArgs) : ProfCols :=
  { ts := p.ts ++ [a.ts], ptype := p.ptype ++ [a.ptype], svc := p.svc ++ [a.svc],
    periodType := p.periodType ++ [a.periodType], periodUnit := p.periodUnit ++ [a.periodUnit],
    dur := p.dur ++ [a.dur], payloadType := p.payloadType ++ [a.payloadType], payload := p.payload ++ [a.payload] }

/-- `onProfile` (after ace837e: the profile, not the span fields, is flushed) with an arbitrary size test on the new
    state, and `doParseProfile`'s final send of a non-empty profile -/
def profilesSent (big : ProfCols → Bool) : ProfCols → List ProfArgs → Bool → List ProfCols
  | st, [], decodeOk => if decodeOk && st.ts.length > 0 then [st] else []
  | st, a :: as, decodeOk =>
    let st' := st.push a
    if big st' then st' :: profilesSent big {} as decodeOk else profilesSent big st' as decodeOk

end Qryn.ParserRect
