import Qryn.Ingest.Decode
/-! The INTERMEDIATE VALUES the hand-written decoders of writer/utils/unmarshal work on — what the third-party
    codec hands to qryn's own code, exactly at the API the Go code uses — and small models of the Go standard
    library functions those decoders call on the way. Core-only.

    Trusted (third party, behind these values): the JSON tokeniser of `jx` (`Json`: members IN DOCUMENT ORDER,
    duplicates kept; a number carries its source text and what `Float64()` / `Int64()` return for it),
    protobuf unmarshalling (message structs), telegraf's line-protocol parser (`Metric`), `text/scanner` +
    `strconv.Unquote` (`Tok`), go-logfmt (`Field.kv`), `strconv.FormatFloat` (`AnyVal.double`), base64.

    Modelled here (standard library, called by the decoders): `strconv.ParseInt(s, 10, 64)`,
    `time.Parse(time.RFC3339, s)` followed by `.UTC().UnixNano()`, `float64(int64)` / `float64(uint64)`,
    `strconv.FormatInt`, `strconv.FormatBool`, `encoding/json`'s encoding of `[]string` and `map[string]string`. -/
namespace Qryn.Ingest.Wire
open Qryn Qryn.Ingest

/-! ### folds that stop at the first failure (a callback returning an error ends `Obj` / `Arr`) -/

def foldOpt {σ α} (f : σ → α → Option σ) : σ → List α → Option σ
  | s, [] => some s
  | s, x :: xs =>
    match f s x with
    | some s' => foldOpt f s' xs
    | none => none

def mapOpt {α β} (f : α → Option β) : List α → Option (List β)
  | [] => some []
  | x :: xs =>
    match f x with
    | none => none
    | some y =>
      match mapOpt f xs with
      | none => none
      | some ys => some (y :: ys)

/-! ### JSON as `jx.Decoder` presents it -/

inductive Json
  | null
  | bool (b : Bool)
  /-- `text` = the number as written; `f64` = what `Decoder.Float64()` returns at this value (bit pattern; `none` = it
      reports an error), `i64` = what `Decoder.Int64()` returns (`none` = error: a fraction, an exponent, out of range) -/
  | num (text : Bytes) (f64 : Option UInt64) (i64 : Option Int)
  | str (s : Bytes)
  | arr (items : List Json)
  /-- members in document order, duplicate names preserved -/
  | obj (members : List (Bytes × Json))

/-- `jx.Type` as returned by `Decoder.Next()` -/
inductive JType | string | number | null | bool | array | object
  deriving DecidableEq, Repr

def Json.next : Json → JType
  | .null => .null
  | .bool _ => .bool
  | .num _ _ _ => .number
  | .str _ => .string
  | .arr _ => .array
  | .obj _ => .object

/-- `Decoder.Str()` / `StrBytes()`: an error on anything but a string -/
def jxStr : Json → Option Bytes
  | .str s => some s
  | _ => none

/-- `Decoder.Float64()` -/
def jxF64 : Json → Option UInt64
  | .num _ f _ => f
  | _ => none

/-- `Decoder.Int64()` -/
def jxI64 : Json → Option Int
  | .num _ _ i => i
  | _ => none

/-- `Decoder.Obj(f)`: an error on anything but an object; `f` is called for every member in document order
    (a repeated name is just another call); the first error ends the walk -/
def jxObj {σ} (f : σ → Bytes → Json → Option σ) (s : σ) : Json → Option σ
  | .obj m => foldOpt (fun s kv => f s kv.1 kv.2) s m
  | _ => none

/-- `Decoder.Arr(f)` -/
def jxArr {σ} (f : σ → Json → Option σ) (s : σ) : Json → Option σ
  | .arr l => foldOpt f s l
  | _ => none

/-! ### `strconv.ParseInt(s, 10, 64)` -/

def parseInt64 (s : Bytes) : Option Int :=
  let nd : Bool × Bytes := match s with
    | 43 :: r => (false, r)
    | 45 :: r => (true, r)
    | r => (false, r)
  match digitsVal nd.2 with
  | none => none
  | some n =>
    if nd.1 then (if n ≤ 9223372036854775808 then some (-(n : Int)) else none)
    else (if n ≤ 9223372036854775807 then some (n : Int) else none)

/-! ### `time.Parse(time.RFC3339, s)` then `.UTC().UnixNano()`

    The generic layout parser of package time run on the layout `2006-01-02T15:04:05Z07:00` (the fast path
    `parseRFC3339` accepts a subset with the same result): four-digit year, two-digit month 1–12, two-digit day,
    `T`, a ONE- or two-digit hour below 24, two-digit minute and second below 60, an optional fraction introduced
    by `.` or `,` with any number of digits of which the first nine count, then `Z` or `±hh:mm` with hh ≤ 24 and
    mm ≤ 60, nothing after it; finally the day must exist in that month. -/

def isDig (c : UInt8) : Bool := 48 ≤ c && c ≤ 57
def dval (c : UInt8) : Nat := c.toNat - 48

/-- `getnum(s, fixed)`: one or two digits (`fixed`: exactly two) -/
def getnum (fixed : Bool) : Bytes → Option (Nat × Bytes)
  | a :: b :: r =>
    if isDig a then
      (if isDig b then some (dval a * 10 + dval b, r) else if fixed then none else some (dval a, b :: r))
    else none
  | [a] => if isDig a && !fixed then some (dval a, []) else none
  | [] => none

def skipByte (c : UInt8) : Bytes → Option Bytes
  | x :: r => if x = c then some r else none
  | [] => none

def isLeap (y : Nat) : Bool := y % 4 = 0 && (y % 100 ≠ 0 || y % 400 = 0)

def daysIn (m y : Nat) : Nat :=
  if m = 2 then (if isLeap y then 29 else 28)
  else if m = 4 || m = 6 || m = 9 || m = 11 then 30 else 31

/-- days from 1970-01-01 to the given day of the proleptic Gregorian calendar -/
def daysFromCivil (y m d : Nat) : Int :=
  let y' : Int := if m ≤ 2 then (y : Int) - 1 else (y : Int)
  let era : Int := y' / 400
  let yoe : Int := y' - era * 400
  let mp : Int := ((m + 9) % 12 : Nat)
  let doy : Int := (153 * mp + 2) / 5 + (d : Int) - 1
  let doe : Int := yoe * 365 + yoe / 4 - yoe / 100 + doy
  era * 146097 + doe - 719468

/-- the fraction after the seconds: `(nanoseconds, rest)`; absent → `(0, s)` -/
def fracPart (s : Bytes) : Nat × Bytes :=
  match s with
  | sep :: d :: r =>
    if (sep = 46 || sep = 44) && isDig d then
      let ds := (d :: r).takeWhile isDig
      let used := ds.take 9
      (used.foldl (fun a c => a * 10 + dval c) 0 * 10 ^ (9 - used.length), (d :: r).dropWhile isDig)
    else (0, s)
  | _ => (0, s)

/-- the zone: offset in seconds east of UTC; nothing may follow it -/
def zonePart : Bytes → Option Int
  | [90] => some 0
  | [sg, h1, h2, c, m1, m2] =>
    if c = 58 && isDig h1 && isDig h2 && isDig m1 && isDig m2 then
      let hr := dval h1 * 10 + dval h2
      let mm := dval m1 * 10 + dval m2
      if hr > 24 || mm > 60 then none
      else if sg = 43 then some (((hr * 60 + mm) * 60 : Nat) : Int)
      else if sg = 45 then some (-(((hr * 60 + mm) * 60 : Nat) : Int))
      else none
    else none
  | _ => none

def goParseRFC3339 (s : Bytes) : Option Int :=
  match s with
  | y1 :: y2 :: y3 :: y4 :: r0 =>
    if !(isDig y1 && isDig y2 && isDig y3 && isDig y4) then none else
    let year := ((dval y1 * 10 + dval y2) * 10 + dval y3) * 10 + dval y4
    (skipByte 45 r0).bind fun r1 =>
    (getnum true r1).bind fun (month, r2) =>
    if month = 0 || month > 12 then none else
    (skipByte 45 r2).bind fun r3 =>
    (getnum true r3).bind fun (day, r4) =>
    (skipByte 84 r4).bind fun r5 =>
    (getnum false r5).bind fun (hour, r6) =>
    if hour ≥ 24 then none else
    (skipByte 58 r6).bind fun r7 =>
    (getnum true r7).bind fun (min, r8) =>
    if min ≥ 60 then none else
    (skipByte 58 r8).bind fun r9 =>
    (getnum true r9).bind fun (sec, r10) =>
    if sec ≥ 60 then none else
    let fr := fracPart r10
    (zonePart fr.2).bind fun off =>
    if day < 1 || day > daysIn month year then none else
    let unixSec : Int := daysFromCivil year month day * 86400 + (hour * 3600 + min * 60 + sec : Nat) - off
    some (wrap64 (unixSec * 1000000000 + (fr.1 : Int)))
  | _ => none

/-- `parseTime` (unmarshal.go): a string containing one of `:-TZ` is RFC 3339, anything else a decimal integer
    (so a negative integer is NOT accepted here: `-` sends it to the RFC 3339 parser) -/
def parseTime (b : Bytes) : Option Int :=
  if b.any (fun c => c = 58 || c = 45 || c = 84 || c = 90) then goParseRFC3339 b else parseInt64 b

/-! ### `float64(int64)`, `float64(uint64)`: round to nearest, ties to even -/

def natToF64 (n : Nat) : UInt64 :=
  if n = 0 then 0 else
  let e := n.log2
  if e ≤ 52 then UInt64.ofNat (((e + 1023) <<< 52) + ((n <<< (52 - e)) - 2 ^ 52))
  else
    let sh := e - 52
    let q := n >>> sh
    let rem := n % 2 ^ sh
    let half := 2 ^ (sh - 1)
    let q' := if rem > half || (rem = half && q % 2 = 1) then q + 1 else q
    if q' = 2 ^ 53 then UInt64.ofNat ((e + 1 + 1023) <<< 52)
    else UInt64.ofNat (((e + 1023) <<< 52) + (q' - 2 ^ 52))

def intToF64 (i : Int) : UInt64 :=
  if i < 0 then UInt64.ofNat (2 ^ 63) + natToF64 (-i).toNat else natToF64 i.toNat

/-! ### `strconv.FormatInt(i, 10)`, `strconv.FormatBool` -/

def natDec (n : Nat) : Bytes := (Nat.toDigits 10 n).map (fun c => UInt8.ofNat c.toNat)
def intDec (i : Int) : Bytes := if i < 0 then 45 :: natDec (-i).toNat else natDec i.toNat
def boolText (b : Bool) : Bytes := if b then [116, 114, 117, 101] else [102, 97, 108, 115, 101]

/-! ### `encoding/json`: `json.Marshal([]string)`, `json.Marshal(map[string]string)` (HTML escaping on) -/

def hexLow (n : Nat) : UInt8 := if n < 10 then UInt8.ofNat (48 + n) else UInt8.ofNat (87 + n)

/-- `appendString`'s loop; `skip` = continuation bytes of the current well-formed rune still to pass over
    (`copy`: they are copied; not copied after U+2028 / U+2029, which are written as escapes) -/
def jsonEscGo : Nat → Bool → Bytes → Bytes
  | _, _, [] => []
  | skip + 1, copy, b :: rest => (if copy then [b] else []) ++ jsonEscGo skip copy rest
  | 0, _, b :: rest =>
    if b < 0x80 then
      (if b = 92 || b = 34 then [92, b]
       else if b = 8 then [92, 98] else if b = 12 then [92, 102] else if b = 10 then [92, 110]
       else if b = 13 then [92, 114] else if b = 9 then [92, 116]
       else if b < 0x20 || b = 60 || b = 62 || b = 38 then [92, 117, 48, 48, hexLow (b.toNat / 16), hexLow (b.toNat % 16)]
       else [b]) ++ jsonEscGo 0 true rest
    else if runeLen (b :: rest) = 1 then [92, 117, 102, 102, 102, 100] ++ jsonEscGo 0 true rest     -- \ufffd
    else if b = 0xE2 && rest.take 2 == [0x80, 0xA8] then [92, 117, 50, 48, 50, 56] ++ jsonEscGo 2 false rest  -- U+2028
    else if b = 0xE2 && rest.take 2 == [0x80, 0xA9] then [92, 117, 50, 48, 50, 57] ++ jsonEscGo 2 false rest  -- U+2029
    else b :: jsonEscGo (runeLen (b :: rest) - 1) true rest

def jsonString (s : Bytes) : Bytes := [34] ++ jsonEscGo 0 true s ++ [34]

def joinComma : List Bytes → Bytes
  | [] => []
  | [x] => x
  | x :: xs => x ++ [44] ++ joinComma xs

/-- `json.Marshal(items)` for a non-nil `[]string` -/
def jsonStrings (items : List Bytes) : Bytes := [91] ++ joinComma (items.map jsonString) ++ [93]

/-- bytewise `<` on strings (the key order of `json.Marshal` of a map) -/
def bytesLt : Bytes → Bytes → Bool
  | [], [] => false
  | [], _ :: _ => true
  | _ :: _, [] => false
  | a :: as, b :: bs => if a < b then true else if b < a then false else bytesLt as bs

def insertKey (x : Bytes × Bytes) : List (Bytes × Bytes) → List (Bytes × Bytes)
  | [] => [x]
  | y :: ys => if bytesLt y.1 x.1 then y :: insertKey x ys else x :: y :: ys

def sortKeys (m : List (Bytes × Bytes)) : List (Bytes × Bytes) := m.foldr insertKey []

/-- `json.Marshal(m)` for a `map[string]string` given as an association list with distinct keys -/
def jsonMap (m : List (Bytes × Bytes)) : Bytes :=
  [123] ++ joinComma ((sortKeys m).map (fun kv => jsonString kv.1 ++ [58] ++ jsonString kv.2)) ++ [125]

/-! ### `text/scanner` tokens of a Loki label text -/

inductive Tok
  /-- `scanner.Ident` with its text -/
  | ident (text : Bytes)
  /-- `scanner.String`; `unq` = `strconv.Unquote(TokenText())`, `none` when it fails -/
  | str (unq : Option Bytes)
  /-- a token that is its own rune (`{` 123, `}` 125, `=` 61, `,` 44, …) -/
  | ch (c : Nat)
  /-- Int, Float, Char, RawString, Comment -/
  | other
  deriving Repr

/-- `parseLabelsLokiFormat` over the token stream (the end of the list is `scanner.EOF`): `{`, then
    `name = "value"` pairs separated by `,`, then `}`; whatever follows the `}` is not looked at.
    The pairs are appended to the caller's buffer. `{}` is an error (an identifier is demanded after `{`). -/
def labelPairsLoop : List Tok → Option Labels
  | .ident n :: .ch 61 :: .str (some v) :: .ch 125 :: _ => some [(n, v)]
  | .ident n :: .ch 61 :: .str (some v) :: .ch 44 :: rest => (labelPairsLoop rest).map ((n, v) :: ·)
  | _ => none

def labelPairs : List Tok → Option Labels
  | .ch 123 :: rest => labelPairsLoop rest
  | _ => none

/-! ### protobuf messages -/

/-- `logproto.PushRequest` through its getters (`Timestamp.GetSeconds()` of an absent timestamp is 0) -/
structure PbEntry where
  sec : Int
  nanos : Int
  line : Bytes
  deriving Repr

structure PbStream where
  labels : Bytes           -- the label text
  entries : List PbEntry
  deriving Repr

/-- OTLP `AnyValue` -/
inductive AnyVal
  /-- no value set (or an absent `AnyValue`) -/
  | unset
  | str (s : Bytes)
  | bool (b : Bool)
  | int (i : Int)
  /-- `shown` = `strconv.FormatFloat(v, 'f', -1, 64)` -/
  | double (bits : UInt64) (shown : Bytes)
  /-- `b64` = `base64.StdEncoding.EncodeToString(raw)` -/
  | bytes (raw : Bytes) (b64 : Bytes)
  | arr (items : List AnyVal)
  | kvl (items : List (Bytes × AnyVal))

structure PbLogRecord where
  attrs : List (Bytes × AnyVal)
  severityText : Bytes
  body : AnyVal
  timeUnixNano : Nat

structure PbScopeLogs where
  attrs : List (Bytes × AnyVal)      -- `GetScope().GetAttributes()`: empty without a scope
  records : List PbLogRecord

structure PbResourceLogs where
  attrs : List (Bytes × AnyVal)      -- `GetResource().GetAttributes()`
  scopes : List PbScopeLogs

/-! ### telegraf `Metric` -/

inductive FieldVal
  | int (i : Int)
  | uint (n : Nat)
  | float (bits : UInt64)
  | bool (b : Bool)
  | str (s : Bytes)
  deriving Repr

structure Field where
  key : Bytes
  val : FieldVal
  /-- `logfmt.MarshalKeyvals(key, value)`: the `key=value` text go-logfmt writes, `none` when it reports an error
      (a key that is empty after dropping the runes logfmt does not allow) -/
  kv : Option Bytes
  deriving Repr

structure Metric where
  name : Bytes
  tags : Labels            -- `TagList()`
  fields : List Field      -- `FieldList()`; `Fields()` is the Go map made of it
  time : Int               -- `Time().UnixNano()`
  deriving Repr

end Qryn.Ingest.Wire
