import Qryn.Gen.PreChains
/-! # Request-context discipline of the ingest handlers (writer/controller) — model for C05

A handler is `Build(append(cfg.ExtraMiddleware, options…)…)`: the pre-request steps run in option order, then the
parser selected by Content-Type (`doParse`, for a `withComplexParser` preceded by its own pre-request steps).
The steps talk through the request context (`context.WithValue` / `ctx.Value(key)`). A value read with a bare
type assertion `v.(T)` **panics in the handler goroutine** when the key is absent or holds another type
(`dsn.(string)` in `withTSAndSampleService` / `withTracesService`, `Value("node").(string)` in `doParse`); a
`getService` read asserts only a non-nil value. net/http recovers such a panic and closes the connection without
a response — not a status, which is what C05 asks for.

The model runs a chain over the *dynamic types* of the context values (`Ty`): the steps' assertions, stores and
early returns (`mayFail`: `if err != nil { return err }` — the chain stops and `ErrorHandler` answers). Which keys
each named middleware asserts and stores, what `doParse` reads, the value of `cfg.ExtraMiddleware` and the chain
of every handler constructor are `Gen.PreChains`; the type of each stored value is placed by hand here
(`opsOfMiddleware`) and tied to the generated key lists by `C05.middleware_ctx_facts_tied`. -/
namespace Qryn.PreChains
open Qryn.Gen

/-- dynamic type of a context value -/
inductive Ty | string | uint16 | int | service | reader | other
  deriving DecidableEq, Repr

/-- the request context: innermost `WithValue` first -/
abbrev Ctx := List (String × Ty)

inductive Op
  /-- `ctx.Value(key).(T)` -/
  | assert (key : String) (ty : Ty)
  /-- `getService`: `if v == nil { return nil }; return v.(T)` -/
  | assertIfPresent (key : String) (ty : Ty)
  /-- `context.WithValue(ctx, key, v)` with `v` of dynamic type `ty` -/
  | store (key : String) (ty : Ty)
  /-- `if err != nil { return err }` -/
  | mayFail
  deriving DecidableEq, Repr

inductive Res
  /-- a failed type assertion: panic in the handler goroutine -/
  | fault
  /-- a step returned an error: `ErrorHandler` writes a status -/
  | rejected
  | completed (c : Ctx)
  deriving DecidableEq

/-- run a chain; `fails` says for each `mayFail` met, in order, whether it returns an error (none left: it does not) -/
def exec : List Op → List Bool → Ctx → Res
  | [], _, c => .completed c
  | .assert k t :: r, f, c => if c.lookup k = some t then exec r f c else .fault
  | .assertIfPresent k t :: r, f, c =>
    match c.lookup k with
    | none => exec r f c
    | some t' => if t' = t then exec r f c else .fault
  | .store k t :: r, f, c => exec r f ((k, t) :: c)
  | .mayFail :: r, [], c => exec r [] c
  | .mayFail :: r, b :: f, c => if b then .rejected else exec r f c

/-- the static check: every assertion finds its key with the asserted type, whatever the early returns do -/
def safe : List Op → Ctx → Bool
  | [], _ => true
  | .assert k t :: r, c => decide (c.lookup k = some t) && safe r c
  | .assertIfPresent k t :: r, c =>
    (match c.lookup k with | none => true | some t' => decide (t' = t)) && safe r c
  | .store k t :: r, c => safe r ((k, t) :: c)
  | .mayFail :: r, c => safe r c

theorem safe_sound : ∀ (ops : List Op) (c : Ctx), safe ops c = true → ∀ f, exec ops f c ≠ .fault := by
  intro ops
  induction ops with
  | nil => intro c _ f; simp [exec]
  | cons o r ih =>
    intro c h f
    cases o with
    | assert k t =>
      simp only [safe, Bool.and_eq_true, decide_eq_true_eq] at h
      simp only [exec, h.1, if_true]
      exact ih c h.2 f
    | assertIfPresent k t =>
      simp only [safe, Bool.and_eq_true] at h
      simp only [exec]
      cases hl : c.lookup k with
      | none => exact ih c h.2 f
      | some t' =>
        have : t' = t := by simpa [hl] using h.1
        simp only [this, if_true]
        exact ih c h.2 f
    | store k t => simp only [safe] at h; simp only [exec]; exact ih _ h f
    | mayFail =>
      simp only [safe] at h
      cases f with
      | nil => simp only [exec]; exact ih c h []
      | cons b f =>
        simp only [exec]
        cases b
        · simp only [Bool.false_eq_true, if_false]; exact ih c h f
        · simp

/-- Go type text of an assertion → dynamic type -/
def tyOf : String → Ty
  | "string" => .string
  | "service.IInsertServiceV2" => .service
  | "io.Reader" => .reader
  | "uint16" => .uint16
  | "int" => .int
  | _ => .other

/-- **hand-placed**: what each named pre-request middleware of middleware.go does to the context, in source order,
    with the dynamic type of every stored value (`strings.Clone(...)`: string; `uint16(...)`; `getAsyncMode`: int;
    `Registry.Get…Service`: an `IInsertServiceV2`; `svc.GetNodeName()`: string; `bytes.NewBuffer`: an io.Reader) -/
def opsOfMiddleware : String → Option (List Op)
  | "WithOverallContextMiddleware" =>
    some [.mayFail, .store "DSN" .string, .store "META" .string, .store "TTL_DAYS" .uint16, .store "async" .int]
  | "withTSAndSampleService" =>
    some [.assert "DSN" .string, .mayFail, .store "splService" .service,
          .assert "DSN" .string, .mayFail, .store "tsService" .service,
          .assert "DSN" .string, .mayFail, .store "profileService" .service, .store "node" .string]
  | "withTracesService" =>
    some [.assert "DSN" .string, .mayFail, .store "spanAttrsService" .service,
          .assert "DSN" .string, .mayFail, .store "spansService" .service, .store "node" .string]
  | "withUnsnappyRequest" => some [.mayFail, .store "bodyStream" .reader]
  | _ => none

def Op.asserted : Op → Option (String × Ty) | .assert k t => some (k, t) | _ => none
def Op.stored : Op → Option String | .store k _ => some k | _ => none

/-- `doParse`: the `getService` reads, then the bare assertions, as generated -/
def doParseOps : List Op :=
  PreChains.doParseServices.map (fun k => Op.assertIfPresent k (tyOf PreChains.serviceType)) ++
    PreChains.doParseAsserts.map (fun p => Op.assert p.1 (tyOf p.2))

/-- one pre-request step of a handler: a named middleware, `cfg.ExtraMiddleware` (expanded to `extra`), or an
    anonymous function literal that may return an error and stores the listed keys -/
def stepOps (extra : List String) (s : String × List String) : Option (List Op) :=
  if s.1 = "func" then some (.mayFail :: s.2.map (fun k => Op.store k .other))
  else if s.1 = "cfg.ExtraMiddleware" then (extra.mapM opsOfMiddleware).map List.flatten
  else opsOfMiddleware s.1

def stepsOps (extra : List String) (ss : List (String × List String)) : Option (List Op) :=
  (ss.mapM (stepOps extra)).map List.flatten

/-- the chain of a handler when the parser `p` is selected -/
def chainOps (extra : List String) (pre : List (String × List String)) (p : String × List (String × List String)) :
    Option (List Op) := do
  let a ← stepsOps extra pre
  let b ← stepsOps extra p.2
  pure (a ++ b ++ doParseOps)

/-- every chain of every generated handler, under both `cfg.ExtraMiddleware` values, is understood and safe -/
def allHandlersSafe : Bool :=
  PreChains.handlers.all fun h =>
    [PreChains.extraMiddlewareDefault, PreChains.extraMiddlewareTempo].all fun extra =>
      !h.2.2.isEmpty && h.2.2.all fun p =>
        match chainOps extra h.2.1 p with
        | some ops => safe ops []
        | none => false

end Qryn.PreChains
