import Qryn.Ingest.Batcher
/-! Predicates the C01/C02 theorems are stated with. Definitions only (core-only). -/
namespace Qryn.Ingest.Batcher

/-- what request `r` adds to column `name` under plan `p` (all statements targeting that column, in
    source order) -/
def contrib (p : Plan) (r : Req) (name : String) : List Cell :=
  (p.steps.filter (fun st => st.col = name)).flatMap (cellsOf r)

/-- the plan is coherent: the INSERT statement lists the acquired columns in acquirer order, every
    acquired column is appended to by exactly one statement, statements only target acquired columns and
    the counted column is one of them. Decidable; checked for the six plans (and for the regenerated ones). -/
def planOK (p : Plan) : Bool :=
  p.insertCols == p.acquired &&
  p.acquired.all (fun name => (p.steps.filter (fun st => st.col = name)).length == 1) &&
  p.steps.all (fun st => p.acquired.contains st.col) &&
  p.acquired.contains p.countCol

/-- every column named by the plan holds `m` values -/
def RectCols (p : Plan) (cs : Columns) (m : Nat) : Prop :=
  names cs = p.acquired ∧ ∀ name ∈ p.acquired, (colData cs name).length = m

/-- the request is rectangular with `n` rows: every per-row array has `n` entries; a payload with
    array-valued fields (profile) is exactly one row -/
def ReqRect (p : Plan) (r : Req) (n : Nat) : Prop :=
  ∀ st ∈ p.steps, match st with
    | .arr _ f => (r.arr f).length = n
    | .zip _ f lead => (r.arr f).length = n ∧ (r.arr lead).length = n
    | .one _ _ => n = 1

/-- a request of the right Go type whose arrays agree in length -/
def GoodReq (p : Plan) (r : Req) : Prop := r.ptype = p.ptype ∧ ∃ n, ReqRect p r n

/-- block `b` holds, in every column, the values request `r` submitted for that column, contiguously
    and in order -/
def Covers (p : Plan) (b : Columns) (r : Req) : Prop :=
  ∀ name ∈ p.acquired, contrib p r name <:+: colData b name

/-- the request added nothing to the counted column (`inserted == 0`; for a rectangular request: it has
    no rows at all) -/
def NoRows (p : Plan) (r : Req) : Prop := contrib p r p.countCol = []

/-- requests are identified by their promise; `R` names the payload submitted under each id -/
def WellFormed (R : ReqId → Req) : Op → Prop
  | .request r => r = R r.id
  | _ => True

def SysWellFormed (R : ReqId → Req) : SysOp → Prop
  | .request _ _ r => r = R r.id
  | _ => True

/-- **the C01 safety property on a trace**: whenever a promise is completed without error, either its
    request had no rows, or an INSERT that returned nil *earlier in the trace* contained all its values -/
def AckSound (p : Plan) (R : ReqId → Req) (evs : List Event) : Prop :=
  ∀ (pre post : List Event) (id : ReqId), evs = pre ++ Event.resolved id .ok :: post →
    NoRows p (R id) ∨ ∃ b w, Event.insert b w .ok ∈ pre ∧ Covers p b (R id)

def resolvedIds : List Event → List ReqId
  | [] => []
  | .resolved id _ :: t => id :: resolvedIds t
  | _ :: t => resolvedIds t

def requestIds : List Op → List ReqId
  | [] => []
  | .request r :: t => r.id :: requestIds t
  | _ :: t => requestIds t

def sysRequestIds : List SysOp → List ReqId
  | [] => []
  | .request _ _ r :: t => r.id :: sysRequestIds t
  | _ :: t => sysRequestIds t

/-- promises still open in a sub-service: `svc.results` and the `waiting` of the portion in flight -/
def live (s : Svc) : List ReqId :=
  s.pending ++ (match s.inflight with | some q => q.waiting | none => [])

/-- the block is the concatenation, column by column, of what the requests it resolves submitted, in
    the order of their promises -/
def BlockIsConcat (p : Plan) (R : ReqId → Req) (b : Columns) (w : List ReqId) : Prop :=
  names b = p.acquired ∧ ∀ name ∈ p.acquired, colData b name = w.flatMap (fun id => contrib p (R id) name)

/-- the value a promise takes in a trace: its first completion -/
def resolution (evs : List Event) (id : ReqId) : Option Outcome :=
  evs.findSome? (fun e => match e with
    | .resolved i o => if i = id then some o else none
    | _ => none)

/-- ops the environment may interleave freely in the progress theorem: anything but a stop, a failed
    watchdog ping, a re-submission of the promise under consideration, a request with rows but no
    accounted size, or a request that makes `ProcessRequest` fail or fault -/
def Calm (p : Plan) (id : ReqId) : Op → Prop
  | .stop => False
  | .ping ok => ok = true
  | .request r => r.id ≠ id ∧ 0 < r.size ∧ r.ptype = p.ptype ∧ p.steps.any (stepFaults r) = false
  | _ => True

end Qryn.Ingest.Batcher
