import Qryn.Ingest.Wire
/-! The hand-written decoder logic of writer/utils/unmarshal over the intermediate values of `Wire.lean`:
    for each protocol

    * `…Decode` — the DECODER MODEL: mirrors the Go control flow (callbacks over object members and array elements in
      document order, the decoder's mutable fields as an explicit state, `switch key`, unknown keys skipped, the first
      error ends everything) and yields the `onEntries` calls (`none` = `Decode` returns an error);
    * `…Spec` — the SPECIFICATION READING of the same value, written independently and declaratively (every member is
      classified on its own; what a stream / entry consists of is said with `flatMap`, `filterMap`, "last one"),
      yielding the decoded document of `Decode.lean` (`none` = the value is not a well-formed body of the protocol).

    `Proofs/Wire.lean` proves them equal for every value. Core-only. -/
namespace Qryn.Ingest.Wire
open Qryn Qryn.Ingest

def k_streams : Bytes := [115, 116, 114, 101, 97, 109, 115]   -- "streams"
def k_stream : Bytes := [115, 116, 114, 101, 97, 109]   -- "stream"
def k_labels : Bytes := [108, 97, 98, 101, 108, 115]   -- "labels"
def k_values : Bytes := [118, 97, 108, 117, 101, 115]   -- "values"
def k_entries : Bytes := [101, 110, 116, 114, 105, 101, 115]   -- "entries"
def k_ts : Bytes := [116, 115]   -- "ts"
def k_timestamp : Bytes := [116, 105, 109, 101, 115, 116, 97, 109, 112]   -- "timestamp"
def k_line : Bytes := [108, 105, 110, 101]   -- "line"
def k_value : Bytes := [118, 97, 108, 117, 101]   -- "value"
def k_ddsource : Bytes := [100, 100, 115, 111, 117, 114, 99, 101]   -- "ddsource"
def k_ddtags : Bytes := [100, 100, 116, 97, 103, 115]   -- "ddtags"
def k_hostname : Bytes := [104, 111, 115, 116, 110, 97, 109, 101]   -- "hostname"
def k_message : Bytes := [109, 101, 115, 115, 97, 103, 101]   -- "message"
def k_service : Bytes := [115, 101, 114, 118, 105, 99, 101]   -- "service"
def k_source_type : Bytes := [115, 111, 117, 114, 99, 101, 95, 116, 121, 112, 101]   -- "source_type"
def k_series : Bytes := [115, 101, 114, 105, 101, 115]   -- "series"
def k_metric : Bytes := [109, 101, 116, 114, 105, 99]   -- "metric"
def k_resources : Bytes := [114, 101, 115, 111, 117, 114, 99, 101, 115]   -- "resources"
def k_points : Bytes := [112, 111, 105, 110, 116, 115]   -- "points"

/-! ## Loki JSON push (`pushRequestDec`, unmarshal.go) -/

/-- the five arrays of `pushRequestDec` -/
structure PushSt where
  labels : Labels := []
  ts : List Int := []
  str : List Bytes := []
  val : List UInt64 := []
  tp : List Nat := []

/-- the locals of `decodeStreamValue` / `decodeStreamEntry` -/
structure EntSt where
  ts : Int := 0
  str : Bytes := []
  val : UInt64 := 0
  tp : Nat := 0

/-- `if tp == 3 { tp = 0 }` -/
def collapse (tp : Nat) : Nat := if tp = Gen.typeCollapseFrom then Gen.typeCollapseTo else tp

/-- the four appends at the end of `decodeStreamValue` / `decodeStreamEntry` -/
def PushSt.push (p : PushSt) (e : EntSt) : PushSt :=
  { p with ts := p.ts ++ [e.ts], str := p.str ++ [e.str], val := p.val ++ [e.val], tp := p.tp ++ [collapse e.tp] }

/-- the callback of `d.Arr` in `decodeStreamValue`; the first component is `j + 1` -/
def valueItem (st : Nat × EntSt) (x : Json) : Option (Nat × EntSt) :=
  match st.1 with
  | 0 => (jxStr x).bind (fun s => (parseInt64 s).map (fun t => (1, { st.2 with ts := t })))
  | 1 => (jxStr x).map (fun s => (2, { st.2 with str := s, tp := st.2.tp ||| Gen.sampleTypeLog }))
  | 2 =>
    if x.next ≠ .number then some (3, st.2)          -- `d.Skip()`: Loki's structured metadata, a string, null …
    else (jxF64 x).map (fun f => (3, { st.2 with val := f, tp := st.2.tp ||| Gen.sampleTypeMetric }))
  | n + 3 => some (n + 4, st.2)

def decodeStreamValue (p : PushSt) (x : Json) : Option PushSt :=
  (jxArr valueItem (0, {}) x).map (fun r => p.push r.2)

/-- the callback of `d.Obj` in `decodeStreamEntry` -/
def entryMember (e : EntSt) (key : Bytes) (x : Json) : Option EntSt :=
  if key = k_ts ∨ key = k_timestamp then (jxStr x).bind (fun b => (parseTime b).map (fun t => { e with ts := t }))
  else if key = k_line then (jxStr x).map (fun s => { e with str := s, tp := e.tp ||| Gen.sampleTypeLog })
  else if key = k_value then (jxF64 x).map (fun f => { e with val := f, tp := e.tp ||| Gen.sampleTypeMetric })
  else some e

def decodeStreamEntry (p : PushSt) (x : Json) : Option PushSt :=
  (jxObj entryMember {} x).map p.push

/-- `decodeStreamStream`: every member appended, then `sanitizeLabels` over the WHOLE of `p.Labels` -/
def streamStream (p : PushSt) (x : Json) : Option PushSt :=
  (jxObj (fun ls k v => (jxStr v).map (fun s => ls ++ [(k, s)])) p.labels x).map
    (fun ls => { p with labels := sanitizeLabels ls })

/-- `decodeStreamLabels` -/
def streamLabels (scan : Bytes → List Tok) (p : PushSt) (x : Json) : Option PushSt :=
  (jxStr x).bind (fun s => (labelPairs (scan s)).map (fun ls => { p with labels := sanitizeLabels (p.labels ++ ls) }))

/-- the callback of `d.Obj` in `decodeStream` -/
def streamMember (scan : Bytes → List Tok) (p : PushSt) (key : Bytes) (x : Json) : Option PushSt :=
  if key = k_stream then streamStream p x
  else if key = k_labels then streamLabels scan p x
  else if key = k_values then jxArr decodeStreamValue p x
  else if key = k_entries then jxArr decodeStreamEntry p x
  else some p

def PushSt.call (p : PushSt) : Call := ⟨p.labels, p.ts, p.str, p.val, p.tp⟩

/-- `pushRequestDec.Decode`: for every member `streams` of the top-level object, for every element: the arrays are
    emptied, the stream object is walked, `onEntries` is called once with what the walk collected -/
def lokiJsonDecode (scan : Bytes → List Tok) (j : Json) : Option (List Call) :=
  jxObj (fun calls key x =>
    if key = k_streams then
      jxArr (fun calls s => (jxObj (streamMember scan) {} s).map (fun p => calls ++ [p.call])) calls x
    else some calls) [] j

/-! ### specification reading -/

/-- one element of `values`: `[]` is an entry at time 0 without content; otherwise the first element is the
    timestamp (a STRING holding a decimal int64), the second — if present — the line (a string), the third — if
    present and a JSON number — the value; a third element of another kind and everything after it is ignored. -/
def specValue : Json → Option LokiEntry
  | .arr [] => some ⟨0, none, none⟩
  | .arr [t] => ((jxStr t).bind parseInt64).map (fun ts => ⟨ts, none, none⟩)
  | .arr [t, l] => ((jxStr t).bind parseInt64).bind (fun ts => (jxStr l).map (fun s => ⟨ts, some s, none⟩))
  | .arr (t :: l :: v :: _) =>
    ((jxStr t).bind parseInt64).bind (fun ts => (jxStr l).bind (fun s =>
      match v with
      | .num _ f _ => f.map (fun f => ⟨ts, some s, some f⟩)
      | _ => some ⟨ts, some s, none⟩))
  | _ => none

inductive EPart | ts (t : Int) | line (s : Bytes) | value (f : UInt64) | skip

/-- one member of an `entries` object -/
def specEntryMember (kv : Bytes × Json) : Option EPart :=
  if kv.1 = k_ts ∨ kv.1 = k_timestamp then ((jxStr kv.2).bind parseTime).map .ts
  else if kv.1 = k_line then (jxStr kv.2).map .line
  else if kv.1 = k_value then (jxF64 kv.2).map .value
  else some .skip

def EPart.tsOf : EPart → Option Int | .ts t => some t | _ => none
def EPart.lineOf : EPart → Option Bytes | .line s => some s | _ => none
def EPart.valueOf : EPart → Option UInt64 | .value f => some f | _ => none

/-- the last element of the list that `f` selects -/
def lastOf {π α} (f : π → Option α) (ps : List π) : Option α := (ps.filterMap f).getLast?

/-- one element of `entries`: every member named `ts`/`timestamp`, `line`, `value` must be well typed; the LAST
    timestamp, line and value count (no timestamp member: time 0) -/
def specEntry : Json → Option LokiEntry
  | .obj m => (mapOpt specEntryMember m).map (fun ps =>
      ⟨(lastOf EPart.tsOf ps).getD 0, lastOf EPart.lineOf ps, lastOf EPart.valueOf ps⟩)
  | _ => none

inductive SPart | labels (l : Labels) | entries (es : List LokiEntry) | skip

def SPart.labelsOf : SPart → Labels | .labels l => l | _ => []
def SPart.entriesOf : SPart → List LokiEntry | .entries es => es | _ => []

/-- one member of a stream object: a source of labels, a source of entries, or something else -/
def specStreamMember (scan : Bytes → List Tok) (kv : Bytes × Json) : Option SPart :=
  if kv.1 = k_stream then
    (match kv.2 with
     | .obj ms => (mapOpt (fun m => (jxStr m.2).map (fun s => (m.1, s))) ms).map .labels
     | _ => none)
  else if kv.1 = k_labels then ((jxStr kv.2).bind (fun s => labelPairs (scan s))).map .labels
  else if kv.1 = k_values then
    (match kv.2 with
     | .arr xs => (mapOpt specValue xs).map .entries
     | _ => none)
  else if kv.1 = k_entries then
    (match kv.2 with
     | .arr xs => (mapOpt specEntry xs).map .entries
     | _ => none)
  else some .skip

/-- **the duplicates / order policy of a stream object**: its labels are ALL label sources (`stream` objects and
    `labels` texts, however many) concatenated in document order; its entries are ALL entry sources (`values` and
    `entries` arrays, however many) concatenated in document order; the position of a label source relative to an entry
    source plays no role — every entry of the object belongs to the labels of the object. -/
def specStream (scan : Bytes → List Tok) : Json → Option LokiStream
  | .obj m => (mapOpt (specStreamMember scan) m).map (fun ps =>
      ⟨ps.flatMap SPart.labelsOf, ps.flatMap SPart.entriesOf⟩)
  | _ => none

/-- the streams of a push document: the elements of every top-level `streams` array, in document order -/
def lokiJsonSpec (scan : Bytes → List Tok) : Json → Option LokiDoc
  | .obj m => (mapOpt (fun kv =>
      if kv.1 = k_streams then
        (match kv.2 with
         | .arr ss => mapOpt (specStream scan) ss
         | _ => none)
      else some []) m).map List.flatten
  | _ => none

/-! ## Datadog logs (`datadogRequestDec`) -/

structure DDSt where
  source : Bytes := []
  tags : Labels := []
  hostname : Bytes := []
  message : Bytes := []
  service : Bytes := []
  tsMs : Int := 0
  sourceType : Bytes := []

/-- the callback of `dec.Obj` in `DecodeEntry`; `tagsOf` = `tagPattern.FindAllStringSubmatch` (regexp, third party) -/
def ddMember (tagsOf : Bytes → Labels) (d : DDSt) (key : Bytes) (x : Json) : Option DDSt :=
  if key = k_ddsource then (jxStr x).map (fun s => { d with source := s })
  else if key = k_ddtags then (jxStr x).map (fun s => { d with tags := d.tags ++ tagsOf s })
  else if key = k_hostname then (jxStr x).map (fun s => { d with hostname := s })
  else if key = k_message then (jxStr x).map (fun s => { d with message := s })
  else if key = k_service then (jxStr x).map (fun s => { d with service := s })
  else if key = k_timestamp then (jxI64 x).map (fun t => { d with tsMs := t })
  else if key = k_source_type then (jxStr x).map (fun s => { d with sourceType := s })
  else some d

def DDSt.log (d : DDSt) : DDLog := ⟨d.tags, d.source, d.service, d.hostname, d.sourceType, d.message, d.tsMs⟩

/-- the tail of `DecodeEntry`: the non-empty fixed fields appended to the tags, the time, the call -/
def ddEntryCall (now : Int) (d : DDSt) : Call :=
  ⟨d.tags ++ (ddFixed d.log).filter (fun l => l.2 ≠ []), [ddTs now d.tsMs], [d.message], [0], [Gen.sampleTypeLog]⟩

/-- `datadogRequestDec.Decode`: the body must be an ARRAY; the fields are reset before every element -/
def ddLogsDecode (tagsOf : Bytes → Labels) (now : Int) (j : Json) : Option (List Call) :=
  jxArr (fun calls x => (jxObj (ddMember tagsOf) {} x).map (fun d => calls ++ [ddEntryCall now d])) [] j

inductive DDPart
  | source (s : Bytes) | tags (l : Labels) | hostname (s : Bytes) | message (s : Bytes) | service (s : Bytes)
  | ts (t : Int) | sourceType (s : Bytes) | skip

def ddSpecMember (tagsOf : Bytes → Labels) (kv : Bytes × Json) : Option DDPart :=
  if kv.1 = k_ddsource then (jxStr kv.2).map .source
  else if kv.1 = k_ddtags then (jxStr kv.2).map (fun s => .tags (tagsOf s))
  else if kv.1 = k_hostname then (jxStr kv.2).map .hostname
  else if kv.1 = k_message then (jxStr kv.2).map .message
  else if kv.1 = k_service then (jxStr kv.2).map .service
  else if kv.1 = k_timestamp then (jxI64 kv.2).map .ts
  else if kv.1 = k_source_type then (jxStr kv.2).map .sourceType
  else some .skip

def DDPart.sourceOf : DDPart → Option Bytes | .source s => some s | _ => none
def DDPart.tagsOf : DDPart → Labels | .tags l => l | _ => []
def DDPart.hostnameOf : DDPart → Option Bytes | .hostname s => some s | _ => none
def DDPart.messageOf : DDPart → Option Bytes | .message s => some s | _ => none
def DDPart.serviceOf : DDPart → Option Bytes | .service s => some s | _ => none
def DDPart.tsOf : DDPart → Option Int | .ts t => some t | _ => none
def DDPart.sourceTypeOf : DDPart → Option Bytes | .sourceType s => some s | _ => none

/-- one log object: the tags of ALL its `ddtags` members in order; of every other field the LAST member counts
    (absent: empty / 0), and every member with one of the seven names must be well typed (`timestamp`: an integer
    number that fits int64 — not a fraction, an exponent or a string) -/
def ddSpecEntry (tagsOf : Bytes → Labels) : Json → Option DDLog
  | .obj m => (mapOpt (ddSpecMember tagsOf) m).map (fun ps =>
      ⟨ps.flatMap DDPart.tagsOf, (lastOf DDPart.sourceOf ps).getD [], (lastOf DDPart.serviceOf ps).getD [],
       (lastOf DDPart.hostnameOf ps).getD [], (lastOf DDPart.sourceTypeOf ps).getD [],
       (lastOf DDPart.messageOf ps).getD [], (lastOf DDPart.tsOf ps).getD 0⟩)
  | _ => none

def ddLogsSpec (tagsOf : Bytes → Labels) : Json → Option DatadogLogs
  | .arr xs => mapOpt (ddSpecEntry tagsOf) xs
  | _ => none

/-! ## Datadog series (`datadogMetricsRequestDec`, after the fix of the point defaults) -/

structure DSSt where
  labels : Labels := []
  ts : List Int := []
  vals : List UInt64 := []

/-- `MaybeString`: a string is read; for any other value NOTHING is consumed, and `jx`'s `Obj` then meets the
    value where it expects `,` or `}` and reports an error (the same for `MaybeArr` / `MaybeObj`) -/
def maybeString : Json → Option Bytes
  | .str s => some s
  | _ => none

def k_resource : Bytes := [114, 101, 115, 111, 117, 114, 99, 101]   -- "resource"

/-- `fmt.Sprintf("resource%d_%s", i+1, key)` -/
def resourceKey (i : Nat) (key : Bytes) : Bytes := k_resource ++ natBytes i ++ [95] ++ key

/-- the `resources` case: `i` counts the elements; the first component of the state is `i + 1` -/
def dsResources (labels : Labels) : Json → Option Labels
  | .arr rs =>
    (foldOpt (fun (st : Nat × Labels) r =>
      match r with
      | .obj ms =>
        (foldOpt (fun ls (kv : Bytes × Json) => (maybeString kv.2).map (fun v => ls ++ [(resourceKey (st.1 + 1) kv.1, v)])) st.2 ms).map
          (fun ls => (st.1 + 1, ls))
      | _ => none) (0, labels) rs).map (·.2)
  | _ => none

structure PtSt where
  ts : Int
  val : UInt64

def dsPointMember (p : PtSt) (key : Bytes) (x : Json) : Option PtSt :=
  if key = k_timestamp then (jxI64 x).map (fun t => { p with ts := wrap64 (t * 1000000000) })
  else if key = k_value then (jxF64 x).map (fun v => { p with val := v })
  else some p

/-- the `points` case: every point starts from (`time.Now()`, 0) -/
def dsPoints (now : Int) (st : DSSt) (x : Json) : Option DSSt :=
  jxArr (fun st pt => (jxObj dsPointMember ⟨now, 0⟩ pt).map
    (fun p => { st with ts := st.ts ++ [p.ts], vals := st.vals ++ [p.val] })) st x

/-- `DecodeSeriesItem` -/
def dsItemMember (now : Int) (st : DSSt) (key : Bytes) (x : Json) : Option DSSt :=
  if key = k_metric then (maybeString x).map (fun v => { st with labels := st.labels ++ [(nameLabel, v)] })
  else if key = k_resources then (dsResources st.labels x).map (fun ls => { st with labels := ls })
  else if key = k_points then dsPoints now st x
  else some st

def dsCall (st : DSSt) : Call :=
  ⟨st.labels, st.ts, List.replicate st.vals.length [], st.vals, fastFill st.vals.length Gen.sampleTypeMetric⟩

def ddSeriesDecode (now : Int) (j : Json) : Option (List Call) :=
  jxObj (fun calls key x =>
    if key = k_series then
      jxArr (fun calls it => (jxObj (dsItemMember now) {} it).map (fun st => calls ++ [dsCall st])) calls x
    else some calls) [] j

inductive PPart | ts (t : Int) | value (v : UInt64) | skip
def PPart.tsOf : PPart → Option Int | .ts t => some t | _ => none
def PPart.valueOf : PPart → Option UInt64 | .value v => some v | _ => none

def dsSpecPointMember (kv : Bytes × Json) : Option PPart :=
  if kv.1 = k_timestamp then (jxI64 kv.2).map (fun t => .ts (wrap64 (t * 1000000000)))
  else if kv.1 = k_value then (jxF64 kv.2).map .value
  else some .skip

/-- one point: the last `timestamp` (seconds → ns; absent: the wall clock) and the last `value` (absent: 0) -/
def dsSpecPoint (now : Int) : Json → Option (Int × UInt64)
  | .obj m => (mapOpt dsSpecPointMember m).map (fun ps =>
      ((lastOf PPart.tsOf ps).getD now, (lastOf PPart.valueOf ps).getD 0))
  | _ => none

/-- the labels of one resource object: every member must be a string -/
def dsSpecResource (i : Nat) : Json → Option Labels
  | .obj ms => mapOpt (fun (kv : Bytes × Json) => (maybeString kv.2).map (fun v => (resourceKey i kv.1, v))) ms
  | _ => none

def mapOptIdx {α β} (f : Nat → α → Option β) : Nat → List α → Option (List β)
  | _, [] => some []
  | i, x :: xs =>
    match f i x with
    | none => none
    | some y =>
      match mapOptIdx f (i + 1) xs with
      | none => none
      | some ys => some (y :: ys)

inductive IPart | labels (l : Labels) | points (ps : List (Int × UInt64)) | skip
def IPart.labelsOf : IPart → Labels | .labels l => l | _ => []
def IPart.pointsOf : IPart → List (Int × UInt64) | .points ps => ps | _ => []

/-- a point as an entry: no line, the metric type -/
def pointEntry (p : Int × UInt64) : Entry := ⟨p.1, [], p.2, Gen.sampleTypeMetric⟩

def dsSpecItemMember (now : Int) (kv : Bytes × Json) : Option IPart :=
  if kv.1 = k_metric then (maybeString kv.2).map (fun v => .labels [(nameLabel, v)])
  else if kv.1 = k_resources then
    (match kv.2 with
     | .arr rs => (mapOptIdx dsSpecResource 1 rs).map (fun ls => .labels ls.flatten)
     | _ => none)
  else if kv.1 = k_points then
    (match kv.2 with
     | .arr ps => (mapOpt (dsSpecPoint now) ps).map .points
     | _ => none)
  else some .skip

/-- one series object: labels = `__name__` of every `metric` member and `resource<i>_<key>` of every `resources`
    member (i counts within that member, from 1), in document order; entries = the points of every `points` member -/
def dsSpecItem (now : Int) : Json → Option (Labels × List Entry)
  | .obj m => (mapOpt (dsSpecItemMember now) m).map (fun ps =>
      (ps.flatMap IPart.labelsOf, (ps.flatMap IPart.pointsOf).map pointEntry))
  | _ => none

def ddSeriesSpec (now : Int) : Json → Option (List (Labels × List Entry))
  | .obj m => (mapOpt (fun kv =>
      if kv.1 = k_series then
        (match kv.2 with
         | .arr xs => mapOpt (dsSpecItem now) xs
         | _ => none)
      else some []) m).map List.flatten
  | _ => none

/-! ## Loki protobuf push (`logsProtoDec`) -/

def pbEntryTs (e : PbEntry) : Int := wrap64 (wrap64 (e.sec * 1000000000) + e.nanos)

/-- `logsProtoDec.Decode`: an unparsable label text ends the loop with an error -/
def lokiProtoDecode (scan : Bytes → List Tok) (d : List PbStream) : Option (List Call) :=
  foldOpt (fun calls s => (labelPairs (scan s.labels)).map (fun ls =>
    calls ++ [⟨sanitizeLabels ls, s.entries.map pbEntryTs, s.entries.map (·.line),
               fastFill s.entries.length 0, fastFill s.entries.length Gen.sampleTypeLog⟩])) [] d

def lokiProtoSpec (scan : Bytes → List Tok) (d : List PbStream) : Option LokiProto :=
  mapOpt (fun s => (labelPairs (scan s.labels)).map (fun ls =>
    (⟨ls, s.entries.map (fun e => ⟨e.sec, e.nanos, e.line⟩)⟩ : ProtoStream))) d

/-! ## OTLP logs (`otlpLogDec`, after the fix of the body) -/

/-- `m[k] = v` for every pair in order, on an empty Go map -/
def mapOfPairs (kvs : List (Bytes × Bytes)) : List (Bytes × Bytes) := kvs.foldl (fun m kv => mapSet m kv.1 kv.2) []

mutual
/-- `SanitizeValue` -/
def sanitizeValue : AnyVal → Bytes
  | .unset => []
  | .str s => s
  | .bool b => boolText b
  | .int i => intDec i
  | .double _ shown => shown
  | .bytes _ b64 => b64
  | .arr items => jsonStrings (sanitizeValues items)
  | .kvl items => jsonMap (mapOfPairs (sanitizeKvs items))
def sanitizeValues : List AnyVal → List Bytes
  | [] => []
  | x :: xs => sanitizeValue x :: sanitizeValues xs
def sanitizeKvs : List (Bytes × AnyVal) → List (Bytes × Bytes)
  | [] => []
  | (k, v) :: xs => (sanitizeKey k, sanitizeValue v) :: sanitizeKvs xs
end

def otlpAttrs (kvs : List (Bytes × AnyVal)) : Labels := kvs.map (fun kv => (kv.1, sanitizeValue kv.2))

/-- the export request as the decoded document of `Decode.lean` (attribute values and the body rendered by `SanitizeValue`) -/
def otlpOfWire (d : List PbResourceLogs) : OtlpLogs :=
  d.map (fun r => ⟨otlpAttrs r.attrs, r.scopes.map (fun s => ⟨otlpAttrs s.attrs,
    s.records.map (fun l => ⟨otlpAttrs l.attrs, l.severityText, sanitizeValue l.body, l.timeUnixNano⟩)⟩)⟩)

/-- `otlpLogDec.Decode` -/
def otlpDecode (d : List PbResourceLogs) : List Call := decodeOtlp (otlpOfWire d)

/-- the value a label `k` of a log record must have: `level` is the severity text when there is one; otherwise the
    LAST attribute whose sanitised key is `k` among the record's, else among the scope's, else among the resource's -/
def lastAttr (attrs : Labels) (k : Bytes) : Option Bytes :=
  lastOf (fun kv => if sanitizeKey kv.1 = k then some kv.2 else none) attrs

def otlpSpecLabel (res sc : Labels) (r : OtlpRecord) (k : Bytes) : Option Bytes :=
  if k = levelLabel ∧ r.severity ≠ [] then some r.severity
  else (lastAttr r.attrs k).or ((lastAttr sc k).or (lastAttr res k))

/-- lookup in an association list -/
def lookupLabel (m : Labels) (k : Bytes) : Option Bytes := (m.find? (fun kv => kv.1 = k)).map (·.2)

/-! ## Influx line protocol (`influxDec`, after the fix of `getMessage`) -/

/-- the `switch v.(type)` of the field loop: int64 / uint64 are converted, float64 taken, string and bool skipped -/
def fieldNum : FieldVal → Option UInt64
  | .int i => some (intToF64 i)
  | .uint n => some (natToF64 n)
  | .float b => some b
  | _ => none

def joinSpace : List Bytes → Bytes
  | [] => []
  | [x] => x
  | x :: xs => x ++ [32] ++ joinSpace xs

/-- `getMessage` (the caller has checked that a field `message` exists): a point whose ONLY field is a string
    `message` gives that string; otherwise logfmt `message=<v>` first, then every other field (Go map order; the
    model takes the order of `FieldList()`), separated by one blank; a logfmt error is returned -/
def getMessage (fields : List Field) : Option Bytes :=
  match fields with
  | [⟨_, .str s, _⟩] => some s
  | _ =>
    (mapOpt (·.kv) ((fields.find? (fun f => f.key = k_message)).toList ++ fields.filter (fun f => f.key ≠ k_message))).map joinSpace

def influxLabels (m : Metric) : Labels := sanitizeLabels ((measurementName, m.name) :: m.tags)

/-- one iteration of the `parser.Next()` loop -/
def influxMetricCalls (m : Metric) : Option (List Call) :=
  if m.fields.any (fun f => f.key = k_message) then
    (getMessage m.fields).map (fun line => [⟨influxLabels m, [m.time], [line], [0], [Gen.sampleTypeLog]⟩])
  else
    some (m.fields.filterMap (fun f => (fieldNum f.val).map (fun v =>
      ⟨influxLabels m ++ [(nameLabel, sanitizeName f.key)], [m.time], [[]], [v], [Gen.sampleTypeMetric]⟩)))

def influxDecode (ms : List Metric) : Option (List Call) := (mapOpt influxMetricCalls ms).map List.flatten

/-- the point a metric stands for: a log point when it has a field `message`, else its numeric fields -/
def influxSpecPoint (m : Metric) : Option InfluxPoint :=
  if m.fields.any (fun f => f.key = k_message) then
    (getMessage m.fields).map (fun line => ⟨m.name, m.tags, m.time, .log line⟩)
  else some ⟨m.name, m.tags, m.time, .metric (m.fields.map (fun f => (f.key, fieldNum f.val)))⟩

def influxSpec (ms : List Metric) : Option InfluxPoints := mapOpt influxSpecPoint ms

end Qryn.Ingest.Wire
