import Qryn.Gen.IngestParams
import Qryn.Gen.CtxChains
/-! # Header and query-parameter handling of the ingest routes (C05)

What the ingest side does with every request header and query parameter it reads — the inventory of reads is
`Gen.IngestParams.reads` — before the body is looked at:

* `X-Ttl-Days` (`WithOverallContextMiddleware`): `strconv.ParseUint(s, 10, 16)`, an unparsable or out-of-range value is
  ignored (`if err == nil`), so the TTL is always a `uint16`;
* `X-Async-Insert` (`getAsyncMode`): `"0"` / `"1"` / anything else;
* `X-CH-DSN`, `X-Scope-Meta`: copied (`strings.Clone`), no decision;
* `Content-Encoding`: `Qryn.PreRequest.contentEncoding`;
* `Content-Type` (`PusherCtx.DoParse`): the parser whose key is a prefix of the value — the parsers sit in a Go MAP, so
  the loop meets them in an unspecified order — else the `*` parser, else 400;
* `?precision=` (influx): empty = `ns`; `ns`/`us`/`ms`/`s`; anything else 400;
* `?from=`, `?name=`, `?until=` (pyroscope): each must be non-empty (500 otherwise, a plain `errors.New`); what the
  decoders then make of them is in `Qryn.Ingest.Faults` (`ProfileDoc`);
* `?ddsource=`: empty = `unknown`.

The constants (base, bit size, case tables, defaults, required parameters, parser keys) are regenerated. Header values
are `String`s (net/http hands out Go strings; the correspondence stream keeps to valid UTF-8). Core-only. -/
namespace Qryn.IngestParams
open Qryn.Gen

/-! ### `strconv.ParseUint(s, 10, bits)` -/

/-- value of a non-empty all-digit string; anything else (empty, sign, blank, underscore, letter) is a syntax error -/
def digitsValue : List Char → Option Nat
  | [] => none
  | cs => cs.foldl (fun acc c => acc.bind (fun a => if c.isDigit then some (a * 10 + (c.toNat - 48)) else none)) (some 0)

/-- `strconv.ParseUint(s, 10, bits)`: `none` = it returns an error (syntax, or the value does not fit `bits` bits) -/
def parseUint (bits : Nat) (s : String) : Option Nat :=
  match digitsValue s.toList with
  | some n => if n < 2 ^ bits then some n else none
  | none => none

/-- the TTL `WithOverallContextMiddleware` stores under "TTL_DAYS" -/
def ttlDays (s : String) : Nat :=
  if s = "" then 0 else (parseUint IngestParams.ttlParse.2.2 s).getD 0

/-- the insert mode `getAsyncMode` stores under "async" -/
def asyncMode (s : String) : Nat := (IngestParams.asyncCases.lookup s).getD IngestParams.asyncDefault

/-- `?precision=` of the influx route: nanoseconds per unit, or the status of the rejection -/
def precision (s : String) : Except Nat Nat :=
  match IngestParams.precisionCases.lookup (if s = "" then IngestParams.precisionEmpty else s) with
  | some n => .ok n
  | none => .error IngestParams.precisionDefaultStatus

def ddsource (s : String) : String := if s = "" then IngestParams.ddsourceDefault else s

/-- the three pyroscope parameters, checked in the generated order: the first empty one rejects with 500 -/
def profileParams (get : String → String) : Except Nat Unit :=
  if IngestParams.profileRequired.any (fun p => get p == "") then .error 500 else .ok ()

/-! ### Content-Type → parser -/

/-- `strings.HasPrefix(contentType, k)` -/
def hasPrefix (ct k : String) : Bool := k.toList.isPrefixOf ct.toList

/-- `DoParse`: the map is walked in `order` (any arrangement of its keys); the first key that is a prefix of the
    Content-Type wins; with none, the `*` parser; with none of that, 400 -/
def selectParser (order : List String) (ct : String) : Except Nat String :=
  match order.find? (hasPrefix ct) with
  | some k => .ok k
  | none => if order.contains "*" then .ok "*" else .error 400

/-- the parser keys of a handler constructor (its chains differ by the value of cfg.ExtraMiddleware only) -/
def parserKeys (handler : String) : List String :=
  ((CtxChains.chains.filter (fun c => c.1 == handler)).map (fun c => c.2.2.1)).eraseDups

def handlerNames : List String := (CtxChains.chains.map (·.1)).eraseDups

/-- no key of the set is a proper prefix of another: then at most one key is a prefix of any Content-Type -/
def prefixFree (keys : List String) : Bool :=
  keys.all fun a => keys.all fun b => a == b || !(a.toList.isPrefixOf b.toList)

/-! ### the head of a request: everything decided before a byte of the body is parsed -/

inductive Head
  | reject (status : Nat)
  | parser (key : String)
  deriving DecidableEq, Repr

/-- does the handler constructor read this query parameter? (regenerated inventory) -/
def readsQuery (handler param : String) : Bool :=
  IngestParams.reads.contains ("controllerv1." ++ handler, "query", param)

/-- the order of the code: the pre-request steps (`Content-Encoding` switch of the overall middleware — `ceKnown` —, then
    the handler's own parameter step) run before `DoParse` looks at the Content-Type -/
def headOf (handler : String) (ceKnown : Bool) (ct : String) (q : String → String) : Head :=
  if !ceKnown then .reject 400
  else
    let own : Option Nat :=
      if readsQuery handler "precision" then (match precision (q "precision") with | .error s => some s | .ok _ => none)
      else if readsQuery handler "from" then (match profileParams q with | .error s => some s | .ok _ => none)
      else none
    match own with
    | some s => .reject s
    | none =>
      match selectParser (parserKeys handler) ct with
      | .ok k => .parser k
      | .error s => .reject s

end Qryn.IngestParams
