import Qryn.Gen.BuilderCalls
import Qryn.Ingest.BuilderCallsPinned
/-! # C05: why every call of a builder callback passes arrays of one length — the review of `Gen.BuilderCalls.calls`

One entry per call site, in source order: the decoder model of `Qryn.Ingest.ParserRect` / C03 that stands for it and
the reading of the source that makes its arrays one length (checked against the pinned `argWrites`). The theorems
`parser_rect_*` are about the models; this list says which source statement each of them mirrors, and
`C05.builder_calls_pinned` makes an edit of any of those statements visible. -/
namespace Qryn.BuilderCallsReview

structure CallSite where
  fn : String
  handler : String
  /-- the model of the call -/
  model : String
  /-- why the per-row arrays have one length -/
  why : String
  deriving DecidableEq, Repr

def callRect : List CallSite :=
  [⟨"unmarshal.binaryStreamPProfProtoDec.Decode", "onProfileHandler", "ParserRect.profilesSent",
    "as pProfProtoDec.Decode"⟩,
   ⟨"unmarshal.datadogCFRequestDec.Decode", "onEntriesHandler", "ParserRect.linesIssued (linesIssued_WF)",
    "four one-element literals"⟩,
   ⟨"unmarshal.datadogRequestDec.DecodeEntry", "onEntriesHandler", "Wire.ddEntryCall (ddLogsIssued_WF)",
    "four one-element literals"⟩,
   ⟨"unmarshal.datadogMetricsRequestDec.Decode", "onEntriesHandler", "Wire.dsCall (ddSeriesIssued_WF: dsItem_lengths)",
    "d.tsNs and d.values are emptied together per item and appended together per point (DecodeSeriesItem); messages and types are sized by len(d.values)"⟩,
   ⟨"unmarshal.ElasticUnmarshal.Decode", "onEntriesHandler", "ParserRect.linesIssued (one item)",
    "four one-element literals"⟩,
   ⟨"unmarshal.elasticBulkDec.decodeLine", "onEntriesHandler", "ParserRect.linesIssued",
    "four one-element literals"⟩,
   ⟨"unmarshal.pProfProtoDec.Decode", "onProfileHandler", "ParserRect.profilesSent",
    "scalar arguments: onProfile appends one element to each of the eight per-row columns; the array arguments are assigned whole"⟩,
   ⟨"unmarshal.influxDec.Decode", "onEntriesHandler", "Wire.influxMetricCalls (influxIssued_WF)",
    "four one-element literals"⟩,
   ⟨"unmarshal.influxDec.Decode", "onEntriesHandler", "Wire.influxMetricCalls (influxIssued_WF)",
    "four one-element literals"⟩,
   ⟨"unmarshal.logsProtoDec.Decode", "onEntriesHandler", "ParserRect.lokiProtoCall (lokiProtoIssued_WF)",
    "tsns, msgs, the value array and the type array are all made with len(stream.GetEntries())"⟩,
   ⟨"unmarshal.promMetricsProtoDec.Decode", "onEntriesHandler", "Ingest.promSamples (promSeriesList_WF, C02 parser_rect_prom)",
    "tsns, value, msg: made empty together, appended together per sample, re-sliced to [:0] together after a flush; the types are fastFillArray(len(tsns))"⟩,
   ⟨"unmarshal.promMetricsProtoDec.Decode", "onEntriesHandler", "Ingest.promSamples (promSeriesList_WF, C02 parser_rect_prom)",
    "the tail flush passes the same three variables and fastFillArray(len(tsns))"⟩,
   ⟨"unmarshal.OTLPDecoder.Decode", "onSpanHandler", "ParserRect.onSpanCols",
    "keys, vals := make([]string, len(attrsMap)) filled by one loop over attrsMap"⟩,
   ⟨"unmarshal.otlpLogDec.Decode", "onEntriesHandler", "Wire.otlpDecode (C03 calls_spec)",
    "four one-element literals"⟩,
   ⟨"unmarshal.pushRequestDec.Decode", "onEntriesHandler", "Wire.PushSt.push (lokiJsonIssued_WF)",
    "p.TsNs, p.String, p.Value, p.Types: emptied together per stream, appended together (four consecutive statements, after the last statement that can return) in decodeStreamValue and decodeStreamEntry"⟩,
   ⟨"unmarshal.zipkinDecoderV2.decodeSpan", "onSpanHandler", "ParserRect.onSpanCols (any keys / vals)",
    "key and val are appended in pairs (name, local/remote service_name, tags, service.name); in parseTags the key is appended before the value is read — a failed read returns an error and onSpan is not called; onSpan itself appends one element per column per span and stops at val[i] when val is shorter (tamed, nothing sent)"⟩]

end Qryn.BuilderCallsReview
