import Qryn.Ingest.BatcherSpec
/-! # Ingest.BatcherAlias — the promise bookkeeping of `InsertServiceV2` over an explicit heap of Go slices, with the
INSERT as a WINDOW (`insertBegin` … `insertEnd`) during which requests keep arriving (C01, C02). Core-only.

`Ingest.Batcher` keeps `svc.results` and the `waiting` promises of the portion in flight as VALUES (`List ReqId`): that a
`Request` arriving while `client.Do` runs cannot touch the promises of the block being inserted is built into it. In Go
both are slice headers, `svc.results = append(svc.results, p)` writes into a backing array, and whether the array of the
open batch and the array `releaseWaiting` ranges over are the same one depends on three statements of
`writer/service/genericInsertService.go`:

* what `swapBuffers` assigns to `svc.results` after saving it (`nil`, a fresh array, or `results[:0]` — the OLD array);
* whether the `res` of the `requestPortion` it returns is the saved slice itself or a copy made inside the hold;
* whether `fetchLoopIteration` ranges over its own copy (`waiting := append([]T{}, portion.res...)`, made AFTER
  `swapBuffers` returned and `OnBeforeInsert` ran) or over `portion.res` directly.

`Gen.BatcherAlias.cfg` is these three facts, regenerated from the source. The machine below has the flusher's steps
`swap` (the hold of `swapBuffers`), `insertBegin` (the copy, if any, is made; `client.Do` is entered) and `insertEnd o`
(`client.Do` returned `o`; the promises are read through the heap NOW and completed), with `request`s possible between
any two of them. `Proofs/BatcherAlias` proves that under `Cfg.disciplined` every run has exactly the events of the value
machine; `Props/C02` and `Props/C01` exhibit the runs of the shared-array variants that do not. -/
namespace Qryn.Ingest.BatcherAlias
open Qryn.Ingest.Batcher

/-- what `swapBuffers` assigns to `svc.results` after `results := svc.results` -/
inductive AfterSwap
  /-- `svc.results = nil` -/
  | nil
  /-- `svc.results = make(…)` / `[]T{}`: a new array -/
  | fresh
  /-- `svc.results = results[:0]`: the array just handed to the flusher, length 0 -/
  | reslice
deriving DecidableEq, Repr

/-- the `res` field of the `requestPortion` that `swapBuffers` returns -/
inductive PortionRes
  /-- the saved slice itself (same backing array as the old `svc.results`) -/
  | moved
  /-- a copy made inside the hold (`append([]T{}, svc.results...)`) -/
  | copied
deriving DecidableEq, Repr

/-- what `releaseWaiting` ranges over -/
inductive ReleaseReads
  /-- a local `waiting := append([]T{}, portion.res...)` made before `client.Do` (outside the lock) -/
  | copy
  /-- `portion.res` itself -/
  | portion
deriving DecidableEq, Repr

structure Cfg where
  afterSwap : AfterSwap
  portionRes : PortionRes
  release : ReleaseReads
deriving DecidableEq, Repr

/-- the open batch and the portion in flight never share a backing array: `svc.results` restarts on `nil`/a new array,
    or the portion got its own copy before the lock was released. (The copy `fetchLoopIteration` makes later does not
    count: requests arrive before it.) -/
def Cfg.disciplined (c : Cfg) : Bool := c.afterSwap != .reslice || c.portionRes == .copied

/-- a slice header: backing array and length (capacity: see `sappend`) -/
structure Slice where
  arr : Nat
  len : Nat
deriving DecidableEq, Repr

/-- backing arrays of promise pointers, by array id -/
abbrev Heap := List (List ReqId)

/-- the elements a slice shows; `none` is Go `nil` -/
def readS (h : Heap) : Option Slice → List ReqId
  | none => []
  | some sl => (h.getD sl.arr []).take sl.len

/-- `a[i] = x`, extending the array when `i` is its length -/
def writeAt (l : List ReqId) (i : Nat) (x : ReqId) : List ReqId := l.take i ++ x :: l.drop (i + 1)

/-- `append(s, p)`. `nil` allocates. Otherwise `grow` says whether the runtime reallocates (new array holding the
    elements of `s` and `p`) or writes slot `len` of the array `s` points into — Go decides by `len < cap`; here it is the
    environment's choice at every call, a superset of Go's rule. -/
def sappend (h : Heap) (s : Option Slice) (p : ReqId) (grow : Bool) : Heap × Option Slice :=
  match s with
  | none => (h ++ [[p]], some ⟨h.length, 1⟩)
  | some sl =>
    if grow then (h ++ [readS h (some sl) ++ [p]], some ⟨h.length, sl.len + 1⟩)
    else (h.set sl.arr (writeAt (h.getD sl.arr []) sl.len p), some ⟨sl.arr, sl.len + 1⟩)

/-- `append([]T{}, s...)`: the elements of `s` in a new array -/
def scopy (h : Heap) (s : Option Slice) : Heap × Option Slice :=
  (h ++ [readS h s], some ⟨h.length, (readS h s).length⟩)

/-- one sub-service. `s.pending` and `inflight.waiting` of the embedded value state are NOT used (they stay `[]`): the
    promises live in `heap`, reached through `results` (`svc.results`) and `pres` (`portion.res`, after `insertBegin`
    what `releaseWaiting` ranges over). -/
structure ASvc where
  s : Svc
  heap : Heap := []
  results : Option Slice := none
  pres : Option Slice := none
  /-- `client.Do` has been entered for the portion in flight -/
  began : Bool := false
deriving DecidableEq, Repr

def ASvc.init (p : Plan) (maxQueue : Nat) : ASvc := { s := Svc.init p maxQueue }

inductive AOp
  /-- `Request(req)`: one lock hold; `grow`: see `sappend` -/
  | request (r : Req) (grow : Bool)
  | trigger (k : Trigger)
  | connect (ok : Bool)
  /-- the hold of `swapBuffers` -/
  | swap
  /-- `OnBeforeInsert` has run, the copy of the promises (if the code makes one) is made, `client.Do` is entered -/
  | insertBegin
  /-- `client.Do` returns `o`; `releaseWaiting(o)`; the client is dropped on error -/
  | insertEnd (o : Outcome)
  | ping (ok : Bool)
  | stop
deriving DecidableEq, Repr

/-- `Request`, statement by statement as `stepRequest`, the promise booked by `append` into the heap -/
def astepRequest (m : ASvc) (r : Req) (grow : Bool) : ASvc × List Event :=
  if !m.s.running then (m, [.resolved r.id .err])
  else match processRequest m.s.plan r m.s.cols with
    | .error _ => ({ m with s := { m.s with crashed := true } }, [.crash])
    | .ok res =>
      if res.err || res.inserted == 0 then
        ({ m with s := { m.s with cols := res.cols } }, [.resolved r.id (if res.err then .err else .ok)])
      else
        ({ m with s := { m.s with cols := res.cols, size := m.s.size + r.size,
                                  flushPlanned := m.s.flushPlanned ||
                                    (decide (m.s.maxQueue > 0) && decide (m.s.size + r.size > m.s.maxQueue)) },
                  heap := (sappend m.heap m.results r.id grow).1,
                  results := (sappend m.heap m.results r.id grow).2 }, [])

/-- the slices after the hold of `swapBuffers`: `(heap, svc.results, portion.res)` -/
def swapSlices (cfg : Cfg) (h : Heap) (results : Option Slice) : Heap × Option Slice × Option Slice :=
  let pr := match cfg.portionRes with
    | .moved => (h, results)
    | .copied => scopy h results
  match cfg.afterSwap with
  | .nil => (pr.1, none, pr.2)
  | .fresh => (pr.1 ++ [[]], some ⟨pr.1.length, 0⟩, pr.2)
  | .reslice => (pr.1, results.map (fun sl => { sl with len := 0 }), pr.2)

/-- `swapBuffers` (guard and effects as `stepSwap`), the promises handed over as slices -/
def astepSwap (cfg : Cfg) (m : ASvc) : ASvc × List Event :=
  if m.s.running && m.s.flushPlanned && m.s.client && m.s.inflight.isNone then
    if m.s.size = 0 then ({ m with s := { m.s with flushPlanned := false } }, [])
    else match m.s.cols with
      | none => ({ m with s := { m.s with crashed := true } }, [.crash])
      | some cs =>
        ({ m with s := { m.s with flushPlanned := false, cols := some (acquire m.s.plan), size := 0,
                                  inflight := some ⟨cs, [], m.s.size⟩ },
                  heap := (swapSlices cfg m.heap m.results).1,
                  results := (swapSlices cfg m.heap m.results).2.1,
                  pres := (swapSlices cfg m.heap m.results).2.2,
                  began := false }, [])
  else (m, [])

def astepBegin (cfg : Cfg) (m : ASvc) : ASvc × List Event :=
  if m.s.inflight.isSome && !m.began then
    match cfg.release with
    | .copy => ({ m with heap := (scopy m.heap m.pres).1, pres := (scopy m.heap m.pres).2, began := true }, [])
    | .portion => ({ m with began := true }, [])
  else (m, [])

/-- `client.Do` returned: the promises are read NOW, through whatever `releaseWaiting` ranges over -/
def astepEnd (m : ASvc) (o : Outcome) : ASvc × List Event :=
  match m.s.inflight with
  | none => (m, [])
  | some q =>
    if m.began then
      ({ m with s := { m.s with inflight := none, client := (o == .ok) }, pres := none, began := false },
       Event.insert q.cols (readS m.heap m.pres) o :: (readS m.heap m.pres).map (fun id => Event.resolved id o))
    else (m, [])

def astep (cfg : Cfg) (m : ASvc) (op : AOp) : ASvc × List Event :=
  if m.s.crashed then (m, []) else
  match op with
  | .request r g => astepRequest m r g
  | .trigger _ => ({ m with s := { m.s with flushPlanned := true } }, [])
  | .connect ok => ({ m with s := (stepConnect m.s ok).1 }, (stepConnect m.s ok).2)
  | .swap => astepSwap cfg m
  | .insertBegin => astepBegin cfg m
  | .insertEnd o => astepEnd m o
  | .ping ok => ({ m with s := (stepPing m.s ok).1 }, (stepPing m.s ok).2)
  | .stop => ({ m with s := (stepStop m.s).1 }, (stepStop m.s).2)

def arun (cfg : Cfg) (m : ASvc) : List AOp → ASvc × List Event
  | [] => (m, [])
  | op :: ops =>
    let r1 := astep cfg m op
    let r2 := arun cfg r1.1 ops
    (r2.1, r1.2 ++ r2.2)

/-- the value state a heap state stands for -/
def view (m : ASvc) : Svc :=
  { m.s with pending := readS m.heap m.results,
             inflight := m.s.inflight.map (fun q => { q with waiting := readS m.heap m.pres }) }

/-- the ops of the value machine a step stands for: `insertBegin` is invisible, `insertEnd` is the `Do` result -/
def absOp (m : ASvc) : AOp → List Op
  | .request r _ => [.request r]
  | .trigger k => [.trigger k]
  | .connect ok => [.connect ok]
  | .swap => [.swap]
  | .insertBegin => []
  | .insertEnd o => if m.began then [.doResult o] else []
  | .ping ok => [.ping ok]
  | .stop => [.stop]

def absRun (cfg : Cfg) (m : ASvc) : List AOp → List Op
  | [] => []
  | op :: ops => absOp m op ++ absRun cfg (astep cfg m op).1 ops

def AWellFormed (R : ReqId → Req) : AOp → Prop
  | .request r _ => r = R r.id
  | _ => True

def AGoodOp (p : Plan) (R : ReqId → Req) : AOp → Prop
  | .request r _ => r = R r.id ∧ GoodReq p r
  | _ => True

end Qryn.Ingest.BatcherAlias
