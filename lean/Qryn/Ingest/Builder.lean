import Qryn.Base.Bytes
import Qryn.Gen.Thresholds
/-! Model of the log/metric request builder of the writer: `parserDoer.onEntries`, `timeSeriesAndSamples`
    (`reset`/`flush`), `fastFillArray`, `maybeAddFp`, `sanitizeLabels`, `validUTF8Labels`
    (writer/utils/unmarshal/builder.go, shared.go, unmarshal.go). Core-only.

    * strings are byte strings; float64 values are carried as their IEEE-754 bit pattern (`UInt64`): the builder
      never computes with them;
    * the series fingerprint (`fingerprintLabels`, property C04) and the byte length of the label document
      (`encodeLabels`, a JSON object written with jx) are ABSTRACT functions of the label list (`Env.fp`, `Env.encLen`);
    * the flush test (an arbitrary predicate on the byte count; today `> 1 MiB`) and the per-row size constants
      are PARAMETERS (`Env`); `Gen.Thresholds` carries what the source has today;
    * `onEntries` receives parallel arrays exactly like the Go callback and appends column by column, so a
      caller passing arrays of different lengths yields a non-rectangular request, exactly as in Go;
    * panics are values (`Fault`): `tps[t]` with a type above 2 and `message[i]` past the end of `message`. -/
namespace Qryn.Ingest

abbrev Label := Bytes × Bytes
abbrev Labels := List Label

inductive Fault | indexOutOfRange | nilDeref
  deriving DecidableEq, Repr

/-! ### label sanitising (`sanitizeLabels`, regexp `Gen.sanitizeRe`) -/

def isAlpha (c : UInt8) : Bool := (65 ≤ c && c ≤ 90) || (97 ≤ c && c ≤ 122) || c = 95
def isAlnum (c : UInt8) : Bool := isAlpha c || (48 ≤ c && c ≤ 57)

def isCont (b : UInt8) : Bool := 0x80 ≤ b && b ≤ 0xBF

/-- what the first byte of an encoding announces (Go's `first` table and `acceptRanges`): a byte that stands alone
    (ASCII, or not a valid lead byte), or a lead byte of a 2-, 3- or 4-byte encoding with the range its second byte must lie in -/
inductive Lead
  | single
  | two
  | three (lo hi : UInt8)
  | four (lo hi : UInt8)

def lead (b0 : UInt8) : Lead :=
  if b0 < 0xC2 then .single
  else if b0 < 0xE0 then .two
  else if b0 < 0xF0 then .three (if b0 = 0xE0 then 0xA0 else 0x80) (if b0 = 0xED then 0x9F else 0xBF)
  else if b0 < 0xF5 then .four (if b0 = 0xF0 then 0x90 else 0x80) (if b0 = 0xF4 then 0x8F else 0xBF)
  else .single

/-- width of the rune Go's `utf8.DecodeRune` reads at the head of a non-empty string (an invalid or truncated
    encoding is one `RuneError` of width 1); the regexp engine and `strings.ToValidUTF8` walk the string with it. -/
def runeLen : Bytes → Nat
  | [] => 0
  | b0 :: rest =>
    match lead b0, rest with
    | .two, b1 :: _ => if isCont b1 then 2 else 1
    | .three lo hi, b1 :: b2 :: _ => if lo ≤ b1 && b1 ≤ hi && isCont b2 then 3 else 1
    | .four lo hi, b1 :: b2 :: b3 :: _ => if lo ≤ b1 && b1 ≤ hi && isCont b2 && isCont b3 then 4 else 1
    | _, _ => 1

/-- `ReplaceAllString(s, "_")` for a regexp that matches exactly the single runes rejected by `ok`
    (`first` = at offset 0): every rejected rune, whatever its width, becomes one `_`. -/
def replaceRunes (ok : Bool → UInt8 → Bool) : Nat → Bool → Bytes → Bytes
  | 0, _, _ => []
  | _ + 1, _, [] => []
  | fuel + 1, first, b :: rest =>
    let n := runeLen (b :: rest)
    if n = 1 && ok first b then b :: replaceRunes ok fuel false rest
    else 95 :: replaceRunes ok fuel false (rest.drop (n - 1))

/-- `sanitizeRe.ReplaceAllString(name, "_")` with `sanitizeRe = (^[^a-zA-Z_]|[^a-zA-Z0-9_])`
    (also `sanitizeMetricName`, same expression) -/
def sanitizeName (s : Bytes) : Bytes :=
  replaceRunes (fun first c => if first then isAlpha c else isAlnum c) s.length true s

/-- the value rule of `sanitizeLabels`: longer than `Gen.labelValueMax` bytes → the first that many bytes + suffix -/
def truncValue (v : Bytes) : Bytes :=
  if v.length > Gen.labelValueMax then v.take Gen.labelValueCut ++ Gen.labelValueSuffix else v

def sanitizeLabels (ls : Labels) : Labels := ls.map (fun l => (sanitizeName l.1, truncValue l.2))

/-! ### `validUTF8Labels` (`strings.ToValidUTF8(s, "\uFFFD")`) -/

def replacementChar : Bytes := [0xEF, 0xBF, 0xBD]   -- U+FFFD

/-- the loop of `strings.ToValidUTF8`: `skip` = bytes of the current well-formed multi-byte rune still to copy,
    `inv` = the previous byte belonged to an invalid sequence (a RUN of invalid bytes yields one replacement) -/
def toValidGo : Nat → Bool → Bytes → Bytes
  | _, _, [] => []
  | skip + 1, _, b :: rest => b :: toValidGo skip false rest
  | 0, inv, b :: rest =>
    if b < 0x80 then b :: toValidGo 0 false rest
    else if runeLen (b :: rest) = 1 then (if inv then [] else replacementChar) ++ toValidGo 0 true rest
    else b :: toValidGo (runeLen (b :: rest) - 1) false rest

def toValidUTF8 (s : Bytes) : Bytes := toValidGo 0 false s

/-- `utf8.ValidString` as the same walk -/
def validGo : Nat → Bytes → Bool
  | _, [] => true
  | skip + 1, _ :: rest => validGo skip rest
  | 0, b :: rest =>
    if b < 0x80 then validGo 0 rest
    else if runeLen (b :: rest) = 1 then false
    else validGo (runeLen (b :: rest) - 1) rest

def validUTF8 (s : Bytes) : Bool := validGo 0 s

/-- `validUTF8Labels`: a label with an invalid name or value gets both replaced by their valid forms
    (`toValidUTF8` is the identity on valid strings — `Proofs/Utf8.lean` — so mapping both always is the same) -/
def validLabels (ls : Labels) : Labels := ls.map (fun l => (toValidUTF8 l.1, toValidUTF8 l.2))

/-! ### `__ttl_days__` -/

def ttlLabel : Bytes := [95, 95, 116, 116, 108, 95, 100, 97, 121, 115, 95, 95]   -- "__ttl_days__"

def digitsVal : Bytes → Option Nat
  | [] => none
  | ds => ds.foldl (fun acc c => acc.bind (fun a => if 48 ≤ c && c ≤ 57 then some (a * 10 + (c.toNat - 48)) else none)) (some 0)

/-- `strconv.ParseInt(s, 10, 16)`: optional sign, decimal digits, range −32768..32767 -/
def parseI16 (s : Bytes) : Option Int :=
  let (neg, ds) := match s with
    | 43 :: r => (false, r)
    | 45 :: r => (true, r)
    | r => (false, r)
  match digitsVal ds with
  | none => none
  | some n =>
    if neg then (if n ≤ 32768 then some (-(n : Int)) else none)
    else (if n ≤ 32767 then some (n : Int) else none)

/-- `uint16(x)` for an int64 in the int16 range -/
def toU16 (x : Int) : Nat := (x % 65536).toNat

/-- the label/TTL preamble of `onEntries`: with a TTL from the request context the labels are left alone;
    otherwise every `__ttl_days__` label is removed and the last parsable one gives the TTL. -/
def effective (ctxTtl : Nat) (labels : Labels) : Labels × Nat :=
  if ctxTtl ≠ 0 then (labels, ctxTtl)
  else (labels.filter (fun l => l.1 ≠ ttlLabel),
        labels.foldl (fun t l => if l.1 = ttlLabel then (match parseI16 l.2 with | some v => toU16 v | none => t) else t) 0)

/-- the label list `onEntries` fingerprints and documents: TTL preamble, then `validUTF8Labels` -/
def identOf (ctxTtl : Nat) (labels : Labels) : Labels := validLabels (effective ctxTtl labels).1

def ttlOf (ctxTtl : Nat) (labels : Labels) : Nat := (effective ctxTtl labels).2

/-! ### requests -/

structure Row where
  fp : UInt64
  ts : Int
  line : Bytes
  val : UInt64
  tp : Nat
  ttl : Nat
  deriving DecidableEq, Repr

structure SeriesRow where
  date : Int
  fp : UInt64
  labels : Labels
  tp : Nat
  ttl : Nat
  deriving DecidableEq, Repr

/-- `model.TimeSamplesData`: parallel columns -/
structure Samples where
  mFp : List UInt64 := []
  mTs : List Int := []
  mMsg : List Bytes := []
  mVal : List UInt64 := []
  mTtl : List Nat := []
  mTp : List Nat := []
  size : Nat := 0
  deriving Repr

/-- `model.TimeSeriesData`: its five columns are always appended together, one row at a time -/
structure Series where
  rows : List SeriesRow := []
  size : Nat := 0
  deriving Repr

/-- one `ParserResponse{TimeSeriesRequest, SamplesRequest}` -/
structure Chunk where
  spl : Samples
  ts : Series
  deriving Repr

def mkRow (t : UInt64 × Int × Bytes × UInt64 × Nat × Nat) : Row := ⟨t.1, t.2.1, t.2.2.1, t.2.2.2.1, t.2.2.2.2.2, t.2.2.2.2.1⟩

/-- the rows of a samples request as the insert service reads them: index i of every column -/
def Samples.rows (s : Samples) : List Row :=
  (s.mFp.zip (s.mTs.zip (s.mMsg.zip (s.mVal.zip (s.mTtl.zip s.mTp))))).map mkRow

def Samples.Rect (s : Samples) : Prop :=
  s.mFp.length = s.mTs.length ∧ s.mMsg.length = s.mTs.length ∧ s.mVal.length = s.mTs.length ∧
  s.mTtl.length = s.mTs.length ∧ s.mTp.length = s.mTs.length

def Chunk.rows (c : Chunk) : List Row := c.spl.rows

/-- arguments of one `onEntries` call -/
structure Call where
  labels : Labels
  ts : List Int
  msg : List Bytes
  val : List UInt64
  tp : List Nat
  deriving Repr

structure Entry where
  ts : Int
  line : Bytes
  val : UInt64
  tp : Nat
  deriving DecidableEq, Repr

def Call.ofEntries (labels : Labels) (es : List Entry) : Call :=
  ⟨labels, es.map (·.ts), es.map (·.line), es.map (·.val), es.map (·.tp)⟩

structure Env where
  fp : Labels → UInt64          -- fingerprintLabels (C04)
  encLen : Labels → Nat         -- len(encodeLabels(labels)) (the jx-encoded JSON object)
  flush : Nat → Bool            -- the test on spl.Size + ts.Size that emits the open requests (today: > 1 MiB)
  rowBytes : Nat                -- 26
  seriesBytes : Nat             -- 14
  ctxTtl : Nat                  -- TTL_DAYS of the request context (0 = none)

/-- builder state: the open requests and the (day, fingerprint, type) keys this request has emitted a series
    row for (`seenFpKeys`; the shared cache is only set by the caller once a row is stored) -/
structure St where
  spl : Samples := {}
  ts : Series := {}
  cache : List (Int × UInt64 × Nat) := []

/-- `fastFillArray(n, v)` (after the fix: n = 0 gives the empty slice) -/
def fastFill {α} (n : Nat) (v : α) : List α := List.replicate n v

/-- `time.Unix(tsns/1000000000, 0).Truncate(24h).Unix()`: Go's `/` truncates towards zero, `Truncate` rounds down -/
def dayOf (tsns : Int) : Int := (Int.tdiv tsns 1000000000) / 86400 * 86400

/-- one iteration of `for d := range dates { for t := range tps {…} }`: `maybeAddFp(d, fp, t)` -/
def seriesStep (env : Env) (labels : Labels) (fp : UInt64) (ttl : Nat)
    (acc : Series × List (Int × UInt64 × Nat)) (dt : Int × Nat) : Series × List (Int × UInt64 × Nat) :=
  if acc.2.contains (dt.1, fp, dt.2) then acc
  else (⟨acc.1.rows ++ [⟨dt.1, fp, labels, dt.2, ttl⟩], acc.1.size + (env.seriesBytes + env.encLen labels)⟩,
        (dt.1, fp, dt.2) :: acc.2)

/-- `onEntries` for arguments on which it does not fault. `dates` is a Go map: its iteration order is not
    specified; the model takes first-occurrence order (the harness compares series rows as a set per chunk). -/
def onEntriesPure (env : Env) (st : St) (c : Call) : St × List Chunk :=
  let labels := identOf env.ctxTtl c.labels
  let ttl := ttlOf env.ctxTtl c.labels
  let fp := env.fp labels
  let n := c.ts.length
  let spl : Samples :=
    { mMsg := st.spl.mMsg ++ c.msg, mVal := st.spl.mVal ++ c.val, mTs := st.spl.mTs ++ c.ts,
      mFp := st.spl.mFp ++ fastFill n fp, mTtl := st.spl.mTtl ++ fastFill n ttl, mTp := st.spl.mTp ++ c.tp,
      size := st.spl.size + ((c.msg.take n).map (fun m => m.length + env.rowBytes)).sum }
  let tps := [0, 1, 2].filter (fun t => c.tp.contains t)
  let dates := (c.ts.map dayOf).eraseDups
  let (ts, cache) := (dates.flatMap (fun d => tps.map (fun t => (d, t)))).foldl (seriesStep env labels fp ttl) (st.ts, st.cache)
  if env.flush (spl.size + ts.size) then
    ({ spl := {}, ts := {}, cache := cache }, [⟨spl, ts⟩])
  else ({ spl := spl, ts := ts, cache := cache }, [])

/-- `onEntries` with its two index expressions that can fault -/
def onEntries (env : Env) (st : St) (c : Call) : Except Fault (St × List Chunk) :=
  if c.tp.any (fun t => t > 2) then .error .indexOutOfRange          -- tps[t] = true, tps : [3]bool
  else if c.msg.length < c.ts.length then .error .indexOutOfRange    -- len(message[i]) inside range timestampsNS
  else .ok (onEntriesPure env st c)

/-- the decoder's callback sequence -/
def runCalls (env : Env) : St → List Call → Except Fault (St × List Chunk)
  | st, [] => .ok (st, [])
  | st, c :: cs =>
    match onEntries env st c with
    | .error f => .error f
    | .ok (st1, out1) =>
      match runCalls env st1 cs with
      | .error f => .error f
      | .ok (st2, out2) => .ok (st2, out1 ++ out2)

/-- `doParseLogs`: after a successful `Decode` the open requests are flushed (always, also when empty).
    A fault is recovered by `tamePanic` into an error response; the chunks sent before it are not modelled further. -/
def parse (env : Env) (calls : List Call) : Except Fault (List Chunk) :=
  match runCalls env {} calls with
  | .error f => .error f
  | .ok (st, out) => .ok (out ++ [⟨st.spl, st.ts⟩])

/-- what `onEntries` must produce for a call: one row per entry, the call's own fingerprint and TTL -/
def rowOf (fp : UInt64) (ttl : Nat) (e : Entry) : Row := ⟨fp, e.ts, e.line, e.val, e.tp, ttl⟩

def streamRows (env : Env) (labels : Labels) (es : List Entry) : List Row :=
  es.map (rowOf (env.fp (identOf env.ctxTtl labels)) (ttlOf env.ctxTtl labels))

/-- the environment with today's constants of the source -/
def Env.ofGen (fp : Labels → UInt64) (encLen : Labels → Nat) (ctxTtl : Nat) : Env :=
  ⟨fp, encLen, Gen.bytesHit, Gen.rowBytes, Gen.seriesBytes, ctxTtl⟩

end Qryn.Ingest
