import Qryn.Ingest.Span
/-! # C06: the span text as the two JSON libraries present it, and what the code makes of it. Core-only.

* `absField` / `docOfTrees` — the `switch key` of `zipkinDecoderV2.decodeSpan` with the type tests of the jx calls it
  makes per member (`StrBytes`, `Str`, `Next`, `Int64`, `Obj`, `Skip`), and the look-ups of `parseZipkinJSON`
  (`GetStringBytes`, `GetObject`, `Get`, `GetInt64`, `GetArray`, `GetUint64`, `Visit`) on the parsed tree: a member of the
  span object becomes a typed `ZField`. The trees come from the libraries themselves (harness: jx walk of the raw span,
  fastjson parse of the stored payload), object members in document order, duplicates kept, at every level.
* `jxInt64`, `fjInt64`, `fjUint64` — the integer readings of a JSON number text by jx `Int64` and by fastjson
  `GetInt64` / `GetUint64` (fastfloat `Parse*BestEffort`).
* `scanLines` — `bufio.Scanner` with `ScanLines` and an unbounded buffer (the newline-delimited framing after its fix).
* `writeZipkinJ` — the two `Decode` methods over the texts of a body.
* `jsonView` — `reader/utils/unmarshal.SpanToJSONSpan`, the last step of the trace-by-id JSON answer.
* `traceQuery` / `readTrace` — the trace-by-id statement of `GetQueryRequest` over a table of stored rows, fed to `OutputQuery`. -/
namespace Qryn.Span

/-! ## number texts -/

def isDigit (c : UInt8) : Bool := 48 ≤ c && c ≤ 57

/-- jx `Decoder.Int64` on the text of a number: `-?(0|[1-9][0-9]*)` within int64; a fraction, an exponent or a
    leading zero is an error -/
def jxInt64 (raw : Bytes) : Option Int :=
  let (neg, ds) := match raw with
    | 45 :: r => (true, r)
    | r => (false, r)
  match ds with
  | [] => none
  | [48] => some 0
  | 48 :: _ => none
  | _ =>
    match digitsVal ds with
    | none => none
    | some n =>
      if neg then (if n ≤ 9223372036854775808 then some (-(n : Int)) else none)
      else (if n ≤ 9223372036854775807 then some (n : Int) else none)

/-- fastfloat `ParseInt64BestEffort`: `-?[0-9]+` within int64, anything else 0 -/
def fjInt64 (raw : Bytes) : Int :=
  match raw with
  | 43 :: _ => 0
  | _ => (parseInt64 raw).getD 0

/-- fastfloat `ParseUint64BestEffort`: `[0-9]+` within uint64, anything else 0 -/
def fjUint64 (raw : Bytes) : Nat :=
  match digitsVal raw with
  | some n => if n < 18446744073709551616 then n else 0
  | none => 0

/-! ## from the parsed tree to the typed members -/

def jsStr : JVal → JStr
  | .str s => some s
  | _ => none

/-- the first member of that name (fastjson `Object.Get`) -/
def jFirst (ms : List (Str × JVal)) (key : Str) : Option JVal := (ms.find? (fun m => m.1 == key)).map (·.2)

/-- `stringOrInt64`: `d.Next()` = Number → `d.Int64()`, String → `d.Str()` + `ParseInt`, anything else an error -/
def absTime : JVal → ZTime
  | .num raw _ => match jxInt64 raw with | some v => .num v | none => .bad
  | .str s => .str s
  | _ => .bad

def absEndpoint : JVal → Option Endpoint
  | .obj ms => some
    { svcs := ms.filterMap (fun m => if m.1 = ascii "serviceName" then some (jsStr m.2) else none)
      ipv4 := (jFirst ms (ascii "ipv4")).bind jsStr
      ipv6 := (jFirst ms (ascii "ipv6")).bind jsStr
      port := match jFirst ms (ascii "port") with | some (.num raw _) => fjInt64 raw | _ => 0 }
  | _ => none

def absTags : JVal → Option (List (Str × Option Str))
  | .obj ms => some (ms.map (fun m => (m.1, jsStr m.2)))
  | _ => none

/-- one element of `annotations`: `anno.GetUint64("timestamp")`, `anno.GetStringBytes("value")` -/
def absAnno : JVal → Nat × Str
  | .obj ms =>
    (match jFirst ms (ascii "timestamp") with | some (.num raw _) => fjUint64 raw | _ => 0,
     match jFirst ms (ascii "value") with | some (.str s) => s | _ => [])
  | _ => (0, [])

def absAnnotations : JVal → Option (List (Nat × Str))
  | .arr vs => some (vs.map absAnno)
  | _ => none

/-- the member names of the `switch key` of `decodeSpan`, in source order (compared with `Gen.SpanText.writerKeys`) -/
def writerKeyNames : List String :=
  ["traceId", "id", "parentId", "timestamp", "duration", "name", "localEndpoint", "remoteEndpoint", "tags"]

/-- the fastjson look-ups of `parseZipkinJSON`, in source order (compared with `Gen.SpanText.readerGets`) -/
def readerGetNames : List String :=
  ["GetStringBytes:kind", "GetStringBytes:name", "GetStringBytes:parentId", "GetObject:tags", "GetInt64:port",
   "GetArray:annotations", "GetUint64:timestamp", "GetStringBytes:value"]

/-- the `switch key` of `decodeSpan` (and the member names `parseZipkinJSON` asks for) -/
def absField (m : Str × JVal) : ZField :=
  if m.1 = ascii "traceId" then .traceId (jsStr m.2)
  else if m.1 = ascii "id" then .id (jsStr m.2)
  else if m.1 = ascii "parentId" then .parentId (jsStr m.2)
  else if m.1 = ascii "timestamp" then .timestamp (absTime m.2)
  else if m.1 = ascii "duration" then .duration (absTime m.2)
  else if m.1 = ascii "name" then .name (jsStr m.2)
  else if m.1 = ascii "localEndpoint" then .localEndpoint (absEndpoint m.2)
  else if m.1 = ascii "remoteEndpoint" then .remoteEndpoint (absEndpoint m.2)
  else if m.1 = ascii "tags" then .tags (absTags m.2)
  else if m.1 = ascii "kind" then .kind (jsStr m.2)
  else if m.1 = ascii "annotations" then .annotations (absAnnotations m.2)
  else .other

/-- the members the reader finds: look-ups on a root that is not an object find nothing -/
def absFieldsR : JVal → List ZField
  | .obj ms => ms.map absField
  | _ => []

/-- a span text through the two libraries: length, the value jx reads (`none` = it cannot read one), what follows
    that value in the text, the value fastjson parses the whole text to (`none` = it refuses the text) -/
structure ZText where
  len : Nat
  wtree : Option JVal
  tail : Bytes := []
  rtree : Option JVal
  deriving Repr

/-- `rawSpan.Type() != jx.Object` → 400; otherwise the typed document -/
def docOfTrees (t : ZText) : Option ZSpan :=
  match t.wtree with
  | some (.obj ms) => some { fields := ms.map absField, rawLen := t.len, tail := t.tail, rfields := t.rtree.map absFieldsR }
  | _ => none

/-- `decodeSpan` on a span text -/
def decodeSpanJ (c : Cfg) (d : ZDec) (t : ZText) : Except Reject (ZDec × Args) :=
  match docOfTrees t with
  | some z => decodeSpan c d z
  | none => .error .reject

/-- the two `Decode` methods on a body: the texts jx's `Arr`/`Raw` (array framing) or the line scanner
    (newline-delimited framing) delivers, then — `bodyOk = false` — a framing error after the last text
    (unbalanced array, scanner error): the open response is not sent -/
def writeZipkinJ (c : Cfg) (f : Framing) (texts : List ZText) (bodyOk : Bool) : Outcome :=
  let o := match f with
    | .array => runSpans c c.zipkinType (decodeSpanJ c) {} {} texts
    | .ndjson => runSpans c c.zipkinNDType (decodeSpanJ c) {} {} texts
  if bodyOk || !o.ok then o else ⟨o.chunks.dropLast, false⟩

/-! ## the line scanner of the newline-delimited framing -/

def dropCR (l : Bytes) : Bytes := if l.getLast? = some 13 then l.dropLast else l

/-- `bufio.ScanLines` to the end of the input; `acc` = the current line, reversed -/
def scanLinesAux : Bytes → Bytes → List Bytes
  | [], acc => if acc = [] then [] else [dropCR acc.reverse]
  | c :: r, acc => if c = 10 then dropCR acc.reverse :: scanLinesAux r [] else scanLinesAux r (c :: acc)

/-- every token `scanner.Scan()` yields with `Split(bufio.ScanLines)` and `Buffer(_, math.MaxInt)`: no line is too long -/
def scanLines (body : Bytes) : List Bytes := scanLinesAux body []

/-! ## the JSON view of a span (`SpanToJSONSpan`) -/

def hexEnc (b : Bytes) : Str := b.flatMap (fun c => [hexDigit (c.toNat / 16), hexDigit (c.toNat % 16)])

/-- the `stringValue` an attribute gets in the JSON view -/
inductive JAttr where
  /-- a string, `%v` of a bool or an int, base64 of bytes -/
  | text (s : Str)
  /-- `%v` of a float64 (shortest text that parses back to it — `strconv`, third-party): carried by the bits -/
  | float (bits : Nat)
  /-- `encoding/json` of the oneof wrapper of an array / kvlist / unset / nil value (third-party rendering) -/
  | json (v : AnyValue)
  deriving Repr

mutual
/-- a NaN or an infinity somewhere in the value: `json.Marshal` refuses it (`UnsupportedValueError`) -/
def nonFiniteVal : AnyValue → Bool
  | .dbl bits => bits / 2^52 % 2048 == 2047
  | .arr vs => nonFiniteArr vs
  | .kvl kvs => nonFiniteKvs kvs
  | _ => false
def nonFiniteArr : List AnyValue → Bool
  | [] => false
  | v :: vs => nonFiniteVal v || nonFiniteArr vs
def nonFiniteKvs : List (Str × AnyValue) → Bool
  | [] => false
  | (_, v) :: rest => nonFiniteVal v || nonFiniteKvs rest
end

/-- the `switch` of `SpanToJSONSpan`; in the `default` branch the error of `json.Marshal` is dropped: a composite
    value holding a NaN or an infinity is shown as "" -/
def jsonAttr : AnyValue → JAttr
  | .str s => .text s
  | .bool b => .text (if b then ascii "true" else ascii "false")
  | .int i => .text (intDigits i)
  | .dbl bits => .float bits
  | .bytes b => .text (B64.encode b)
  | v => if nonFiniteVal v then .text [] else .json v

structure JSpan where
  /-- `traceID` = `traceId` -/
  traceId : Str
  /-- `spanID` = `spanId` -/
  spanId : Str
  name : Str
  startNs : Nat
  endNs : Nat
  /-- "" = omitted -/
  parentSpanId : Str
  serviceName : Str
  attrs : List (Str × JAttr)
  events : List (Nat × Str)
  status : Nat × Str
  deriving Repr

/-- `SpanToJSONSpan`; `none` (a nil span: unknown payload type) faults -/
def jsonView : Option RSpan → Option JSpan
  | none => none
  | some s => some
    { traceId := hexEnc s.traceId
      spanId := hexEnc s.spanId
      name := s.name
      startNs := s.startNs
      endNs := s.endNs
      parentSpanId := if s.parentSpanId.length > 0 ∧ hexEnc s.parentSpanId ≠ ascii "0000000000000000" then hexEnc s.parentSpanId else []
      serviceName := ((s.attrs.filterMap (fun kv => if kv.1 = kServiceName ∧ strOf kv.2 ≠ [] then some (strOf kv.2) else none)).getLast?).getD []
      attrs := s.attrs.map (fun kv => (kv.1, jsonAttr kv.2))
      events := s.events
      status := s.status }

/-! ## the trace-by-id read over a table -/

/-- the rows `GetQueryRequest` selects: `trace_id = unhex(..)`, optional `timestamp_ns >= start` / `< end`
    (0 = no bound), `ORDER BY timestamp_ns`, `LIMIT 2000`. (ClickHouse, modelled: ties keep table order.) -/
def traceQuery (tbl : List TraceRow) (tid : Bytes) (startNs endNs : Int) : List TraceRow :=
  let sel := tbl.filter (fun r => r.traceId == tid && (startNs == 0 || decide (startNs ≤ r.ts)) && (endNs == 0 || decide (r.ts < endNs)))
  (sel.mergeSort (fun a b => decide (a.ts ≤ b.ts))).take 2000

/-- `TempoService.Query`: the statement's rows through `OutputQuery` -/
def readTrace (c : Cfg) (fbits : Bytes → Nat) (tbl : List TraceRow) (tid : Bytes) (startNs endNs : Int) :
    List (Option RSpan) × ReadEnd :=
  readRows c fbits (traceQuery tbl tid startNs endNs)

end Qryn.Span
