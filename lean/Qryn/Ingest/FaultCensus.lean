import Qryn.Gen.IngestCensus
import Qryn.Ingest.FaultCensusTable
import Qryn.Ingest.Faults
/-! # Ingest side: the reviewed, typed fault-site census (C05)

`Gen.IngestCensus` (regenerated from /repo on every run, with go/types information) lists every goroutine of the ingest
side — the HTTP handler and every `go` statement under writer/ — with how a panic on it is caught, the functions of the
module that can run on its stack (static calls, interface calls resolved to every implementing type, calls through
function values resolved by field flow / signature) and, per function, every instruction that can panic unless the types
show it cannot. `FaultCensusTable.lean` holds the REVIEW of that list — one `Why` per site, one reason per library
call; this module holds the list of fault sites the model `Qryn.Ingest.Faults` carries (`modelSites`) and the
comparison. `Props/C05.lean` proves

* the review covers the regenerated list exactly (same functions, same sites in the same order, every cited guard
  present): an edit that adds, removes or re-words a site, or removes the guard a classification relies on, or makes a
  new function with a site reachable, breaks the theorem until the site is reviewed;
* the sites classified `.placed` are exactly the model's fault sites, and each of them can only run on goroutines that
  catch a panic the way the model says (parser: `tamePanic`; detached: the deferred recover of `doPush`) — so a site
  that can fault on input never runs on a goroutine without a recover, and the placement is no longer kept by hand:
  a new faulting site is either reviewed as non-faulting (with a reason that is checked where it cites a guard) or must
  be added to the model.

Core-only. -/
namespace Qryn.IngestCensus
open Qryn.IngestFaults (Goroutine)

/-- packages under writer/ that do not compile today (dead code that cannot be linked): excluded from the census -/
def reviewedExcluded : List String := ["writer/http"]

/-! ## The fault sites the model carries -/

structure ModelSite where
  id : String
  goroutine : Goroutine
  /-- the definition of `Qryn.Ingest.Faults` that raises the fault -/
  primitive : String
  deriving DecidableEq, Repr

/-- the placed fault sites of `Qryn.Ingest.Faults` that exist in the source today. (Retired by `fix:` commits and kept in
    the model only behind their `Fixes` flag: `LogItem.assertStr` — `fields["message"].(string)`, comma-ok since the C03
    fix; `LogItem.derefGetter` / `SpanItem.derefGetter` — OTLP fields read through nil-safe getters since 3c43cdd.) -/
def modelSites : List ModelSite :=
  [⟨"labelPairs", .parser, "labelPairs: `lbl[0]`, `lbl[1]` of every label (ttl scan, sanitizeLabels, validUTF8Labels, fingerprintLabels, encodeLabels)"⟩,
   ⟨"fastFillArray", .parser, "fastFillArray: `res[0] = val` (guarded by `len == 0` since a099310)"⟩,
   ⟨"markTypes", .parser, "markTypes: `tps[t] = true` with `var tps [3]bool`"⟩,
   ⟨"messageSizes", .parser, "messageSizes: `message[i]` for i over the timestamps"⟩,
   ⟨"onSpan.val", .parser, "onSpan: `val[i]` for i over the keys"⟩,
   ⟨"otlp.serviceNameDeref", .parser, "SpanItem.derefRaw: `val.Value.Value` in otlpGetServiceNames"⟩,
   ⟨"prof.nameSlice", .parser, "ProfItem.slice: `name[i+1 : length-1]` (guarded since 450ef27)"⟩,
   ⟨"prof.idx", .parser, "ProfItem.idxCheck: `words[j+1]`, `SampleUnit[i]`, `loc.Line[0]`, `sample.Value[j]`"⟩,
   ⟨"prof.deref", .parser, "ProfItem.derefRaw: `PeriodType.Type`, `Line[0].Function.Name`"⟩,
   ⟨"fixedStr.append", .detached, "fixedStrAppend: `ColFixedStr.Append` size check below FixedStrAdaptor.AppendArr"⟩]

/-- how the goroutine class of the model shows in the source: the `recover` column of the census -/
def recoverOf : Goroutine → String
  | .parser => "tamePanic"
  | .detached => "literal"
  | .handler => "net/http"

/-! ## Comparison of the regenerated census with the review -/

abbrev GSite := String × String × List String
abbrev GFunc := String × List GSite
abbrev GRoot := String × String × String × List Nat × List Nat

/-- is the classification backed by what the translator found at the site? -/
def Why.backed : Why → List String → Bool
  | .guarded c, guards => guards.contains c
  | .ownChannel, guards => guards.contains "@sole-close"
  | _, _ => true

/-- the regenerated census without the conditions: (function, (kind, source text) of every site) -/
def genShape (fs : List GFunc) : List (String × List (String × String)) :=
  fs.map (fun f => (f.1, f.2.map (fun s => (s.1, s.2.1))))

/-- the review without the classifications -/
def revShape (rs : List (String × List Entry)) : List (String × List (String × String)) :=
  rs.map (fun f => (f.1, f.2.map (fun e => (e.kind, e.text))))

/-- every classification that cites a condition / the sole-close marker finds it among the regenerated conditions of
    the site at the same position -/
def backedSites : List GSite → List Entry → Bool
  | (_, _, gs) :: ss, e :: es => e.why.backed gs && backedSites ss es
  | _, _ => true

def backedAll : List GFunc → List (String × List Entry) → Bool
  | (_, ss) :: gs, (_, es) :: rs => backedSites ss es && backedAll gs rs
  | _, _ => true

def Why.placedId : Why → Option String
  | .placed s => some s
  | _ => none

/-- the placed sites of the review, function by function (position-aligned with `Gen.IngestCensus.functions` once
    `functionsMatch` holds) -/
def placedAt : List (List String) := reviewed.map (fun f => f.2.filterMap (fun e => e.why.placedId))

/-- the placed site a library call stands for, position-aligned with `Gen.IngestCensus.externsUnion` -/
def externPlacedAt : List (List String) := reviewedExterns.map (fun e => if e.site == "" then [] else [e.site])

/-- the placed sites that can run on the stack of a goroutine of the census (`?` = a position outside the tables) -/
def rootPlaced (g : GRoot) : List String :=
  g.2.2.2.1.flatMap (fun i => placedAt.getD i ["?"]) ++ g.2.2.2.2.flatMap (fun i => externPlacedAt.getD i ["?"])

/-- every placed site that can run on this goroutine is caught the way the model says -/
def rootOk (g : GRoot) : Bool :=
  (rootPlaced g).all fun id =>
    match modelSites.find? (fun m => m.id == id) with
    | some m => recoverOf m.goroutine == g.2.2.1
    | none => false

def insertSorted (x : String) : List String → List String
  | [] => [x]
  | y :: ys => if x < y then x :: y :: ys else if x == y then y :: ys else y :: insertSorted x ys

def sortDedup (xs : List String) : List String := xs.foldr insertSorted []

/-- every site id cited by the review (sites and library calls), sorted, without repetition -/
def citedSites : List String :=
  sortDedup (placedAt.flatten ++ externPlacedAt.flatten)

end Qryn.IngestCensus
