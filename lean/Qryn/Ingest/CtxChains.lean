import Qryn.Gen.CtxChains
/-! # Request-context discipline of the ingest handler chains, with the dynamic types regenerated (C05)

`Gen.CtxChains` lists, for every handler constructor of writer/controller, each value of `cfg.ExtraMiddleware` and each
parser the Content-Type can select, every operation on the request context in the order the code runs it — through
the pre-request middlewares, `doParse`, the PreParse steps of the selected parser of writer/utils/unmarshal,
`doParseLogs/Spans/Profile` and the decoder's `Decode` — with the Go type of every stored value and of every assertion
(go/types), and `assignable`: which stored types satisfy which asserted interface types.

This module runs such a chain over the dynamic types (`exec`): a bare assertion `ctx.Value(k).(T)` **panics** when the
key is absent or holds a value whose type does not meet `T`; a nil-guarded one (`if v != nil { v.(T) }`, `getService`,
`withStringValueFromCtx`) panics only when the key is present with another type; the comma-ok form never does; an
early return (`mayFail`) ends the chain with a status. `safe` is the static check — every assertion is met by the
innermost producer EARLIER IN THE SAME CHAIN with a type that meets it — and `safe_sound` its soundness for every choice
of failing steps. Nothing here is placed by hand: keys, types and order all come from `Gen.CtxChains`
(the older `Qryn.PreChains` placed the types of stored values by hand). Core-only. -/
namespace Qryn.CtxChains
open Qryn.Gen

/-- the request context: innermost `WithValue` first; (key, Go type of the stored value) -/
abbrev Ctx := List (String × String)

inductive Op
  /-- `ctx.Value(key).(T)` -/
  | assert (key ty : String)
  /-- nil-guarded assertion -/
  | assertNil (key ty : String)
  /-- `v, ok := ctx.Value(key).(T)` -/
  | assertOk (key ty : String)
  /-- `context.WithValue(ctx, key, v)` with `v` of type `ty` -/
  | store (key ty : String)
  /-- an early `return err` -/
  | mayFail
  /-- an operation kind the model does not know (fails the static check) -/
  | unknown (kind : String)
  deriving DecidableEq, Repr

/-- does a value stored with type `s` pass the assertion `.(t)`? the same type, or `t` is an interface `s` implements -/
def meets (asg : List (String × String)) (s t : String) : Bool := s == t || asg.contains (s, t)

inductive Res
  /-- a failed type assertion: panic on the goroutine that runs the step -/
  | fault
  /-- a step returned an error: `ErrorHandler` writes a status -/
  | rejected
  | completed (c : Ctx)
  deriving DecidableEq

/-- run a chain; `fails` says for each `mayFail` met, in order, whether it returns an error (none left: it does not) -/
def exec (asg : List (String × String)) : List Op → List Bool → Ctx → Res
  | [], _, c => .completed c
  | .assert k t :: r, f, c =>
    match c.lookup k with
    | some s => if meets asg s t then exec asg r f c else .fault
    | none => .fault
  | .assertNil k t :: r, f, c =>
    match c.lookup k with
    | some s => if meets asg s t then exec asg r f c else .fault
    | none => exec asg r f c
  | .assertOk _ _ :: r, f, c => exec asg r f c
  | .store k t :: r, f, c => exec asg r f ((k, t) :: c)
  | .mayFail :: r, [], c => exec asg r [] c
  | .mayFail :: r, b :: f, c => if b then .rejected else exec asg r f c
  | .unknown _ :: _, _, _ => .fault

/-- the static check: every assertion finds, earlier in the same chain, a producer of its key with a type that meets it -/
def safe (asg : List (String × String)) : List Op → Ctx → Bool
  | [], _ => true
  | .assert k t :: r, c => (match c.lookup k with | some s => meets asg s t | none => false) && safe asg r c
  | .assertNil k t :: r, c => (match c.lookup k with | some s => meets asg s t | none => true) && safe asg r c
  | .assertOk _ _ :: r, c => safe asg r c
  | .store k t :: r, c => safe asg r ((k, t) :: c)
  | .mayFail :: r, c => safe asg r c
  | .unknown _ :: _, _ => false

theorem safe_sound (asg : List (String × String)) :
    ∀ (ops : List Op) (c : Ctx), safe asg ops c = true → ∀ f, exec asg ops f c ≠ .fault := by
  intro ops
  induction ops with
  | nil => intro c _ f; simp [exec]
  | cons o r ih =>
    intro c h f
    cases o with
    | assert k t =>
      simp only [safe, Bool.and_eq_true] at h
      simp only [exec]
      cases hl : c.lookup k with
      | none => simp [hl] at h
      | some s =>
        have hm : meets asg s t = true := by simpa [hl] using h.1
        simp only [hm, if_true]
        exact ih c h.2 f
    | assertNil k t =>
      simp only [safe, Bool.and_eq_true] at h
      simp only [exec]
      cases hl : c.lookup k with
      | none => exact ih c h.2 f
      | some s =>
        have hm : meets asg s t = true := by simpa [hl] using h.1
        simp only [hm, if_true]
        exact ih c h.2 f
    | assertOk k t => simp only [safe] at h; simp only [exec]; exact ih c h f
    | store k t => simp only [safe] at h; simp only [exec]; exact ih _ h f
    | mayFail =>
      simp only [safe] at h
      cases f with
      | nil => simp only [exec]; exact ih c h []
      | cons b f =>
        simp only [exec]
        cases b
        · simp only [Bool.false_eq_true, if_false]; exact ih c h f
        · simp
    | unknown k => simp [safe] at h

/-- a generated operation → `Op` -/
def opOf (o : String × String × String × String × String) : Op :=
  if o.1 == "assert" then .assert o.2.1 o.2.2.1
  else if o.1 == "assertNil" then .assertNil o.2.1 o.2.2.1
  else if o.1 == "assertOk" then .assertOk o.2.1 o.2.2.1
  else if o.1 == "store" then .store o.2.1 o.2.2.1
  else if o.1 == "mayFail" then .mayFail
  else .unknown o.1

abbrev GChain := String × String × String × String × List (String × String × String × String × String)

def chainOps (c : GChain) : List Op := c.2.2.2.2.map opOf

/-- every generated chain passes the static check on the empty context -/
def allChainsSafe : Bool := CtxChains.chains.all (fun c => safe CtxChains.assignable (chainOps c) [])

/-- the bare assertions of a chain: (key, type) -/
def bareAsserts (c : GChain) : List (String × String) :=
  (chainOps c).filterMap (fun o => match o with | .assert k t => some (k, t) | _ => none)

end Qryn.CtxChains
