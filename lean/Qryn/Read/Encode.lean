import Qryn.Base.Json
/-! # Response encoders of the read side, as chunk-producing machines over batches. Core-only.

Mirrors (after the `fix:` commits recorded in KNOWN_FINDINGS.txt):
* `reader/service/queryRangeService.go`: `exportStreamsValue` (`streamsChunks`), the matrix goroutine of
  `QueryRange` (`matrixChunks`), the vector goroutine of `QueryInstant` (`vectorChunks`), one frame of `Tail`
  (`tailFrame`), `writeMap`;
* `reader/service/queryLabelsService.go`: `GenericLabelReq` (`labelsChunks`), `Series` (`seriesChunks`);
* `reader/controller/tempoController.go`: `Tags`, `Values` (`tagsChunks`, `tagValuesChunks`);
* `reader/controller/promQueryRangeController.go`: `writeResponse` + `writeScalar` (`scalarChunks`).

A jsoniter `Stream` call sequence is the byte string it appends (`WriteObjectStart` = `{`, `WriteObjectField k` =
`jstr k ++ ":"`, `WriteString s` = `jstr s`, `WriteMore` = `,` …; `ConfigFastest` has no indentation).
Go map iteration order is a parameter: an entry carries its labels in the order in which this emission
iterates them. Float rendering by `strconv.FormatFloat(v,'f',-1,64)` is an input token (`Entry.val`);
`%f` of a timestamp is computed exactly (`tsF6`). -/
namespace Qryn.Encode
open Qryn Qryn.Json

def kStatus : Bytes := [115, 116, 97, 116, 117, 115]  -- "status"
def kSuccess : Bytes := [115, 117, 99, 99, 101, 115, 115]  -- "success"
def kData : Bytes := [100, 97, 116, 97]  -- "data"
def kResultType : Bytes := [114, 101, 115, 117, 108, 116, 84, 121, 112, 101]  -- "resultType"
def kResult : Bytes := [114, 101, 115, 117, 108, 116]  -- "result"
def kStreamsRT : Bytes := [115, 116, 114, 101, 97, 109, 115]  -- "streams"
def kMatrix : Bytes := [109, 97, 116, 114, 105, 120]  -- "matrix"
def kVector : Bytes := [118, 101, 99, 116, 111, 114]  -- "vector"
def kScalar : Bytes := [115, 99, 97, 108, 97, 114]  -- "scalar"
def kStream : Bytes := [115, 116, 114, 101, 97, 109]  -- "stream"
def kMetric : Bytes := [109, 101, 116, 114, 105, 99]  -- "metric"
def kValues : Bytes := [118, 97, 108, 117, 101, 115]  -- "values"
def kValue : Bytes := [118, 97, 108, 117, 101]  -- "value"
def kTagNames : Bytes := [116, 97, 103, 78, 97, 109, 101, 115]  -- "tagNames"
def kTagValues : Bytes := [116, 97, 103, 86, 97, 108, 117, 101, 115]  -- "tagValues"
/-- `{"status": "success","data": [` (GenericLabelReq) -/
def labelsPre : Bytes := [123, 34, 115, 116, 97, 116, 117, 115, 34, 58, 32, 34, 115, 117, 99, 99, 101, 115, 115, 34, 44, 34, 100, 97, 116, 97, 34, 58, 32, 91]
/-- `{"status":"success", "data":[` (Series) -/
def seriesPre : Bytes := [123, 34, 115, 116, 97, 116, 117, 115, 34, 58, 34, 115, 117, 99, 99, 101, 115, 115, 34, 44, 32, 34, 100, 97, 116, 97, 34, 58, 91]
/-- `{"tagNames": [` -/
def tagsPre : Bytes := [123, 34, 116, 97, 103, 78, 97, 109, 101, 115, 34, 58, 32, 91]
/-- `{"tagValues": [` -/
def tagValuesPre : Bytes := [123, 34, 116, 97, 103, 86, 97, 108, 117, 101, 115, 34, 58, 32, 91]
/-- `{"streams":[` (Tail frame) -/
def tailPre : Bytes := [123, 34, 115, 116, 114, 101, 97, 109, 115, 34, 58, 91]

/-! ## entries -/
inductive Err where
  | none  -- a row
  | eof   -- the `io.EOF` marker entry the ClickHouse getter appends to the last batch
  | fail  -- any other error
  deriving DecidableEq, Repr

structure Entry where
  err : Err
  fp : Nat
  labels : List (Bytes × Bytes)
  ts : Int
  msg : Bytes
  /-- `strconv.FormatFloat(e.Value, 'f', -1, 64)` -/
  val : Bytes
  deriving Repr

/-! ## numbers -/
def digit (n : Nat) : UInt8 := UInt8.ofNat (48 + n % 10)

/-- `[-]I.FFFFFF` for the magnitude `q`·10⁻⁶ -/
def fixed6 (neg : Bool) (q : Nat) : Bytes :=
  (if neg then [45] else []) ++ decNat (q / 1000000) ++
    [46, digit (q / 100000), digit (q / 10000), digit (q / 1000), digit (q / 100), digit (q / 10), digit q]

/-- sign, mantissa, exponent of a finite binary64: |x| = m · 2^e -/
def floatParts (x : Float) : Bool × Nat × Int :=
  let b : Nat := x.toBits.toNat
  let neg := b / 2 ^ 63 = 1
  let ex : Nat := b / 2 ^ 52 % 2 ^ 11
  let fr : Nat := b % 2 ^ 52
  if ex = 0 then (neg, fr, -1074) else (neg, fr + 2 ^ 52, (ex : Int) - 1075)

/-- |x|·10⁶ rounded to nearest, ties to even (what `%f` does: exact decimal expansion, then round) -/
def scale6 (x : Float) : Bool × Nat :=
  let (neg, m, e) := floatParts x
  if e ≥ 0 then (neg, m * 2 ^ e.toNat * 1000000)
  else
    let num := m * 1000000
    let den := 2 ^ (-e).toNat
    let q := num / den
    let r := num % den
    (neg, if 2 * r > den ∨ (2 * r = den ∧ q % 2 = 1) then q + 1 else q)

/-- `fmt.Sprintf("%f", x)` for finite `x` -/
def fmtF6 (x : Float) : Bytes := let p := scale6 x; fixed6 p.1 p.2

/-- `fmt.Sprintf("%f", float64(ts)/1e9)` (matrix sample time) -/
def tsF6 (ts : Int) : Bytes := fmtF6 (Float.ofInt ts / 1000000000.0)

/-- `fmt.Sprintf("%f", float64(t)/1000)` (PromQL scalar time, `t` in ms) -/
def msF6 (t : Int) : Bytes := fmtF6 (Float.ofInt t / 1000.0)

/-- the matrix writer's post-processing of the `FormatFloat` token:
    `if strings.Contains(val, ".") { val = TrimSuffix(val, "0"); val = TrimSuffix(val, ".") }` -/
def trimVal (v : Bytes) : Bytes :=
  if v.contains 46 then
    let v1 := if v.getLast? = some 48 then v.dropLast else v
    if v1.getLast? = some 46 then v1.dropLast else v1
  else v

/-! ## JSON pieces -/
/-- `writeMap(stream, labels)` -/
def labelsObj (ls : List (Bytes × Bytes)) : JVal := .obj (ls.map fun p => (p.1, .str p.2))

/-- `{"status":"success","data":{"resultType":"<rt>","result":[` -/
def preamble (rt : Bytes) : Bytes :=
  [123] ++ jstr kStatus ++ [58] ++ jstr kSuccess ++ [44] ++ jstr kData ++ [58, 123] ++ jstr kResultType ++ [58] ++
    jstr rt ++ [44] ++ jstr kResult ++ [58, 91]

/-- the document all query responses have -/
def respDoc (rt : Bytes) (result : JVal) : JVal :=
  .obj [(kStatus, .str kSuccess), (kData, .obj [(kResultType, .str rt), (kResult, result)])]

/-- how one kind of response renders a series: the key of the label object and one element of `values` -/
structure Shape where
  key : Bytes
  value : Entry → JVal

/-- `["<ts>","<line>"]` -/
def streamsShape : Shape := ⟨kStream, fun e => .arr [.str (decInt e.ts), .str e.msg]⟩
/-- `[<ts/1e9 %f>,"<val>"]` -/
def matrixShape : Shape := ⟨kMetric, fun e => .arr [.num (tsF6 e.ts), .str (trimVal e.val)]⟩

/-- `{"<key>":{labels},"values":[` -/
def openObj (sh : Shape) (e : Entry) : Bytes :=
  [123] ++ jstr sh.key ++ [58] ++ print (labelsObj e.labels) ++ [44] ++ jstr kValues ++ [58, 91]

/-! ## the series machine (`exportStreamsValue`, matrix writer, `Tail`)

State: `none` = no object opened yet (`i == 0`); `some fp` = an object for fingerprint `fp` is open and has at
least one value (`i == 1`, `lastFp == fp`, `j == 1`). One chunk is sent per entry, preceded by a separate
chunk `]},` when the entry closes the previous object. `tail` closes the document. -/
def go (sh : Shape) (tail : Bytes) : Option Nat → List Entry → List Bytes
  | st, [] => [(if st.isSome then [93, 125] else []) ++ tail]
  | st, e :: es =>
    match e.err with
    | .fail => [[93, 125, 125]]                      -- onErr: `]}}` and return
    | .eof => go sh tail st es                        -- streams: `continue`
    | .none =>
      if st = some e.fp then ([44] ++ print (sh.value e)) :: go sh tail st es
      else
        (if st.isSome then [[93, 125, 44]] else []) ++
          ((openObj sh e ++ print (sh.value e)) :: go sh tail (some e.fp) es)

/-- matrix/vector loops `break` out of a batch at an `io.EOF` entry: the rest of that batch is not looked at -/
def cutEof (b : List Entry) : List Entry := b.takeWhile (fun e => e.err ≠ .eof)

/-- chunks sent by `exportStreamsValue` -/
def streamsChunks (batches : List (List Entry)) : List Bytes :=
  preamble kStreamsRT :: go streamsShape [93, 125, 125] none batches.flatten

/-- chunks sent by the matrix goroutine of `QueryRange` -/
def matrixChunks (batches : List (List Entry)) : List Bytes :=
  preamble kMatrix :: go matrixShape [93, 125, 125] none (batches.flatMap cutEof)

/-- the single message `Tail` sends per tick (no error among the entries; an error aborts the tail) -/
def tailFrame (batches : List (List Entry)) : Bytes :=
  tailPre ++ (go streamsShape [93, 125] none batches.flatten).flatten

/-! ## vector (`QueryInstant`) -/
def lookupFp (fp : Nat) : List (Nat × Entry) → Option Entry
  | [] => none
  | p :: r => if p.1 = fp then some p.2 else lookupFp fp r

def replaceFp (e : Entry) : List (Nat × Entry) → List (Nat × Entry)
  | [] => []
  | p :: r => if p.1 = e.fp then (p.1, e) :: r else p :: replaceFp e r

/-- `lastValues[e.Fingerprint]` update: first entry of a fingerprint is stored; a later one replaces it only
    when its timestamp is strictly greater -/
def updLast (m : List (Nat × Entry)) (e : Entry) : List (Nat × Entry) :=
  match lookupFp e.fp m with
  | none => m ++ [(e.fp, e)]
  | some old => if old.ts < e.ts then replaceFp e m else m

def lastValues (rows : List Entry) : List (Nat × Entry) := rows.foldl updLast []

/-- `{"metric":{labels},"value":[<ts/1e9>,"<val>"]}` (no trimming: the trimmed value is assigned to a shadowed
    variable in the Go code) -/
def vecObj (e : Entry) : JVal :=
  .obj [(kMetric, labelsObj e.labels), (kValue, .arr [.num (decInt (e.ts.tdiv 1000000000)), .str e.val])]

def emitComma : Nat → List Bytes → List Bytes
  | _, [] => []
  | i, t :: r => ((if i > 0 then [44] else []) ++ t) :: emitComma (i + 1) r

/-- rows the vector loop looks at: up to the first failure, `break` at EOF per batch -/
def vectorRows (batches : List (List Entry)) : List Entry := batches.flatMap cutEof

/-- chunks sent by the vector goroutine of `QueryInstant`; `order` = the order in which `range lastValues`
    visits the fingerprints -/
def vectorChunks (order : List Nat) (batches : List (List Entry)) : List Bytes :=
  let rows := vectorRows batches
  if rows.any (fun e => e.err = .fail) then
    -- onErr on the first failing entry; nothing but the preamble was sent before
    [preamble kVector, [93, 125, 125]]
  else
    let m := lastValues rows
    preamble kVector :: emitComma 0 ((order.filterMap (fun fp => lookupFp fp m)).map (fun e => print (vecObj e))) ++
      [[93, 125, 125]]

/-! ## element lists (`GenericLabelReq`, `Series`, Tempo `Tags`/`Values`) -/
/-- `pre`, then the items with a separate `,` chunk between them, then `]}` -/
def listChunks (pre : Bytes) (items : List Bytes) : List Bytes :=
  let rec body : Nat → List Bytes → List Bytes
    | _, [] => []
    | i, t :: r => (if i ≠ 0 then [[44], t] else [t]) ++ body (i + 1) r
  pre :: body 0 items ++ [[93, 125]]

/-- `GenericLabelReq`: every scanned string through `json.Marshal` -/
def labelsChunks (rows : List Bytes) : List Bytes := listChunks labelsPre (rows.map stdstr)
/-- `Series`: the stored label documents verbatim -/
def seriesChunks (rows : List Bytes) : List Bytes := listChunks seriesPre rows
def tagsChunks (rows : List Bytes) : List Bytes := listChunks tagsPre (rows.map stdstr)
def tagValuesChunks (rows : List Bytes) : List Bytes := listChunks tagValuesPre (rows.map stdstr)

/-! ## PromQL scalar (`writeResponse` + `writeScalar`) -/
/-- `t` = sample time in ms, `val` = `strconv.FormatFloat(v,'f',-1,64)` -/
def scalarChunks (t : Int) (val : Bytes) : List Bytes :=
  [preamble kScalar, msF6 t ++ [44, 32, 34] ++ val ++ [34], [93, 125, 125]]

end Qryn.Encode
