/-! The window bookkeeping of the Loki tail (`QueryRangeService.Tail`, reader/service/queryRangeService.go):

    one statement per tick, built by the LogQL log planner (`LogQL.planLog`, C07 / `all_scans_confined_logql`) for the
    planner context `From = from`, `To = time.Now()`, `Limit = 0`, `OrderASC = false`, `Type = 0`; `from` starts at
    (start of the tail − 5 min) and, while a tick's result is written out, moves behind every entry newer than it
    (`if from.UnixNano() < e.TimestampNS { from = time.Unix(0, e.TimestampNS+1) }`). -/
namespace Qryn.Tail

/-- `from` after a tick whose result held entries with these timestamps, in result order -/
def advance (from_ : Int) (tss : List Int) : Int := tss.foldl (fun f ts => if f < ts then ts + 1 else f) from_

/-- the `From` of every tick, given the entry timestamps of the earlier ticks' results -/
def froms (from0 : Int) : List (List Int) → List Int
  | [] => [from0]
  | tss :: rest => from0 :: froms (advance from0 tss) rest

end Qryn.Tail
