import Qryn.Read.Encode
import Qryn.Read.SepEnc
/-! # The remaining hand-written response writers of the reader. Core-only.

Every writer here is an instance of the guarded-separator machine `Qryn.SepEnc`:

* `reader/controller/tempoController.go`: `Search` (legacy branch: a channel of traces; TraceQL branch: a channel of
  BATCHES of traces, one counter over all batches), `Trace` (JSON branch: a channel of spans inside an envelope that
  contains blanks, newlines and tabs). Every element is one `encoding/json.Marshal` — trusted to be a JSON text; the
  model takes the element texts as input.
* `reader/controller/promQueryRangeController.go`: `writeVector`, `writeMatrix` behind `writeResponse` (jsoniter
  `Stream` calls with index guards `i > 0` / `j > 0` on three nesting levels: series, labels, points). The time of a
  point is written with `Stream.WriteFloat64` — its token is an input of the model (a JSON number: trusted to
  jsoniter/strconv, compared on every run); the value is `strconv.FormatFloat(v,'f',-1,64)` written with `WriteString`.
* the buffered form of `GenericLabelReq` / `Series` / `Tags` / `Values` (`listBuffered`): what these encoders are under
  ANY chunking of their pieces (the pinned code flushes every piece; a chunk buffer is a policy).
* straight-line jsoniter documents: `PromError`, `MiscController.Buildinfo`, the constant answer of
  `QueryRangeController.Query` to `vector(1)+vector(1)`. -/
namespace Qryn.Encode
open Qryn Qryn.Json

def kTraces : Bytes := [116, 114, 97, 99, 101, 115]  -- "traces"
def kResourceSpans : Bytes := [114, 101, 115, 111, 117, 114, 99, 101, 83, 112, 97, 110, 115]  -- "resourceSpans"
def kResource : Bytes := [114, 101, 115, 111, 117, 114, 99, 101]  -- "resource"
def kAttributes : Bytes := [97, 116, 116, 114, 105, 98, 117, 116, 101, 115]  -- "attributes"
def kKey : Bytes := [107, 101, 121]  -- "key"
def kCollector : Bytes := [99, 111, 108, 108, 101, 99, 116, 111, 114]  -- "collector"
def kStringValue : Bytes := [115, 116, 114, 105, 110, 103, 86, 97, 108, 117, 101]  -- "stringValue"
def kQryn : Bytes := [113, 114, 121, 110]  -- "qryn"
def kILS : Bytes := [105, 110, 115, 116, 114, 117, 109, 101, 110, 116, 97, 116, 105, 111, 110, 76, 105, 98, 114, 97, 114, 121, 83, 112, 97, 110, 115]  -- "instrumentationLibrarySpans"
def kSpans : Bytes := [115, 112, 97, 110, 115]  -- "spans"
def kError : Bytes := [101, 114, 114, 111, 114]  -- "error"
def kErrorType : Bytes := [101, 114, 114, 111, 114, 84, 121, 112, 101]  -- "errorType"
def kVersion : Bytes := [118, 101, 114, 115, 105, 111, 110]  -- "version"

/-- `{"traces": [` -/
def searchPre : Bytes := [123, 34, 116, 114, 97, 99, 101, 115, 34, 58, 32, 91]

/-- the opening piece of the JSON branch of `Trace`, blanks, newlines and tabs as in the source:
    `{"resourceSpans": [{ ⏎⇥⇥⇥"resource":{"attributes":[{"key":"collector","value":{"stringValue":"qryn"}}]}, ⏎⇥⇥⇥"instrumentationLibrarySpans": [{ "spans": [` -/
def tracePre : Bytes := [123, 34, 114, 101, 115, 111, 117, 114, 99, 101, 83, 112, 97, 110, 115, 34, 58, 32, 91, 123, 32, 10, 9, 9, 9, 34, 114, 101, 115, 111, 117, 114, 99, 101, 34, 58, 123, 34, 97, 116, 116, 114, 105, 98, 117, 116, 101, 115, 34, 58, 91, 123, 34, 107, 101, 121, 34, 58, 34, 99, 111, 108, 108, 101, 99, 116, 111, 114, 34, 44, 34, 118, 97, 108, 117, 101, 34, 58, 123, 34, 115, 116, 114, 105, 110, 103, 86, 97, 108, 117, 101, 34, 58, 34, 113, 114, 121, 110, 34, 125, 125, 93, 125, 44, 32, 10, 9, 9, 9, 34, 105, 110, 115, 116, 114, 117, 109, 101, 110, 116, 97, 116, 105, 111, 110, 76, 105, 98, 114, 97, 114, 121, 83, 112, 97, 110, 115, 34, 58, 32, 91, 123, 32, 34, 115, 112, 97, 110, 115, 34, 58, 32, 91]
/-- `]}]}]}` -/
def tracePost : Bytes := [93, 125, 93, 125, 93, 125]

/-- `{"status": "success","data": []}` (`Values` with an empty label name) -/
def valuesEmptyDoc : Bytes := [123, 34, 115, 116, 97, 116, 117, 115, 34, 58, 32, 34, 115, 117, 99, 99, 101, 115, 115, 34, 44, 34, 100, 97, 116, 97, 34, 58, 32, 91, 93, 125]
/-- `{"status":"success", "data":[]}` (`Series` without a request) -/
def seriesEmptyDoc : Bytes := [123, 34, 115, 116, 97, 116, 117, 115, 34, 58, 34, 115, 117, 99, 99, 101, 115, 115, 34, 44, 32, 34, 100, 97, 116, 97, 34, 58, 91, 93, 125]
/-- `{"streams":[]}` (the websocket message of an idle tail) -/
def tailEmptyDoc : Bytes := [123, 34, 115, 116, 114, 101, 97, 109, 115, 34, 58, 91, 93, 125]

/-- a writer on an `http.ResponseWriter` has no observable chunking: every piece is written at once -/
def eachPiece : SepEnc.Policy := fun _ _ => true

/-! ## Tempo search and trace -/
/-- legacy `Search`: one `json.Marshal(trace)` per received trace -/
def searchBody (items : List Bytes) : Bytes := (SepEnc.encode searchPre [93, 125] eachPiece [items]).flatten

/-- TraceQL `Search`: the channel delivers batches (`[]model.TraceInfo`), the comma counter runs over all of them -/
def searchQLBody (batches : List (List Bytes)) : Bytes := (SepEnc.encode searchPre [93, 125] eachPiece batches).flatten

/-- JSON branch of `Trace`: one `json.Marshal(SpanToJSONSpan(span))` per received span -/
def traceBody (items : List Bytes) : Bytes := (SepEnc.encode tracePre tracePost eachPiece [items]).flatten

/-! ## element lists under any chunking -/
/-- `GenericLabelReq` / `Series` / `Tags` / `Values` with a chunk buffer flushed by `pol`, the rows arriving in any
    batching: the pinned code is `pol = eachPiece` with the separator sent as a chunk of its own (`listChunks`, same
    concatenation) -/
def listBuffered (pre : Bytes) (pol : SepEnc.Policy) (batches : List (List Bytes)) : List Bytes :=
  SepEnc.encode pre [93, 125] pol batches

/-- seeded change C15-4: the chunk fill counter is the counter the separator guard reads -/
def labelsSharedCounter (size : Nat) (rows : List Bytes) : List Bytes :=
  SepEnc.sharedEncode labelsPre [93, 125] size (rows.map stdstr)

/-! ## Prometheus vector and matrix -/
structure PromSample where
  /-- `s.Metric` (a sorted label slice, no map) -/
  labels : List (Bytes × Bytes)
  /-- what `stream.WriteFloat64(float64(s.T) / 1000)` appends -/
  t : Bytes
  /-- `strconv.FormatFloat(s.V, 'f', -1, 64)` -/
  v : Bytes
  deriving Repr

structure PromSeries where
  labels : List (Bytes × Bytes)
  /-- (time token, value token) per point -/
  points : List (Bytes × Bytes)
  deriving Repr

def promPoint (p : Bytes × Bytes) : JVal := .arr [.num p.1, .str p.2]

/-- `{"metric":{…},"value":[<t>,"<v>"]}` -/
def promVecObj (s : PromSample) : JVal := .obj [(kMetric, labelsObj s.labels), (kValue, promPoint (s.t, s.v))]

/-- `{"metric":{…},"values":[[<t>,"<v>"],…]}` -/
def promMatObj (s : PromSeries) : JVal := .obj [(kMetric, labelsObj s.labels), (kValues, .arr (s.points.map promPoint))]

/-- `writeResponse` + `writeVector`: the preamble, per sample `,` (guard `i > 0`) and the buffer of one borrowed
    stream, `]}}` -/
def promVectorBody (ss : List PromSample) : Bytes :=
  (SepEnc.encode (preamble kVector) [93, 125, 125] eachPiece [ss.map (fun s => print (promVecObj s))]).flatten

def promMatrixBody (ss : List PromSeries) : Bytes :=
  (SepEnc.encode (preamble kMatrix) [93, 125, 125] eachPiece [ss.map (fun s => print (promMatObj s))]).flatten

def promVectorDoc (ss : List PromSample) : JVal := respDoc kVector (.arr (ss.map promVecObj))
def promMatrixDoc (ss : List PromSeries) : JVal := respDoc kMatrix (.arr (ss.map promMatObj))

/-! ## straight-line jsoniter documents -/
/-- `PromError`: `{"status":"error","errorType":"error","error":<msg>}` -/
def promErrorDoc (msg : Bytes) : JVal := .obj [(kStatus, .str kError), (kErrorType, .str kError), (kError, .str msg)]

/-- `Buildinfo`: `{"status":"success","data":{"version":<v>}}` -/
def buildinfoDoc (v : Bytes) : JVal := .obj [(kStatus, .str kSuccess), (kData, .obj [(kVersion, .str v)])]

/-- `Query` on `vector(1)+vector(1)`: `{"status":"success","data":{"resultType":"vector","result":[{"metric":{},"value":[<now>,"2"]}]}}` -/
def queryConstDoc (now : Int) : JVal :=
  respDoc kVector (.arr [.obj [(kMetric, .obj []), (kValue, .arr [.num (decInt now), .str [50]])]])

end Qryn.Encode
