import Qryn.LogQL.Planner
/-! The CLUSTER rendering of a LogQL log statement: `ClickhouseGetterPlanner.Process` renders with `STRING_OPT_INLINE_WITH` when
    `ctx.IsCluster` — no WITH clause; every `WithRef` writes the query of its WITH entry in place, `(<query>) as <alias>`
    (`WithRef.String`; inside a `Col` without the alias), recursively. The PLAN is the same `Sel` (`LogQL.planLog`); this file only
    gives the second `String` of sql_select for the constructors the log fragment uses (any other expression holds no WITH
    reference in that fragment and is rendered by `Sql.renderExpr`). Used by C13's clustered tail tie. Text only, no proofs. -/
namespace Qryn.Sql

mutual
def renderExprI (inl : Bool → Alias → Bytes) : Expr → Bytes
  | .withRef a => inl true a
  | .col (.withRef a) al => if al.isEmpty then inl false a else inl false a ++ b " as " ++ b al
  | .col e a => if a.isEmpty then renderExprI inl e else renderExprI inl e ++ b " as " ++ b a
  | .isIn l r => renderExprI inl l ++ b " IN (" ++ joinB (b ",") (renderExprsI inl r) ++ b ")"
  | .logical fn cs => joinB (b " " ++ b fn ++ b " ") (renderParensI inl cs)
  | e => renderExpr e
def renderExprsI (inl : Bool → Alias → Bytes) : List Expr → List Bytes
  | [] => []
  | o :: os => renderExprI inl o :: renderExprsI inl os
def renderParensI (inl : Bool → Alias → Bytes) : List Expr → List Bytes
  | [] => []
  | o :: os => (b "(" ++ renderExprI inl o ++ b ")") :: renderParensI inl os
end

def renderJoinsI (inl : Bool → Alias → Bytes) : List (String × Alias × Expr) → Bytes
  | [] => []
  | (tp, tbl, on) :: js => b " " ++ b tp ++ b " JOIN " ++ inl true tbl ++ b " ON " ++ renderExprI inl on ++ renderJoinsI inl js

def optI (kw : String) (f : Expr → Bytes) : Option Expr → Bytes
  | some p => b kw ++ f p
  | none => []

/-- `Select.String(ctx, STRING_OPT_INLINE_WITH)` of one select, WITH references written by `inl` -/
def renderBodyI (inl : Bool → Alias → Bytes) : Sel → Bytes
  | .mk _ distinct cols from_ joins pre wher gb having ob limit =>
    b " SELECT " ++ (if distinct then b " DISTINCT " else []) ++ joinB (b ", ") (renderExprsI inl cols) ++
    (match from_ with | some f => b " FROM " ++ renderExprI inl f ++ renderJoinsI inl joins | none => []) ++
    optI " PREWHERE " (renderExprI inl) pre ++ optI " WHERE " (renderExprI inl) wher ++
    (if gb.isEmpty then [] else b " GROUP BY " ++ joinB (b ", ") (renderExprsI inl gb)) ++
    optI " HAVING " (renderExprI inl) having ++
    (if ob.isEmpty then [] else b " ORDER BY " ++ joinB (b ", ") (renderExprsI inl ob)) ++
    optI " LIMIT " (renderExprI inl) limit

/-- the texts of the WITH entries, each with the earlier ones written in place -/
def inlineTexts : List (Alias × Bytes) → List (Alias × Sel) → List (Alias × Bytes)
  | acc, [] => acc
  | acc, (a, s) :: rest =>
    let inl := fun (withAlias : Bool) (x : Alias) =>
      match acc.lookup x with
      | some t => b "(" ++ t ++ b ")" ++ (if withAlias then b " as " ++ b x.text else [])
      | none => b x.text
    inlineTexts ((a, renderBodyI inl s) :: acc) rest

/-- the whole statement as `String(ctx, STRING_OPT_INLINE_WITH)` writes it -/
def renderSelInline (s : Sel) : Bytes :=
  match s with
  | .mk ws d c f j p w g h ob l =>
    let acc := inlineTexts [] ws
    let inl := fun (withAlias : Bool) (x : Alias) =>
      match acc.lookup x with
      | some t => b "(" ++ t ++ b ")" ++ (if withAlias then b " as " ++ b x.text else [])
      | none => b x.text
    renderBodyI inl (.mk ws d c f j p w g h ob l)

end Qryn.Sql
