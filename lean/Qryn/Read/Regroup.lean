import Qryn.Read.Encode
/-! # `ResponseOptimizerPlanner` (reader/logql/logql_transpiler_v2/internal_planner/planner_fingerprint_optimizer.go) as the
encoders see it. Core-only.

The last stage of an in-process log pipeline collects the entries it receives in a map fingerprint → entries and sends
ONE batch per fingerprint. After the `fix:` recorded in KNOWN_FINDINGS.txt it does so once, at the end of the input, when
the request carries a limit (`ctx.Limit != 0`: the result is bounded by it); a request without a limit is sent in
portions: whenever at least `thr` (3000) entries have been collected after an input batch, everything collected so far
goes out and the map starts empty again. Go's map iteration order is a parameter (`order`, one per portion). -/
namespace Qryn.Encode
open Qryn

/-- the portions: `hold` = "the request has a limit"; `pend` = what has been collected (`size` = its length) -/
def optSegments (hold : Bool) (thr : Nat) : List Entry → List (List Entry) → List (List Entry)
  | pend, [] => if pend.length = 0 then [] else [pend]                       -- OnAfterEntries: `if size == 0 { return }`
  | pend, b :: bs =>
    if (pend ++ b).length < thr || hold then optSegments hold thr (pend ++ b) bs   -- OnAfterEntriesSlice returns early
    else (pend ++ b) :: optSegments hold thr [] bs

/-- one portion goes out as one batch per fingerprint, in the order in which `range fpMap` visits the keys -/
def regroup (order : List Nat) (seg : List Entry) : List (List Entry) :=
  (order.map (fun fp => seg.filter (fun e => decide (e.fp = fp)))).filter (fun g => !g.isEmpty)

/-- everything the stage sends: the portions, each regrouped under its own visiting order -/
def optimizerOut (hold : Bool) (thr : Nat) (orders : List (List Nat)) (batches : List (List Entry)) : List (List Entry) :=
  (List.zipWith regroup orders (optSegments hold thr [] batches)).flatten

end Qryn.Encode
