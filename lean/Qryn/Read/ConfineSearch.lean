import Qryn.Tempo.SearchSem
/-! C13 for the legacy Tempo search statement: `searchConfined`, built from the shared recognisers of `Read/Confine`
    (`isLowerTs`, `isUpperTs`, `bodyConfined`).

    The shared `confined` accepts a span scan restricted to ids of ANY confined selection; an index selection carrying
    only its date range (whole UTC days) is such a selection. That is enough for "the index is read by a covering date
    range" but not for "the result holds no span outside the window": ids picked by a date-only selection belong to
    spans anywhere on the first and last day. Hence the stronger rule here: the span scan carries timestamp bounds of
    its own, or it is restricted by an index request one of whose joined sub-selects carries timestamp bounds inside
    the window (index rows repeat their span's timestamp). -/
namespace Qryn.Confine
open Qryn Qryn.Sql Qryn.Tempo

/-- a comparison written on an alias of the SELECT list that names a timestamp column
    (`timestamp_ns as start_time_unix_nano`), as the comparison on that column -/
def unalias (cols : List Expr) : Expr → Expr
  | .logical fn [.raw c, v] =>
    match (aliasList cols).lookup c with
    | some (.raw c') => if isTsCol c' then .logical fn [.raw c', v] else .logical fn [.raw c, v]
    | _ => .logical fn [.raw c, v]
  | e => e

/-- the span scan has a lower and an upper timestamp bound inside the window -/
def spanBounded (w : Window) (st : SearchStmt) : Bool :=
  let cs := (st.plainConds.flatMap splice).map (unalias st.cols)
  cs.any (isLowerTs w) && cs.any (isUpperTs w)

/-- one of the joined sub-selects of the index request has both timestamp bounds (a pair it yields has an index
    row inside the window) -/
def idxBounded (w : Window) (q : IdxQuery) : Bool :=
  q.subs.any (fun s => (conjuncts (selWhere s)).any (isLowerTs w) && (conjuncts (selWhere s)).any (isUpperTs w))

/-- every sub-select of the index request is a confined index scan: a lower date bound, and no date comparison
    other than acceptable lower / upper bounds (never tighter than the window's days) -/
def idxDatesOk (cfg : Cfg) (w : Window) (q : IdxQuery) : Bool := q.subs.all (bodyConfined cfg w [])

def searchConfined (cfg : Cfg) (w : Window) (st : SearchStmt) : Bool :=
  cfg.kind st.table == .data &&
  st.idxs.all (idxDatesOk cfg w) &&
  (spanBounded w st || st.idxs.any (idxBounded w))

/-- the window a search asks for: `(from, to]`, no slack, no signal type -/
def winSearch (r : SearchReq) : Window := ⟨r.fromNs, r.toNs, 0, false, 0⟩

end Qryn.Confine
